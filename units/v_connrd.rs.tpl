// UNIT V-CONNRD (C06, C05): dic/build/conn.rs  ConnBuffer::read / parse_line / write_elem / write_to
// "for ANY text offered as connection matrix the reader returns Ok or Err, never panics; an accepted line sets exactly its cell"
use vstd::prelude::*;
verus! {
global size_of usize == 8;
//@include common/error.rs.inc
//@include common/build_prelude.rs.inc
impl From<IoErr> for SudachiError { #[verifier::external_body] fn from(e: IoErr) -> SudachiError { SudachiError::Other } }

/// opaque collaborators: error context, line reader, regex tests (assumed total, no further contract)
#[verifier::external_body] pub struct DicCompilationCtx { _p: () }
impl DicCompilationCtx {
    #[verifier::external_body] fn set_line(&mut self, line: usize) -> usize { unimplemented!() }
    #[verifier::external_body] fn add_line(&mut self, offset: usize) { unimplemented!() }
    #[verifier::external_body] fn transform<T>(&self, result: DicWriteResult<T>) -> (r: SudachiResult<T>)
        ensures result is Ok ==> r is Ok && r->Ok_0 == result->Ok_0, result is Err ==> r is Err { unimplemented!() }
    #[verifier::external_body] fn err<T>(&self, reason: BuildFailure) -> (r: SudachiResult<T>) ensures r is Err { unimplemented!() }
}
pub trait VBufRead {
    /// appends one line (with its terminator) to buf; 0 = end of input; Err = I/O failure (io::Error abstracted, E1)
    fn read_line(&mut self, buf: &mut String) -> SudachiResult<usize>;
}
#[verifier::external_body] fn is_blank_line(s: &String) -> bool { unimplemented!() }   // R14: EMPTY_LINE.is_match
#[verifier::external_body] fn num_error<T>(part: &'static str, value: i16) -> (r: SudachiResult<T>) ensures r is Err { unimplemented!() }
/// R14: SPLIT_REGEX.splitn(line.trim(), n) + it_next(.., parse_i16): the next whitespace-separated field as i16, or an error
#[verifier::external_body] pub struct Fields { _p: () }
#[verifier::external_body] fn split_ws(line: &String, n: usize) -> Fields { unimplemented!() }
#[verifier::external_body] fn next_i16(line: &String, items: &mut Fields, field: &'static str) -> DicWriteResult<i16> { unimplemented!() }

//@extract sudachi/src/dic/build/conn.rs :: struct ConnBuffer
//@end

impl ConnBuffer {
    /// one little-endian i16 cell per (left, right) pair, row-major by right id -- the layout ConnectionMatrix::index reads
    spec fn wf(&self) -> bool {
        self.num_left >= 0 && self.num_right >= 0 && self.matrix@.len() == self.num_left as int * self.num_right as int * 2
    }
    spec fn cell(&self, left: i16, right: i16) -> int { (right as int) * (self.num_left as int) + (left as int) }

//@extract sudachi/src/dic/build/conn.rs :: impl ConnBuffer :: fn write_elem
//@  rw R13b 1 custom
//@  | cost\.to_le_bytes\(\)
//@  > i16_to_le_bytes(cost)
//@  ret r
//@  spec
        requires old(self).wf(),
        ensures
            final(self).wf(), final(self).num_left == old(self).num_left, final(self).num_right == old(self).num_right,
            // accepted exactly when both ids name an existing line of the matrix; then exactly that cell is set
            r is Ok <==> 0 <= left < old(self).num_left && 0 <= right < old(self).num_right,
            r is Ok ==> final(self).matrix@ == old(self).matrix@.update(2 * old(self).cell(left, right), le16(cost)[0]).update(2 * old(self).cell(left, right) + 1, le16(cost)[1]),
            r is Err ==> final(self).matrix@ == old(self).matrix@,
//@  before let index = #1
        proof {
            let nl = self.num_left as int; let nr = self.num_right as int; let l = left as int; let rr = right as int;
            assert(rr * nl + l < nl * nr) by (nonlinear_arith) requires 0 <= l < nl, 0 <= rr < nr;
            assert(0 <= rr * nl) by (nonlinear_arith) requires 0 <= rr, 0 <= nl;
            assert(rr * nl <= 32767 * 32767) by (nonlinear_arith) requires 0 <= rr <= 32767, 0 <= nl <= 32767;
            assert(nl * nr * 2 == self.matrix@.len());
            assert((rr * nl + l) * 2 + 1 < nl * nr * 2);
        }
//@end

//@extract sudachi/src/dic/build/conn.rs :: impl ConnBuffer :: fn parse_line
//@  rw R14 1 custom
//@  | SPLIT_REGEX\.splitn\(&self\.line\.trim\(\), 3\)
//@  > split_ws(&self.line, 3)
//@  rw R14 3 custom
//@  | it_next\(&self\.line, &mut items, ("\w+"), parse_i16\)
//@  > next_i16(&self.line, &mut items, \1)
//@  ret r
//@  spec
        requires old(self).wf(),
        ensures final(self).wf(), final(self).num_left == old(self).num_left, final(self).num_right == old(self).num_right,
//@end

/// assumed (regex + integer parsing): the header yields two i16 values or an error
#[verifier::external_body]
fn parse_header(&mut self) -> (r: DicWriteResult<(i16, i16)>)
    ensures final(self).matrix@ == old(self).matrix@, final(self).num_left == old(self).num_left, final(self).num_right == old(self).num_right
{ unimplemented!() }

//@extract sudachi/src/dic/build/conn.rs :: impl ConnBuffer :: fn read
//@  attr #[verifier::exec_allows_no_decreases_clause]
//@  rw R15 1 custom
//@  | <R: std::io::BufRead>
//@  > <R: VBufRead>
//@  rw R14 2 custom
//@  | EMPTY_LINE\.is_match\(&self\.line\)
//@  > is_blank_line(&self.line)
//@  ret r
//@  spec
        // no precondition on the text: that is the property
        ensures r is Ok ==> final(self).wf(),
//@  loop 1
            invariant true,
//@  before let size = left as usize
        proof {
            assert(left as int * right as int <= 32767 * 32767) by (nonlinear_arith) requires 0 <= left <= 32767, 0 <= right <= 32767;
            assert(0 <= left as int * right as int) by (nonlinear_arith) requires 0 <= left, 0 <= right;
        }
//@  loop 2
            invariant self.wf(),
//@end

//@extract sudachi/src/dic/build/conn.rs :: impl ConnBuffer :: fn write_to
//@  rw R15 1 custom
//@  | <W: Write>
//@  > <W: VWrite>
//@  rw R13b 2 custom
//@  | &i16::to_le_bytes\(self\.(num_left|num_right)\)
//@  > i16_to_le_bytes(self.\1).as_slice()
//@  rw R15 1 custom
//@  | writer\.write_all\(&self\.matrix\)
//@  > writer.write_all(self.matrix.as_slice())
//@  ret r
//@  atstart
        proof {
            assert(self.num_left as int * self.num_right as int <= 32767 * 32767) by (nonlinear_arith) requires 0 <= self.num_left <= 32767, 0 <= self.num_right <= 32767;
        }
//@  spec
        requires self.wf(),
        ensures
            // success means the whole section reached the sink; a sink failure is never reported as success
            r is Ok ==> final(writer).sink() == old(writer).sink() + le16(self.num_left) + le16(self.num_right) + self.matrix@
                && r->Ok_0 == 4 + self.matrix@.len(),
//@end
}

/// C05, connection matrix, cell level (session 5): after the compiler stored `cost` for (left, right), the two bytes of that cell -
/// which the loaded dictionary reads as one little-endian i16 (ConnectionMatrix::cost over CowArray<i16>: v_conn, k_cow) - denote `cost`,
/// and every other cell keeps its bytes.  `le16` is concrete, so this is a fact about the bytes, not about an assumed pair.
proof fn theorem_cell_roundtrip(before: Seq<u8>, after: Seq<u8>, c: int, cost: i16)
    requires 0 <= c, 2 * c + 1 < before.len(),
        after == before.update(2 * c, le16(cost)[0]).update(2 * c + 1, le16(cost)[1]),
    ensures
        i16_of(after[2 * c], after[2 * c + 1]) == cost,
        forall|k: int| 0 <= k < before.len() && k != 2 * c && k != 2 * c + 1 ==> #[trigger] after[k] == before[k],
        after.len() == before.len(),
{ lemma_i16_roundtrip(cost); }
/// the dimensions in front of the matrix are read back as written
proof fn theorem_dims_roundtrip(l: i16, r: i16, m: Seq<u8>)
    ensures ({ let d = le16(l) + le16(r) + m; d.len() == 4 + m.len() && i16_of(d[0], d[1]) == l && i16_of(d[2], d[3]) == r })
{ lemma_i16_roundtrip(l); lemma_i16_roundtrip(r); }

} // verus!
fn main() {}
