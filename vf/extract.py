"""Mechanical extraction of real items from /repo into a single Verus file.

A *template* (units/<name>.rs.tpl) is ordinary Verus text plus `//@` directives:

  //@include <file relative to the template's directory>
  //@extract <repo-relative file> :: <selector>
  //@  rw <RULE> <COUNT>                 built-in structural rewrite of the catalogue
  //@  rw <RULE> <COUNT> custom          followed by  //@  | <python regex>   and   //@  > <replacement>
  //@  ret <name>                        `-> T` becomes `-> (name: T)` (needed to state an `ensures`)
  //@  derive <traits>                   keep `#[derive(<traits>)]` on the extracted struct/enum
  //@  attr <#[...]>                      attribute line put before the item (verifier attributes only)
  //@  fnname <new>                      rename the fn (trait impl -> inherent fn, rule R11)
  //@  spec                              payload = requires/ensures clauses, inserted before the body
  //@  loop <k>                          payload = invariant/decreases of the k-th loop (after rewrites)
  //@  before <anchor> / after <anchor>  payload = proof text put before/after the line containing anchor
  //@  afterloop <k>                     payload put right after the closing brace of the k-th loop
  //@  atstart / atend                   payload put right after the opening brace / before the tail expression line
  //@end

Everything that is not a directive or directive payload is copied as is.  The executable statements
of extracted items are changed only by `rw` rules, each of which is logged with its rule id, count,
and the source line it touched.  Anything that cannot be located or does not match the declared
count raises ExtractError (-> exit 2, undecided; never an alarm).
"""
import os
import re
from . import rscan


class ExtractError(Exception):
    pass


class OText:
    """text with a per-character origin line (None for inserted characters)"""

    def __init__(self, s, o=None):
        self.s = s
        self.o = o if o is not None else [None] * len(s)
        assert len(self.s) == len(self.o)

    @staticmethod
    def from_source(src, start, end):
        line = rscan.line_of(src, start)
        o = []
        for ch in src[start:end]:
            o.append(line)
            if ch == '\n':
                line += 1
        return OText(src[start:end], o)

    def replace(self, a, b, new, origin=None):
        if origin is None and a < len(self.o):
            origin = self.o[a] if a < b else None
        self.s = self.s[:a] + new + self.s[b:]
        self.o = self.o[:a] + [origin] * len(new) + self.o[b:]

    def insert(self, a, new, origin=None):
        self.s = self.s[:a] + new + self.s[a:]
        self.o = self.o[:a] + [origin] * len(new) + self.o[a:]

    def lines(self):
        res = []
        cur = []
        cur_o = None
        for ch, o in zip(self.s, self.o):
            if ch == '\n':
                res.append((''.join(cur), cur_o))
                cur, cur_o = [], None
            else:
                cur.append(ch)
                if cur_o is None and o is not None and not ch.isspace():
                    cur_o = o
        res.append((''.join(cur), cur_o))
        return res


# ---------------------------------------------------------------- built-in rewrite rules

def _rw_regex(t: OText, rx, repl, use_mask=True):
    """Apply regex (on masked text if use_mask, so comments/strings never match) and return count.
    repl is a template for m.expand or a callable(m, original_text)->str."""
    count = 0
    pos = 0
    touched = []
    while True:
        hay = rscan.mask(t.s) if use_mask else t.s
        m = re.compile(rx, re.S).search(hay, pos)
        if not m:
            break
        # evaluate groups on the ORIGINAL text (mask blanks string contents)
        class M:
            pass
        orig = t.s

        def grp(k, m=m, orig=orig):
            a, b = m.span(k)
            return orig[a:b] if a >= 0 else ''
        if callable(repl):
            new = repl(grp)
        else:
            new = re.sub(r'\\(\d)', lambda mm: grp(int(mm.group(1))), repl.replace('\\n', '\n'))
        touched.append((t.o[m.start()], t.s[m.start():m.end()], new))
        t.replace(m.start(), m.end(), new)
        pos = m.start() + len(new)
        count += 1
    return count, touched


def _rw_debug_assert(t: OText):
    """R3: debug_assert!(c[, msg..]) -> assert(c); debug_assert_eq!(a,b[,msg]) -> assert(a == b)."""
    count = 0
    touched = []
    pos = 0
    while True:
        hay = rscan.mask(t.s)
        m = re.compile(r'\bdebug_assert(_eq|_ne)?!\s*\(').search(hay, pos)
        if not m:
            break
        op = m.end() - 1
        cl = rscan.match_close(hay, op)
        inner = t.s[op + 1:cl]
        parts = rscan.split_top_commas(hay[op + 1:cl], inner)
        kind = m.group(1)
        if kind is None:
            new = 'assert(%s)' % parts[0].strip()
        elif kind == '_eq':
            new = 'assert(%s == %s)' % (parts[0].strip(), parts[1].strip())
        else:
            new = 'assert(%s != %s)' % (parts[0].strip(), parts[1].strip())
        touched.append((t.o[m.start()], t.s[m.start():cl + 1], new))
        t.replace(m.start(), cl + 1, new)
        pos = m.start() + len(new)
        count += 1
    return count, touched


def _rw_debug_assert_drop(t: OText):
    """R3d: debug_assert*!(..); dropped (not verified) -- used only where the asserted expression
    is not expressible in spec mode; logged as dropped."""
    count = 0
    touched = []
    pos = 0
    while True:
        hay = rscan.mask(t.s)
        m = re.compile(r'\bdebug_assert(_eq|_ne)?!\s*\(').search(hay, pos)
        if not m:
            break
        op = m.end() - 1
        cl = rscan.match_close(hay, op)
        end = cl + 1
        if end < len(t.s) and t.s[end] == ';':
            end += 1
        touched.append((t.o[m.start()], t.s[m.start():end], ''))
        t.replace(m.start(), end, '')
        pos = m.start()
        count += 1
    return count, touched


def _rw_lazy_static_drop(t: OText):
    """Rlazy: `lazy_static! { ... }` blocks dropped (the statics they define are replaced by wrapper functions with
    assumed contracts, declared by R14 rewrites at their use sites); logged."""
    count = 0
    touched = []
    pos = 0
    while True:
        hay = rscan.mask(t.s)
        m = re.compile(r'\blazy_static!\s*\{').search(hay, pos)
        if not m:
            break
        cl = rscan.match_close(hay, m.end() - 1)
        touched.append((t.o[m.start()], t.s[m.start():cl + 1][:80] + ' ...', ''))
        t.replace(m.start(), cl + 1, '')
        pos = m.start()
        count += 1
    return count, touched


BUILTIN = {
    # R6: for (I, X) in E.iter().enumerate() {
    'R6': (r'\bfor\s*\(\s*(\w+)\s*,\s*(\w+)\s*\)\s+in\s+([^{};]+?)\.iter\(\)\.enumerate\(\)\s*\{',
           r'let mut __it_\1: usize = 0; while __it_\1 < \3.len() { let \1 = __it_\1; __it_\1 += 1; let \2 = &\3[\1];'),
    # R7: for P in A..B {      (A, B free of braces)
    'R7': (r'\bfor\s+(\w+)\s+in\s+([^{};]+?)\.\.([^{};=]+?)\s*\{',
           r'let mut __it_\1: usize = \2; let __end_\1: usize = \3; while __it_\1 < __end_\1 { let \1 = __it_\1; __it_\1 += 1;'),
    # R7r: for I in (A..B).rev() {
    'R7r': (r'\bfor\s+(\w+)\s+in\s+\(([^{};]+?)\.\.([^{};]+?)\)\.rev\(\)\s*\{',
            r'let __lo_\1: usize = \2; let mut __it_\1: usize = \3; while __it_\1 > __lo_\1 { __it_\1 -= 1; let \1 = __it_\1;'),
    # R9: for X in V.drain(..) {
    'R9': (r'\bfor\s+(\w+)\s+in\s+([\w\.]+)\.drain\(\.\.\)\s*\{',
           r'let mut __d_\1 = drain_all(&mut \2); while __d_\1.has_next() { let \1 = __d_\1.take_next();'),
    # R6v: for X in V {   (V a &Vec / Vec identifier or field path) -> index loop
    'R6v': (r'\bfor\s+(\w+)\s+in\s+&?([\w\.]+)\s*\{',
            r'let mut __iv_\1: usize = 0; while __iv_\1 < \2.len() { let \1 = &\2[__iv_\1]; __iv_\1 += 1;'),
    # R6m: for X in V.iter_mut() {   -> index loop handing out &mut V[i] in order
    'R6m': (r'\bfor\s+(\w+)\s+in\s+([\w\.]+)\.iter_mut\(\)\s*\{',
            r'let mut __im_\1: usize = 0; while __im_\1 < \2.len() { let \1 = &mut \2[__im_\1]; __im_\1 += 1;'),
    # R4: *unsafe { X.get_unchecked(I) }  /  unsafe { *X.get_unchecked(I) }
    'R4': (r'(?:\*\s*unsafe\s*\{\s*|unsafe\s*\{\s*\*\s*)([\w\.]+)\.get_unchecked\(([^{}]+?)\)\s*\}',
           r'\1[\2]'),
}


def apply_rw(t: OText, rule, count, custom=None):
    if custom is not None:
        rx, repl = custom
        n, touched = _rw_regex(t, rx, repl, use_mask=False)
    elif rule == 'R3':
        n, touched = _rw_debug_assert(t)
    elif rule == 'R3d':
        n, touched = _rw_debug_assert_drop(t)
    elif rule == 'Rlazy':
        n, touched = _rw_lazy_static_drop(t)
    elif rule in BUILTIN:
        rx, repl = BUILTIN[rule]
        n, touched = _rw_regex(t, rx, repl)
    else:
        raise ExtractError("unknown built-in rule %s" % rule)
    if count != '*' and n != int(count):
        raise ExtractError("rewrite %s: declared %s matches, found %d" % (rule, count, n))
    return touched


# ---------------------------------------------------------------- template processing

class Directive:
    def __init__(self, kind, arg, lineno):
        self.kind, self.arg, self.lineno = kind, arg, lineno
        self.payload = []


class Extracted:
    def __init__(self):
        self.file = None
        self.selector = None
        self.name = None
        self.kind = None
        self.gen_start = None  # first generated line (1-based)
        self.gen_end = None
        self.src_start_line = None
        self.has_body = False
        self.rewrites = []
        self.n_spec_lines = 0
        self.stub_of = None
        self.is_twin = False
        self.gen_name = None


class Result:
    def __init__(self):
        self.lines = []     # (text, origin) origin = (file, line) | None
        self.items = []     # Extracted
        self.rewrites = []  # dicts
        self.includes = []


def _read(path):
    with open(path, encoding='utf-8') as f:
        return f.read()


def process_template(tpl_path, repo_root, canary=False, _res=None):
    res = _res or Result()
    tdir = os.path.dirname(tpl_path)
    raw = _read(tpl_path).split('\n')
    i = 0
    n = len(raw)
    while i < n:
        line = raw[i]
        st = line.strip()
        if st.startswith('//@include '):
            inc = os.path.join(tdir, st[len('//@include '):].strip())
            res.includes.append(inc)
            process_template(inc, repo_root, canary, res)
            i += 1
        elif st.startswith('//@extract '):
            # gather directive block up to //@end
            head = st[len('//@extract '):].strip()
            block = []
            i += 1
            while i < n and raw[i].strip() != '//@end':
                block.append((i + 1, raw[i]))
                i += 1
            if i >= n:
                raise ExtractError("%s: //@extract without //@end (%s)" % (tpl_path, head))
            i += 1
            _do_extract(res, repo_root, head, block, False, tpl_path)
            if canary:
                _do_extract(res, repo_root, head, block, True, tpl_path)
        elif st.startswith('//@'):
            raise ExtractError("%s:%d: stray directive %s" % (tpl_path, i + 1, st))
        else:
            res.lines.append((line, None))
            i += 1
    return res


def _parse_block(block, tpl_path):
    ds = []
    cur = None
    for (ln, text) in block:
        st = text.strip()
        if st.startswith('//@'):
            body = st[3:].strip()
            if body.startswith('|') or body.startswith('>'):
                if cur is None or cur.kind != 'rw':
                    raise ExtractError("%s:%d: pattern line outside rw" % (tpl_path, ln))
                cur.payload.append(body)
                continue
            kind, _, arg = body.partition(' ')
            cur = Directive(kind, arg.strip(), ln)
            ds.append(cur)
        else:
            if cur is None:
                if st == '':
                    continue
                raise ExtractError("%s:%d: payload before any directive" % (tpl_path, ln))
            cur.payload.append(text)
    return ds


DERIVE_OK = {'Clone', 'Copy', 'PartialEq', 'Eq'}


def _do_extract(res, repo_root, head, block, canary, tpl_path):
    file_rel, _, selector = head.partition(' :: ')
    file_rel = file_rel.strip()
    selector = selector.strip()
    path = os.path.join(repo_root, file_rel)
    if not os.path.exists(path):
        raise ExtractError("lost anchor: file %s missing" % file_rel)
    src = _read(path)
    try:
        start, end, attrs = rscan.locate(src, selector)
    except rscan.ScanError as e:
        raise ExtractError("%s: %s" % (file_rel, e))
    t = OText.from_source(src, start, end)
    ds = _parse_block(block, tpl_path)
    # optional overlay lines:  `#[if_ident(NAME)] <text>` is kept (without the marker) only if the identifier NAME occurs in the
    # extracted source text; invariants about a helper local thus disappear with the local instead of breaking the extraction
    _masked_src = rscan.mask(src[start:end])
    for d in ds:
        if d.kind in ('rw',):
            continue
        newp = []
        for ln in d.payload:
            mo = re.match(r'^(\s*)#\[if_ident\((\w+)\)\]\s?(.*)$', ln)
            if mo:
                if re.search(r'\b%s\b' % re.escape(mo.group(2)), _masked_src):
                    newp.append(mo.group(1) + mo.group(3))
                else:
                    res.dropped_optional = getattr(res, 'dropped_optional', []) + ['%s :: %s: optional overlay line about `%s` dropped' % (file_rel, selector, mo.group(2))]
            else:
                newp.append(ln)
        d.payload = newp
    ex = Extracted()
    ex.file, ex.selector = file_rel, selector
    ex.is_twin = canary
    lastseg = selector.split(' :: ')[-1]
    if canary:
        # canary twins only for plain fns with bodies outside traits / trait impls
        segs = selector.split(' :: ')
        in_trait = any(sg.startswith('trait ') or (sg.startswith('impl') and ' for ' in sg) for sg in segs[:-1])
        # `twin`: the template places this trait-impl fn in an inherent impl block (R11), so a renamed twin is legal there
        if not lastseg.startswith('fn ') or (in_trait and not any(d.kind == 'twin' for d in ds)) or any(d.kind == 'stub' for d in ds):
            return
    ex.kind, _, ex.name = lastseg.partition(' ')
    if ex.kind.startswith('impl'):
        ex.kind, ex.name = 'impl', lastseg
    ex.src_start_line = rscan.line_of(src, start)

    def log(rule, touched):
        for (ol, before, after) in touched:
            rec = {'rule': rule, 'file': file_rel, 'line': ol, 'before': rscan.norm_ws(before)[:200],
                   'after': rscan.norm_ws(after)[:200]}
            res.rewrites.append(rec)
            ex.rewrites.append(rec)

    # R1 / R2 always
    n1, touched = _rw_regex(t, r'\bpub(?:\s*\([^)]*\))?\s+', '')
    log('R1', touched)
    n2, touched = _rw_regex(t, r'#\[(?:inline|must_use|allow|deprecated|doc|derive|cfg_attr|non_exhaustive|repr)\b[^\]]*\]\s*', '')
    log('R2', touched)
    # doc comments inside the item: harmless, keep.

    derive = None
    for d in ds:
        if d.kind == 'rw':
            parts = d.arg.split()
            rule, count = parts[0], parts[1]
            custom = None
            if len(parts) > 2 and parts[2] == 'custom':
                rx = [p[1:].strip() for p in d.payload if p.startswith('|')]
                rp = [p[1:].strip() for p in d.payload if p.startswith('>')]
                if len(rx) != 1 or len(rp) > 1:
                    raise ExtractError("%s:%d: rw custom needs one | and at most one > line" % (tpl_path, d.lineno))
                custom = (rx[0], rp[0] if rp else '')
            log(rule, apply_rw(t, rule, count, custom))
        elif d.kind == 'derive':
            derive = [x.strip() for x in d.arg.split(',') if x.strip()]
    # signature-level overlays (fn only)
    is_fn = ex.kind == 'fn'
    if is_fn:
        masked = rscan.mask(t.s)
        m = re.search(r'\bfn\s+(\w+)', masked)
        name_span = m.span(1)
        body_open = rscan.find_body_open(masked, m.end(), '{;')
        ex.has_body = masked[body_open] == '{'
        if not ex.has_body and canary:
            return
        newname = None
        for d in ds:
            if d.kind == 'fnname':
                newname = d.arg
        if canary:
            newname = (newname or t.s[name_span[0]:name_span[1]]) + '__canary'
        if newname:
            t.replace(name_span[0], name_span[1], newname)
            ex.gen_name = newname
        for d in ds:
            if d.kind == 'ret':
                masked = rscan.mask(t.s)
                m = re.search(r'\bfn\s+(\w+)', masked)
                body_open = rscan.find_body_open(masked, m.end(), '{;')
                sig = masked[m.end():body_open]
                # find '->' at paren depth 0
                depth = 0
                arrow = None
                for k, c in enumerate(sig):
                    if c in '([':
                        depth += 1
                    elif c in ')]':
                        depth -= 1
                    elif c == '-' and depth == 0 and sig[k:k + 2] == '->':
                        arrow = k
                        break
                if arrow is None:
                    raise ExtractError("%s: `ret` on fn without return type (%s)" % (file_rel, selector))
                a = m.end() + arrow + 2
                wm = re.search(r'\bwhere\b', masked[a:body_open])
                b = a + wm.start() if wm else body_open
                ty = t.s[a:b].strip()
                t.replace(a, b, ' (%s: %s) ' % (d.arg, ty))
        # spec insertion
        spec_payload = None
        stub_of = None
        for d in ds:
            if d.kind == 'spec':
                spec_payload = list(d.payload)
            elif d.kind == 'specfile':
                sp = os.path.join(os.path.dirname(tpl_path), d.arg)
                res.includes.append(sp)
                spec_payload = _read(sp).rstrip('\n').split('\n')
            elif d.kind == 'stub':
                stub_of = d.arg or '?'
        if stub_of is not None:
            # contract-only copy: the body is dropped, the function is external_body; its contract is
            # discharged on the real body in another unit (named in the marker comment)
            masked = rscan.mask(t.s)
            m = re.search(r'\bfn\s+(\w+)', masked)
            body_open = rscan.find_body_open(masked, m.end(), '{')
            body_close = rscan.match_close(masked, body_open)
            t.replace(body_open, body_close + 1, '{ unimplemented!() }', origin=None)
            ex.has_body = False
            ex.stub_of = stub_of
        if canary and ex.has_body and stub_of is None:
            spec_payload = _canary_spec(spec_payload)
        if spec_payload is not None:
            masked = rscan.mask(t.s)
            m = re.search(r'\bfn\s+(\w+)', masked)
            body_open = rscan.find_body_open(masked, m.end(), '{;')
            txt = '\n' + '\n'.join(spec_payload) + '\n'
            # strip trailing whitespace before body_open
            t.insert(body_open, txt)
            ex.n_spec_lines = len(spec_payload)
        # loops, anchors
        for d in ds:
            if d.kind == 'loop':
                k = int(d.arg)
                masked = rscan.mask(t.s)
                m = re.search(r'\bfn\s+(\w+)', masked)
                body_open = rscan.find_body_open(masked, m.end(), '{')
                loops = [mm for mm in re.finditer(r'\b(while|for|loop)\b', masked[body_open:])]
                if k < 1 or k > len(loops):
                    raise ExtractError("%s: %s has %d loops, overlay wants loop %d" % (file_rel, selector, len(loops), k))
                lp = body_open + loops[k - 1].end()
                lb = rscan.find_body_open(masked, lp, '{')
                t.insert(lb, '\n' + '\n'.join(d.payload) + '\n')
            elif d.kind == 'loopstart':
                # first thing inside the body of the k-th loop
                k = int(d.arg)
                masked = rscan.mask(t.s)
                m = re.search(r'\bfn\s+(\w+)', masked)
                body_open = rscan.find_body_open(masked, m.end(), '{')
                loops = [mm for mm in re.finditer(r'\b(while|for|loop)\b', masked[body_open:])]
                if k < 1 or k > len(loops):
                    raise ExtractError("%s: %s has %d loops, overlay wants loop %d" % (file_rel, selector, len(loops), k))
                lp = body_open + loops[k - 1].end()
                lb = rscan.find_body_open(masked, lp, '{')
                t.insert(lb + 1, '\n' + '\n'.join(d.payload) + '\n')
            elif d.kind == 'afterloop':
                k = int(d.arg)
                masked = rscan.mask(t.s)
                m = re.search(r'\bfn\s+(\w+)', masked)
                body_open = rscan.find_body_open(masked, m.end(), '{')
                loops = [mm for mm in re.finditer(r'\b(while|for|loop)\b', masked[body_open:])]
                if k < 1 or k > len(loops):
                    raise ExtractError("%s: %s has %d loops, overlay wants loop %d" % (file_rel, selector, len(loops), k))
                lp = body_open + loops[k - 1].end()
                # the loop body is the first '{' at depth 0 that is followed by a block (skip inserted spec text: it has no bare '{')
                lb = rscan.find_body_open(masked, lp, '{')
                lc = rscan.match_close(masked, lb)
                t.insert(lc + 1, '\n' + '\n'.join(d.payload) + '\n')
            elif d.kind in ('before', 'after'):
                anchor = d.arg
                occ = None
                mo = re.match(r'^(.*)\s+#(\d+|last)$', anchor)
                if mo:
                    anchor, occ = mo.group(1), (-1 if mo.group(2) == 'last' else int(mo.group(2)))
                idxs = [mm.start() for mm in re.finditer(re.escape(anchor), t.s)]
                # only count occurrences that come from the source (not from inserted payload)
                idxs = [ix for ix in idxs if t.o[ix] is not None]
                if occ is None:
                    if len(idxs) != 1:
                        raise ExtractError("%s: anchor `%s` in %s matches %d times" % (file_rel, anchor, selector, len(idxs)))
                    ix = idxs[0]
                elif occ == -1:
                    if not idxs:
                        raise ExtractError("%s: anchor `%s` #last not found in %s" % (file_rel, anchor, selector))
                    ix = idxs[-1]
                else:
                    if occ > len(idxs):
                        raise ExtractError("%s: anchor `%s` #%d not found in %s" % (file_rel, anchor, occ, selector))
                    ix = idxs[occ - 1]
                if d.kind == 'before':
                    ls = t.s.rfind('\n', 0, ix) + 1
                    t.insert(ls, '\n'.join(d.payload) + '\n')
                else:
                    le = t.s.find('\n', ix)
                    if le < 0:
                        le = len(t.s)
                    t.insert(le, '\n' + '\n'.join(d.payload))
            elif d.kind == 'atexit':
                # right before the closing brace of the body (for fns whose body ends with a statement)
                masked = rscan.mask(t.s)
                m = re.search(r'\bfn\s+(\w+)', masked)
                body_open = rscan.find_body_open(masked, m.end(), '{')
                body_close = rscan.match_close(masked, body_open)
                ls = t.s.rfind('\n', 0, body_close) + 1
                t.insert(ls, '\n'.join(d.payload) + '\n')
            elif d.kind == 'atend':
                # before the tail expression (last non-blank line) of the function body
                masked = rscan.mask(t.s)
                m = re.search(r'\bfn\s+(\w+)', masked)
                body_open = rscan.find_body_open(masked, m.end(), '{')
                body_close = rscan.match_close(masked, body_open)
                k = body_close - 1
                while k > body_open and t.s[k].isspace():
                    k -= 1
                ls = t.s.rfind('\n', 0, k) + 1
                t.insert(ls, '\n'.join(d.payload) + '\n')
            elif d.kind == 'atstart':
                masked = rscan.mask(t.s)
                m = re.search(r'\bfn\s+(\w+)', masked)
                body_open = rscan.find_body_open(masked, m.end(), '{')
                t.insert(body_open + 1, '\n' + '\n'.join(d.payload) + '\n')
            elif d.kind in ('rw', 'ret', 'spec', 'derive', 'fnname', 'specfile', 'stub', 'attr', 'twin'):
                pass
            else:
                raise ExtractError("%s:%d: unknown directive %s" % (tpl_path, d.lineno, d.kind))
    else:
        for d in ds:
            if d.kind not in ('rw', 'derive', 'attr'):
                raise ExtractError("%s:%d: directive %s only valid on fn items" % (tpl_path, d.lineno, d.kind))
    # derive
    if derive is None and ex.kind in ('struct', 'enum'):
        # keep the verifiable subset of the real derive list
        for a in attrs:
            mm = re.match(r'#\[derive\((.*)\)\]', a)
            if mm:
                derive = [x.strip() for x in mm.group(1).split(',') if x.strip() in DERIVE_OK]
    ex.gen_start = len(res.lines) + 1
    res.lines.append(('// ---- extracted: %s :: %s (line %d)' % (file_rel, selector, ex.src_start_line), None))
    for d in ds:
        if d.kind == 'attr':
            res.lines.append((d.arg, None))
    if getattr(ex, 'stub_of', None):
        res.lines.append(('// STUB-OF %s: contract discharged on the real body in unit %s' % (ex.name, ex.stub_of), None))
        res.lines.append(('#[verifier::external_body]', None))
    if derive:
        res.lines.append(('#[derive(%s)]' % ', '.join(derive), None))
    for (text, o) in t.lines():
        res.lines.append((text, (file_rel, o) if o is not None else None))
    ex.gen_end = len(res.lines)
    res.items.append(ex)


def _canary_spec(payload):
    """append `false` to the ensures list (or add one)"""
    if payload is None:
        return ['    ensures false,']
    lines = list(payload)
    # find a trailing decreases / no_unwind section
    cut = len(lines)
    for k, l in enumerate(lines):
        if re.match(r'\s*(decreases|no_unwind|opens_invariants)\b', l):
            cut = k
            break
    headl = lines[:cut]
    tail = lines[cut:]
    has_ens = any(re.search(r'\bensures\b', rscan.mask(l)) for l in headl)
    # ensure trailing comma on the last non-empty line of head
    k = len(headl) - 1
    while k >= 0 and headl[k].strip() == '':
        k -= 1
    if k >= 0 and not headl[k].rstrip().endswith(',') and not re.search(r'\b(requires|ensures)\s*$', headl[k]):
        headl[k] = headl[k].rstrip() + ','
    if has_ens:
        headl.append('        false,')
    else:
        headl.append('    ensures false,')
    return headl + tail


def render(res: Result):
    return '\n'.join(l for (l, _) in res.lines) + '\n'
