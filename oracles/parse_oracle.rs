    // BOUNDED replay oracle for unit v_parse (C06 / C05): the field parsers of the lexicon CSV against an independent reading of the
    // field syntax.  unescape: every string of up to 3 pieces over literal pieces (valid / surrogate / too large / short / adjacent,
    // a literal that denotes a backslash followed by literal-looking text) and plain pieces; word-id literals around 2^28, with and
    // without the U prefix; slash lists of 0..129 items.
    fn hexval(s: &str) -> Option<u32> { u32::from_str_radix(s, 16).ok() }
    fn is_hex(c: char) -> bool { c.is_ascii_hexdigit() }
    /// the specification: scan from the left; at `\u{H{1,6}}` or `\uHHHH` emit the scalar value (error if none), else copy the character
    fn spec_unescape(s: &str) -> Result<String, ()> {
        let cs: Vec<char> = s.chars().collect();
        let mut out = String::new();
        let mut i = 0;
        while i < cs.len() {
            if cs[i] == '\\' && i + 1 < cs.len() && cs[i + 1] == 'u' {
                // braces form
                if i + 2 < cs.len() && cs[i + 2] == '{' {
                    let mut j = i + 3;
                    while j < cs.len() && j < i + 3 + 6 && is_hex(cs[j]) { j += 1; }
                    if j > i + 3 && j < cs.len() && cs[j] == '}' {
                        let h: String = cs[i + 3..j].iter().collect();
                        match hexval(&h).and_then(char::from_u32) { Some(c) => out.push(c), None => return Err(()) }
                        i = j + 1;
                        continue;
                    }
                }
                // four digits
                if i + 6 <= cs.len() && cs[i + 2..i + 6].iter().all(|c| is_hex(*c)) {
                    let h: String = cs[i + 2..i + 6].iter().collect();
                    match hexval(&h).and_then(char::from_u32) { Some(c) => out.push(c), None => return Err(()) }
                    i += 6;
                    continue;
                }
            }
            out.push(cs[i]);
            i += 1;
        }
        Ok(out)
    }
    #[test]
    fn verif_oracle_unescape() {
        let pieces = ["", "a", "あ", "\\", "u", "\\u0041", "\\u{41}", "\\u{1f49e}", "\\u005c", "\\u{5c}", "u0041", "u{42}", "\\u00", "\\u{}", "\\u{1234567}",
                      "\\ud800", "\\u{D800}", "\\u{110000}", "\\u{10FFFF}", "\\uffff", "\\u100056", "{", "}", "0041", "\\u{0}", "\\U0041", "💞"];
        let mut failures = Vec::new();
        let mut n = 0usize;
        for a in pieces.iter() { for b in pieces.iter() { for c in pieces.iter() {
            let s = format!("{}{}{}", a, b, c);
            n += 1;
            let want = spec_unescape(&s);
            let got = std::panic::catch_unwind(|| unescape(&s));
            let got_cow = std::panic::catch_unwind(|| unescape_cow(&s).map(|c| c.into_owned()));
            for (name, g) in [("unescape", got), ("unescape_cow", got_cow)] {
                match g {
                    Err(_) => if failures.len() < 20 { failures.push(format!("{}({:?}) panics", name, s)); },
                    Ok(Ok(g)) => if want.as_ref() != Ok(&g) && failures.len() < 20 { failures.push(format!("{}({:?}) = {:?}, the field denotes {:?}", name, s, g, want)); },
                    Ok(Err(_)) => if want.is_ok() && failures.len() < 20 { failures.push(format!("{}({:?}) is refused, the field denotes {:?}", name, s, want)); },
                }
            }
        }}}
        // the length limit: 32,767 bytes are accepted, 32,768 are not, and a result never exceeds the limit
        for len in [32766usize, 32767, 32768, 40000] {
            for unit in ["a", "\\u0041"] {
                let mut s = unit.repeat(len / unit.len());
                while s.len() < len { s.push('b'); }
                n += 1;
                match unescape(&s) {
                    Ok(r) => if s.len() > 32767 || r.len() > 32767 { failures.push(format!("unescape of {} bytes of {:?} accepted ({} bytes)", s.len(), unit, r.len())); },
                    Err(_) => if s.len() <= 32767 { failures.push(format!("unescape of {} bytes of {:?} refused", s.len(), unit)); },
                }
            }
        }
        println!("verif_oracle_unescape: {} strings, {} failures", n, failures.len());
        for f in failures.iter().take(5) { println!("FAILING INPUT: {}", f); }
        assert!(failures.is_empty());
    }
    #[test]
    fn verif_oracle_wordid_literals() {
        let max = 0x0fff_ffffu64;
        let nums: Vec<u64> = vec![0, 1, 7, 9, 10, 255, 65535, max - 1, max, max + 1, max + 2, 1 << 29, (1 << 29) + 3, 1 << 31, u32::MAX as u64 - 1, u32::MAX as u64, u32::MAX as u64 + 1, u64::MAX];
        let mut failures = Vec::new();
        let mut n = 0usize;
        for v in nums.iter() { for pre in ["", "U", "u", "UU", " ", "-", "0"] {
            let s = format!("{}{}", pre, v);
            n += 1;
            // what the literal denotes: U<n> = word n of dictionary 1, <n> = word n of dictionary 0; n (leading zeros allowed) must fit 28 bits
            let want: Option<(u8, u32)> = match pre {
                "" | "0" => if *v <= max { Some((0, *v as u32)) } else { None },
                "U" => if *v <= max { Some((1, *v as u32)) } else { None },
                _ => None,
            };
            for (name, g) in [("parse_wordid", std::panic::catch_unwind(|| parse_wordid(&s))), ("parse_dic_form", std::panic::catch_unwind(|| parse_dic_form(&s)))] {
                match g {
                    Err(_) => failures.push(format!("{}({:?}) panics", name, s)),
                    Ok(Ok(id)) => if want != Some((id.dic(), id.word())) { failures.push(format!("{}({:?}) = dictionary {} word {}, the literal denotes {:?}", name, s, id.dic(), id.word(), want)); },
                    Ok(Err(_)) => if want.is_some() { failures.push(format!("{}({:?}) is refused, the literal denotes {:?}", name, s, want)); },
                }
            }
        }}
        match parse_dic_form("*") { Ok(id) if id == WordId::INVALID => {}, other => failures.push(format!("parse_dic_form(\"*\") = {:?}", other.map(|i| i.as_raw()).ok())) }
        // lists: "" and "*" are empty; n items for n parts; more than 127 parts refused; one bad part refuses the list
        for cnt in [1usize, 2, 3, 126, 127, 128, 129] {
            let s = (0..cnt).map(|i| if i % 2 == 0 { format!("{}", i) } else { format!("U{}", i) }).collect::<Vec<_>>().join("/");
            n += 1;
            match parse_wordid_list(&s) {
                Ok(l) => {
                    if cnt > 127 { failures.push(format!("parse_wordid_list of {} items accepted", cnt)); }
                    else if l.len() != cnt || l.iter().enumerate().any(|(i, w)| w.word() as usize != i || w.dic() as usize != i % 2) { failures.push(format!("parse_wordid_list({:?}) = {:?}", s, l)); }
                }
                Err(_) => if cnt <= 127 { failures.push(format!("parse_wordid_list of {} items refused", cnt)); },
            }
            let s32 = (0..cnt).map(|i| format!("{}", i * 3)).collect::<Vec<_>>().join("/");
            match parse_u32_list(&s32) {
                Ok(l) => if cnt > 127 || l.len() != cnt || l.iter().enumerate().any(|(i, w)| *w as usize != i * 3) { failures.push(format!("parse_u32_list({:?}) = {:?}", s32, l)); },
                Err(_) => if cnt <= 127 { failures.push(format!("parse_u32_list of {} items refused", cnt)); },
            }
        }
        for s in ["", "*"] {
            if parse_wordid_list(s).map(|l| l.len()).ok() != Some(0) { failures.push(format!("parse_wordid_list({:?}) is not the empty list", s)); }
            if parse_u32_list(s).map(|l| l.len()).ok() != Some(0) { failures.push(format!("parse_u32_list({:?}) is not the empty list", s)); }
        }
        for s in ["1/x", "1//2", "/", "1/", "U/1", "1/268435456", "1/U268435456"] {
            if parse_wordid_list(s).is_ok() { failures.push(format!("parse_wordid_list({:?}) accepted", s)); }
        }
        println!("verif_oracle_wordid_literals: {} literals, {} failures", n, failures.len());
        for f in failures.iter().take(5) { println!("FAILING INPUT: {}", f); }
        assert!(failures.is_empty());
    }
