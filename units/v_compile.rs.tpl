// UNIT V-COMPILE (C05, C06): dic/build/mod.rs DictBuilder::compile / write_grammar / write_lexicon / check_if_resolved, dic/header.rs
// Header::write_to.  The section writers are opaque here (write_pos_table: v_pos, ConnBuffer::write_to: v_connrd, write_index: v_idx,
// LexiconWriter::write: v_lexw); this unit decides how compile strings them together: nothing is written before the dictionary is
// checked, the sections follow each other in the format's order, every reported size is the number of bytes written - so the word
// section is told the ABSOLUTE position at which it starts (the offsets it stores are absolute) - and no failure is swallowed.
use vstd::prelude::*;
use vstd::string::*;
verus! {
global size_of usize == 8;
//@include common/error.rs.inc
//@include common/build_prelude.rs.inc
impl From<IoErr> for SudachiError { #[verifier::external_body] fn from(e: IoErr) -> SudachiError { SudachiError::Other } }
#[verifier::external_body] fn string_clone(s: &String) -> (r: String) ensures r@ == s@ { s.clone() }
//@include specs/codec64.rs.inc
#[verifier::external_body] fn u64_to_le_bytes(v: u64) -> (r: [u8; 8]) ensures r@ == le64(v), r@.len() == 8 { v.to_le_bytes() }
#[verifier::external_body] fn zero_byte() -> (r: [u8; 1]) ensures r@ == seq![0u8] { [0] }
pub open spec fn sbytes(s: Seq<char>) -> Seq<u8> { vstd::utf8::encode_utf8(s) }
#[verifier::external_body] fn string_as_bytes(s: &String) -> (r: &[u8]) ensures r@ == sbytes(s@) { s.as_bytes() }
pub assume_specification [String::len] (s: &String) -> (r: usize) ensures r == sbytes(s@).len();

// ---- the header (real)
#[verifier::external_body] pub struct HeaderVersion { _p: () }
impl HeaderVersion {
    pub uninterp spec fn sp_u64(&self) -> u64;
    #[verifier::external_body] fn to_u64(&self) -> (r: u64) ensures r == self.sp_u64() { unimplemented!() }
}
//@extract sudachi/src/dic/header.rs :: struct Header
//@  derive
//@end
spec fn zeros(n: int) -> Seq<u8> decreases n { if n <= 0 { Seq::empty() } else { zeros(n - 1) + seq![0u8] } }
proof fn lemma_zeros_len(n: int) requires n >= 0 ensures zeros(n).len() == n decreases n { if n > 0 { lemma_zeros_len(n - 1); } }
/// version, creation time, description padded with NUL bytes to 256
spec fn header_bytes(h: Header) -> Seq<u8> { le64(h.version.sp_u64()) + le64(h.create_time) + sbytes(h.description@) + zeros(256 - sbytes(h.description@).len()) }
/// C05, header (session 5): in the bytes `Header::write_to` emits, the reader's two little-endian u64 fields (v_header: le64_at at
/// offsets 0 and 8) are the version number and the creation time that were written - a fact about the bytes (le64 / le64_at concrete)
proof fn theorem_header_numbers_roundtrip(h: Header, rest: Seq<u8>)
    ensures le64_at(header_bytes(h) + rest, 0) == h.version.sp_u64(), le64_at(header_bytes(h) + rest, 8) == h.create_time
{
    let a = le64(h.version.sp_u64()); let b = le64(h.create_time);
    let tail = sbytes(h.description@) + zeros(256 - sbytes(h.description@).len()) + rest;
    lemma_le64_len(h.version.sp_u64()); lemma_le64_len(h.create_time);
    assert(header_bytes(h) + rest =~= Seq::<u8>::empty() + a + (b + tail));
    lemma_le64_roundtrip(Seq::<u8>::empty(), h.version.sp_u64(), b + tail);
    assert(header_bytes(h) + rest =~= a + b + tail);
    lemma_le64_roundtrip(a, h.create_time, tail);
}
impl Header {
//@extract sudachi/src/dic/header.rs :: impl Header :: const DESCRIPTION_SIZE
//@end
//@extract sudachi/src/dic/header.rs :: impl Header :: const STORAGE_SIZE
//@end
//@extract sudachi/src/dic/header.rs :: impl Header :: fn write_to
//@  rw R15 1 custom
//@  | <W: Write>
//@  > <W: VWrite>
//@  rw R12 1 custom
//@  | self\.description\.clone\(\)
//@  > string_clone(&self.description)
//@  rw R13b 1 custom
//@  | w\.write_all\(&self\.version\.to_u64\(\)\.to_le_bytes\(\)\)\?;
//@  > w.write_all(u64_to_le_bytes(self.version.to_u64()).as_slice())?;
//@  rw R13b 1 custom
//@  | w\.write_all\(&self\.create_time\.to_le_bytes\(\)\)\?;
//@  > w.write_all(u64_to_le_bytes(self.create_time).as_slice())?;
//@  rw R13b 1 custom
//@  | w\.write_all\(&self\.description\.as_bytes\(\)\)\?;
//@  > w.write_all(string_as_bytes(&self.description))?;
//@  rw R13b 1 custom
//@  | w\.write_all\(&\[0\]\)\?;
//@  > w.write_all(zero_byte().as_slice())?;
//@  rw R7 1
//@  ret r
//@  spec
        ensures
            // the header always occupies STORAGE_SIZE = 272 bytes, and that is the size it reports
            r is Ok ==> final(w).sink() == old(w).sink() + header_bytes(*self) && r->Ok_0 == 272 && header_bytes(*self).len() == 272,
//@  atstart
        let ghost s0 = w.sink();
        proof { lemma_le64_len(self.version.sp_u64()); lemma_le64_len(self.create_time); }
//@  loop 1
            invariant
                sbytes(self.description@).len() <= 256, __end__ == 256 - sbytes(self.description@).len(), __it__ <= __end__,
                w.sink() == s0 + le64(self.version.sp_u64()) + le64(self.create_time) + sbytes(self.description@) + zeros(__it__ as int),
            decreases __end__ - __it__
//@  before let mut __it__
        proof { assert(w.sink() + zeros(0) =~= w.sink()); }
//@  atend
        proof { lemma_zeros_len(256 - sbytes(self.description@).len()); }
//@end
}

// ---- opaque section writers
#[verifier::external_body] pub struct RawLexiconEntry { _p: () }
#[verifier::external_body] pub struct Reporter { _p: () }
#[verifier::external_body] pub struct ReportBuilder { _p: () }
#[verifier::external_body] pub struct ReadReport { _p: () }
impl ReportBuilder {
    #[verifier::external_body] fn new(desc: &str) -> ReportBuilder { unimplemented!() }
    #[verifier::external_body] fn read(self) -> ReportBuilder { unimplemented!() }
}
impl Reporter { #[verifier::external_body] fn collect(&mut self, end: usize, report: ReportBuilder) { unimplemented!() } }
#[verifier::external_body] pub struct DicCompilationCtx { _p: () }
impl DicCompilationCtx {
    #[verifier::external_body] fn err<T>(&self, reason: BuildFailure) -> (r: SudachiResult<T>) ensures r is Err { unimplemented!() }
}
#[verifier::external_body] pub struct LexiconReader { _p: () }
impl LexiconReader {
    pub uninterp spec fn sp_entries(&self) -> Seq<RawLexiconEntry>;
    pub uninterp spec fn sp_needs_resolution(&self) -> bool;
    pub uninterp spec fn sp_valid(&self) -> bool;
    pub uninterp spec fn sp_pos_bytes(&self) -> Seq<u8>;
    #[verifier::external_body] fn entries(&self) -> (r: &[RawLexiconEntry]) ensures r@ == self.sp_entries() { unimplemented!() }
    #[verifier::external_body] fn needs_split_resolution(&self) -> (r: bool) ensures r == self.sp_needs_resolution() { unimplemented!() }
    // contract discharged on the real body in unit v_valid (success only for a valid lexicon)
    #[verifier::external_body] fn validate_entries(&self) -> (r: SudachiResult<()>) ensures r is Ok ==> self.sp_valid() { unimplemented!() }
    // unit v_pos: the table bytes; the reported size is the number of bytes written
    #[verifier::external_body] fn write_pos_table<W: VWrite>(&self, w: &mut W) -> (r: SudachiResult<usize>)
        ensures r is Ok ==> final(w).sink() == old(w).sink() + self.sp_pos_bytes() && r->Ok_0 == self.sp_pos_bytes().len() { unimplemented!() }
}
#[verifier::external_body] pub struct ConnBuffer { _p: () }
impl ConnBuffer {
    pub uninterp spec fn sp_bytes(&self) -> Seq<u8>;
    // unit v_connrd
    #[verifier::external_body] fn write_to<W: VWrite>(&self, writer: &mut W) -> (r: SudachiResult<usize>)
        ensures r is Ok ==> final(writer).sink() == old(writer).sink() + self.sp_bytes() && r->Ok_0 == self.sp_bytes().len() { unimplemented!() }
}
/// the word section for a list of entries whose first byte is at absolute position `section` (unit v_lexw: count, parameters,
/// offset table with ABSOLUTE offsets computed from `section`, records)
pub uninterp spec fn lexw_bytes(es: Seq<RawLexiconEntry>, section: int) -> Seq<u8>;
#[verifier::external_body] pub struct LexiconWriter<'a> { _p: core::marker::PhantomData<&'a ()> }
impl<'a> LexiconWriter<'a> {
    pub uninterp spec fn sp_entries(&self) -> Seq<RawLexiconEntry>;
    pub uninterp spec fn sp_offset(&self) -> int;
    #[verifier::external_body]
    fn new(entries: &'a [RawLexiconEntry], offset: usize, reporter: &'a mut Reporter) -> (r: LexiconWriter<'a>)
        ensures r.sp_entries() == entries@, r.sp_offset() == offset { unimplemented!() }
    // unit v_lexw (its 4 GiB precondition is the precondition of compile below)
    #[verifier::external_body]
    fn write<W: VWrite>(&mut self, w: &mut W) -> (r: SudachiResult<usize>)
        requires old(self).sp_offset() + lexw_bytes(old(self).sp_entries(), old(self).sp_offset()).len() <= u32::MAX
        ensures r is Ok ==> final(w).sink() == old(w).sink() + lexw_bytes(old(self).sp_entries(), old(self).sp_offset())
            && r->Ok_0 == lexw_bytes(old(self).sp_entries(), old(self).sp_offset()).len() { unimplemented!() }
}

//@extract sudachi/src/dic/build/mod.rs :: struct DictBuilder
//@  rw R14 1 custom
//@  | lexicon: lexicon::LexiconReader,
//@  > lexicon: LexiconReader,
//@  rw R14 1 custom
//@  | conn: conn::ConnBuffer,
//@  > conn: ConnBuffer,
//@end
/// the index section (unit v_idx: trie size, trie, table size, table); ASSUMED here: a function of the lexicon
pub uninterp spec fn index_bytes(l: LexiconReader) -> Seq<u8>;
/// everything before the word section
spec fn front_bytes<D>(b: DictBuilder<D>) -> Seq<u8> { header_bytes(b.header) + b.lexicon.sp_pos_bytes() + b.conn.sp_bytes() + index_bytes(b.lexicon) }

impl<D> DictBuilder<D> {
    // unit v_idx
    #[verifier::external_body]
    fn write_index<W: VWrite>(&mut self, w: &mut W) -> (r: SudachiResult<usize>)
        ensures
            final(self).lexicon == old(self).lexicon, final(self).header == old(self).header, final(self).conn == old(self).conn,
            r is Ok ==> final(w).sink() == old(w).sink() + index_bytes(old(self).lexicon) && r->Ok_0 == index_bytes(old(self).lexicon).len(),
    { unimplemented!() }
//@extract sudachi/src/dic/build/mod.rs :: impl<D: DictionaryAccess> DictBuilder<D> :: fn check_if_resolved
//@  ret r
//@  spec
        ensures r is Ok ==> !(self.lexicon.sp_needs_resolution() && !self.resolved)
//@end
//@extract sudachi/src/dic/build/mod.rs :: impl<D: DictionaryAccess> DictBuilder<D> :: fn write_grammar
//@  rw R15 1 custom
//@  | <W: Write>
//@  > <W: VWrite>
//@  ret r
//@  spec
        requires old(self).lexicon.sp_pos_bytes().len() + old(self).conn.sp_bytes().len() <= u32::MAX
        ensures
            final(self).lexicon == old(self).lexicon, final(self).header == old(self).header, final(self).conn == old(self).conn,
            r is Ok ==> final(w).sink() == old(w).sink() + old(self).lexicon.sp_pos_bytes() + old(self).conn.sp_bytes()
                && r->Ok_0 == old(self).lexicon.sp_pos_bytes().len() + old(self).conn.sp_bytes().len(),
//@end
//@extract sudachi/src/dic/build/mod.rs :: impl<D: DictionaryAccess> DictBuilder<D> :: fn write_lexicon
//@  rw R15 1 custom
//@  | <W: Write>
//@  > <W: VWrite>
//@  ret r
//@  spec
        requires offset + index_bytes(old(self).lexicon).len() + lexw_bytes(old(self).lexicon.sp_entries(), offset + index_bytes(old(self).lexicon).len()).len() <= u32::MAX
        ensures
            // C05: the word section is told the position at which it starts: what was written before it + the index section
            r is Ok ==> final(w).sink() == old(w).sink() + index_bytes(old(self).lexicon)
                + lexw_bytes(old(self).lexicon.sp_entries(), offset + index_bytes(old(self).lexicon).len()),
//@end
//@extract sudachi/src/dic/build/mod.rs :: impl<D: DictionaryAccess> DictBuilder<D> :: fn compile
//@  rw R15 1 custom
//@  | <W: Write>
//@  > <W: VWrite>
//@  ret r
//@  spec
        requires
            // the dictionary stays below 4 GiB (NOT checked by the code; see v_lexw)
            front_bytes(*old(self)).len() + lexw_bytes(old(self).lexicon.sp_entries(), front_bytes(*old(self)).len() as int).len() <= u32::MAX,
        ensures
            // C06: success only for a resolved, valid lexicon
            r is Ok ==> !(old(self).lexicon.sp_needs_resolution() && !old(self).resolved) && old(self).lexicon.sp_valid(),
            // C05 / C06: header, part-of-speech table, connection matrix, index, word section - in this order and nothing else; the
            // word section computes its absolute offsets from the exact number of bytes written before it
            r is Ok ==> final(w).sink() == old(w).sink() + front_bytes(*old(self))
                + lexw_bytes(old(self).lexicon.sp_entries(), front_bytes(*old(self)).len() as int),
//@  atstart
        let ghost b0 = *self;
//@  atend
        proof {
            assert(w.sink() =~= old(w).sink() + front_bytes(b0) + lexw_bytes(b0.lexicon.sp_entries(), front_bytes(b0).len() as int));
        }
//@end
}
} // verus!
fn main() {}
