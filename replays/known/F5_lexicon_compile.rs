// Demonstration for finding F5 (C06), lexicon side: append to sudachi/src/dic/build/test/with_analysis.rs and run
// `cargo test -p sudachi --lib verif_f5l`.  Compilation must end with Ok or Err for any input, never panic, and Ok
// only for a dictionary whose indexed entries have connection ids inside the matrix.
#[cfg(test)]
mod verif_f5l {
    use super::*;
    fn compile(matrix: Option<&str>, lex: &str) -> Result<Result<usize, String>, ()> {
        let matrix = matrix.map(|s| s.to_owned());
        let lex = lex.to_owned();
        std::panic::catch_unwind(move || {
            let mut dic = DictBuilder::new_system();
            if let Some(m) = &matrix { if let Err(e) = dic.read_conn(m.as_bytes()) { return Err(format!("{:?}", e)); } }
            if let Err(e) = dic.read_lexicon(lex.as_bytes()) { return Err(format!("{:?}", e)); }
            if let Err(e) = dic.resolve() { return Err(format!("{:?}", e)); }
            let mut out: Vec<u8> = Vec::new();
            match dic.compile(&mut out) { Ok(()) => Ok(out.len()), Err(e) => Err(format!("{:?}", e)) }
        }).map_err(|_| ())
    }
    const M2: &str = "2 2\n0 0 0\n0 1 0\n1 0 0\n1 1 0\n";
    #[test]
    fn verif_f5l_empty_lexicon_does_not_panic() { assert!(compile(Some(M2), "").is_ok(), "empty lexicon panicked"); }
    #[test]
    fn verif_f5l_no_indexed_entry_does_not_panic() {
        assert!(compile(Some(M2), "東,-1,-1,0,東,名詞,一般,*,*,*,*,ヒガシ,*,*,A,*,*,*,*\n").is_ok(), "lexicon without indexed entries panicked");
    }
    #[test]
    fn verif_f5l_nul_in_surface_does_not_panic() {
        assert!(compile(Some(M2), "a\\u0000b,1,1,0,a\\u0000b,名詞,一般,*,*,*,*,ヒガシ,*,*,A,*,*,*,*\n").is_ok(), "NUL inside a surface panicked");
    }
    #[test]
    fn verif_f5l_negative_right_id_of_indexed_entry_is_rejected() {
        assert!(matches!(compile(Some(M2), "東,1,-5,0,東,名詞,一般,*,*,*,*,ヒガシ,*,*,A,*,*,*,*\n"), Ok(Err(_))), "right_id -5 accepted");
    }
    #[test]
    fn verif_f5l_ids_without_matrix_are_rejected() {
        assert!(matches!(compile(None, "東,1,1,0,東,名詞,一般,*,*,*,*,ヒガシ,*,*,A,*,*,*,*\n"), Ok(Err(_))), "ids accepted although the dictionary has no connection matrix");
    }
}
