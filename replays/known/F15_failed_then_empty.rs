// F15 (C10): demonstration against the real code.  Copy to sudachi/tests/verif_f15.rs in a scratch copy of /repo and run
//   cargo test --offline -p sudachi --test verif_f15 -- --nocapture
// A path-rewrite plugin that fails once (any failure after the best path has been taken out of the tokenizer: plugin error,
// unreadable split unit) leaves `top_path == None`; the next analysis of an EMPTY text returns Ok without restoring it and
// `collect_results` panicked in `swap_result` (`Option::unwrap()` on None, mlist.rs:96 <- stateful_tokenizer.rs:211).
// After the fix (22cac0d): an empty result, and the tokenizer is usable again.
mod common;
use std::sync::atomic::{AtomicBool, Ordering};
use std::sync::Arc;
use serde_json::Value;
use sudachi::analysis::lattice::Lattice;
use sudachi::analysis::node::ResultNode;
use sudachi::analysis::stateful_tokenizer::StatefulTokenizer;
use sudachi::analysis::stateless_tokenizer::DictionaryAccess;
use sudachi::config::Config;
use sudachi::dic::dictionary::JapaneseDictionary;
use sudachi::dic::grammar::Grammar;
use sudachi::dic::lexicon_set::LexiconSet;
use sudachi::input_text::InputBuffer;
use sudachi::plugin::input_text::InputTextPlugin;
use sudachi::plugin::oov::OovProviderPlugin;
use sudachi::plugin::path_rewrite::PathRewritePlugin;
use sudachi::prelude::*;

struct FailOnce(AtomicBool);
impl PathRewritePlugin for FailOnce {
    fn set_up(&mut self, _: &Value, _: &Config, _: &Grammar) -> SudachiResult<()> { Ok(()) }
    fn rewrite(&self, _: &InputBuffer, path: Vec<ResultNode>, _: &Lattice) -> SudachiResult<Vec<ResultNode>> {
        if self.0.swap(false, Ordering::SeqCst) { Err(SudachiError::InvalidRange(1, 0)) } else { Ok(path) }
    }
}
struct Dict { inner: JapaneseDictionary, extra: Vec<Box<dyn PathRewritePlugin + Sync + Send>> }
impl DictionaryAccess for Dict {
    fn grammar(&self) -> &Grammar<'_> { self.inner.grammar() }
    fn lexicon(&self) -> &LexiconSet<'_> { self.inner.lexicon() }
    fn input_text_plugins(&self) -> &[Box<dyn InputTextPlugin + Sync + Send>] { self.inner.input_text_plugins() }
    fn oov_provider_plugins(&self) -> &[Box<dyn OovProviderPlugin + Sync + Send>] { self.inner.oov_provider_plugins() }
    fn path_rewrite_plugins(&self) -> &[Box<dyn PathRewritePlugin + Sync + Send>] { &self.extra }
}

#[test]
fn failed_analysis_then_empty_text() {
    let inner = JapaneseDictionary::from_cfg(&common::TEST_CONFIG).expect("dictionary");
    let dict = Arc::new(Dict { inner, extra: vec![Box::new(FailOnce(AtomicBool::new(true)))] });
    let mut tok = StatefulTokenizer::new(dict.clone(), Mode::C);
    let mut out = MorphemeList::empty(dict.clone());
    tok.reset().push_str("東京都");
    assert!(tok.do_tokenize().is_err(), "the first analysis fails in the plugin");
    tok.reset().push_str("");
    tok.do_tokenize().expect("empty text is accepted");
    out.collect_results(&mut tok).expect("collect");   // panicked here before the fix
    assert_eq!(out.len(), 0);
    tok.reset().push_str("東京都");
    tok.do_tokenize().expect("usable again");
    out.collect_results(&mut tok).expect("collect");
    assert_eq!(out.len(), 1);
    assert_eq!(&*out.get(0).surface(), "東京都");
}
