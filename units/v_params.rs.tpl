// UNIT V-PARAMS (C05, C12): dic/lexicon/word_params.rs  WordParams::get_params / get_cost / set_cost / size / storage_size
// The array is a stub (CowArray: unsafe reinterpretation of the mapped bytes, bounded Kani set k_cow); this unit decides the indexing:
// word w owns the three consecutive values 3w, 3w+1, 3w+2 = (left id, right id, cost), in the order LexiconWriter writes them (v_lexw,
// write_params), and set_cost touches the cost of that word only.
use vstd::prelude::*;
verus! {
global size_of usize == 8;
/// R14: CowArray<'a, i16> as a sequence (ASSUMED: Deref to [i16], `set` replaces one element; k_cow is the bounded check of from_bytes)
#[verifier::external_body] pub struct CowArrayI16<'a> { _p: core::marker::PhantomData<&'a ()> }
impl<'a> CowArrayI16<'a> {
    pub uninterp spec fn view(&self) -> Seq<i16>;
    #[verifier::external_body] fn at(&self, i: usize) -> (r: i16) requires i < self@.len() ensures r == self@[i as int] { unimplemented!() }
    #[verifier::external_body] fn range(&self, a: usize, b: usize) -> (r: &[i16]) requires a <= b <= self@.len() ensures r@ == self@.subrange(a as int, b as int) { unimplemented!() }
    #[verifier::external_body] fn set(&mut self, offset: usize, value: i16) requires offset < old(self)@.len() ensures final(self)@ == old(self)@.update(offset as int, value) { unimplemented!() }
}
//@extract sudachi/src/dic/lexicon/word_params.rs :: struct WordParams
//@  rw R14 1 custom
//@  | CowArray<'a, i16>
//@  > CowArrayI16<'a>
//@end
spec fn params_wf(p: WordParams) -> bool { p.data@.len() == 3 * p.size }
// Rc: the associated consts extracted as free consts (an associated const of a lifetime-generic impl crashes the installed Verus)
//@extract sudachi/src/dic/lexicon/word_params.rs :: impl<'a> WordParams<'a> :: const PARAM_SIZE
//@end
//@extract sudachi/src/dic/lexicon/word_params.rs :: impl<'a> WordParams<'a> :: const ELEMENT_SIZE
//@  rw Rc * custom
//@  | Self::PARAM_SIZE
//@  > PARAM_SIZE
//@end
impl<'a> WordParams<'a> {
//@extract sudachi/src/dic/lexicon/word_params.rs :: impl<'a> WordParams<'a> :: fn storage_size
//@  rw Rc * custom
//@  | WordParams::ELEMENT_SIZE
//@  > ELEMENT_SIZE
//@  ret r
//@  spec
        // the count field and six bytes per word: what LexiconWriter wrote before the offset table
        ensures r == 4 + 6 * self.size
//@end
//@extract sudachi/src/dic/lexicon/word_params.rs :: impl<'a> WordParams<'a> :: fn size
//@  ret r
//@  spec
        ensures r == self.size
//@end
//@extract sudachi/src/dic/lexicon/word_params.rs :: impl<'a> WordParams<'a> :: fn get_params
//@  rw Rc * custom
//@  | Self::PARAM_SIZE
//@  > PARAM_SIZE
//@  rw R14 1 custom
//@  | &self\.data\[begin\.\.end\]
//@  > self.data.range(begin, end)
//@  ret r
//@  spec
        requires params_wf(*self), word_id < self.size
        // C05: (left id, right id, cost) of word w are the values 3w, 3w+1, 3w+2
        ensures r.0 == self.data@[3 * word_id as int], r.1 == self.data@[3 * word_id as int + 1], r.2 == self.data@[3 * word_id as int + 2]
//@end
//@extract sudachi/src/dic/lexicon/word_params.rs :: impl<'a> WordParams<'a> :: fn get_cost
//@  rw Rc * custom
//@  | Self::PARAM_SIZE
//@  > PARAM_SIZE
//@  rw R14 1 custom
//@  | self\.data\[cost_offset\]
//@  > self.data.at(cost_offset)
//@  ret r
//@  spec
        requires params_wf(*self), word_id < self.size
        ensures r == self.data@[3 * word_id as int + 2]
//@end
//@extract sudachi/src/dic/lexicon/word_params.rs :: impl<'a> WordParams<'a> :: fn set_cost
//@  rw Rc * custom
//@  | Self::PARAM_SIZE
//@  > PARAM_SIZE
//@  spec
        requires params_wf(*old(self)), word_id < old(self).size
        ensures
            // C12: only the cost of that word changes (Lexicon::update_cost relies on it)
            final(self).size == old(self).size, params_wf(*final(self)),
            final(self).data@ == old(self).data@.update(3 * word_id as int + 2, cost),
//@end
}
} // verus!
fn main() {}
