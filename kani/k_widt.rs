//@kani target=sudachi/src/dic/lexicon/word_id_table.rs
//@kani harness=entries_reads_the_record kind=bounded unwind=5 note=24-byte-table,at-most-3-ids,any-offset
//@kani harness=entries_yields_count_ids kind=bounded unwind=258 note=every-count-byte-0..255,zero-filled-1024-byte-table,offset-0
// K-WIDT (C04, C03) BOUNDED stand-in: word_id_table.rs entries / WordIdIter::next read, at any alignment, exactly the
// `cnt` little-endian u32 ids stored after the count byte.  Bound: table of 24 bytes, at most 3 ids.
    #[kani::proof]
    #[kani::unwind(5)]
    fn entries_reads_the_record() {
        let bytes: [u8; 24] = kani::any();
        let index: usize = kani::any();
        kani::assume(index < 24);
        let cnt = bytes[index] as usize;
        kani::assume(cnt <= 3 && index + 1 + 4 * cnt <= 24);
        let t = WordIdTable::new(&bytes, 24, 0);
        let mut it = t.entries(index);
        let mut k = 0usize;
        while k < cnt {
            let p = index + 1 + 4 * k;
            let expect = u32::from_le_bytes([bytes[p], bytes[p + 1], bytes[p + 2], bytes[p + 3]]);
            assert!(it.next() == Some(expect));
            k += 1;
        }
        assert!(it.next().is_none());
    }

    /// the number of ids the iterator yields is the count byte, for EVERY count byte (the format allows up to 127 ids per key; a
    /// length computed in too narrow a type would drop records of 64 or more ids).  Bound: a zero-filled table, record at offset 0.
    #[kani::proof]
    #[kani::unwind(258)]
    fn entries_yields_count_ids() {
        let mut bytes = [0u8; 1024];
        let cnt: u8 = kani::any();
        bytes[0] = cnt;
        let t = WordIdTable::new(&bytes, 1024, 0);
        let mut it = t.entries(0);
        let mut k = 0usize;
        while k < 256 {
            if it.next().is_none() { break; }
            k += 1;
        }
        assert!(k == cnt as usize);
    }
