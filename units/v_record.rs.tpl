// UNIT V-RECORD (C05, C06): dic/build/lexicon.rs  LexiconReader::parse_record / read_record -- which CSV column feeds which field of an entry
// The field parsers (unescape, parse_i16, parse_dic_form, parse_mode, parse_splits, parse_wordid_list, parse_u32_list: str / regex code)
// are opaque functions of the column text; this unit decides the MAPPING: column k, parsed by ITS parser, lands in ITS field, forms equal
// to the form they default to are stored as absent, mode A rows with splits and rows with an empty surface are refused.
use vstd::prelude::*;
use vstd::string::*;
verus! {
global size_of usize == 8;
//@include common/error.rs.inc
//@include common/build_prelude.rs.inc
//@include common/wordid_stub.rs.inc
//@extract sudachi/src/analysis/mod.rs :: enum Mode
//@  derive Clone, Copy, PartialEq, Eq, Structural
//@end
#[verifier::external_body] fn err_string() -> String { String::new() }   // R12: message texts are not verified
#[verifier::external_body] pub struct DicCompilationCtx { _p: () }
impl DicCompilationCtx {
    #[verifier::external_body] fn transform<T>(&self, result: DicWriteResult<T>) -> (r: SudachiResult<T>)
        ensures result is Ok ==> r is Ok && r->Ok_0 == result->Ok_0, result is Err ==> r is Err { unimplemented!() }
    #[verifier::external_body] fn err<T>(&self, reason: BuildFailure) -> (r: SudachiResult<T>) ensures r is Err { unimplemented!() }
}
/// R17m: `std::mem::take(&mut self.ctx)` (the context travels with the record wrapper and is put back on success)
#[verifier::external_body] fn take_ctx(c: &mut DicCompilationCtx) -> DicCompilationCtx { unimplemented!() }
/// `Cow<str>` / `String` as texts
#[verifier::external_body] pub struct CowStr { _p: () }
pub trait AsText { spec fn text(&self) -> Seq<char>; }
impl AsText for CowStr { uninterp spec fn text(&self) -> Seq<char>; }
impl AsText for String { open spec fn text(&self) -> Seq<char> { self@ } }
/// absent when equal to the form it defaults to
pub open spec fn absent_if_equal(base: Seq<char>, v: Seq<char>) -> Option<Seq<char>> { if base == v { None } else { Some(v) } }
pub open spec fn opt_text(o: Option<String>) -> Option<Seq<char>> { match o { Some(s) => Some(s@), None => None } }
// contract of parse.rs::none_if_equal (ASSUMED: str == Cow<str> compares texts)
#[verifier::external_body]
fn none_if_equal<B: AsText>(surface: &B, data: CowStr) -> (r: Option<String>) ensures opt_text(r) == absent_if_equal(surface.text(), data.text()) { unimplemented!() }
#[verifier::external_body] fn string_is_empty(s: &String) -> (r: bool) ensures r == (s@.len() == 0) { s.is_empty() }

//@extract sudachi/src/dic/build/lexicon.rs :: enum SplitUnit
//@  derive
//@end
//@extract sudachi/src/dic/build/lexicon.rs :: struct RawLexiconEntry
//@end
#[verifier::external_body] pub struct PosTable { _p: () }
impl PosTable { pub uninterp spec fn ents(&self) -> Seq<(Seq<Seq<char>>, u16)>; }
//@extract sudachi/src/dic/build/lexicon.rs :: struct LexiconReader
//@  rw R14 1 custom
//@  | IndexMap<StrPosEntry, u16>
//@  > PosTable
//@end

/// the CSV record and the field parsers as functions of the column text (ASSUMED deterministic; sp_* is what the real parser returns)
#[verifier::external_body] pub struct StringRecord { _p: () }
impl StringRecord { pub uninterp spec fn col(&self, i: int) -> Option<Seq<char>>; }
pub uninterp spec fn sp_unescape(s: Seq<char>) -> DicWriteResult<Seq<char>>;
pub uninterp spec fn sp_i16(s: Seq<char>) -> DicWriteResult<i16>;
pub uninterp spec fn sp_dic_form(s: Seq<char>) -> DicWriteResult<WordId>;
pub uninterp spec fn sp_mode(s: Seq<char>) -> DicWriteResult<Mode>;
pub uninterp spec fn sp_wordids(s: Seq<char>) -> DicWriteResult<Seq<WordId>>;
pub uninterp spec fn sp_u32s(s: Seq<char>) -> DicWriteResult<Seq<u32>>;
pub uninterp spec fn sp_splits(s: Seq<char>) -> DicWriteResult<(Seq<SplitUnit>, usize)>;
//@extract sudachi/src/dic/build/lexicon.rs :: struct RecordWrapper
//@end
impl<'a> RecordWrapper<'a> {
    // R17g: `rec.get(k, "name", parser)` / `rec.get_or_default(..)`: one wrapper per parser; each returns what `parser` yields for the
    // text of column k, an error when the column is missing (get) or the default (get_or_default)
    #[verifier::external_body] fn get_unescape(&self, idx: usize) -> (r: SudachiResult<String>)
        ensures r is Ok ==> self.record.col(idx as int) is Some && sp_unescape(self.record.col(idx as int)->Some_0) == Ok::<Seq<char>, BuildFailure>(r->Ok_0@) { unimplemented!() }
    #[verifier::external_body] fn get_unescape_cow(&self, idx: usize) -> (r: SudachiResult<CowStr>)
        ensures r is Ok ==> self.record.col(idx as int) is Some && sp_unescape(self.record.col(idx as int)->Some_0) == Ok::<Seq<char>, BuildFailure>(r->Ok_0.text()) { unimplemented!() }
    #[verifier::external_body] fn get_parse_i16(&self, idx: usize) -> (r: SudachiResult<i16>)
        ensures r is Ok ==> self.record.col(idx as int) is Some && sp_i16(self.record.col(idx as int)->Some_0) == Ok::<i16, BuildFailure>(r->Ok_0) { unimplemented!() }
    #[verifier::external_body] fn get_parse_dic_form(&self, idx: usize) -> (r: SudachiResult<WordId>)
        ensures r is Ok ==> self.record.col(idx as int) is Some && sp_dic_form(self.record.col(idx as int)->Some_0) == Ok::<WordId, BuildFailure>(r->Ok_0) { unimplemented!() }
    #[verifier::external_body] fn get_parse_mode(&self, idx: usize) -> (r: SudachiResult<Mode>)
        ensures r is Ok ==> self.record.col(idx as int) is Some && sp_mode(self.record.col(idx as int)->Some_0) == Ok::<Mode, BuildFailure>(r->Ok_0) { unimplemented!() }
    #[verifier::external_body] fn get_parse_wordid_list(&self, idx: usize) -> (r: SudachiResult<Vec<WordId>>)
        ensures r is Ok ==> self.record.col(idx as int) is Some && sp_wordids(self.record.col(idx as int)->Some_0) == Ok::<Seq<WordId>, BuildFailure>(r->Ok_0@) { unimplemented!() }
    #[verifier::external_body] fn get_or_default_parse_u32_list(&self, idx: usize) -> (r: SudachiResult<Vec<u32>>)
        ensures r is Ok ==> (self.record.col(idx as int) is None ==> r->Ok_0@.len() == 0)
            && (self.record.col(idx as int) is Some ==> sp_u32s(self.record.col(idx as int)->Some_0) == Ok::<Seq<u32>, BuildFailure>(r->Ok_0@)) { unimplemented!() }
    /// `rec.get(k, "name", |s| self.parse_splits(s))`: parse_splits may register parts of speech of inline references, nothing else
    #[verifier::external_body] fn get_splits(&self, idx: usize, lr: &mut LexiconReader) -> (r: SudachiResult<(Vec<SplitUnit>, usize)>)
        ensures
            final(lr).entries == old(lr).entries, final(lr).unresolved == old(lr).unresolved, final(lr).start_pos == old(lr).start_pos,
            r is Ok ==> self.record.col(idx as int) is Some && sp_splits(self.record.col(idx as int)->Some_0) == Ok::<(Seq<SplitUnit>, usize), BuildFailure>((r->Ok_0.0@, r->Ok_0.1)),
            // parse_slash_list refuses more than MAX_ARRAY_LEN = 127 items, so at most 127 references are unresolved
            r is Ok ==> r->Ok_0.1 <= 127,
    { unimplemented!() }
}
impl LexiconReader {
    // contract discharged on the real body in unit v_pos (the id names the six strings in the table)
    #[verifier::external_body]
    fn pos_of(&mut self, data: [CowStr; 6]) -> (r: DicWriteResult<u16>)
        ensures
            final(self).entries == old(self).entries, final(self).unresolved == old(self).unresolved, final(self).start_pos == old(self).start_pos,
            r is Ok ==> (r->Ok_0 as int) < final(self).pos.ents().len() && final(self).pos.ents()[r->Ok_0 as int].0 == Seq::new(6, |k: int| data@[k].text()),
    { unimplemented!() }
}
/// the text of column k once it parsed
spec fn utext(rec: StringRecord, k: int) -> Seq<char> { sp_unescape(rec.col(k)->Some_0)->Ok_0 }

impl LexiconReader {
//@extract sudachi/src/dic/build/lexicon.rs :: impl LexiconReader :: fn parse_record
//@  rw R17m 1 custom
//@  | std::mem::take\(&mut self\.ctx\)
//@  > take_ctx(&mut self.ctx)
//@  rw R17g * custom
//@  | rec\.get\((\d+), "[^"]*", \|s\| self\.parse_splits\(s\)\)\?
//@  > rec.get_splits(\1, self)?
//@  rw R17g * custom
//@  | rec\.get\((\d+), "[^"]*", (\w+)\)\?
//@  > rec.get_\2(\1)?
//@  rw R17g * custom
//@  | rec\.get_or_default\((\d+), "[^"]*", (\w+)\)\?
//@  > rec.get_or_default_\2(\1)?
//@  rw R12 * custom
//@  | BuildFailure::InvalidSplit\(\s*"[^"]*"\.to_owned\(\),?\s*\)
//@  > BuildFailure::InvalidSplit(err_string())
//@  rw R13 * custom
//@  | surface\.is_empty\(\)
//@  > string_is_empty(&surface)
//@  ret r
//@  spec
        requires old(self).unresolved <= 0x7fff_ffff
        ensures
            final(self).entries == old(self).entries, final(self).start_pos == old(self).start_pos,
            r is Ok ==> ({
                let e = r->Ok_0; let rec = *data;
                // C05: every field comes from ITS column through ITS parser
                &&& e.surface@ == utext(rec, 0) && e.surface@.len() > 0
                &&& sp_i16(rec.col(1)->Some_0) == Ok::<i16, BuildFailure>(e.left_id) && sp_i16(rec.col(2)->Some_0) == Ok::<i16, BuildFailure>(e.right_id)
                &&& sp_i16(rec.col(3)->Some_0) == Ok::<i16, BuildFailure>(e.cost)
                // headword absent when equal to the key; normalised form and reading absent when equal to the HEADWORD
                &&& opt_text(e.headword) == absent_if_equal(utext(rec, 0), utext(rec, 4))
                &&& opt_text(e.reading) == absent_if_equal(utext(rec, 4), utext(rec, 11))
                &&& opt_text(e.norm_form) == absent_if_equal(utext(rec, 4), utext(rec, 12))
                // part of speech: the id of the six strings of columns 5..10 in the compiler's table
                &&& (e.pos as int) < final(self).pos.ents().len() && final(self).pos.ents()[e.pos as int].0 == Seq::new(6, |k: int| utext(rec, 5 + k))
                &&& sp_dic_form(rec.col(13)->Some_0) == Ok::<WordId, BuildFailure>(e.dic_form)
                &&& sp_mode(rec.col(14)->Some_0) == Ok::<Mode, BuildFailure>(e.splitting)
                &&& sp_splits(rec.col(15)->Some_0)->Ok_0.0 == e.splits_a@ && sp_splits(rec.col(16)->Some_0)->Ok_0.0 == e.splits_b@
                &&& sp_wordids(rec.col(17)->Some_0) == Ok::<Seq<WordId>, BuildFailure>(e.word_structure@)
                &&& (rec.col(18) is None ==> e.synonym_groups@.len() == 0) && (rec.col(18) is Some ==> sp_u32s(rec.col(18)->Some_0) == Ok::<Seq<u32>, BuildFailure>(e.synonym_groups@))
                // a row split in mode A declares no units; inline references still to be resolved are counted
                &&& (e.splitting == Mode::A ==> e.splits_a@.len() == 0 && e.splits_b@.len() == 0)
                &&& final(self).unresolved == old(self).unresolved + sp_splits(rec.col(15)->Some_0)->Ok_0.1 + sp_splits(rec.col(16)->Some_0)->Ok_0.1
            }),
//@  after let pos = rec.ctx.transform(
        proof { assert(self.pos.ents()[pos as int].0 =~= Seq::new(6, |k: int| utext(*data, 5 + k))); }
//@end
}
} // verus!
fn main() {}
