    // Replay oracle for V-RESOLVE (C05): executable restatement of first_named / names (units/specs/resolve_specs.rs.inc) against
    // the real RawDictResolver.  BOUNDED: lexicons of up to 3 entries whose key / headword / reading are drawn from 3 strings.
    use crate::analysis::Mode;
    use crate::dic::build::lexicon::SplitUnitResolver;

    fn entry(surface: &str, headword: Option<&str>, reading: Option<&str>, pos: u16) -> RawLexiconEntry {
        RawLexiconEntry {
            left_id: 0, right_id: 0, cost: 0,
            surface: surface.to_string(), headword: headword.map(|s| s.to_string()), dic_form: WordId::INVALID,
            norm_form: None, pos, splits_a: Vec::new(), splits_b: Vec::new(), reading: reading.map(|s| s.to_string()),
            splitting: Mode::A, word_structure: Vec::new(), synonym_groups: Vec::new(),
        }
    }
    fn key_reading(e: &RawLexiconEntry) -> Option<String> { if e.surface() == e.reading() { None } else { Some(e.reading().to_string()) } }

    #[test]
    fn verif_oracle_inline_reference_names_first_entry() {
        let strs = ["東", "ひがし", "トウ"];
        let opts: Vec<Option<&str>> = vec![None, Some(strs[0]), Some(strs[1]), Some(strs[2])];
        // all single entries
        let mut singles = Vec::new();
        for s in strs.iter() { for h in opts.iter() { for r in opts.iter() { for pos in 0..2u16 { singles.push((*s, *h, *r, pos)); } } } }
        let mut failures = Vec::new();
        let mut cases = 0usize;
        let mut check = |es: &Vec<RawLexiconEntry>, user: bool| {
            let res = RawDictResolver::new(es, user);
            for s in strs.iter() { for pos in 0..2u16 { for rd in opts.iter() {
                cases += 1;
                let got = res.resolve_inline(s, pos, *rd);
                let want = es.iter().enumerate()
                    .find(|(_, e)| e.surface() == *s && e.pos == pos && key_reading(e).as_deref() == *rd)
                    .map(|(i, _)| WordId::new(if user { 1 } else { 0 }, i as u32));
                if got != want {
                    failures.push(format!("entries (key,headword,reading,pos) {:?}, user={}: reference ({:?},{},{:?}) resolved to {:?}, the first named entry is {:?}",
                        es.iter().map(|e| (e.surface.clone(), e.headword.clone(), e.reading.clone(), e.pos)).collect::<Vec<_>>(), user, s, pos, rd, got, want));
                }
            }}}
        };
        for a in singles.iter() {
            check(&vec![entry(a.0, a.1, a.2, a.3)], false);
            for b in singles.iter().step_by(7) {
                check(&vec![entry(a.0, a.1, a.2, a.3), entry(b.0, b.1, b.2, b.3)], true);
                for c in singles.iter().step_by(29) {
                    check(&vec![entry(a.0, a.1, a.2, a.3), entry(b.0, b.1, b.2, b.3), entry(c.0, c.1, c.2, c.3)], false);
                }
            }
        }
        println!("verif_oracle_inline_reference_names_first_entry: {} cases, {} failures", cases, failures.len());
        for f in failures.iter().take(5) { println!("FAILING INPUT: {}", f); }
        assert!(failures.is_empty());
    }
