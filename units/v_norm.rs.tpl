// UNIT V-NORM (C07, C01): plugin/input_text/default_input_text/mod.rs  replace_slow / handle_normalization_slow / replace_fast /
//                          rewrite_impl / should_ignore, with the real InputEditor (input_text/buffer/edit.rs)
use vstd::prelude::*;
use vstd::utf8::*;
use vstd::string::*;
use std::ops::Range;
verus! {
//@include common/str_prelude.rs.inc
//@include common/error.rs.inc
//@extract sudachi/src/input_text/buffer/edit.rs :: struct ReplaceOp
//@end
//@extract sudachi/src/input_text/buffer/edit.rs :: enum ReplaceTgt
//@end
//@extract sudachi/src/input_text/buffer/edit.rs :: struct InputEditor
//@end
//@include specs/edit_specs.rs.inc
//@include specs/norm_specs.rs.inc

impl<'a> InputEditor<'a> {
//@extract sudachi/src/input_text/buffer/edit.rs :: impl<'a> InputEditor<'a> :: fn replace_ref
//@  spec
        ensures final(self).replaces@ == old(self).replaces@.push(ReplaceOp { what: range, with: ReplaceTgt::Ref(result) }),
//@end
//@extract sudachi/src/input_text/buffer/edit.rs :: impl<'a> InputEditor<'a> :: fn replace_char
//@  spec
        ensures final(self).replaces@ == old(self).replaces@.push(ReplaceOp { what: range, with: ReplaceTgt::Char(result) }),
//@end
//@extract sudachi/src/input_text/buffer/edit.rs :: impl<'a> InputEditor<'a> :: fn replace_own
//@  spec
        ensures final(self).replaces@ == old(self).replaces@.push(ReplaceOp { what: range, with: ReplaceTgt::Str(result) }),
//@end
//@extract sudachi/src/input_text/buffer/edit.rs :: impl<'a> InputEditor<'a> :: fn replace_char_iter
//@  rw Rgen 1 custom
//@  | fn replace_char_iter<It>\(&mut self, range: Range<usize>, ch: char, mut rest: It\)\s*where\s*It: Iterator<Item = char>,
//@  > fn replace_char_iter(&mut self, range: Range<usize>, ch: char, mut rest: VCharIter)
//@  rw R13 1 custom
//@  | String::with_capacity\(12\);
//@  > string_with_capacity(12);
//@  rw R13 2 custom
//@  | s\.push\((\w+)\);
//@  > string_push(&mut s, \1);
//@  rw R13 1 custom
//@  | s\.extend\(rest\);
//@  > string_extend_iter(&mut s, rest);
//@  spec
        ensures
            // one edit replacing the range by `ch` followed by everything left in the iterator
            one_more(old(self).replaces@, final(self).replaces@),
            final(self).replaces@.last().what == range,
            tgt_chars(final(self).replaces@.last().with) == seq![ch] + rest.rest(),
//@end
}

//@extract sudachi/src/plugin/input_text/default_input_text/mod.rs :: struct DefaultInputTextPlugin
//@  derive
//@  rw R14 1 custom
//@  | HashSet<char, RoMu>
//@  > CharSet
//@  rw R14 1 custom
//@  | HashMap<char, usize>
//@  > OpaqueMap
//@  rw R14 1 custom
//@  | HashMap<String, String>
//@  > OpaqueMap
//@end

//@extract sudachi/src/plugin/input_text/default_input_text/mod.rs :: fn needs_lowercase
//@  rw R14 1 custom
//@  | ch\.to_lowercase\(\)\.ne\(std::iter::once\(ch\)\)
//@  > v_lower(ch).ne_once(ch)
//@  ret r
//@  spec
        ensures r == (sp_lower(ch) != seq![ch])
//@end

impl DefaultInputTextPlugin {
//@extract sudachi/src/plugin/input_text/default_input_text/mod.rs :: impl DefaultInputTextPlugin :: fn should_ignore
//@  ret r
//@  spec
        ensures r == self.ignore_normalize_set.s().contains(ch)
//@end

//@extract sudachi/src/plugin/input_text/default_input_text/mod.rs :: impl DefaultInputTextPlugin :: fn handle_normalization_slow
//@  rw Rgen 1 custom
//@  | fn handle_normalization_slow<'a, I: Iterator<Item = char>>\(\s*&'a self,\s*mut data: I,
//@  > fn handle_normalization_slow<'a>(&'a self, mut data: VCharIter,
//@  spec
        requires data.rest().len() >= 1, (data.rest()[0] == ch ==> data.rest() == seq![ch]), start + len <= usize::MAX,
        ensures
            // no edit if the normalised form is the character itself, otherwise one edit replacing it by the whole form
            data.rest() == seq![ch] ==> final(replacer).replaces@ == old(replacer).replaces@,
            data.rest() != seq![ch] ==> one_more(old(replacer).replaces@, final(replacer).replaces@)
                && final(replacer).replaces@.last().what.start == start && final(replacer).replaces@.last().what.end == start + len
                && tgt_chars(final(replacer).replaces@.last().with) == data.rest(),
//@  atstart
        let ghost d0 = data.rest();
//@  before replacer.replace_char_iter(
                proof { assert(seq![ch2] + data.rest() =~= d0); }
//@end
//@extract sudachi/src/plugin/input_text/default_input_text/mod.rs :: impl DefaultInputTextPlugin :: fn replace_slow
//@  rw R14 1 custom
//@  | aho_corasick::Input::new\(
//@  > AcInput::new(
//@  rw R13 1 custom
//@  | for \(offset, ch\) in cur\.char_indices\(\) \{
//@  > let __ci = str_char_indices(cur); let mut __it: usize = 0; while __it < __ci.len() { let (offset, ch) = __ci[__it]; __it += 1;
//@  rw R14 1 custom
//@  | is_nfkc_quick\(std::iter::once\(ch\)\)
//@  > nfkc_quick_char(ch)
//@  rw R14 * custom
//@  | ch\.to_lowercase\(\)\.nfkc\(\)
//@  > v_lower_nfkc(ch)
//@  rw R14 * custom
//@  | std::iter::once\(ch\)\.nfkc\(\)
//@  > v_nfkc_once(ch)
//@  rw R14 * custom
//@  | ch\.to_lowercase\(\)
//@  > v_lower(ch)
//@  rw R13 * custom
//@  | ch\.len_utf8\(\)
//@  > char_len_utf8(ch)
//@  ret r
//@  spec
        requires table_wf(*self),
        ensures
            r is Ok,
            // C07: the edits appended are exactly the specified rewrite of the whole text
            ops_view(r->Ok_0.replaces@) == ops_view(old(replacer.replaces)@) + norm_edits(*self, encode_utf8(buffer.sp_text()), char_table(buffer.sp_text()), 0, 0),
//@  atstart
        broadcast use axiom_str_len_fits;
        let ghost ops0 = replacer.replaces@;
        let ghost txt = buffer.sp_text();
        let ghost hay = encode_utf8(txt);
        let ghost goal = ops_view(ops0) + norm_edits(*self, hay, char_table(txt), 0, 0);
//@  loop 1
            invariant
                table_wf(*self), cur@ == txt, hay == cur.spec_bytes(), hay == encode_utf8(txt), *checker == self.checker->Some_0,
                __ci@ =~= char_table(txt), __it <= __ci@.len(),
                forall|k: int| 0 <= k < __ci@.len() ==> (#[trigger] __ci@[k]).0 < hay.len(),
                ac_input.hay == cur, ac_input.anch, !ac_input.early,
                ops_view(replacer.replaces@) + norm_edits(*self, hay, __ci@, __it as int, min_offset as int) == goal,
            decreases __ci@.len() - __it
//@  loopstart 1
            let ghost kk = __it as int;
            let ghost opsb = replacer.replaces@;
            let ghost keys = self.checker->Some_0.keys();
//@  before let range = m.range();
                proof {
                    let i = choose|i: int| is_longest(keys, hay, offset as int, i);
                    assert(some_key_at(keys, hay, offset as int));
                    lemma_longest_unique(keys, hay, offset as int, i, m.pat as int);
                }
//@  after replacer.replace_ref(range, replacement);
                proof { lemma_view_push(opsb, replacer.replaces@.last()); assert(replacer.replaces@ == opsb.push(replacer.replaces@.last())); }
//@  before let need_lowercase
            proof {
                assert(!some_key_at(keys, hay, offset as int));
                axiom_str_len_fits(cur);
                assert(cur.spec_bytes().len() <= isize::MAX);
                axiom_forms(ch);
                axiom_quick(ch);
            }
//@  afterloop 1
        proof { assert(ops_view(replacer.replaces@) + Seq::<EditS>::empty() =~= ops_view(replacer.replaces@)); }
//@end

//@extract sudachi/src/plugin/input_text/default_input_text/mod.rs :: impl DefaultInputTextPlugin :: fn replace_fast
//@  rw R14 1 custom
//@  | aho_corasick::Input::new\(
//@  > AcInput::new(
//@  rw R14 1 custom
//@  | for m in checker\.find_iter\(ac_input\) \{
//@  > let __ms = checker.find_all(ac_input); let mut __im: usize = 0; while __im < __ms.len() { let m = &__ms[__im]; __im += 1;
//@  ret r
//@  spec
        requires table_wf(*self),
        ensures
            r is Ok,
            // the edits appended are the table replacements of a non-overlapping leftmost-longest scan of the whole text
            exists|ms: Seq<AcMatch>| #[trigger] scan_ok(self.checker->Some_0.keys(), encode_utf8(buffer.sp_text()), ms)
                && ops_view(r->Ok_0.replaces@) == ops_view(old(replacer.replaces)@) + table_edits(*self, ms, 0),
//@  atstart
        let ghost ops0 = replacer.replaces@;
        let ghost hay = encode_utf8(buffer.sp_text());
//@  loop 1
            invariant
                table_wf(*self), *checker == self.checker->Some_0, scan_ok(checker.keys(), hay, __ms@), __im <= __ms@.len(),
                ops_view(replacer.replaces@) + table_edits(*self, __ms@, __im as int) == ops_view(ops0) + table_edits(*self, __ms@, 0),
            decreases __ms@.len() - __im
//@  loopstart 1
            let ghost opsb = replacer.replaces@;
            proof { lemma_scan_pat(checker.keys(), hay, __ms@, __im as int); }
//@  after replacer.replace_ref(m.start()..m.end(), replacement);
            proof { assert(replacer.replaces@ == opsb.push(replacer.replaces@.last())); lemma_view_push(opsb, replacer.replaces@.last()); }
//@  afterloop 1
        proof { assert(ops_view(replacer.replaces@) + Seq::<EditS>::empty() =~= ops_view(replacer.replaces@)); }
//@end

// R11: `impl InputTextPlugin for DefaultInputTextPlugin { fn rewrite_impl }` checked as an inherent fn of the same body
//@extract sudachi/src/plugin/input_text/default_input_text/mod.rs :: impl InputTextPlugin for DefaultInputTextPlugin :: fn rewrite_impl
//@  twin
//@  rw R14 1 custom
//@  | is_nfkc_quick\(chars\.iter\(\)\.cloned\(\)\)
//@  > nfkc_quick_text(chars)
//@  rw R14 1 custom
//@  | chars\.iter\(\)\.any\(\|c\| needs_lowercase\(\*c\)\)
//@  > any_needs_lowercase(chars)
//@  ret r
//@  spec
        requires table_wf(*self),
        ensures
            r is Ok,
            // C07: whichever path is taken, the edits are the specified rewrite - a function of the text and the table only
            ops_view(r->Ok_0.replaces@) == ops_view(old(edit.replaces)@) + norm_edits(*self, encode_utf8(buffer.sp_text()), char_table(buffer.sp_text()), 0, 0),
//@  atstart
        let ghost txt = buffer.sp_text();
//@  before if need_nkfc
        proof {
            if !(need_nkfc || need_lowercase) {
                lemma_plain(*self, txt);
                assert forall|ms: Seq<AcMatch>| #[trigger] scan_ok(self.checker->Some_0.keys(), encode_utf8(txt), ms)
                    implies table_edits(*self, ms, 0) == norm_edits(*self, encode_utf8(txt), char_table(txt), 0, 0) by {
                    theorem_fast_is_slow(*self, txt, ms);
                }
            }
        }
//@end

}
} // verus!
fn main() {}
