// UNIT V-READCAT (C13): plugin/oov/mecab_oov/mod.rs  MeCabOovPlugin::read_character_property -- the class-property lines of the
// character definition file (`CLASS invoke group length`).
// Text handling (lines, trim, split_whitespace, number / class-name parsing, string comparison) is ASSUMED (wrappers below); this unit
// decides the MAPPING: blank lines, comment lines and range lines (`0x...`) define nothing; every other line must have at least four
// columns and a known class name; it defines the properties of THAT class - invoked always exactly when column 2 is "1", grouped exactly
// when column 3 is "1", maximal length = column 4 - and a second line for the same class makes the file fail (no silent overwrite).
use vstd::prelude::*;
use vstd::string::*;
verus! {
global size_of usize == 8;
//@include common/error.rs.inc
//@include common/category_type.rs.inc
#[verifier::external_body] fn err_string() -> String { String::new() }   // R12: message texts are not verified
pub enum CharacterCategoryError { InvalidFormat(usize), InvalidCategoryType(usize, String), MultipleTypeDefinition(usize, String) }
fn cc_err<T>(e: CharacterCategoryError) -> (r: SudachiResult<T>) ensures r is Err { Err(SudachiError::Other) }
//@extract sudachi/src/plugin/oov/mecab_oov/mod.rs :: struct CategoryInfo
//@  derive
//@end
/// R14: HashMap<CategoryType, CategoryInfo, RoMu> seen as a finite map (ASSUMED: std HashMap contains_key / insert)
#[verifier::external_body] pub struct CatMap { _p: () }
impl CatMap {
    uninterp spec fn m(&self) -> Map<CategoryType, CategoryInfo>;
    #[verifier::external_body] fn new() -> (r: CatMap) ensures r.m() == Map::<CategoryType, CategoryInfo>::empty() { unimplemented!() }
    #[verifier::external_body] fn contains_key(&self, k: &CategoryType) -> (r: bool) ensures r == self.m().contains_key(*k) { unimplemented!() }
    #[verifier::external_body] fn insert(&mut self, k: CategoryType, v: CategoryInfo) ensures final(self).m() == old(self).m().insert(k, v) { unimplemented!() }
}
// ---- the text of a line as the reader sees it (ASSUMED std contracts)
uninterp spec fn ln_trim(l: Seq<char>) -> Seq<char>;
uninterp spec fn ln_cols(l: Seq<char>) -> Seq<Seq<char>>;
uninterp spec fn cat_named(c: Seq<char>) -> Option<CategoryType>;
uninterp spec fn num_u32(c: Seq<char>) -> Option<u32>;
spec fn is_one(c: Seq<char>) -> bool { c.len() == 1 && c[0] == '1' }
spec fn starts_0x(l: Seq<char>) -> bool { l.len() >= 2 && l[0] == '0' && l[1] == 'x' }
#[verifier::external_body] pub struct Reader { _p: () }
impl Reader { pub uninterp spec fn sp_lines(&self) -> Seq<Seq<char>>; pub uninterp spec fn sp_readable(&self) -> bool; }
#[verifier::external_body] fn reader_lines(reader: Reader) -> (r: SudachiResult<Vec<String>>)
    ensures r is Ok <==> reader.sp_readable(), r is Ok ==> r->Ok_0@.len() == reader.sp_lines().len() && forall|i: int| 0 <= i < r->Ok_0@.len() ==> (#[trigger] r->Ok_0@[i])@ == reader.sp_lines()[i] { unimplemented!() }
#[verifier::external_body] fn str_trim(s: &str) -> (r: &str) ensures r@ == ln_trim(s@) { s.trim() }
#[verifier::external_body] fn str_is_empty(s: &str) -> (r: bool) ensures r == (s@.len() == 0) { s.is_empty() }
#[verifier::external_body] fn str_first_char(s: &str) -> (r: char) requires s@.len() > 0 ensures r == s@[0] { s.chars().next().unwrap() }
#[verifier::external_body] fn str_starts_0x(s: &str) -> (r: bool) ensures r == starts_0x(s@) { unimplemented!() }
#[verifier::external_body] fn str_split_ws<'a>(s: &'a str) -> (r: Vec<&'a str>)
    ensures r@.len() == ln_cols(s@).len(), forall|i: int| 0 <= i < r@.len() ==> (#[trigger] r@[i])@ == ln_cols(s@)[i] { s.split_whitespace().collect() }
#[verifier::external_body] fn parse_category(s: &str) -> (r: Result<CategoryType, ()>) ensures r is Ok <==> cat_named(s@) is Some, r is Ok ==> Some(r->Ok_0) == cat_named(s@) { unimplemented!() }
#[verifier::external_body] fn parse_u32(s: &str) -> (r: SudachiResult<u32>) ensures r is Ok <==> num_u32(s@) is Some, r is Ok ==> Some(r->Ok_0) == num_u32(s@) { unimplemented!() }
#[verifier::external_body] fn str_is_one(s: &str) -> (r: bool) ensures r == is_one(s@) { s == "1" }

// ---- what the class-property lines of a file denote
spec fn ln_skipped(l: Seq<char>) -> bool { let t = ln_trim(l); t.len() == 0 || t[0] == '#' || starts_0x(t) }
/// the properties a line declares (None: malformed)
spec fn ln_info(l: Seq<char>) -> Option<CategoryInfo> {
    let c = ln_cols(ln_trim(l));
    if c.len() < 4 || cat_named(c[0]) is None || num_u32(c[3]) is None { None }
    else { Some(CategoryInfo { category_type: cat_named(c[0])->Some_0, is_invoke: is_one(c[1]), is_group: is_one(c[2]), length: num_u32(c[3])->Some_0 }) }
}
/// the table after the first n lines (None: some line is malformed or declares a class a second time)
spec fn file_table(lines: Seq<Seq<char>>, n: int) -> Option<Map<CategoryType, CategoryInfo>>
    decreases n
{
    if n <= 0 { Some(Map::empty()) } else {
        match file_table(lines, n - 1) {
            None => None,
            Some(t) => if ln_skipped(lines[n - 1]) { Some(t) } else {
                match ln_info(lines[n - 1]) {
                    None => None,
                    Some(ci) => if t.contains_key(ci.category_type) { None } else { Some(t.insert(ci.category_type, ci)) },
                }
            },
        }
    }
}
proof fn lemma_table_none_mono(lines: Seq<Seq<char>>, n: int, m: int)
    requires 0 <= n <= m
    ensures file_table(lines, n) is None ==> file_table(lines, m) is None
    decreases m - n
{ if n < m { lemma_table_none_mono(lines, n, m - 1); } }

//@extract sudachi/src/plugin/oov/mecab_oov/mod.rs :: impl MeCabOovPlugin :: fn read_character_property
//@  attr #[verifier::loop_isolation(false)]
//@  rw R14t 1 custom
//@  | fn read_character_property<T: BufRead>\(\s*reader: T,\s*\) -> SudachiResult<HashMap<CategoryType, CategoryInfo, RoMu>> \{
//@  > fn read_character_property(reader: Reader) -> SudachiResult<CatMap> {
//@  rw R14t 1 custom
//@  | let mut categories = HashMap::with_hasher\(RoMu::new\(\)\);
//@  > let mut categories = CatMap::new();
//@  rw R14r 1 custom
//@  | for \(i, line\) in reader\.lines\(\)\.enumerate\(\) \{\s*let line = line\?;\s*let line = line\.trim\(\);
//@  > let __ls = reader_lines(reader)?; let mut __il: usize = 0; while __il < __ls.len() { let i = __il; __il += 1; let line = str_trim(__ls[i].as_str());
//@  rw R13 1 custom
//@  | line\.is_empty\(\)\s*\|\| line\.chars\(\)\.next\(\)\.unwrap\(\) == '#'\s*\|\| line\.chars\(\)\.take\(2\)\.collect::<Vec<_>>\(\) == vec!\['0', 'x'\]
//@  > str_is_empty(line) || str_first_char(line) == '#' || str_starts_0x(line)
//@  rw R13 1 custom
//@  | let cols: Vec<_> = line\.split_whitespace\(\)\.collect\(\);
//@  > let cols: Vec<&str> = str_split_ws(line);
//@  rw R12 * custom
//@  | return Err\(SudachiError::InvalidCharacterCategory\(\s*(CharacterCategoryError::\w+\((?:[^()]|\([^()]*\))*\)),?\s*\)\)
//@  > return cc_err(\1)
//@  rw R12 * custom
//@  | cols\[0\]\.to_string\(\)
//@  > err_string()
//@  rw R14p 1 custom
//@  | match cols\[0\]\.parse\(\) \{
//@  > match parse_category(cols[0]) {
//@  rw R13 2 custom
//@  | cols\[(\d)\] == "1"
//@  > str_is_one(cols[\1])
//@  rw R14p 1 custom
//@  | cols\[(\d)\]\.parse\(\)\?
//@  > parse_u32(cols[\1])?
//@  ret r
//@  spec
        ensures
            // C13: the class table is exactly what the lines declare; a malformed line or a second declaration of a class fails the file
            r is Ok <==> reader.sp_readable() && file_table(reader.sp_lines(), reader.sp_lines().len() as int) is Some,
            r is Ok ==> r->Ok_0.m() == file_table(reader.sp_lines(), reader.sp_lines().len() as int)->Some_0,
//@  atstart
        let ghost lines = reader.sp_lines();
//@  loop 1
            invariant
                __il <= __ls@.len(), __ls@.len() == lines.len(), forall|k: int| 0 <= k < __ls@.len() ==> (#[trigger] __ls@[k])@ == lines[k],
                file_table(lines, __il as int) == Some(categories.m()),
            decreases __ls@.len() - __il
//@  after let line = str_trim(
            proof { lemma_table_none_mono(lines, __il as int, lines.len() as int); }
//@end
} // verus!
fn main() {}
