    // Replay oracle for V-SENT (C16): executable restatement of the partition theorem (all_sentences) and of the bracket clause of
    // get_eos_ok (level_of: a closing bracket with nothing open is ignored) against the real splitter.
    // BOUNDED: all texts of up to 5 characters over {あ 。 ！ 「 」 ( )}, window limits 2, 3 and the default.
    fn level(text: &str) -> usize {
        let mut l = 0usize;
        for c in text.chars() {
            if "({｛[（「【『［≪〔“".contains(c) { l += 1; } else if ")}]）」｝】』］〕≫”".contains(c) && l > 0 { l -= 1; }
        }
        l
    }
    #[test]
    fn verif_oracle_sentences_partition_and_respect_brackets() {
        let alphabet = ["あ", "。", "！", "「", "」", "(", ")"];
        let mut texts: Vec<String> = vec![String::new()];
        let mut frontier = vec![String::new()];
        for _ in 0..5 {
            let mut nf = Vec::new();
            for t in &frontier { for c in alphabet.iter() { let mut s = t.clone(); s.push_str(c); nf.push(s); } }
            texts.extend(nf.iter().cloned());
            frontier = nf;
        }
        let mut failures = Vec::new();
        let mut cases = 0usize;
        for limit in [0usize, 2, 3] {
            let sp = if limit == 0 { SentenceSplitter::new() } else { SentenceSplitter::with_limit(limit) };
            for t in &texts {
                cases += 1;
                let parts: Vec<(Range<usize>, &str)> = sp.split(t).take(t.len() + 2).collect();
                let ctx = format!("text {:?} (window limit {}): sentences {:?}", t, if limit == 0 { 4096 } else { limit }, parts.iter().map(|p| p.1).collect::<Vec<_>>());
                let mut pos = 0;
                let mut ok = true;
                for (r, s) in &parts {
                    if r.start != pos || r.end <= r.start || r.end > t.len() || *s != &t[r.clone()] { ok = false; break; }
                    pos = r.end;
                }
                if !ok || pos != t.len() { if failures.len() < 20 { failures.push(format!("sentences do not partition the text: {}", ctx)); } continue; }
                // the window cuts the text at `limit` characters when no terminator is found: only a break that follows a terminator
                // inside the window is a sentence boundary in the sense of the property
                for (r, s) in parts.iter().take(parts.len().saturating_sub(1)) {
                    let body = s.trim_end_matches(|c| ")}]）」｝】』］〕≫”,，、".contains(c));
                    let after_terminator = body.ends_with('。') || body.ends_with('！');
                    if after_terminator && level(&t[..r.start + body.len()]) > 0 && failures.len() < 20 {
                        failures.push(format!("break inside an unclosed bracket pair at byte {}: {}", r.end, ctx));
                    }
                }
            }
        }
        println!("verif_oracle_sentences_partition_and_respect_brackets: {} cases, {} failures", cases, failures.len());
        for f in failures.iter().take(5) { println!("FAILING INPUT: {}", f); }
        assert!(failures.is_empty());
    }

    /// the converse clause: a terminator that is not bracketed does end a sentence.  Texts over {あ 。 ！ 「 」 ( ) \ a} (no quoting
    /// particle, no itemisation header, no dictionary): after every maximal run "terminators, then closing brackets / further terminators"
    /// at bracket level 0 (stray closers ignored) that is followed by more text there must be a sentence boundary - and nowhere else.
    #[test]
    fn verif_oracle_unbracketed_terminators_end_sentences() {
        let alphabet = ["あ", "。", "！", "「", "」", "(", ")", "\\", "a"];
        let mut texts: Vec<String> = vec![String::new()];
        let mut frontier = vec![String::new()];
        for _ in 0..5 {
            let mut nf = Vec::new();
            for t in &frontier { for c in alphabet.iter() { let mut s = t.clone(); s.push_str(c); nf.push(s); } }
            texts.extend(nf.iter().cloned());
            frontier = nf;
        }
        let is_term = |c: char| c == '。' || c == '！';
        let is_close = |c: char| ")」".contains(c);
        let mut failures = Vec::new();
        let sp = SentenceSplitter::new();
        for t in &texts {
            let chars: Vec<(usize, char)> = t.char_indices().collect();
            let mut want: Vec<usize> = Vec::new();
            let mut i = 0;
            while i < chars.len() {
                // "not bracketed": no bracket is open where the terminator stands
                if is_term(chars[i].1) && level(&t[..chars[i].0]) == 0 {
                    let mut j = i;
                    while j < chars.len() && (is_term(chars[j].1) || is_close(chars[j].1)) { j += 1; }
                    let end = if j < chars.len() { chars[j].0 } else { t.len() };
                    if end < t.len() { want.push(end); }
                    i = j;
                } else { i += 1; }
            }
            let got: Vec<usize> = sp.split(t).take(t.len() + 2).map(|(r, _)| r.end).filter(|e| *e < t.len()).collect();
            if got != want && failures.len() < 20 { failures.push(format!("text {:?}: sentence boundaries at bytes {:?}, unbracketed terminators end at {:?}", t, got, want)); }
        }
        println!("verif_oracle_unbracketed_terminators_end_sentences: {} texts, {} failures", texts.len(), failures.len());
        for f in failures.iter().take(8) { println!("FAILING INPUT: {}", f); }
        assert!(failures.is_empty());
    }

    /// every window limit, combining marks and astral characters: texts over {か U+3099 e U+0301 。 a} of up to 6 characters and over
    /// {😀 𠮷 。 a か} of up to 5 characters with window limits 1..=4 - the
    /// sentences are non-empty, partition the text on character boundaries, and iteration terminates
    #[test]
    fn verif_oracle_small_windows_and_combining_marks() {
        let alphabet = ["か", "\u{3099}", "e", "\u{301}", "。", "a"];
        let mut texts: Vec<String> = vec![String::new()];
        let mut frontier = vec![String::new()];
        for _ in 0..6 {
            let mut nf = Vec::new();
            for t in &frontier { for c in alphabet.iter() { let mut s = t.clone(); s.push_str(c); nf.push(s); } }
            texts.extend(nf.iter().cloned());
            frontier = nf;
        }
        let mut failures = Vec::new();
        let mut cases = 0usize;
        for limit in 1usize..=4 {
            let sp = SentenceSplitter::with_limit(limit);
            for t in &texts {
                cases += 1;
                let parts: Vec<(Range<usize>, &str)> = sp.split(t).take(t.len() + 2).collect();
                let mut pos = 0; let mut ok = true;
                for (r, s) in &parts { if r.start != pos || r.end <= r.start || r.end > t.len() || !t.is_char_boundary(r.end) || *s != &t[r.clone()] { ok = false; break; } pos = r.end; }
                if (!ok || pos != t.len()) && failures.len() < 20 {
                    failures.push(format!("text {:?} (window limit {}): the sentences {:?} are not a partition into non-empty pieces (or iteration does not end)", t, limit, parts.iter().take(4).map(|p| (p.0.clone(), p.1)).collect::<Vec<_>>()));
                }
            }
        }
        // characters outside the Basic Multilingual Plane (two UTF-16 units, four bytes) at every position, every window limit 1..=4
        let alphabet2 = ["😀", "𠮷", "。", "a", "か"];
        let mut texts2: Vec<String> = Vec::new();
        let mut frontier = vec![String::new()];
        for _ in 0..5 {
            let mut nf = Vec::new();
            for t in &frontier { for c in alphabet2.iter() { let mut s = t.clone(); s.push_str(c); nf.push(s); } }
            texts2.extend(nf.iter().cloned());
            frontier = nf;
        }
        for limit in 1usize..=4 {
            let sp = SentenceSplitter::with_limit(limit);
            for t in &texts2 {
                cases += 1;
                let parts: Vec<(Range<usize>, &str)> = sp.split(t).take(t.len() + 2).collect();
                let mut pos = 0; let mut ok = true;
                for (r, s) in &parts { if r.start != pos || r.end <= r.start || r.end > t.len() || !t.is_char_boundary(r.end) || *s != &t[r.clone()] { ok = false; break; } pos = r.end; }
                if (!ok || pos != t.len()) && failures.len() < 20 {
                    failures.push(format!("text {:?} (window limit {}): the sentences {:?} are not a partition into non-empty pieces (or iteration does not end)", t, limit, parts.iter().take(4).map(|p| (p.0.clone(), p.1)).collect::<Vec<_>>()));
                }
            }
        }
        println!("verif_oracle_small_windows_and_combining_marks: {} cases, {} failures", cases, failures.len());
        for f in failures.iter().take(5) { println!("FAILING INPUT: {}", f); }
        assert!(failures.is_empty());
    }
