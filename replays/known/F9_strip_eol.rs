// Demonstration for finding F9 (C19): append to sudachi-cli/src/main.rs and run `cargo test -p sudachi-cli verif_f9`.
#[cfg(test)]
mod verif_f9 {
    use super::strip_eol;
    #[test]
    fn verif_f9_blank_line_is_empty() { assert_eq!("", strip_eol("\n")); }
    #[test]
    fn verif_f9_crlf_blank_line_is_empty() { assert_eq!("", strip_eol("\r\n")); }
    #[test]
    fn verif_f9_ordinary_lines() { assert_eq!("ab", strip_eol("ab\n")); assert_eq!("ab", strip_eol("ab\r\n")); assert_eq!("ab", strip_eol("ab")); assert_eq!("", strip_eol("")); }
}
