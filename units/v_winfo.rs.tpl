// UNIT V-WINFO (C11): dic/subset.rs InfoSubset::normalize, dic/lexicon/word_infos.rs WordInfos::get_word_info / parse_word_info,
// WordInfo accessors (surface / normalized_form / dictionary_form / reading_form) and the subset-independence theorem
use vstd::prelude::*;
use vstd::string::*;
verus! {
global size_of usize == 8;
//@include common/error.rs.inc
//@include common/wordid_stub.rs.inc
//@include common/info_subset.rs.inc
//@extract sudachi/src/dic/lexicon/word_infos.rs :: struct WordInfoData
//@  derive
//@end
//@extract sudachi/src/dic/lexicon/word_infos.rs :: struct WordInfo
//@  derive
//@end
//@include specs/wi_format.rs.inc
#[verifier::external_body] fn wordinfodata_default() -> (r: WordInfoData) { unimplemented!() }

impl InfoSubset {
//@extract sudachi/src/dic/subset.rs :: impl InfoSubset :: fn normalize
//@  rw R10 1 custom
//@  | \(mut self\)
//@  > (self)
//@  rw R10 * custom
//@  | \bself\b(?!\))
//@  > __self
//@  rw R16 2 custom
//@  | __self \|= (InfoSubset::\w+);?
//@  > __self = __self.union(\1);
//@  rw R16 * custom
//@  | InfoSubset::(\w+) \| InfoSubset::(\w+) \| InfoSubset::(\w+)
//@  > InfoSubset::\1.union(InfoSubset::\2).union(InfoSubset::\3)
//@  rw R16 * custom
//@  | InfoSubset::(\w+) \| InfoSubset::(\w+)
//@  > InfoSubset::\1.union(InfoSubset::\2)
//@  ret r
//@  specfile specs/normalize.contract
//@  atstart
        let mut __self = self;   // R10
        proof {
            let s = self.bits;
            assert((32u32 | 8u32) | 16u32 == 56u32 && 64u32 | 128u32 == 192u32 && 32u32 | 8u32 == 40u32) by (bit_vector);
            assert(({
                let s1 = if (s & 56u32) != 0 { s | 1u32 } else { s };
                let s2 = if (s1 & 192u32) != 0 { s1 | 2u32 } else { s1 };
                &&& ((s2 & 8u32 == 8u32 || s2 & 16u32 == 16u32 || s2 & 32u32 == 32u32) ==> s2 & 1u32 == 1u32)
                &&& ((s2 & 64u32 == 64u32 || s2 & 128u32 == 128u32) ==> s2 & 2u32 == 2u32)
                &&& s2 < 1024u32 && s2 & s == s && s2 & !(s | 3u32) == 0
            })) by (bit_vector) requires s < 1024u32;
        }
//@end
}
//@extract sudachi/src/dic/read/word_info.rs :: struct WordInfoParser
//@end
impl WordInfoParser {
// contracts discharged on the real bodies (with the real parse_field! macro) in unit v_wi
//@extract sudachi/src/dic/read/word_info.rs :: impl WordInfoParser :: fn subset
//@  stub v_wi
//@  ret r
//@  spec
        ensures r.flds == flds, r.info.dictionary_form@.len() == 0
//@end
//@extract sudachi/src/dic/read/word_info.rs :: impl WordInfoParser :: fn parse
//@  stub v_wi
//@  rw R10 1 custom
//@  | \(mut self, data
//@  > (self, data
//@  ret r
//@  specfile specs/wi_parse.contract
//@end
}

impl WordInfo {
// R11: From<WordInfoData> for WordInfo as an inherent fn
//@extract sudachi/src/dic/lexicon/word_infos.rs :: impl From<WordInfoData> for WordInfo :: fn from
//@  twin
//@  ret r
//@  spec
        ensures r.data == data
//@end
//@extract sudachi/src/dic/lexicon/word_infos.rs :: impl WordInfo :: fn surface
//@  rw R13s 1 custom
//@  | &self\.data\.surface
//@  > self.data.surface.as_str()
//@  ret r
//@  spec
        ensures r@ == self.data.surface@
//@end
//@extract sudachi/src/dic/lexicon/word_infos.rs :: impl WordInfo :: fn normalized_form
//@  rw R13s 2 custom
//@  | &?self\.data\.normalized_form(\.is_empty\(\))?
//@  > self.data.normalized_form.as_str()\1
//@  ret r
//@  spec
        ensures r@ == acc_form(self.data.normalized_form@, self.data.surface@)
//@end
//@extract sudachi/src/dic/lexicon/word_infos.rs :: impl WordInfo :: fn dictionary_form
//@  rw R13s 2 custom
//@  | &?self\.data\.dictionary_form(\.is_empty\(\))?
//@  > self.data.dictionary_form.as_str()\1
//@  ret r
//@  spec
        ensures r@ == acc_form(self.data.dictionary_form@, self.data.surface@)
//@end
//@extract sudachi/src/dic/lexicon/word_infos.rs :: impl WordInfo :: fn reading_form
//@  rw R13s 2 custom
//@  | &?self\.data\.reading_form(\.is_empty\(\))?
//@  > self.data.reading_form.as_str()\1
//@  ret r
//@  spec
        ensures r@ == acc_form(self.data.reading_form@, self.data.surface@)
//@end
}

//@extract sudachi/src/dic/lexicon/word_infos.rs :: struct WordInfos
//@end
//@include specs/winfo_specs.rs.inc

impl<'a> WordInfos<'a> {
/// ASSUMED (nom le_u32 + slicing on a valid dictionary): the offset table yields the record offset of the word
#[verifier::external_body]
fn word_id_to_offset(&self, word_id: u32) -> (r: SudachiResult<usize>)
    ensures r is Ok ==> r->Ok_0 == self.sp_offset(word_id) && r->Ok_0 <= self.bytes@.len(),
        self.offset_readable(word_id) ==> r is Ok
{ unimplemented!() }

//@extract sudachi/src/dic/lexicon/word_infos.rs :: impl<'a> WordInfos<'a> :: fn parse_word_info
//@  ret r
//@  spec
        requires subset.bits < 1024,
        ensures
            self.sp_record(word_id) is Some ==> r is Ok && requested_fields_ok(subset.bits, r->Ok_0, self.sp_record(word_id)->Some_0),
            r is Ok ==> r->Ok_0.dictionary_form@.len() == 0,
//@end

//@extract sudachi/src/dic/lexicon/word_infos.rs :: impl<'a> WordInfos<'a> :: fn get_word_info
//@  rw R16 1 custom
//@  | subset -= InfoSubset::SYNONYM_GROUP_ID;
//@  > subset = subset.difference(InfoSubset::SYNONYM_GROUP_ID);
//@  rw R11 1 custom
//@  | word_info\.into\(\)
//@  > WordInfo::from(word_info)
//@  ret r
//@  spec
        requires subset.bits < 1024,
        ensures
            r is Ok ==> info_ok(*self, word_id, subset.bits, r->Ok_0.data),
//@  atstart
        let ghost s_in = subset.bits;
        proof {
            assert(s_in & !512u32 < 1024u32) by (bit_vector) requires s_in < 1024u32;
            assert(forall|b: u32| #![auto] b == 1u32 || b == 2u32 || b == 4u32 || b == 8u32 || b == 16u32 || b == 32u32 || b == 64u32 || b == 128u32 || b == 256u32
                ==> ((s_in & !512u32) & b == b <==> s_in & b == b)) by (bit_vector);
            assert((s_in & !512u32) & 16u32 == 16u32 <==> s_in & 16u32 == 16u32) by (bit_vector);
            assert(1u32 & 1u32 == 1u32) by (bit_vector);
        }
//@  atend
        proof {
            if word_info.dictionary_form@.len() == 0 { assert(word_info.dictionary_form@ =~= Seq::<char>::empty()); }
        }
//@end
}

} // verus!
fn main() {}
