// UNIT V-NODE (C01, C03, C09, C14): analysis/node.rs  concat_nodes / concat_oov_nodes / NodeSplitIterator::next / split / num_splits, stateless_tokenizer.rs split_path, mlist.rs MorphemeList::split_into
use vstd::prelude::*;
use vstd::string::*;
use std::ops::Range;
verus! {
global size_of usize == 8;
//@include common/error.rs.inc
//@include common/wordid_stub.rs.inc
//@include common/info_subset.rs.inc
//@include common/node_types.rs.inc
//@include common/vec_prelude_min.rs.inc

pub assume_specification [String::with_capacity] (n: usize) -> (r: String) ensures r@ == Seq::<char>::empty();

/// R8: `v.drain(a..b);` (statement form): removes the elements a..b
#[verifier::external_body]
fn vec_drain_range<T>(v: &mut Vec<T>, a: usize, b: usize)
    requires a <= b <= old(v)@.len()
    ensures final(v)@ == old(v)@.subrange(0, a as int) + old(v)@.subrange(b as int, old(v)@.len() as int)
{ v.drain(a..b); }

//@extract sudachi/src/analysis/mod.rs :: enum Mode
//@  derive Clone, Copy, PartialEq, Eq, Structural
//@end

// ---- opaque collaborators (assumed contracts; InputBuffer::ch_idx is under contract in the buffer units)
#[verifier::external_body] pub struct LexiconSet<'a> { _p: core::marker::PhantomData<&'a ()> }
impl<'a> LexiconSet<'a> {
    /// the word-info record the dictionary holds for `id`, restricted to `subset` (C11: a pure function of both)
    uninterp spec fn sp_word_info(&self, id: WordId, subset: InfoSubset) -> WordInfo;
    /// ASSUMED (valid dictionary, C06): split references point to existing entries, so the lookup succeeds
    #[verifier::external_body]
    fn get_word_info_subset(&self, id: WordId, subset: InfoSubset) -> (r: SudachiResult<WordInfo>)
        ensures r is Ok, r->Ok_0 == self.sp_word_info(id, subset)
    { unimplemented!() }
}
#[verifier::external_body] pub struct InputBuffer { _p: () }
impl InputBuffer {
    uninterp spec fn sp_len(&self) -> int;            // bytes of the normalised text
    uninterp spec fn sp_ch_idx(&self, b: int) -> int; // byte offset -> code point index
    #[verifier::external_body]
    fn ch_idx(&self, idx: usize) -> (r: usize)
        requires idx <= self.sp_len()
        ensures r == self.sp_ch_idx(idx as int), r <= u16::MAX
    { unimplemented!() }
}
fn vpanic() requires false { }

//@include specs/node_specs.rs.inc

//@extract sudachi/src/analysis/node.rs :: fn concat_oov_nodes
//@  rw R6 1 custom
//@  | for node in path\[begin\.\.end\]\.iter\(\) \{
//@  > let mut __i: usize = begin; while __i < end { let node = &path[__i]; __i += 1;
//@  rw R14 1 custom
//@  | wid\.max\(node\.word_id\(\)\)
//@  > wordid_max(wid, node.word_id())
//@  rw Rd 1 custom
//@  | \.\.Default::default\(\)
//@  > reading_form: String::new(), a_unit_split: Vec::new(), b_unit_split: Vec::new(), word_structure: Vec::new(), synonym_group_ids: Vec::new(),
//@  rw R11 1 custom
//@  | new_wi\.into\(\)
//@  > WordInfo::from(new_wi)
//@  rw R8 1 custom
//@  | path\.drain\(([^;]+?)\.\.([^;]+?)\);
//@  > vec_drain_range(&mut path, \1, \2);
//@  ret res
//@  specfile specs/concat_oov_nodes.contract
//@  atstart
    let ghost orig = path@;
//@  loop 1
        invariant begin <= __i <= end, end <= path@.len(), path@ == orig,
            head_word_length == sum_hwl(orig, begin as int, __i as int),
            sum_hwl(orig, begin as int, end as int) <= u16::MAX,
        decreases end - __i
//@  before head_word_length += data.head_word_length;
        proof { lemma_sum_hwl_step(orig, begin as int, __i as int, end as int); }
//@  before path[begin] = node;
    let ghost gnode = node;
//@  atend
    proof {
        let out = path@;
        assert(out =~= orig.subrange(0, begin as int) + seq![gnode] + orig.subrange(end as int, orig.len() as int));
        assert(out.subrange(0, begin as int) =~= orig.subrange(0, begin as int));
        assert(out.subrange(begin + 1, out.len() as int) =~= orig.subrange(end as int, orig.len() as int));
        assert(out[begin as int] == gnode);
    }
//@end

//@extract sudachi/src/analysis/node.rs :: fn concat_nodes
//@  rw R6 2 custom
//@  | for node in path\[begin\.\.end\]\.iter\(\) \{
//@  > let mut __i: usize = begin; while __i < end { let node = &path[__i]; __i += 1;
//@  rw R14c 1 custom
//@  | normalized_form\.unwrap_or_else\(\|\| \{
//@  > match normalized_form { Some(__v) => __v, None => {
//@  rw R14c 1 custom
//@  | \n    \}\);
//@  > \n    }};
//@  rw Rd 1 custom
//@  | \.\.Default::default\(\)
//@  > a_unit_split: Vec::new(), b_unit_split: Vec::new(), word_structure: Vec::new(), synonym_group_ids: Vec::new(),
//@  rw R11 1 custom
//@  | new_wi\.into\(\)
//@  > WordInfo::from(new_wi)
//@  rw R8 1 custom
//@  | path\.drain\(([^;]+?)\.\.([^;]+?)\);
//@  > vec_drain_range(&mut path, \1, \2);
//@  ret res
//@  specfile specs/concat_nodes.contract
//@  atstart
    let ghost orig = path@;
//@  loop 1
        invariant begin <= __i <= end, end <= path@.len(), path@ == orig,
            head_word_length == sum_hwl(orig, begin as int, __i as int),
            sum_hwl(orig, begin as int, end as int) <= u16::MAX,
        decreases end - __i
//@  before head_word_length += data.head_word_length;
        proof { lemma_sum_hwl_step(orig, begin as int, __i as int, end as int); }
//@  loop 2
            invariant begin <= __i <= end, end <= path@.len(), path@ == orig,
            decreases end - __i
//@  before path[begin] = node;
    let ghost gnode = node;
//@  atend
    proof {
        let out = path@;
        assert(out =~= orig.subrange(0, begin as int) + seq![gnode] + orig.subrange(end as int, orig.len() as int));
        assert(out.subrange(0, begin as int) =~= orig.subrange(0, begin as int));
        assert(out.subrange(begin + 1, out.len() as int) =~= orig.subrange(end as int, orig.len() as int));
        assert(out[begin as int] == gnode);
    }
//@end

//@extract sudachi/src/analysis/node.rs :: struct NodeSplitIterator
//@end
//@include specs/split_specs.rs.inc

impl ResultNode {
//@extract sudachi/src/analysis/node.rs :: impl ResultNode :: fn num_splits
//@  ret r
//@  spec
        ensures r == decl_units(*self, mode).len(),
//@end
//@extract sudachi/src/analysis/node.rs :: impl ResultNode :: fn split
//@  rw R12 1 custom
//@  | panic!\("splitting Node with Mode::C is not supported"\)
//@  > { vpanic(); &[] }
//@  ret it
//@  spec
        requires mode != Mode::C,
        ensures
            it.splits@ == decl_units(*self, mode), it.index == 0, it.lexicon == lexicon, it.subset == subset, it.text == text,
            it.byte_offset == self.begin_bytes, it.byte_end == self.end_bytes,
            it.char_offset == self.inner.begin, it.char_end == self.inner.end,
//@end
}

impl<'a> NodeSplitIterator<'a> {
// R11: `impl Iterator for NodeSplitIterator { fn next }` verified as an inherent fn
//@extract sudachi/src/analysis/node.rs :: impl Iterator for NodeSplitIterator<'_> :: fn next
//@  twin
//@  rw R11 1 custom
//@  | Option<Self::Item>
//@  > Option<ResultNode>
//@  ret r
//@  spec
        requires
            old(self).index <= old(self).splits@.len(),
            units_fit(*old(self)),
        ensures
            final(self).splits == old(self).splits, final(self).lexicon == old(self).lexicon, final(self).subset == old(self).subset,
            final(self).text == old(self).text, final(self).char_end == old(self).char_end, final(self).byte_end == old(self).byte_end,
            old(self).index >= old(self).splits@.len() ==> r is None && *final(self) == *old(self),
            old(self).index < old(self).splits@.len() ==> r is Some && ({
                let n = r->Some_0; let i = old(self).index as int;
                // the i-th sub-token is the i-th declared unit ...
                &&& n.inner.word_id == old(self).splits@[i]
                &&& n.inner.left_id == u16::MAX && n.inner.right_id == u16::MAX && n.inner.cost == i16::MAX && n.total_cost == i32::MAX
                &&& n.word_info == unit_info(*old(self), i)
                // ... starts where the previous one ended (the first: where the parent starts) ...
                &&& n.begin_bytes == old(self).byte_offset && n.inner.begin == old(self).char_offset
                // ... the last one ends where the parent ends, the others after their declared head-word length
                &&& (i + 1 == old(self).splits@.len() ==> n.end_bytes == old(self).byte_end && n.inner.end == old(self).char_end)
                &&& (i + 1 < old(self).splits@.len() ==> n.end_bytes == old(self).byte_offset + unit_info(*old(self), i).data.head_word_length
                        && n.inner.end == old(self).text.sp_ch_idx(n.end_bytes as int))
                &&& final(self).index == i + 1 && final(self).byte_offset == n.end_bytes && final(self).char_offset == n.inner.end
                &&& units_fit(*final(self))
            }),
//@  before let (char_end, byte_end) = 
        proof { lemma_units_fit_step(*self); }
//@  atend
        proof {
            assert forall|j: int| self.index <= j < self.splits@.len() - 1 implies
                self.byte_offset + #[trigger] units_len_of(*self.lexicon, self.splits@, self.subset, self.index as int, j + 1) <= self.byte_end by {
                assert(units_len(*old(self), old(self).index + 1, j + 1) == units_len_of(*self.lexicon, self.splits@, self.subset, self.index as int, j + 1));
            }
        }
//@end
}

/// R11: `vec.extend(iterator)` = push every item `next()` yields until it returns None.
/// This is the std contract of Extend, written out as code so that it is checked against `next`'s contract.
fn extend_from_split(v: &mut Vec<ResultNode>, it: NodeSplitIterator)
    requires it.index == 0, it.splits@.len() >= 1, units_fit(it),
    ensures
        final(v)@.len() == old(v)@.len() + it.splits@.len(),
        final(v)@.subrange(0, old(v)@.len() as int) == old(v)@,
        tiles(final(v)@.subrange(old(v)@.len() as int, final(v)@.len() as int), it.byte_offset as int, it.byte_end as int, it.char_offset as int, it.char_end as int),
        forall|i: int| 0 <= i < it.splits@.len() ==> (#[trigger] final(v)@[old(v)@.len() + i]).inner.word_id == it.splits@[i],
        // every pushed sub-token is THE i-th unit of the parent range the iterator was created for
        forall|i: int| 0 <= i < it.splits@.len() ==> #[trigger] final(v)@[old(v)@.len() + i]
            == sub_node(*it.lexicon, it.splits@, it.subset, *it.text, it.byte_offset, it.byte_end, it.char_offset, it.char_end, i),
{
    let ghost v0 = v@;
    let ghost it0 = it;
    let mut it = it;
    proof { assert(v@.subrange(v0.len() as int, v@.len() as int) =~= Seq::<ResultNode>::empty()); assert(v@.subrange(0, v0.len() as int) =~= v0); }
    loop
        invariant
            it.splits == it0.splits, it.lexicon == it0.lexicon, it.subset == it0.subset, it.text == it0.text,
            it.byte_end == it0.byte_end, it.char_end == it0.char_end, it0.index == 0, it0.splits@.len() >= 1,
            it.index <= it.splits@.len(), units_fit(it), it0.byte_offset <= it0.byte_end,
            v@.len() == v0.len() + it.index,
            v@.subrange(0, v0.len() as int) == v0,
            tiles_prefix(v@.subrange(v0.len() as int, v@.len() as int), it0.byte_offset as int, it0.byte_end as int, it0.char_offset as int, it.byte_offset as int, it.char_offset as int),
            it.index == it.splits@.len() ==> it.byte_offset == it0.byte_end && it.char_offset == it0.char_end,
            forall|i: int| 0 <= i < it.index ==> (#[trigger] v@[v0.len() + i]).inner.word_id == it0.splits@[i],
            it.index < it.splits@.len() ==> it.byte_offset == sub_begin_b(*it0.lexicon, it0.splits@, it0.subset, it0.byte_offset as int, it.index as int),
            it.index == 0 ==> it.char_offset == it0.char_offset,
            0 < it.index < it.splits@.len() ==> it.char_offset == it0.text.sp_ch_idx(it.byte_offset as int),
            forall|i: int| 0 <= i < it.index ==> #[trigger] v@[v0.len() + i]
                == sub_node(*it0.lexicon, it0.splits@, it0.subset, *it0.text, it0.byte_offset, it0.byte_end, it0.char_offset, it0.char_end, i),
        ensures
            it.index == it0.splits@.len(), it.splits == it0.splits,
            v@.len() == v0.len() + it.index,
            v@.subrange(0, v0.len() as int) == v0,
            tiles_prefix(v@.subrange(v0.len() as int, v@.len() as int), it0.byte_offset as int, it0.byte_end as int, it0.char_offset as int, it.byte_offset as int, it.char_offset as int),
            it.byte_offset == it0.byte_end && it.char_offset == it0.char_end,
            forall|i: int| 0 <= i < it.index ==> (#[trigger] v@[v0.len() + i]).inner.word_id == it0.splits@[i],
            forall|i: int| 0 <= i < it.index ==> #[trigger] v@[v0.len() + i]
                == sub_node(*it0.lexicon, it0.splits@, it0.subset, *it0.text, it0.byte_offset, it0.byte_end, it0.char_offset, it0.char_end, i),
        decreases it.splits@.len() - it.index
    {
        let ghost vb = v@;
        let ghost itb = it;
        match it.next() {
            None => { break; }
            Some(n) => {
                v.push(n);
                proof {
                    let pre = vb.subrange(v0.len() as int, vb.len() as int);
                    let post = v@.subrange(v0.len() as int, v@.len() as int);
                    assert(post =~= pre.push(n));
                    assert(v@.subrange(0, v0.len() as int) =~= v0);
                    assert forall|i: int| 0 <= i < post.len() - 1 implies (#[trigger] post[i]).end_bytes == post[i + 1].begin_bytes && post[i].inner.end == post[i + 1].inner.begin by {
                        if i < pre.len() - 1 { assert(post[i] == pre[i] && post[i + 1] == pre[i + 1]); } else { assert(post[i] == pre[i]); }
                    }
                    assert forall|i: int| 0 <= i < post.len() implies it0.byte_offset <= (#[trigger] post[i]).begin_bytes <= post[i].end_bytes <= it0.byte_end by {
                        if i < pre.len() { assert(post[i] == pre[i]); }
                        else {
                            if itb.index + 1 < itb.splits@.len() { lemma_units_fit_step(itb); }
                            if pre.len() > 0 { assert(pre[pre.len() - 1].begin_bytes <= pre[pre.len() - 1].end_bytes); }
                        }
                    }
                    assert forall|i: int| 0 <= i < it.index implies (#[trigger] v@[v0.len() + i]).inner.word_id == it0.splits@[i] by {
                        if i < itb.index { assert(v@[v0.len() + i] == vb[v0.len() + i]); }
                    }
                    if pre.len() > 0 { assert(post[0] == pre[0]); }
                    let i = itb.index as int;
                    assert(units_len_of(*it0.lexicon, it0.splits@, it0.subset, 0, i + 1)
                        == units_len_of(*it0.lexicon, it0.splits@, it0.subset, 0, i) + unit_info_of(*it0.lexicon, it0.splits@, it0.subset, i).data.head_word_length);
                    assert(n == sub_node(*it0.lexicon, it0.splits@, it0.subset, *it0.text, it0.byte_offset, it0.byte_end, it0.char_offset, it0.char_end, i));
                    assert forall|j: int| 0 <= j < it.index implies #[trigger] v@[v0.len() + j]
                        == sub_node(*it0.lexicon, it0.splits@, it0.subset, *it0.text, it0.byte_offset, it0.byte_end, it0.char_offset, it0.char_end, j) by {
                        if j < itb.index { assert(v@[v0.len() + j] == vb[v0.len() + j]); }
                    }
                }
            }
        }
    }
    proof {
        let post = v@.subrange(v0.len() as int, v@.len() as int);
        assert(post.len() == it0.splits@.len());
    }
}

/// opaque collaborator: the dictionary handle (only `lexicon()` is used here)
trait DictionaryAccess {
    spec fn sp_lexicon(&self) -> LexiconSet<'_>;
    fn lexicon(&self) -> (r: &LexiconSet<'_>) ensures *r == self.sp_lexicon();
}

//@extract sudachi/src/analysis/stateless_tokenizer.rs :: fn split_path
//@  rw R9 1 custom
//@  | for node in path \{
//@  > let mut __d = vec_into_iter(path); while __d.has_next() { let node = __d.take_next();
//@  rw R11 1 custom
//@  | new_path\.extend\(node\.split\(([^;]*)\)\);
//@  > extend_from_split(&mut new_path, node.split(\1));
//@  ret res
//@  spec
    requires
        path@.len() <= 0x1000_0000,
        // C09's hypothesis for every token that declares two or more units: they concatenate to the token's key
        forall|k: int| 0 <= k < path@.len() && decl_units(#[trigger] path@[k], mode).len() > 1 ==>
            units_fit_of(dict.sp_lexicon(), decl_units(path@[k], mode), subset, 0, path@[k].begin_bytes as int, path@[k].end_bytes as int, input.sp_len()),
    ensures
        res is Ok,
        mode == Mode::C ==> res->Ok_0@ == path@,
        mode != Mode::C ==> is_expansion(path@, res->Ok_0@, mode, dict.sp_lexicon(), subset, *input),
//@  atstart
    let ghost p0 = path@;
//@  before let mut __d = vec_into_iter(path);
    let ghost mut cuts: Seq<int> = seq![0int];
    proof { assert(p0.subrange(0, 0) =~= Seq::<ResultNode>::empty()); }
//@  loop 1
        invariant
            __d.items() == p0, 0 <= __d.pos() <= p0.len(), mode != Mode::C,
            forall|k: int| 0 <= k < p0.len() && decl_units(#[trigger] p0[k], mode).len() > 1 ==>
                units_fit_of(dict.sp_lexicon(), decl_units(p0[k], mode), subset, 0, p0[k].begin_bytes as int, p0[k].end_bytes as int, input.sp_len()),
            expansion_ok(p0.subrange(0, __d.pos()), new_path@, cuts, mode, dict.sp_lexicon(), subset, *input),
        decreases p0.len() - __d.pos()
//@  before let split_len = node.num_splits(mode);
        let ghost np0 = new_path@;
        let ghost k = __d.pos() - 1;
        proof { assert(node == p0[k]); }
//@  after new_path.push(node);
            proof {
                assert(new_path@.subrange(0, np0.len() as int) =~= np0);
                assert(new_path@.subrange(np0.len() as int, new_path@.len() as int) =~= seq![p0[k]]);
                lemma_expansion_push(p0.subrange(0, k), np0, cuts, p0[k], new_path@, mode, dict.sp_lexicon(), subset, *input);
                cuts = cuts.push(new_path@.len() as int);
                assert(p0.subrange(0, k).push(p0[k]) =~= p0.subrange(0, k + 1));
            }
//@  after extend_from_split(&mut new_path
            proof {
                let add = new_path@.subrange(np0.len() as int, new_path@.len() as int);
                assert forall|i: int| 0 <= i < add.len() implies #[trigger] add[i]
                    == sub_node(dict.sp_lexicon(), decl_units(p0[k], mode), subset, *input, p0[k].begin_bytes, p0[k].end_bytes, p0[k].inner.begin, p0[k].inner.end, i) by {
                    assert(add[i] == new_path@[np0.len() + i]);
                }
                assert(units_of(add, p0[k], mode, dict.sp_lexicon(), subset, *input)) by { reveal(units_of); }
                lemma_expansion_push(p0.subrange(0, k), np0, cuts, p0[k], new_path@, mode, dict.sp_lexicon(), subset, *input);
                cuts = cuts.push(new_path@.len() as int);
                assert(p0.subrange(0, k).push(p0[k]) =~= p0.subrange(0, k + 1));
            }
//@  afterloop 1
    proof { assert(p0.subrange(0, p0.len() as int) =~= p0); assert(expansion_ok(p0, new_path@, cuts, mode, dict.sp_lexicon(), subset, *input)); assert(is_expansion(p0, new_path@, mode, dict.sp_lexicon(), subset, *input)); }
//@end

// ---- MorphemeList (analysis/mlist.rs): the on-demand split API (C09)
//@include common/mlist_types.rs.inc
impl<T: DictionaryAccess> MorphemeList<T> {
//@extract sudachi/src/analysis/mlist.rs :: impl<T: DictionaryAccess> MorphemeList<T> :: fn split_into
//@  rw R11 1 custom
//@  | for n in (node\.split\([^;{}]*?\)) \{\s*data\.push\(n\);\s*\}
//@  > extend_from_split(data, \1);
//@  ret r
//@  spec
        requires
            index < self.nodes.data@.len(),
            // C09's hypothesis for the morpheme that is split: its declared units concatenate to its key
            decl_units(self.nodes.data@[index as int], mode).len() >= 1 ==> units_fit_of(self.dict.sp_lexicon(), decl_units(self.nodes.data@[index as int], mode),
                self.input.sp_subset(), 0, self.nodes.data@[index as int].begin_bytes as int, self.nodes.data@[index as int].end_bytes as int, self.input.sp_input().sp_len()),
        ensures
            r is Ok,
            ({
                let node = self.nodes.data@[index as int];
                let units = decl_units(node, mode);
                let d0 = old(out).nodes.data@;
                let d1 = final(out).nodes.data@;
                // a word declaring no unit: nothing was split, the output list is untouched
                &&& r->Ok_0 == (units.len() > 0)
                &&& (units.len() == 0 ==> *final(out) == *old(out))
                // otherwise exactly the declared units are APPENDED, the list now shares this list's text, and the units partition the parent
                &&& (units.len() > 0 ==> final(out).input == self.input && final(out).dict == old(out).dict
                        && d1.len() == d0.len() + units.len() && d1.subrange(0, d0.len() as int) == d0
                        && units_of(d1.subrange(d0.len() as int, d1.len() as int), node, mode, self.dict.sp_lexicon(), self.input.sp_subset(), self.input.sp_input())
                        && tiles(d1.subrange(d0.len() as int, d1.len() as int), node.begin_bytes as int, node.end_bytes as int, node.inner.begin as int, node.inner.end as int))
            }),
//@  atstart
        let ghost d0 = out.nodes.data@;
//@  after extend_from_split(data
            proof {
                let add = data@.subrange(d0.len() as int, data@.len() as int);
                assert forall|i: int| 0 <= i < add.len() implies #[trigger] add[i]
                    == sub_node(self.dict.sp_lexicon(), decl_units(*node, mode), subset, self.input.sp_input(), node.begin_bytes, node.end_bytes, node.inner.begin, node.inner.end, i) by {
                    assert(add[i] == data@[d0.len() + i]);
                }
                assert(units_of(add, *node, mode, self.dict.sp_lexicon(), self.input.sp_subset(), self.input.sp_input())) by { reveal(units_of); }
            }
//@end
}
/// C09: splitting a morpheme on demand yields the same sub-tokens as tokenising directly in that mode -- both are `units_of` the parent
/// (split_path: exp_elem; split_into: its postcondition) for the same dictionary, field request and text
proof fn theorem_split_api_is_direct(direct: Seq<ResultNode>, on_demand: Seq<ResultNode>, parent: ResultNode, mode: Mode, lex: LexiconSet, subset: InfoSubset, text: InputBuffer)
    requires units_of(direct, parent, mode, lex, subset, text), units_of(on_demand, parent, mode, lex, subset, text)
    ensures direct == on_demand
{
    reveal(units_of);
    assert(direct =~= on_demand);
}

} // verus!
fn main() {}
