// Demonstration for finding F7 (C07): append to sudachi/src/plugin/input_text/default_input_text/mod.rs and run
// `cargo test -p sudachi --lib verif_f7`.
// "the longest table key starting at a position is replaced by its value ... the optimised and the general code path agree"
#[cfg(test)]
mod verif_f7 {
    use super::*;
    fn plugin() -> DefaultInputTextPlugin {
        let mut p = DefaultInputTextPlugin::default();
        p.read_rewrite_lists("a x\nab y\n".as_bytes()).expect("rewrite table");
        p
    }
    fn rewrite(text: &str) -> String {
        let p = plugin();
        let mut buf = InputBuffer::from(text);
        p.rewrite(&mut buf).expect("rewrite");
        buf.current().to_owned()
    }
    #[test]
    fn verif_f7_longest_key_on_both_paths() {
        assert_eq!("y", rewrite("ab"), "optimised path (nothing to lowercase)");
        // the unrelated upper-case Z switches to the general path; the span `ab` must still become `y`
        assert_eq!("yz", rewrite("abZ"), "general path");
    }
}
