"""Small Rust-aware scanner: masks comments / strings / char literals, matches braces,
locates items by a path selector.  No parsing beyond what extraction needs.

All offsets are Python str indices (code points) into the original text; the masked text has
the same length and the same newlines, so offsets and line numbers agree between the two.
"""
import re


class ScanError(Exception):
    pass


def mask(src: str) -> str:
    """Return src with the *contents* of comments, string/char literals blanked out
    (delimiters of strings are kept as '"' so that token shapes survive)."""
    out = list(src)
    n = len(src)
    i = 0

    def blank(a, b):
        for k in range(a, b):
            if out[k] != '\n':
                out[k] = ' '

    while i < n:
        c = src[i]
        if c == '/' and i + 1 < n and src[i + 1] == '/':
            j = src.find('\n', i)
            if j < 0:
                j = n
            blank(i, j)
            i = j
        elif c == '/' and i + 1 < n and src[i + 1] == '*':
            depth = 1
            j = i + 2
            while j < n and depth > 0:
                if src.startswith('/*', j):
                    depth += 1
                    j += 2
                elif src.startswith('*/', j):
                    depth -= 1
                    j += 2
                else:
                    j += 1
            blank(i, j)
            i = j
        elif c == '"' or (c in 'br' and _raw_or_byte_string_at(src, i)):
            j = _string_end(src, i)
            # keep first and last char as quotes, blank the inside
            blank(i, j)
            out[i] = '"'
            out[j - 1] = '"'
            i = j
        elif c == "'":
            # char literal or lifetime
            if i + 1 < n and src[i + 1] == '\\':
                j = src.find("'", i + 2)
                # '\'' case
                if j == i + 2:
                    j = src.find("'", i + 3)
                if j < 0:
                    raise ScanError("unterminated char literal at %d" % i)
                blank(i + 1, j)
                i = j + 1
            elif i + 2 < n and src[i + 2] == "'":
                blank(i + 1, i + 2)
                i = i + 3
            else:
                i += 1  # lifetime
        elif c == 'b' and i + 1 < n and src[i + 1] == "'" and not (i > 0 and (src[i - 1].isalnum() or src[i - 1] == '_')):
            i += 1  # byte char literal: handled by the "'" branch next iteration
        else:
            i += 1
    return ''.join(out)


def _raw_or_byte_string_at(src, i):
    if i > 0 and (src[i - 1].isalnum() or src[i - 1] == '_'):
        return False
    m = re.match(r'(?:b?r#*"|b")', src[i:i + 12])
    return m is not None


def _string_end(src, i):
    m = re.match(r'(b?)(r?)(#*)"', src[i:i + 12])
    raw = m.group(2) == 'r'
    hashes = m.group(3)
    j = i + m.end()
    n = len(src)
    if raw:
        term = '"' + hashes
        k = src.find(term, j)
        if k < 0:
            raise ScanError("unterminated raw string at %d" % i)
        return k + len(term)
    while j < n:
        if src[j] == '\\':
            j += 2
        elif src[j] == '"':
            return j + 1
        else:
            j += 1
    raise ScanError("unterminated string at %d" % i)


OPEN = {'{': '}', '(': ')', '[': ']'}
CLOSE = {v: k for k, v in OPEN.items()}


def match_close(masked: str, i: int) -> int:
    """masked[i] is an opening bracket; return index of its matching close."""
    stack = []
    n = len(masked)
    j = i
    while j < n:
        c = masked[j]
        if c in OPEN:
            stack.append(c)
        elif c in CLOSE:
            if not stack or stack[-1] != CLOSE[c]:
                raise ScanError("unbalanced bracket at %d" % j)
            stack.pop()
            if not stack:
                return j
        j += 1
    raise ScanError("no matching close for bracket at %d" % i)


def find_body_open(masked: str, start: int, stop_chars='{;') -> int:
    """From `start`, find the first '{' (or ';') at paren/bracket depth 0 (angle brackets are
    not tracked; '{' never occurs inside generics in the code we extract)."""
    depth = 0
    j = start
    n = len(masked)
    while j < n:
        c = masked[j]
        if c in '([':
            depth += 1
        elif c in ')]':
            depth -= 1
        elif depth == 0 and c in stop_chars:
            return j
        j += 1
    raise ScanError("no body open after %d" % start)


def line_of(src: str, off: int) -> int:
    return src.count('\n', 0, off) + 1


def norm_ws(s: str) -> str:
    return re.sub(r'\s+', ' ', s).strip()


ITEM_KW = {
    'fn': r'(?:pub(?:\([^)]*\))?\s+)?(?:default\s+)?(?:const\s+)?(?:async\s+)?(?:unsafe\s+)?(?:extern\s+"[^"]*"\s+)?fn\s+%s\b',
    'struct': r'(?:pub(?:\([^)]*\))?\s+)?struct\s+%s\b',
    'enum': r'(?:pub(?:\([^)]*\))?\s+)?enum\s+%s\b',
    'trait': r'(?:pub(?:\([^)]*\))?\s+)?(?:unsafe\s+)?trait\s+%s\b',
    'const': r'(?:pub(?:\([^)]*\))?\s+)?const\s+%s\b',
    'static': r'(?:pub(?:\([^)]*\))?\s+)?static\s+(?:mut\s+)?%s\b',
    'type': r'(?:pub(?:\([^)]*\))?\s+)?type\s+%s\b',
    'macro': r'macro_rules!\s*%s\b',
    'mod': r'(?:pub(?:\([^)]*\))?\s+)?mod\s+%s\b',
}


class Region:
    def __init__(self, start, end):
        self.start, self.end = start, end  # [start, end) offsets of the region *contents*


def _depth0_positions(masked, region, regex):
    """Yield match objects of `regex` in region whose start is at brace depth 0 of the region."""
    depth = 0
    # precompute depth at each position lazily: walk once
    matches = [m for m in re.finditer(regex, masked[region.start:region.end])]
    if not matches:
        return []
    res = []
    pos = region.start
    mi = 0
    starts = [region.start + m.start() for m in matches]
    j = region.start
    for k, st in enumerate(starts):
        while j < st:
            c = masked[j]
            if c == '{':
                depth += 1
            elif c == '}':
                depth -= 1
            j += 1
        if depth == 0:
            res.append((st, region.start + matches[k].end()))
    return res


def _is_cfg_test(src, masked, item_start):
    """True if the lines of attributes immediately above item_start contain #[cfg(test)]."""
    # walk upward over attribute / doc lines
    pre = src[:item_start]
    lines = pre.split('\n')
    # last element is the partial line before item (qualifiers); attributes are on earlier lines
    k = len(lines) - 2
    while k >= 0:
        t = lines[k].strip()
        if t.startswith('#['):
            if re.match(r'#\[cfg\(test\)\]', t):
                return True
            k -= 1
        elif t.startswith('///') or t.startswith('//') or t == '':
            if t == '':
                break
            k -= 1
        else:
            break
    return False


def locate(src: str, selector: str):
    """Locate an item.  selector: segments joined by ' :: ', e.g.
         'fn add_replace'
         'impl Lattice :: fn connect_node'
         "impl<'a> Iterator for TrieEntryIter<'a> :: fn next"
         'struct ReplaceOp', 'const MAX_LENGTH', 'macro parse_field', 'mod x :: fn y'
    Returns (start, end, attrs) offsets of the item text (from its first qualifier keyword to
    the closing brace / semicolon inclusive) and the list of attribute lines above it."""
    masked = mask(src)
    segs = [s.strip() for s in selector.split(' :: ')]
    regions = [Region(0, len(src))]
    for si, seg in enumerate(segs):
        last = si == len(segs) - 1
        kw, _, name = seg.partition(' ')
        found = []
        if kw.startswith('impl'):
            want = norm_ws(seg)
            for reg in regions:
                for (st, en) in _depth0_positions(masked, reg, r'\b(?:unsafe\s+)?impl\b'):
                    ob = find_body_open(masked, st, '{')
                    hdr = norm_ws(src[st:ob])
                    if hdr == want or hdr == 'unsafe ' + want:
                        if _is_cfg_test(src, masked, st):
                            continue
                        cl = match_close(masked, ob)
                        found.append((st, ob, cl))
            if not found:
                raise ScanError("lost anchor: no `%s`" % seg)
            if last:
                if len(found) != 1:
                    raise ScanError("ambiguous anchor: %d x `%s`" % (len(found), seg))
                st, ob, cl = found[0]
                return st, cl + 1, _attrs_above(src, st)
            regions = [Region(ob + 1, cl) for (st, ob, cl) in found]
            continue
        if kw not in ITEM_KW:
            raise ScanError("bad selector segment `%s`" % seg)
        rx = ITEM_KW[kw] % re.escape(name.strip())
        for reg in regions:
            for (st, en) in _depth0_positions(masked, reg, rx):
                # must start at a token boundary
                if st > 0 and (masked[st - 1].isalnum() or masked[st - 1] == '_'):
                    continue
                if _is_cfg_test(src, masked, st):
                    continue
                if kw in ('const', 'static', 'type'):
                    # `const fn` is matched by 'fn', not here
                    endc = find_body_open(masked, en, ';')
                    found.append((st, None, endc))
                elif kw == 'macro':
                    ob = find_body_open(masked, en, '{(')
                    cl = match_close(masked, ob)
                    found.append((st, ob, cl))
                else:
                    ob = find_body_open(masked, en, '{;')
                    if masked[ob] == ';':
                        found.append((st, None, ob))
                    else:
                        cl = match_close(masked, ob)
                        found.append((st, ob, cl))
        if not found:
            raise ScanError("lost anchor: no `%s` (selector `%s`)" % (seg, selector))
        if last:
            if len(found) != 1:
                raise ScanError("ambiguous anchor: %d x `%s` (selector `%s`)" % (len(found), seg, selector))
            st, ob, cl = found[0]
            return st, cl + 1, _attrs_above(src, st)
        regions = [Region(ob + 1, cl) for (st, ob, cl) in found if ob is not None]
    raise ScanError("empty selector")


def _attrs_above(src, item_start):
    pre = src[:item_start]
    lines = pre.split('\n')
    k = len(lines) - 2
    attrs = []
    while k >= 0:
        t = lines[k].strip()
        if t.startswith('#['):
            attrs.append(t)
            k -= 1
        elif t.startswith('//'):
            k -= 1
        else:
            break
    attrs.reverse()
    return attrs


def split_top_commas(masked: str, s: str):
    """Split s at commas that are at bracket depth 0 (masked is mask(s))."""
    parts = []
    depth = 0
    cur = 0
    for i, c in enumerate(masked):
        if c in '([{':
            depth += 1
        elif c in ')]}':
            depth -= 1
        elif c == ',' and depth == 0:
            parts.append(s[cur:i])
            cur = i + 1
    parts.append(s[cur:])
    return parts
