#!/bin/bash
# usage: seed_keep.sh <ID> <name> <property> "<needs>" "<ran>" "<caught by>"
ID=$1; NAME=$2; PROP=$3; NEEDS=$4; RAN=$5; CAUGHT=$6
D=/verif/seeded/$NAME
mkdir -p $D
cp /tmp/seed/${ID}_patch.diff $D/patch.diff
cp /tmp/seed/${ID}_demo.diff $D/demo.diff
cp /tmp/seed/${ID}_notes.md $D/notes.md 2>/dev/null
python3 - "$D" "$PROP" "$NEEDS" "$RAN" "$CAUGHT" <<'PY'
import json,sys
d,prop,needs,ran,caught=sys.argv[1:6]
json.dump({"property":prop,"breaks":prop,"needs_to_manifest":needs,"what_i_ran":ran,"caught_by":caught,
           "files":{"patch":"patch.diff","demonstration":"demo.diff","notes":"notes.md"}}, open(d+"/meta.json","w"), indent=1, ensure_ascii=False)
PY
echo kept $D
