// UNIT V-CONT (C13, C03): input_text/buffer/mod.rs  fill_cat_continuity  (+ get_word_candidate_length, can_bow)
use vstd::prelude::*;
use vstd::utf8::*;
use vstd::string::*;
use std::ops::Range;
verus! {
global size_of usize == 8;
//@include common/category_type.rs.inc
//@extract sudachi/src/input_text/buffer/edit.rs :: struct ReplaceOp
//@end
//@extract sudachi/src/input_text/buffer/edit.rs :: enum ReplaceTgt
//@end
//@extract sudachi/src/input_text/buffer/mod.rs :: enum BufferState
//@  derive Clone, PartialEq, Eq, Structural
//@end
//@extract sudachi/src/input_text/buffer/mod.rs :: struct InputBuffer
//@  rw R1p 1 custom
//@  | edit::ReplaceOp
//@  > ReplaceOp
//@end
//@include specs/cont_specs.rs.inc

impl InputBuffer {
//@extract sudachi/src/input_text/buffer/mod.rs :: impl InputBuffer :: fn fill_cat_continuity
//@  rw R16 1 custom
//@  | cat & self\.mod_cat\[end\]
//@  > cat.intersection(self.mod_cat[end])
//@  rw R7 1
//@  specfile specs/fill_cat_continuity.contract
//@  atstart
        let ghost c = self.mod_cat@;
//@  loop 1
            invariant
                c == self.mod_cat@, len == c.len(), self.mod_chars@ == old(self).mod_chars@, self.mod_cat_continuity@.len() == len, other_tables_same(*old(self), *self),
                start <= len, is_start(c, start as int),
                forall|j: int| 0 <= j < start ==> #[trigger] cont_ok(c, self.mod_cat_continuity@, j),
                forall|j: int| 0 <= j < start ==> 1 <= #[trigger] self.mod_cat_continuity@[j] <= len - j,
            decreases len - start
//@  loop 2
                invariant
                    c == self.mod_cat@, len == c.len(), start < end <= len,
                    cat.bits == common(c, start as int, end as int),
                    end > start + 1 ==> cat.bits != 0,
                ensures
                    start < end <= len,
                    end > start + 1 ==> common(c, start as int, end as int) != 0,
                    end == len || common(c, start as int, end + 1) == 0,
                decreases len - end
//@  before let mut end = start + 1;
            proof {
                assert(common(c, start as int, start as int) == 0xffff_ffffu32);
                let b = c[start as int].bits;
                assert(0xffff_ffffu32 & b == b) by (bit_vector);
                assert(common(c, start as int, start + 1) == b);
            }
//@  before let mut __it_i
            let ghost cont0 = self.mod_cat_continuity@;
            proof { assert(is_run(c, start as int, end as int)); assert(cont0.len() == len); }
//@  loop 3
                invariant
                    c == self.mod_cat@, len == c.len(), start < end <= len, __end_i == end, start <= __it_i <= end,
                    self.mod_cat_continuity@.len() == len, self.mod_chars@ == old(self).mod_chars@, cont0.len() == len, other_tables_same(*old(self), *self),
                    forall|j: int| 0 <= j < start ==> self.mod_cat_continuity@[j] == cont0[j],
                    forall|j: int| start <= j < __it_i ==> #[trigger] self.mod_cat_continuity@[j] == end - j,
                decreases end - __it_i
//@  afterloop 3
            proof {
                let cont1 = self.mod_cat_continuity@;
                assert forall|j: int| 0 <= j < end implies #[trigger] cont_ok(c, cont1, j) by {
                    if j < start {
                        assert(cont_ok(c, cont0, j));
                        let (s, e) = choose|s: int, e: int| #[trigger] is_run(c, s, e) && is_start(c, s) && s <= j < e && cont0[j] == e - j;
                        assert(is_run(c, s, e) && is_start(c, s) && s <= j < e && cont1[j] == e - j);
                    } else {
                        assert(is_run(c, start as int, end as int) && is_start(c, start as int) && start <= j < end && cont1[j] == end - j);
                    }
                }
                assert(is_start(c, end as int));
                assert forall|j: int| 0 <= j < end implies 1 <= #[trigger] cont1[j] <= len - j by {
                    if j < start { assert(cont1[j] == cont0[j]); }
                }
            }
//@end
}
} // verus!
fn main() {}
