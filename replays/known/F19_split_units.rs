// F19 (C06 / C03, known finding, not repaired): demonstration against the real code.  Append to
// sudachi/src/dic/build/test/with_analysis.rs in a scratch copy of /repo and run
//   cargo test --offline -p sudachi --lib verif_bad_units -- --nocapture
// The lexicon compiles and loads although the B/A units of 京都 (rows 0 and 1: "x" + "都") do not concatenate to its key.  Mode A
// analysis then returns morphemes whose surface() panics ("end is off char boundary", input_text/buffer/mod.rs orig_slice); with
// units LONGER than the word the analysis itself panics (index out of bounds in InputBuffer::ch_idx).
#[cfg(test)]
mod verif_bad_units {
    use super::*;
    #[test]
    fn bad_units() {
        let lex = "x,6,6,5293,京,名詞,固有名詞,地名,一般,*,*,キョウ,京,*,A,*,*,*,*\n都,8,8,2914,都,名詞,普通名詞,一般,*,*,*,ト,都,*,A,*,*,*,*\n京都,6,8,5320,京都,名詞,固有名詞,地名,一般,*,*,キョウト,京都,*,B,0/1,*,0/1,1/5\n五,9,9,2478,五,名詞,数詞,*,*,*,*,ゴ,五,*,A,*,*,*,*\n";
        let mut cfgb = ConfigTestSupport::new();
        let mut dic = DictBuilder::new_system();
        dic.read_conn(super::super::MATRIX_10_10).unwrap();
        dic.read_lexicon(lex.as_bytes()).unwrap();
        dic.resolve().unwrap();
        dic.compile(&mut cfgb.make_system()).unwrap();
        let jd = JapaneseDictionary::from_cfg(&cfgb.config()).unwrap();
        let tok = StatelessTokenizer::new(&jd);
        for mode in [Mode::C, Mode::B, Mode::A] {
            let res = tok.tokenize("京都", mode, false).unwrap();
            for m in res.iter() { eprintln!("{:?}: {}..{} {:?}", mode, m.begin(), m.end(), &*m.surface()); }
        }
    }
}
