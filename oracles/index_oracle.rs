    // Replay oracle for V-IDX / C04 as a whole: "lookup returns exactly the entries that prefix-match the text" - every small lexicon is
    // compiled with the real DictBuilder, loaded with the real reader, and lookup at every offset of every small text is compared
    // with a naive scan of the source rows.  BOUNDED: lexicons of up to 4 rows drawn from 6 keys x {indexed, not indexed}, texts of up
    // to 3 characters over 3 letters.
    use crate::dic::DictionaryLoader;

    const POS_TAIL: &str = "名詞,固有名詞,地名,一般,*,*,ヨミ,*,*,A,*,*,*,*";
    fn csv(rows: &[(&str, bool)]) -> String {
        let mut s = String::new();
        for (surf, indexed) in rows { let id = if *indexed { 0 } else { -1 }; s.push_str(&format!("{},{},{},100,{},{}\n", surf, id, id, surf, POS_TAIL)); }
        s
    }
    #[test]
    fn verif_oracle_lookup_equals_naive_scan() {
        let keys = ["東", "京", "東京", "京都", "東京都", "都"];
        let letters = ["東", "京", "都"];
        let mut texts: Vec<String> = Vec::new();
        for a in letters.iter() { texts.push(a.to_string()); for b in letters.iter() { texts.push(format!("{}{}", a, b)); for c in letters.iter() { texts.push(format!("{}{}{}", a, b, c)); } } }
        let choices: Vec<(&str, bool)> = keys.iter().flat_map(|k| [(*k, true), (*k, false)]).collect();
        let mut failures = Vec::new();
        let mut cases = 0usize;
        let n = choices.len();
        for len in 1..=4usize {
            let total = n.pow(len as u32);
            let step = if len == 4 { 7 } else { 1 }; // thin out the largest layer
            let mut code = 0usize;
            while code < total {
                let mut c = code;
                let rows: Vec<(&str, bool)> = (0..len).map(|_| { let r = choices[c % n]; c /= n; r }).collect();
                code += step;
                if !rows.iter().any(|r| r.1) { continue; } // a dictionary needs at least one indexed row
                let mut bldr = DictBuilder::new_system();
                bldr.read_conn("1 1\n0 0 0\n".as_bytes()).unwrap();
                bldr.read_lexicon(csv(&rows).as_bytes()).unwrap();
                bldr.resolve().unwrap();
                let mut bin = Vec::new();
                bldr.compile(&mut bin).unwrap();
                let dic = DictionaryLoader::read_system_dictionary(&bin).unwrap().to_loaded().unwrap();
                for t in texts.iter() { for off in 0..t.len() {
                    if !t.is_char_boundary(off) { continue; }
                    cases += 1;
                    let mut got: Vec<(u8, u32, usize)> = dic.lexicon_set.lookup(t.as_bytes(), off).map(|e| (e.word_id.dic(), e.word_id.word(), e.end)).collect();
                    got.sort();
                    let mut want: Vec<(u8, u32, usize)> = rows.iter().enumerate().filter(|(_, r)| r.1 && t.as_bytes()[off..].starts_with(r.0.as_bytes())).map(|(i, r)| (0u8, i as u32, off + r.0.len())).collect();
                    want.sort();
                    if got != want && failures.len() < 20 {
                        failures.push(format!("lexicon rows (key, indexed) {:?}: lookup({:?}, {}) = (dic, word, end) {:?}, a scan of the rows gives {:?}", rows, t, off, got, want));
                    }
                }}
            }
        }
        println!("verif_oracle_lookup_equals_naive_scan: {} cases, {} failures", cases, failures.len());
        for f in failures.iter().take(5) { println!("FAILING INPUT: {}", f); }
        assert!(failures.is_empty());
    }

    /// many words under one key: for every count n of indexed homographs of 東京 from 1 to 127 (the format's maximum) - with a non-indexed
    /// 東京, a shorter and a longer key around them - lookup reports all n words, each once, and nothing else
    #[test]
    fn verif_oracle_homograph_counts() {
        let mut failures = Vec::new();
        for n in 1..=127usize {
            let mut rows: Vec<(&str, bool)> = vec![("東", true), ("東京", false)];
            for _ in 0..n { rows.push(("東京", true)); }
            rows.push(("東京都", true));
            let mut bldr = DictBuilder::new_system();
            bldr.read_conn("1 1\n0 0 0\n".as_bytes()).unwrap();
            bldr.read_lexicon(csv(&rows).as_bytes()).unwrap();
            bldr.resolve().unwrap();
            let mut bin = Vec::new();
            bldr.compile(&mut bin).unwrap();
            let dic = DictionaryLoader::read_system_dictionary(&bin).unwrap().to_loaded().unwrap();
            let t = "東京都";
            let mut got: Vec<(u8, u32, usize)> = dic.lexicon_set.lookup(t.as_bytes(), 0).map(|e| (e.word_id.dic(), e.word_id.word(), e.end)).collect();
            got.sort();
            let mut want: Vec<(u8, u32, usize)> = rows.iter().enumerate().filter(|(_, r)| r.1 && t.as_bytes().starts_with(r.0.as_bytes())).map(|(i, r)| (0u8, i as u32, r.0.len())).collect();
            want.sort();
            if got != want && failures.len() < 10 { failures.push(format!("{} indexed homographs of 東京: lookup(東京都, 0) reports {} entries {:?}..., the rows give {}", n, got.len(), got.iter().take(4).collect::<Vec<_>>(), want.len())); }
        }
        println!("verif_oracle_homograph_counts: 127 lexicons, {} failures", failures.len());
        for f in failures.iter().take(5) { println!("FAILING INPUT: {}", f); }
        assert!(failures.is_empty());
    }
