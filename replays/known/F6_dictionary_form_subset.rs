// Demonstration for finding F6 (C11): append to sudachi/src/dic/build/test/with_analysis.rs and run
// `cargo test -p sudachi --lib verif_f6`.
// The dictionary form of a word that is its own dictionary form must not depend on which other fields were requested.
#[cfg(test)]
mod verif_f6 {
    use super::*;
    #[test]
    fn verif_f6_dictionary_form_with_subset() {
        let mut cfgb = ConfigTestSupport::new();
        let mut dic = DictBuilder::new_system();
        dic.read_conn(super::super::MATRIX_10_10).unwrap();
        dic.read_lexicon(SYSTEM_LEX).unwrap();
        dic.resolve().unwrap();
        dic.compile(&mut cfgb.make_system()).unwrap();
        let jd = JapaneseDictionary::from_cfg(&cfgb.config()).unwrap();

        let mut full = StatefulTokenizer::new(&jd, Mode::C);
        full.reset().push_str("東京にいく");
        full.do_tokenize().unwrap();
        let full = full.into_morpheme_list().unwrap();

        let mut part = StatefulTokenizer::new(&jd, Mode::C);
        part.set_subset(InfoSubset::DIC_FORM_WORD_ID);
        part.reset().push_str("東京にいく");
        part.do_tokenize().unwrap();
        let part = part.into_morpheme_list().unwrap();

        assert_eq!(full.len(), part.len());
        for i in 0..full.len() {
            assert_eq!(full.get(i).dictionary_form(), part.get(i).dictionary_form(), "dictionary form of token {}", i);
        }
    }
}
