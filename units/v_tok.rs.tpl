// UNIT V-TOK (C10, C09, C11): analysis/stateful_tokenizer.rs  StatefulTokenizer::reset / set_mode / set_subset / mode / set_debug
use vstd::prelude::*;
use vstd::string::*;
use std::ops::Range;
verus! {
global size_of usize == 8;
//@include common/error.rs.inc
//@include common/wordid_stub.rs.inc
//@include common/info_subset.rs.inc
//@include common/node_types.rs.inc
//@extract sudachi/src/analysis/inner.rs :: struct NodeIdx
//@end
//@extract sudachi/src/analysis/mod.rs :: enum Mode
//@  derive Clone, Copy, PartialEq, Eq, Structural
//@end
/// assumed std contract of std::mem::replace
pub assume_specification<T> [std::mem::replace] (dest: &mut T, src: T) -> (r: T)
    ensures r == *old(dest), *final(dest) == src;
/// opaque collaborators; their reset contracts are discharged in units v_buf0 (InputBuffer::reset => buf_clean) and v_lattice
#[verifier::external_body] pub struct InputBuffer { _p: () }
impl InputBuffer {
    uninterp spec fn sp_clean(&self) -> bool;
    #[verifier::external_body] fn reset(&mut self) -> (r: &mut String) ensures final(self).sp_clean() { unimplemented!() }
}
#[verifier::external_body] pub struct Lattice { _p: () }
spec fn normalized(s: u32) -> bool {
    &&& ((s & 8u32 == 8u32 || s & 16u32 == 16u32 || s & 32u32 == 32u32) ==> s & 1u32 == 1u32)
    &&& ((s & 64u32 == 64u32 || s & 128u32 == 128u32) ==> s & 2u32 == 2u32)
}
impl InfoSubset {
// contract discharged on the real body in unit v_winfo
//@extract sudachi/src/dic/subset.rs :: impl InfoSubset :: fn normalize
//@  stub v_winfo
//@  rw R10 1 custom
//@  | \(mut self\)
//@  > (self)
//@  ret r
//@  specfile specs/normalize.contract
//@end
}

//@extract sudachi/src/analysis/stateful_tokenizer.rs :: struct StatefulTokenizer
//@end

/// the split field a mode needs
spec fn mode_bits(m: Mode) -> u32 { match m { Mode::A => 64u32, Mode::B => 128u32, Mode::C => 0u32 } }

impl<D> StatefulTokenizer<D> {
//@extract sudachi/src/analysis/stateful_tokenizer.rs :: impl<D: DictionaryAccess> StatefulTokenizer<D> :: fn set_mode
//@  rw R16 1 custom
//@  | self\.subset \|= match mode \{
//@  > self.subset = self.subset.union(match mode {
//@  rw R16 1 custom
//@  | _ => InfoSubset::empty\(\),\n        \};\n        std::mem::replace\(&mut self\.mode
//@  > _ => InfoSubset::empty(),\n        });\n        std::mem::replace(&mut self.mode
//@  ret r
//@  spec
        requires old(self).subset.bits < 1024,
        ensures
            r == old(self).mode, final(self).mode == mode,
            // the field subset only grows, and always contains the split field of the current mode
            final(self).subset.bits == (old(self).subset.bits | mode_bits(mode)), final(self).subset.bits < 1024,
            final(self).top_path == old(self).top_path, final(self).oov == old(self).oov, final(self).input == old(self).input,
//@  atstart
        proof { let s = self.subset.bits; assert((s | 64u32) < 1024u32 && (s | 128u32) < 1024u32 && (s | 0u32) == s) by (bit_vector) requires s < 1024u32; }
//@end

//@extract sudachi/src/analysis/stateful_tokenizer.rs :: impl<D: DictionaryAccess> StatefulTokenizer<D> :: fn mode
//@  ret r
//@  spec
        ensures r == self.mode
//@end

//@extract sudachi/src/analysis/stateful_tokenizer.rs :: impl<D: DictionaryAccess> StatefulTokenizer<D> :: fn set_subset
//@  rw R16 1 custom
//@  | \(subset \| mode_subset\)\.normalize\(\)
//@  > subset.union(mode_subset).normalize()
//@  rw R16 * custom
//@  | new_subset \| mode_subset
//@  > new_subset.union(mode_subset)
//@  ret r
//@  spec
        requires subset.bits < 1024,
        ensures
            r == old(self).subset, final(self).mode == old(self).mode,
            // the stored request contains everything asked for plus the split field of the mode, is normalised, and adds
            // nothing but SURFACE / HEAD_WORD_LENGTH / the split field: it does not depend on the previous request
            final(self).subset.bits & subset.bits == subset.bits,
            final(self).subset.bits & mode_bits(old(self).mode) == mode_bits(old(self).mode),
            normalized(final(self).subset.bits), final(self).subset.bits < 1024,
            final(self).subset.bits & !(subset.bits | mode_bits(old(self).mode) | 3u32) == 0,
            final(self).top_path == old(self).top_path, final(self).oov == old(self).oov, final(self).input == old(self).input,
//@  atstart
        proof {
            let s = subset.bits;
            assert((s | 0u32) < 1024u32 && (s | 64u32) < 1024u32 && (s | 128u32) < 1024u32) by (bit_vector) requires s < 1024u32;
            assert(forall|m: u32, n: u32| #![auto] (m == 0u32 || m == 64u32 || m == 128u32) && s < 1024u32 && n < 1024u32 && n & (s | m) == (s | m) && n & !((s | m) | 3u32) == 0
                && ((n & 64u32 == 64u32 || n & 128u32 == 128u32) ==> n & 2u32 == 2u32) && ((n & 8u32 == 8u32 || n & 16u32 == 16u32 || n & 32u32 == 32u32) ==> n & 1u32 == 1u32)
                ==> ((s | m) < 1024u32 && (n | m) == n && n & s == s && n & m == m && n & !(s | m | 3u32) == 0)) by (bit_vector);
        }
//@end

//@extract sudachi/src/analysis/stateful_tokenizer.rs :: impl<D: DictionaryAccess> StatefulTokenizer<D> :: fn reset
//@  rw R14s * custom
//@  | self\.top_path\.as_mut\(\)\.map\(\|p\| p\.clear\(\)\);
//@  > if let Some(p) = self.top_path.as_mut() { p.clear(); }
//@  ret r
//@  spec
        ensures
            // C10: whatever was analysed before, the result path and the OOV scratch are empty and the input buffer is clean
            final(self).top_path is Some ==> final(self).top_path->Some_0@.len() == 0,
            (old(self).top_path is Some) == (final(self).top_path is Some),
            final(self).oov@.len() == 0, final(self).input.sp_clean(),
            final(self).mode == old(self).mode, final(self).subset == old(self).subset,
//@end
}
} // verus!
fn main() {}
