"""Run Verus on a generated unit file, map the results back to obligations."""
import json
import os
import re
import subprocess
import time
from . import rscan, extract

VERUS = 'verus'

KIND_BY_MSG = [
    ('postcondition not satisfied', 'ensures'),
    ('precondition not satisfied', 'requires@call'),
    ('invariant not satisfied at end of loop body', 'invariant:preserved'),
    ('invariant not satisfied before loop', 'invariant:init'),
    ('loop invariant not satisfied', 'invariant'),
    ('assertion failed', 'assert'),
    ('requires not satisfied', 'assert:by-requires'),
    ('possible arithmetic underflow/overflow', 'safety:overflow'),
    ('possible division by zero', 'safety:div0'),
    ('decreases not satisfied', 'termination'),
    ('unable to prove assertion safety', 'safety'),
    ('possible bit shift underflow/overflow', 'safety:shift'),
    ('recommendation not met', None),
]

UNDECIDED_PAT = re.compile(r'rlimit|Resource limit|timed? ?out|could not complete|solver (?:error|crash)', re.I)


class FnInfo:
    def __init__(self, name, start_line, end_line, mode):
        self.name, self.start_line, self.end_line, self.mode = name, start_line, end_line, mode
        self.ensures = 0
        self.requires = 0
        self.invariants = 0
        self.asserts = 0
        self.decreases = 0
        self.has_body = True
        self.external = False
        self.admits = False

    def obligations(self):
        if self.external or not self.has_body or self.mode == 'spec' or self.admits:
            return 0
        return self.ensures + 2 * self.invariants + self.asserts + self.decreases + (1 if self.mode == 'exec' else 0)


def _count_clauses(masked, text):
    parts = rscan.split_top_commas(masked, text)
    return len([p for p in parts if p.strip()])


def scan_functions(gen_text):
    """Find every fn in the generated file with its clause counts (textual, after masking)."""
    masked = rscan.mask(gen_text)
    fns = []
    for m in re.finditer(r'\bfn\s+(\w+)', masked):
        name = m.group(1)
        # mode: look back on the same item for 'spec'/'proof'
        ls = masked.rfind('\n', 0, m.start()) + 1
        prefix = masked[ls:m.start()]
        mode = 'exec'
        if re.search(r'\bspec\b', prefix):
            mode = 'spec'
        elif re.search(r'\bproof\b', prefix):
            mode = 'proof'
        try:
            ob = rscan.find_body_open(masked, m.end(), '{;')
        except rscan.ScanError:
            continue
        f = FnInfo(name, rscan.line_of(gen_text, m.start()), None, mode)
        # external_body attribute in the few lines above
        above = gen_text[max(0, ls - 400):ls]
        tail_attrs = above.split('\n')[-4:]
        if any('external_body' in a or 'verifier::external' in a for a in tail_attrs):
            f.external = True
        sig = masked[m.end():ob]
        sig_t = gen_text[m.end():ob]
        # the signature's spec clauses start after the parameter list / return type
        kws = [(mm.start(), mm.group(1)) for mm in re.finditer(r'\b(requires|ensures|decreases|recommends|returns)\b', sig)]
        for idx, (pos, kw) in enumerate(kws):
            endp = kws[idx + 1][0] if idx + 1 < len(kws) else len(sig)
            n = _count_clauses(sig[pos + len(kw):endp], sig_t[pos + len(kw):endp])
            if kw == 'ensures':
                f.ensures += n
            elif kw == 'requires':
                f.requires += n
            elif kw == 'decreases':
                f.decreases += 1
        if masked[ob] == ';':
            f.has_body = False
            f.end_line = rscan.line_of(gen_text, ob)
        else:
            cl = rscan.match_close(masked, ob)
            f.end_line = rscan.line_of(gen_text, cl)
            body = masked[ob:cl]
            body_t = gen_text[ob:cl]
            for mm in re.finditer(r'\binvariant\b', body):
                # clauses up to the next 'decreases' / 'ensures' / '{' at depth 0
                depth = 0
                j = mm.end()
                while j < len(body):
                    c = body[j]
                    if c in '([':
                        depth += 1
                    elif c in ')]':
                        depth -= 1
                    elif c == '{' and depth == 0:
                        # block-valued clause ({ ... }) is wrapped in parens, so a bare '{' ends the list
                        break
                    elif depth == 0 and (body.startswith('decreases', j) or body.startswith('ensures', j)) and not (body[j - 1].isalnum() or body[j - 1] == '_'):
                        break
                    j += 1
                f.invariants += _count_clauses(body[mm.end():j], body_t[mm.end():j])
            f.asserts += len(re.findall(r'\bassert\s*(?:\(|forall\b)', body))
            f.admits = re.search(r'\badmit\s*\(', body) is not None
            f.decreases += len(re.findall(r'\bdecreases\b', body))
        fns.append(f)
    return fns


def collect_trusted(gen_text):
    """Scan the generated file for everything that is assumed rather than proved."""
    masked = rscan.mask(gen_text)
    out = []
    for m in re.finditer(r'#\[verifier::external_body\]', masked):
        mm = re.search(r'\b(fn|struct)\s+(\w+)', masked[m.end():m.end() + 400])
        if mm:
            ls = gen_text.rfind('\n', 0, gen_text.rfind('\n', 0, m.start())) + 1
            prevline = gen_text[ls:m.start()]
            sm = re.search(r'STUB-OF (\w+): contract discharged on the real body in unit (\w+)', prevline)
            if sm:
                out.append('stub fn %s (contract discharged on the real body in unit %s; identical contract file)' % (sm.group(1), sm.group(2)))
            else:
                out.append('external_body %s %s' % (mm.group(1), mm.group(2)))
    for m in re.finditer(r'assume_specification\s*(?:<[^>]*>)?\s*\[([^\]]+)\]', masked):
        out.append('assume_specification %s' % rscan.norm_ws(gen_text[m.start(1):m.end(1)]))
    for m in re.finditer(r'\buninterp\s+spec\s+fn\s+(\w+)', masked):
        out.append('uninterpreted spec fn %s' % m.group(1))
    for m in re.finditer(r'\badmit\s*\(\s*\)', masked):
        # name of the enclosing fn
        pre = masked[:m.start()]
        fm = list(re.finditer(r'\bfn\s+(\w+)', pre))
        out.append('admit() in %s' % (fm[-1].group(1) if fm else '?'))
    for m in re.finditer(r'\bassume\s*\(', masked):
        pre = masked[:m.start()]
        fm = list(re.finditer(r'\bfn\s+(\w+)', pre))
        out.append('assume(..) in %s' % (fm[-1].group(1) if fm else '?'))
    for m in re.finditer(r'\bglobal\s+size_of\s+usize\s*==\s*(\d+)', masked):
        out.append('global size_of usize == %s (64-bit host)' % m.group(1))
    return sorted(set(out))


class UnitRun:
    def __init__(self):
        self.unit = None
        self.gen_path = None
        self.cmd = None
        self.rc = None
        self.wall_s = 0.0
        self.summary = {}
        self.fn_results = {}     # verus function path -> {success, time_ms, mode}
        self.errors = []         # mapped verification failures
        self.compile_errors = [] # type errors etc -> undecided
        self.undecided = []      # rlimit etc
        self.fns = []            # FnInfo
        self.trusted = []
        self.rewrites = []
        self.items = []
        self.stderr_tail = ''


def generate(tpl_path, repo_root, out_path, canary=False):
    res = extract.process_template(tpl_path, repo_root, canary=canary)
    text = extract.render(res)
    os.makedirs(os.path.dirname(out_path), exist_ok=True)
    with open(out_path, 'w', encoding='utf-8') as f:
        f.write(text)
    return res, text


def run_verus(gen_path, rlimit=None, seed=None, timeout=900, extra=None, multiple=5):
    cmd = [VERUS, os.path.basename(gen_path), '--output-json', '--time', '--error-format=json', '--multiple-errors', str(multiple)]
    if rlimit:
        cmd += ['--rlimit', str(rlimit)]
    if seed is not None:
        cmd += ['--smt-option', 'smt.random_seed=%d' % seed, '--smt-option', 'sat.random_seed=%d' % seed]
    if extra:
        cmd += extra
    t0 = time.time()
    try:
        p = subprocess.run(cmd, cwd=os.path.dirname(gen_path), capture_output=True, text=True, timeout=timeout)
        rc, out, err = p.returncode, p.stdout, p.stderr
    except subprocess.TimeoutExpired as e:
        rc, out, err = 124, (e.stdout or b'').decode('utf-8', 'replace') if isinstance(e.stdout, bytes) else (e.stdout or ''), 'TIMEOUT after %ds' % timeout
    return cmd, rc, out, err, time.time() - t0


def parse_run(unit, res, text, gen_path, cmd, rc, out, err, wall):
    ur = UnitRun()
    ur.unit, ur.gen_path, ur.cmd, ur.rc, ur.wall_s = unit, gen_path, ' '.join(cmd), rc, wall
    ur.fns = scan_functions(text)
    ur.trusted = collect_trusted(text)
    ur.rewrites = res.rewrites
    ur.items = res.items
    ur.stderr_tail = err[-4000:]
    try:
        js = json.loads(out) if out.strip() else {}
    except json.JSONDecodeError:
        # sometimes rustc prints non-json before; take from first '{'
        try:
            js = json.loads(out[out.index('{'):])
        except Exception:
            js = {}
    ur.summary = js.get('verification-results', {})
    try:
        for mod in js['times-ms']['smt']['smt-run-module-times']:
            for fb in mod.get('function-breakdown', []):
                ur.fn_results[fb['function']] = {'success': fb['success'], 'time_ms': fb.get('time', 0), 'mode': fb.get('mode:', fb.get('mode', '')), 'rlimit': fb.get('rlimit', 0)}
    except (KeyError, TypeError):
        pass
    ur.smt_ms = 0
    try:
        ur.smt_ms = js['times-ms']['smt']['total']
        ur.total_ms = js['times-ms']['total']
    except (KeyError, TypeError):
        ur.total_ms = int(wall * 1000)
    lines = text.split('\n')
    for dl in err.split('\n'):
        dl = dl.strip()
        if not dl.startswith('{'):
            if dl and UNDECIDED_PAT.search(dl):
                ur.undecided.append(dl[:300])
            continue
        try:
            d = json.loads(dl)
        except json.JSONDecodeError:
            continue
        if d.get('level') != 'error':
            continue
        msg = d.get('message', '')
        if msg.startswith('aborting due to'):
            continue
        if UNDECIDED_PAT.search(msg):
            ur.undecided.append(msg[:300])
            continue
        kind = None
        known_msg = False
        for (pat, k) in KIND_BY_MSG:
            if pat in msg:
                kind = k
                known_msg = True
                break
        spans = d.get('spans', [])
        prim = [s for s in spans if s.get('is_primary')] or spans
        vir_err = bool(ur.summary.get('encountered-vir-error'))
        if not known_msg and not d.get('code') and not vir_err and prim and ur.summary:
            # a verification-time failure with a message this driver does not know: still a failed obligation
            kind, known_msg = 'other', True
        if d.get('code') or not known_msg or not prim:
            ur.compile_errors.append({'message': msg, 'code': (d.get('code') or {}).get('code') if d.get('code') else None,
                                      'line': prim[0]['line_start'] if prim else None,
                                      'rendered': (d.get('rendered') or '')[:1500]})
            continue
        if kind is None:
            continue
        gl = None
        for s in prim:
            if s.get('file_name', '').endswith(os.path.basename(gen_path)):
                gl = s['line_start']
                break
        if gl is None:
            for s in spans:
                if s.get('file_name', '').endswith(os.path.basename(gen_path)):
                    gl = s['line_start']
                    break
        # safety subkinds: failed precondition located in vstd std_specs -> index / unwrap / slice
        if kind == 'requires@call':
            other = [s for s in spans if not s.get('file_name', '').endswith(os.path.basename(gen_path))]
            if other and all('std_specs' in s.get('file_name', '') or s.get('file_name', '').endswith(('vec.rs', 'slice.rs', 'option.rs', 'result.rs', 'string.rs', 'core.rs', 'range.rs')) for s in other):
                kind = 'safety:std-precondition'
        fn = None
        if gl is not None:
            cands = [f for f in ur.fns if f.start_line <= gl <= (f.end_line or f.start_line)]
            if cands:
                fn = max(cands, key=lambda f: f.start_line)
        origin = res.lines[gl - 1][1] if gl is not None and gl - 1 < len(res.lines) else None
        # for ensures: the primary span is the failed clause, the secondary is the exit point
        exit_origin = None
        for s in spans:
            if not s.get('is_primary') and s.get('file_name', '').endswith(os.path.basename(gen_path)):
                l2 = s['line_start']
                if l2 - 1 < len(res.lines) and res.lines[l2 - 1][1]:
                    exit_origin = res.lines[l2 - 1][1]
        clause = lines[gl - 1].strip()[:240] if gl else ''
        if origin is None and exit_origin is None and gl is not None:
            for it in res.items:
                if it.gen_start <= gl <= it.gen_end:
                    origin = (it.file, it.src_start_line)
                    break
        ob_id = '%s::%s::%s' % (unit, fn.name if fn else '?', kind)
        ur.errors.append({
            'obligation': ob_id, 'function': fn.name if fn else None, 'kind': kind, 'message': msg,
            'gen_line': gl, 'clause': clause,
            'source': '%s:%d' % origin if origin else ('%s:%d' % exit_origin if exit_origin else None),
            'rendered': (d.get('rendered') or '')[:3000],
        })
    return ur


def verify_unit(unit, tpl_path, repo_root, workdir, canary=False, rlimit=None, seed=None, timeout=900, extra=None):
    name = unit + ('__canary' if canary else '') + ('__s%d' % seed if seed is not None else '')
    gen_path = os.path.join(workdir, name + '.rs')
    res, text = generate(tpl_path, repo_root, gen_path, canary=canary)
    cmd, rc, out, err, wall = run_verus(gen_path, rlimit=rlimit, seed=seed, timeout=timeout, extra=extra)
    ur = parse_run(unit, res, text, gen_path, cmd, rc, out, err, wall)
    if rc != 124 and not ur.errors and not ur.compile_errors and any('rlimit' in u.lower() for u in ur.undecided):
        # a resource limit hit while Verus kept searching for further errors of a function: retry once, stopping at the first error and
        # with a larger budget; a failing obligation found by the retry is a failing obligation (never the other way round)
        cmd, rc, out, err, wall2 = run_verus(gen_path, rlimit=(rlimit or 10) * 3, seed=seed, timeout=timeout, extra=extra, multiple=1)
        ur2 = parse_run(unit, res, text, gen_path, cmd, rc, out, err, wall + wall2)
        if ur2.errors or not ur2.undecided:
            ur = ur2
    if rc == 124:
        ur.undecided.append('verus timeout after %ds' % timeout)
    return ur
