    // END-TO-END bounded oracle (safety net for the glue no unit has under contract: do_tokenize call order, MorphemeList /
    // Morpheme accessors, collect_results, split_into, set_mode / set_subset plumbing).  A small dictionary (the test lexicon) is
    // compiled and loaded with the test configuration (DefaultInputText, SimpleOov, JoinNumeric, JoinKatakanaOov); every text made of
    // up to 3 pieces of the vocabulary below is analysed.  Which clauses are checked is selected by VERIF_E2E (a property id, default
    // all):  C01 partition / lossless surfaces, C08 code-point offsets, C09 modes refine C, C10 history independence,
    // C11 field subsets, C03 no panic / accessors callable.   BOUNDED.
    fn dict() -> (ConfigTestSupport, JapaneseDictionary) {
        let mut cfgb = ConfigTestSupport::new();
        let mut dic = DictBuilder::new_system();
        dic.read_conn(super::super::MATRIX_10_10).unwrap();
        dic.read_lexicon(SYSTEM_LEX).unwrap();
        dic.resolve().unwrap();
        dic.compile(&mut cfgb.make_system()).unwrap();
        let jd = JapaneseDictionary::from_cfg(&cfgb.config()).unwrap();
        (cfgb, jd)
    }
    fn texts() -> Vec<String> {
        let vocab = ["東京", "都", "に", "行っ", "た", "京都", "いく", "1", "２", "万", "五", ",", ".", "ｶﾞ", "アイ", "ウ", "ー", "Ａ", "b", " ", "\n", "😀", "…", "㍿", "ǅ", "。"];
        let mut out = vec![String::new()];
        for a in vocab.iter() { out.push(a.to_string()); for b in vocab.iter() { out.push(format!("{}{}", a, b)); } }
        // a thinned layer of triples
        let n = vocab.len();
        let seed: usize = std::env::var("VERIF_SEED").ok().and_then(|s| s.parse().ok()).unwrap_or(0);
        for i in 0..1500usize {
            let x = (i.wrapping_mul(2654435761).wrapping_add(seed.wrapping_mul(40503))) % (n * n * n);
            out.push(format!("{}{}{}", vocab[x % n], vocab[(x / n) % n], vocab[x / (n * n)]));
        }
        out
    }
    type Tok = (usize, usize, usize, usize, String, u16, String);
    fn snapshot<D: crate::analysis::stateless_tokenizer::DictionaryAccess>(ms: &MorphemeList<D>) -> Vec<Tok> {
        ms.iter().map(|m| (m.begin(), m.end(), m.begin_c(), m.end_c(), m.surface().to_string(), m.part_of_speech_id(), m.normalized_form().to_string())).collect()
    }
    fn want(clause: &str) -> bool { match std::env::var("VERIF_E2E") { Ok(v) if !v.is_empty() => v == clause, _ => true } }

    #[test]
    fn verif_oracle_end_to_end() {
        let (_keep, jd) = dict();
        let mut failures: Vec<String> = Vec::new();
        let mut cases = 0usize;
        let texts = texts();
        let mut reused = StatefulTokenizer::new(&jd, Mode::C);
        let mut reused_list = MorphemeList::empty(&jd);
        let mut narrow = StatefulTokenizer::new(&jd, Mode::C);
        narrow.set_subset(InfoSubset::SURFACE);
        for t in texts.iter() {
            let mut per_mode: Vec<Vec<Tok>> = Vec::new();
            for mode in [Mode::C, Mode::B, Mode::A] {
                cases += 1;
                let r = std::panic::catch_unwind(std::panic::AssertUnwindSafe(|| {
                    let mut tok = StatefulTokenizer::new(&jd, mode);
                    tok.reset().push_str(t);
                    tok.do_tokenize().map(|_| { let mut ms = MorphemeList::empty(&jd); ms.collect_results(&mut tok).unwrap(); snapshot(&ms) })
                }));
                let toks = match r {
                    Err(_) => { if want("C03") && failures.len() < 30 { failures.push(format!("C03: analysis of {:?} in mode {:?} panics", t, mode)); } per_mode.push(Vec::new()); continue; }
                    Ok(Err(e)) => { if want("C03") && failures.len() < 30 { failures.push(format!("C03: analysis of {:?} in mode {:?} fails: {:?}", t, mode, e)); } per_mode.push(Vec::new()); continue; }
                    Ok(Ok(x)) => x,
                };
                if want("C01") {
                    let mut pos = 0; let mut ok = true; let mut joined = String::new();
                    for k in toks.iter() { if k.0 != pos || k.1 < k.0 || k.1 > t.len() || !t.is_char_boundary(k.0) || !t.is_char_boundary(k.1) || k.4 != t[k.0..k.1] { ok = false; break; } pos = k.1; joined.push_str(&k.4); }
                    if (!ok || pos != t.len() || joined != *t) && failures.len() < 30 { failures.push(format!("C01: morphemes of {:?} (mode {:?}) do not partition the text: {:?}", t, mode, toks.iter().map(|k| (k.0, k.1, k.4.clone())).collect::<Vec<_>>())); }
                }
                if want("C08") {
                    for k in toks.iter() { if t.is_char_boundary(k.0) && t.is_char_boundary(k.1) && k.1 <= t.len() && (t[..k.0].chars().count() != k.2 || t[..k.1].chars().count() != k.3) && failures.len() < 30 { failures.push(format!("C08: code-point offsets of morpheme {}..{} of {:?} are {}..{}", k.0, k.1, t, k.2, k.3)); break; } }
                }
                per_mode.push(toks);
            }
            if want("C09") && per_mode.len() == 3 {
                let ends = |v: &Vec<Tok>| v.iter().map(|k| k.1).collect::<Vec<_>>();
                for e in ends(&per_mode[0]) { if !ends(&per_mode[1]).contains(&e) || !ends(&per_mode[2]).contains(&e) { if failures.len() < 30 { failures.push(format!("C09: boundary {} of the C-mode analysis of {:?} is missing in mode A or B", e, t)); } break; } }
            }
            if want("C10") && per_mode.len() == 3 && !per_mode[0].is_empty() || (want("C10") && t.is_empty()) {
                // the same text on a tokenizer and a list that processed all the previous texts
                let r = std::panic::catch_unwind(std::panic::AssertUnwindSafe(|| {
                    reused.reset().push_str(t);
                    reused.do_tokenize().map(|_| { reused_list.collect_results(&mut reused).unwrap(); snapshot(&reused_list) })
                }));
                match r {
                    Ok(Ok(x)) => if per_mode.get(0).map(|f| *f != x).unwrap_or(false) && failures.len() < 30 { failures.push(format!("C10: {:?} analysed on a reused tokenizer/list differs from a fresh one: {:?} vs {:?}", t, x.iter().map(|k| k.4.clone()).collect::<Vec<_>>(), per_mode[0].iter().map(|k| k.4.clone()).collect::<Vec<_>>())); },
                    Ok(Err(_)) => {}
                    Err(_) => { if failures.len() < 30 { failures.push(format!("C10: {:?} panics on a reused tokenizer/list", t)); } reused = StatefulTokenizer::new(&jd, Mode::C); reused_list = MorphemeList::empty(&jd); }
                }
                // mode and field-request history: a tokenizer that was switched to mode A / B and back (with and without an explicit field
                // request in between) against the fresh mode C analysis - boundaries, fields and the stored split units
                for hist in 0..3 {
                    let r = std::panic::catch_unwind(std::panic::AssertUnwindSafe(|| {
                        let mut h = StatefulTokenizer::new(&jd, Mode::C);
                        match hist { 0 => { h.set_mode(Mode::A); h.set_mode(Mode::C); } 1 => { h.set_mode(Mode::B); h.set_subset(InfoSubset::all()); h.set_mode(Mode::A); h.set_mode(Mode::C); } _ => { h.set_subset(InfoSubset::all()); h.set_mode(Mode::A); h.set_mode(Mode::B); h.set_mode(Mode::C); } }
                        let mut f = StatefulTokenizer::new(&jd, Mode::C);
                        let mut out: Vec<Vec<(Vec<Tok>, Vec<(Vec<u32>, Vec<u32>)>)>> = Vec::new();
                        for tk in [&mut h, &mut f] {
                            tk.reset().push_str(t);
                            if tk.do_tokenize().is_err() { return None; }
                            let mut ms = MorphemeList::empty(&jd); ms.collect_results(tk).ok()?;
                            let units = ms.iter().map(|m| { let i = m.get_word_info(); (i.a_unit_split().iter().map(|w| w.as_raw()).collect::<Vec<_>>(), i.b_unit_split().iter().map(|w| w.as_raw()).collect::<Vec<_>>()) }).collect::<Vec<_>>();
                            out.push(vec![(snapshot(&ms), units)]);
                        }
                        Some(out)
                    }));
                    match r {
                        Ok(Some(o)) => if o[0] != o[1] && failures.len() < 30 { failures.push(format!("C10: {:?} after the mode / field-request history {} differs from a fresh mode C tokenizer: {:?} vs {:?}", t, hist, o[0], o[1])); },
                        Ok(None) => {}
                        Err(_) => if failures.len() < 30 { failures.push(format!("C10: {:?} after the mode / field-request history {} panics", t, hist)); },
                    }
                }
                // on-demand split of every morpheme into a result list with a history (last filled under a narrower field request)
                // against the split into a fresh list
                let r = std::panic::catch_unwind(std::panic::AssertUnwindSafe(|| -> Option<String> {
                    for i in 0..reused_list.len() { for mode in [Mode::A, Mode::B] {
                        // (a new list each time: once a list was the target of a split it SHARES the text of the split list, and refilling
                        // it would replace the text under `reused_list` as well - lists sharing a text are outside what C10 speaks about)
                        let mut hist_list = MorphemeList::empty(&jd);
                        narrow.reset().push_str("京都に"); narrow.do_tokenize().ok()?; hist_list.collect_results(&mut narrow).ok()?;
                        hist_list.clear();
                        let mut fresh = MorphemeList::empty(&jd);
                        let m = reused_list.get(i);
                        let a = m.split_into(mode, &mut hist_list).ok()?; let b = m.split_into(mode, &mut fresh).ok()?;
                        if a != b || snapshot(&hist_list) != snapshot(&fresh) { return Some(format!("C10: splitting {:?} (morpheme {} of {:?}) in mode {:?} into a reused list gives {:?}, into a fresh list {:?}", &*m.surface(), i, t, mode, snapshot(&hist_list), snapshot(&fresh))); }
                    }}
                    None
                }));
                match r { Ok(None) => {}, Ok(Some(f)) => if failures.len() < 30 { failures.push(f) }, Err(_) => if failures.len() < 30 { failures.push(format!("C10: splitting the morphemes of {:?} into a reused list panics", t)) } }
            }
            if want("C11") && !t.is_empty() {
                // C11 promises identical boundaries only for subsets containing what the path-rewrite plugins read
                let base = InfoSubset::SURFACE | InfoSubset::POS_ID | InfoSubset::NORMALIZED_FORM;
                for (sub, name) in [(base, "SURFACE|POS_ID|NORMALIZED_FORM"), (base | InfoSubset::DIC_FORM_WORD_ID, "..|DIC_FORM_WORD_ID"), (base | InfoSubset::SYNONYM_GROUP_ID, "..|SYNONYM_GROUP_ID")] {
                    for mode in [Mode::A, Mode::C] {
                        let r = std::panic::catch_unwind(std::panic::AssertUnwindSafe(|| {
                            let mut tok = StatefulTokenizer::new(&jd, Mode::C);
                            tok.set_subset(sub); tok.set_mode(mode);
                            tok.reset().push_str(t);
                            tok.do_tokenize().map(|_| { let mut ms = MorphemeList::empty(&jd); ms.collect_results(&mut tok).unwrap(); ms.iter().map(|m| (m.begin(), m.end(), m.part_of_speech_id())).collect::<Vec<_>>() })
                        }));
                        let full = &per_mode[if mode == Mode::A { 2 } else { 0 }];
                        match r {
                            Ok(Ok(x)) => { let f: Vec<_> = full.iter().map(|k| (k.0, k.1, k.5)).collect(); if x != f && failures.len() < 30 { failures.push(format!("C11: {:?} with field subset {} in mode {:?}: boundaries / parts of speech {:?}, full analysis {:?}", t, name, mode, x, f)); } }
                            Ok(Err(_)) => {}
                            Err(_) => if failures.len() < 30 { failures.push(format!("C11: {:?} with field subset {} panics", t, name)); },
                        }
                    }
                }
            }
        }
        println!("verif_oracle_end_to_end: {} analyses, {} failures", cases, failures.len());
        for f in failures.iter().take(8) { println!("FAILING INPUT: {}", f); }
        assert!(failures.is_empty());
    }

    /// C01 "under every plugin configuration": the same texts under every sub-list of the configured input-text plugins (none, each
    /// alone, all) with and without the path-rewrite plugins - morphemes partition the original text, surfaces are the original text
    /// in their range, and a text whose normalised form is not empty (in particular ANY non-empty text when nothing rewrites it) yields
    /// at least one morpheme
    #[test]
    fn verif_oracle_plugin_configurations() {
        if !want("C01") { return; }
        let (cfgb, _jd) = dict();
        let full = cfgb.config();
        let mut input_sets: Vec<Vec<serde_json::Value>> = vec![Vec::new(), full.input_text_plugins.clone()];
        for p in full.input_text_plugins.iter() { input_sets.push(vec![p.clone()]); }
        let mut failures: Vec<String> = Vec::new();
        let mut cases = 0usize;
        for ins in input_sets.iter() { for rewrite in [true, false] {
            let mut cfg = cfgb.config();
            cfg.input_text_plugins = ins.clone();
            if !rewrite { cfg.path_rewrite_plugins.clear(); }
            let jd = match JapaneseDictionary::from_cfg(&cfg) { Ok(d) => d, Err(e) => { failures.push(format!("C01: configuration with {} input-text plugins does not load: {:?}", ins.len(), e)); continue; } };
            for t in texts().iter() { for mode in [Mode::C, Mode::A] {
                cases += 1;
                let r = std::panic::catch_unwind(std::panic::AssertUnwindSafe(|| {
                    let mut tok = StatefulTokenizer::new(&jd, mode);
                    tok.reset().push_str(t);
                    tok.do_tokenize().map(|_| { let mut ms = MorphemeList::empty(&jd); ms.collect_results(&mut tok).unwrap(); snapshot(&ms) })
                }));
                let toks = match r { Ok(Ok(x)) => x, _ => { if failures.len() < 30 { failures.push(format!("C01: analysis of {:?} with {} input-text plugins (path rewriting: {}) fails or panics", t, ins.len(), rewrite)); } continue; } };
                let mut pos = 0; let mut ok = true;
                for k in toks.iter() { if k.0 != pos || k.1 < k.0 || k.1 > t.len() || !t.is_char_boundary(k.0) || !t.is_char_boundary(k.1) || k.4 != t[k.0..k.1] { ok = false; break; } pos = k.1; }
                if (!ok || pos != t.len()) && failures.len() < 30 { failures.push(format!("C01: morphemes of {:?} (mode {:?}, input-text plugins {:?}, path rewriting: {}) do not partition the text: {:?}", t, mode, ins.iter().map(|v| v["class"].to_string()).collect::<Vec<_>>(), rewrite, toks.iter().map(|k| (k.0, k.1, k.4.clone())).collect::<Vec<_>>())); }
            }}
        }}
        println!("verif_oracle_plugin_configurations: {} analyses, {} failures", cases, failures.len());
        for f in failures.iter().take(8) { println!("FAILING INPUT: {}", f); }
        assert!(failures.is_empty());
    }

    /// C04, exact-surface lookup through the public MorphemeList::lookup with a user dictionary layered over the system one:
    /// exactly the indexed rows whose key equals the query, with their dictionary and word numbers
    #[test]
    fn verif_oracle_exact_lookup_layered() {
        if !want("C04") { return; }
        let mut cfgb = ConfigTestSupport::new();
        let mut dic = DictBuilder::new_system();
        dic.read_conn(super::super::MATRIX_10_10).unwrap();
        dic.read_lexicon(SYSTEM_LEX).unwrap();
        dic.resolve().unwrap();
        dic.compile(&mut cfgb.make_system()).unwrap();
        let sys = JapaneseDictionary::from_cfg(&cfgb.config()).unwrap();
        let mut ud = DictBuilder::new_user(&sys);
        ud.read_lexicon(USER1_LEX).unwrap();
        ud.resolve().unwrap();
        ud.compile(&mut cfgb.add_user()).unwrap();
        let jd = JapaneseDictionary::from_cfg(&cfgb.config()).unwrap();
        let rows = |bytes: &[u8]| -> Vec<(String, i32)> {
            std::str::from_utf8(bytes).unwrap().lines().filter(|l| !l.trim().is_empty()).map(|l| { let c: Vec<&str> = l.split(',').collect(); (c[0].to_string(), c[1].parse::<i32>().unwrap()) }).collect()
        };
        let layers = [rows(SYSTEM_LEX), rows(USER1_LEX)];
        let mut queries: Vec<String> = layers.iter().flat_map(|l| l.iter().map(|r| r.0.clone())).collect();
        queries.extend(["東京都に", "京", "アイアイ", "特", "x"].iter().map(|s| s.to_string()));
        let mut failures = Vec::new();
        for q in queries.iter() {
            if q.contains('\\') || q.is_empty() { continue; }
            let mut ms = MorphemeList::empty(&jd);
            let n = match ms.lookup(q, InfoSubset::all()) { Ok(n) => n, Err(e) => { failures.push(format!("exact lookup of {:?} fails: {:?}", q, e)); continue; } };
            let mut got: Vec<(u8, u32)> = ms.iter().map(|m| (m.word_id().dic(), m.word_id().word())).collect();
            got.sort();
            let mut want_ids: Vec<(u8, u32)> = Vec::new();
            for (d, l) in layers.iter().enumerate() { for (i, r) in l.iter().enumerate() { if r.0 == *q && r.1 >= 0 { want_ids.push((d as u8, i as u32)); } } }
            want_ids.sort();
            if got != want_ids || n != want_ids.len() { failures.push(format!("exact lookup of {:?} returned (dictionary, word) {:?}, the rows with that key are {:?}", q, got, want_ids)); }
        }
        println!("verif_oracle_exact_lookup_layered: {} queries, {} failures", queries.len(), failures.len());
        for f in failures.iter().take(5) { println!("FAILING INPUT: {}", f); }
        assert!(failures.is_empty());
    }

    /// C12, parts of speech that exist only in a user dictionary: user lexicons with three new parts of speech, declared and FIRST
    /// MENTIONED (in inline split references of a compound row) in every order, compiled against the system dictionary and loaded;
    /// every user word must report dictionary 1 and exactly its declared part-of-speech strings, system words dictionary 0
    #[test]
    fn verif_oracle_user_pos_orders() {
        if !want("C12") { return; }
        let names = ["ゑあ", "ゑい", "ゑう"];
        let reads = ["ヱア", "ヱイ", "ヱウ"];
        let poss = [["甲", "一", "*", "*", "*", "*"], ["乙", "二", "*", "*", "*", "*"], ["丙", "三", "*", "*", "*", "*"]];
        let perms: [[usize; 3]; 6] = [[0, 1, 2], [0, 2, 1], [1, 0, 2], [1, 2, 0], [2, 0, 1], [2, 1, 0]];
        let mut failures = Vec::new();
        let mut cases = 0;
        for decl in perms.iter() {
            for mention in perms.iter() {
                for compound_first in [true, false] {
                    for with_system_pos_row in [true, false] {
                        let word_row = |i: usize| format!("{},6,6,2816,{},{},{},{},*,A,*,*,*,*\n", names[i], names[i], poss[i].join(","), reads[i], names[i]);
                        let inline = |i: usize| format!("{},{},{}", names[i], poss[i].join(","), reads[i]);
                        let compound = format!("ゑあゑいゑう,6,6,2000,ゑあゑいゑう,複合,語,*,*,*,*,ヱ,ゑあゑいゑう,*,C,\"{}/{}/{}\",*,*,*\n", inline(mention[0]), inline(mention[1]), inline(mention[2]));
                        let mut lex = String::new();
                        if compound_first { lex.push_str(&compound); }
                        if with_system_pos_row { lex.push_str("ゑゑ,8,8,2914,ゑゑ,名詞,普通名詞,一般,*,*,*,ヱヱ,ゑゑ,*,A,*,*,*,*\n"); }
                        for &i in decl.iter() { lex.push_str(&word_row(i)); }
                        if !compound_first { lex.push_str(&compound); }
                        cases += 1;
                        let r = std::panic::catch_unwind(|| {
                            let mut cfgb = ConfigTestSupport::new();
                            let mut dic = DictBuilder::new_system();
                            dic.read_conn(super::super::MATRIX_10_10).unwrap();
                            dic.read_lexicon(SYSTEM_LEX).unwrap();
                            dic.resolve().unwrap();
                            dic.compile(&mut cfgb.make_system()).unwrap();
                            let sys = JapaneseDictionary::from_cfg(&cfgb.config()).unwrap();
                            let mut ud = DictBuilder::new_user(&sys);
                            ud.read_lexicon(lex.as_bytes()).unwrap();
                            ud.resolve().unwrap();
                            ud.compile(&mut cfgb.add_user()).unwrap();
                            let jd = JapaneseDictionary::from_cfg(&cfgb.config()).unwrap();
                            let mut bad = Vec::new();
                            let mut check = |q: &str, dic: i32, pos: Vec<String>| {
                                let mut ms = MorphemeList::empty(&jd);
                                match ms.lookup(q, InfoSubset::all()) {
                                    Ok(_) => {
                                        let got: Vec<(i32, Vec<String>)> = ms.iter().map(|m| (m.dictionary_id(), m.part_of_speech().to_vec())).collect();
                                        if !got.contains(&(dic, pos.clone())) { bad.push(format!("{:?} reports (dictionary, part of speech) {:?}, declared ({}, {:?})", q, got, dic, pos)); }
                                    }
                                    Err(e) => bad.push(format!("lookup of {:?} fails: {:?}", q, e)),
                                }
                            };
                            for i in 0..3 { check(names[i], 1, poss[i].iter().map(|x| x.to_string()).collect()); }
                            check("ゑあゑいゑう", 1, ["複合", "語", "*", "*", "*", "*"].iter().map(|x| x.to_string()).collect());
                            check("京都", 0, ["名詞", "固有名詞", "地名", "一般", "*", "*"].iter().map(|x| x.to_string()).collect());
                            bad
                        });
                        match r {
                            Ok(bad) => for b in bad { if failures.len() < 30 { failures.push(format!("user lexicon {:?}: {}", lex, b)); } },
                            Err(_) => if failures.len() < 30 { failures.push(format!("user lexicon {:?}: compile / load / lookup panics", lex)); },
                        }
                    }
                }
            }
        }
        println!("verif_oracle_user_pos_orders: {} user lexicons, {} failures", cases, failures.len());
        for f in failures.iter().take(5) { println!("FAILING INPUT: {}", f); }
        assert!(failures.is_empty());
    }

    /// C04, many layers: a system dictionary and 14 user dictionaries; every dictionary holds the shared key ゐゐ and a key of its own.
    /// Prefix lookup at offset 0 of "ゐゐ" + own key material must report the entries of EVERY layer with its dictionary number.
    #[test]
    fn verif_oracle_lookup_many_layers() {
        if !want("C04") && !want("C12") { return; }
        let mut cfgb = ConfigTestSupport::new();
        let mut dic = DictBuilder::new_system();
        dic.read_conn(super::super::MATRIX_10_10).unwrap();
        dic.read_lexicon(SYSTEM_LEX).unwrap();
        dic.resolve().unwrap();
        dic.compile(&mut cfgb.make_system()).unwrap();
        let sys = JapaneseDictionary::from_cfg(&cfgb.config()).unwrap();
        let marks: Vec<char> = "あいうえおかきくけこさしすせ".chars().collect();
        for k in 0..14usize {
            let lex = format!("ゐゐ,8,8,2914,ゐゐ,名詞,普通名詞,一般,*,*,*,ヰヰ,ゐゐ,*,A,*,*,*,*\nゐゐ{m},8,8,2914,ゐゐ{m},名詞,普通名詞,一般,*,*,*,ヰヰ,ゐゐ{m},*,A,*,*,*,*\n", m = marks[k]);
            let mut ud = DictBuilder::new_user(&sys);
            ud.read_lexicon(lex.as_bytes()).unwrap();
            ud.resolve().unwrap();
            ud.compile(&mut cfgb.add_user()).unwrap();
        }
        let jd = JapaneseDictionary::from_cfg(&cfgb.config()).unwrap();
        let mut failures = Vec::new();
        for k in 0..14usize {
            let text = format!("ゐゐ{}", marks[k]);
            let mut got: Vec<(u8, u32, usize)> = jd.lexicon().lookup(text.as_bytes(), 0).map(|e| (e.word_id.dic(), e.word_id.word(), e.end)).collect();
            got.sort();
            let mut want_ids: Vec<(u8, u32, usize)> = (1..=14u8).map(|d| (d, 0u32, 6usize)).collect();
            want_ids.push(((k + 1) as u8, 1, 9));
            want_ids.sort();
            if got != want_ids && failures.len() < 10 { failures.push(format!("15 layered dictionaries, lookup({:?}, 0) = (dictionary, word, end) {:?}, expected {:?}", text, got, want_ids)); }
        }
        // C12: every morpheme reports the number of the dictionary that supplied it (1..=14), system words 0, unknown words -1
        {
            let text: String = (0..14usize).map(|k| format!("ゐゐ{}京都", marks[k])).collect::<Vec<_>>().join("") + "ゑ";
            let r = std::panic::catch_unwind(std::panic::AssertUnwindSafe(|| {
                let mut tok = StatefulTokenizer::new(&jd, Mode::C);
                tok.reset().push_str(&text);
                tok.do_tokenize().map(|_| { let mut ms = MorphemeList::empty(&jd); ms.collect_results(&mut tok).unwrap(); ms.iter().map(|m| (m.surface().to_string(), m.dictionary_id(), m.is_oov())).collect::<Vec<_>>() })
            }));
            let mut want_ids: Vec<(String, i32, bool)> = Vec::new();
            for k in 0..14usize { want_ids.push((format!("ゐゐ{}", marks[k]), k as i32 + 1, false)); want_ids.push(("京都".to_string(), 0, false)); }
            want_ids.push(("ゑ".to_string(), -1, true));
            match r {
                Ok(Ok(got)) => if got != want_ids && failures.len() < 10 { failures.push(format!("15 layered dictionaries: (surface, dictionary, oov) of {:?} = {:?}, expected {:?}", text, got, want_ids)); },
                Ok(Err(e)) => failures.push(format!("15 layered dictionaries: analysis of {:?} fails: {:?}", text, e)),
                Err(_) => failures.push(format!("15 layered dictionaries: analysis of {:?} panics", text)),
            }
        }
        println!("verif_oracle_lookup_many_layers: 14 texts, {} failures", failures.len());
        for f in failures.iter().take(5) { println!("FAILING INPUT: {}", f); }
        assert!(failures.is_empty());
    }

    /// C03, the documented limits and hostile characters: texts of 49,146..49,152 bytes (ASCII, kana, astral), texts whose normalised form
    /// crosses 65,535 bytes (U+FDFA: 3 bytes -> 33 bytes under NFKC), NUL / control / unassigned / combining / ZWJ sequences: the analysis
    /// returns morphemes or an error value - InputTooLong beyond the limits - never panics, and every accessor of every morpheme is callable
    #[test]
    fn verif_oracle_limits_and_hostile_text() {
        if !want("C03") { return; }
        let (_keep, jd) = dict();
        let mut texts: Vec<(String, Option<bool>)> = Vec::new();       // (text, must succeed?)  None = either a result or an error value
        for n in 49146usize..=49152 {
            texts.push(("a".repeat(n), Some(n <= 49149)));
            let mut k = "あ".repeat(n / 3); k.push_str(&"a".repeat(n % 3)); texts.push((k, Some(n <= 49149)));
            let mut e = "😀".repeat(n / 4); e.push_str(&"a".repeat(n % 4)); texts.push((e, Some(n <= 49149)));
        }
        for count in [1985usize, 1986, 1987, 2000] { texts.push(("\u{FDFA}".repeat(count), Some(count * 33 <= 65535))); }
        for t in ["\0", "a\0b", "\u{1}\u{7f}\u{85}", "\u{378}\u{e0001}\u{10ffff}", "e\u{301}\u{301}\u{301}", "👨\u{200d}👩\u{200d}👧", "\u{200d}", "\u{feff}a", "\u{3099}", "ｶ\u{ff9e}\u{ff9e}", "\r\n\t", "\u{fdfa}京都\u{fdfa}"] {
            texts.push((t.to_string(), Some(true)));
            texts.push((format!("東京{}都", t), Some(true)));
        }
        let mut failures = Vec::new();
        for (t, must) in texts.iter() {
            for mode in [Mode::C, Mode::A] {
                let r = std::panic::catch_unwind(std::panic::AssertUnwindSafe(|| {
                    let mut tok = StatefulTokenizer::new(&jd, mode);
                    tok.reset().push_str(t);
                    tok.do_tokenize().map(|_| {
                        let mut ms = MorphemeList::empty(&jd);
                        ms.collect_results(&mut tok).unwrap();
                        let mut end = 0;
                        for m in ms.iter() {
                            let _ = (m.begin_c(), m.end_c(), m.part_of_speech().len(), m.dictionary_form().len(), m.normalized_form().len(), m.reading_form().len(), m.is_oov(), m.dictionary_id(), m.synonym_group_ids().len(), m.total_cost());
                            assert_eq!(&*m.surface(), &t[m.begin()..m.end()]);
                            assert_eq!(m.begin(), end); end = m.end();
                        }
                        assert_eq!(end, t.len());
                    })
                }));
                let head: String = t.chars().take(12).collect();
                match (r, must) {
                    (Err(_), _) => if failures.len() < 20 { failures.push(format!("C03: analysis of {:?}... ({} bytes) in mode {:?} panics", head, t.len(), mode)); },
                    (Ok(Ok(())), Some(false)) => if failures.len() < 20 { failures.push(format!("C03: {:?}... ({} bytes) is beyond the documented limits but was analysed", head, t.len())); },
                    (Ok(Err(e)), Some(true)) => if failures.len() < 20 { failures.push(format!("C03: {:?}... ({} bytes) is within the documented limits but fails: {:?}", head, t.len(), e)); },
                    (Ok(Err(e)), Some(false)) => { if !format!("{:?}", e).contains("InputTooLong") && failures.len() < 20 { failures.push(format!("C03: {:?}... ({} bytes) beyond the limits fails with {:?}, not InputTooLong", head, t.len(), e)); } },
                    _ => {}
                }
            }
        }
        println!("verif_oracle_limits_and_hostile_text: {} texts, {} failures", texts.len(), failures.len());
        for f in failures.iter().take(5) { println!("FAILING INPUT: {}", f); }
        assert!(failures.is_empty());
    }

    /// C12, split references inside the SECOND user dictionary under restricted field requests: the word ゑあゑい of user dictionary 2
    /// declares the A units U0/U1 (its own words).  Whatever fields are requested, its A-mode sub-tokens are words 0 and 1 of dictionary 2,
    /// and system words keep dictionary 0.
    #[test]
    fn verif_oracle_second_user_dictionary_units() {
        if !want("C12") && !want("C11") { return; }     // C11: boundaries and word identities under restricted field requests
        let mut cfgb = ConfigTestSupport::new();
        let mut dic = DictBuilder::new_system();
        dic.read_conn(super::super::MATRIX_10_10).unwrap();
        dic.read_lexicon(SYSTEM_LEX).unwrap();
        dic.resolve().unwrap();
        dic.compile(&mut cfgb.make_system()).unwrap();
        let sys = JapaneseDictionary::from_cfg(&cfgb.config()).unwrap();
        // every user dictionary declares parts of speech of its own (dictionary 1: 甲; dictionary 2: 乙 and 丙)
        let u1 = "ゑう,8,8,2914,ゑう,甲,一,*,*,*,*,ヱウ,ゑう,*,A,*,*,*,*\nゑえ,8,8,2914,ゑえ,名詞,普通名詞,一般,*,*,*,ヱエ,ゑえ,*,A,*,*,*,*\n";
        let u2 = "ゑあ,8,8,2914,ゑあ,乙,二,*,*,*,*,ヱア,ゑあ,*,A,*,*,*,*\nゑい,8,8,2914,ゑい,丙,三,*,*,*,*,ヱイ,ゑい,*,A,*,*,*,*\nゑあゑい,8,8,-2000,ゑあゑい,名詞,普通名詞,一般,*,*,*,ヱアヱイ,ゑあゑい,*,C,U0/U1,U0/U1,U0/U1,*\n";
        for lex in [u1, u2] {
            let mut ud = DictBuilder::new_user(&sys);
            ud.read_lexicon(lex.as_bytes()).unwrap();
            ud.resolve().unwrap();
            ud.compile(&mut cfgb.add_user()).unwrap();
        }
        let jd = JapaneseDictionary::from_cfg(&cfgb.config()).unwrap();
        let subsets = [("all", InfoSubset::all()), ("surface|pos|normalized", InfoSubset::SURFACE | InfoSubset::POS_ID | InfoSubset::NORMALIZED_FORM),
                       ("surface|pos|normalized|split_b", InfoSubset::SURFACE | InfoSubset::POS_ID | InfoSubset::NORMALIZED_FORM | InfoSubset::SPLIT_B),
                       ("surface|pos|normalized|word_structure", InfoSubset::SURFACE | InfoSubset::POS_ID | InfoSubset::NORMALIZED_FORM | InfoSubset::WORD_STRUCTURE)];
        let mut failures = Vec::new();
        for (name, sub) in subsets.iter() { for (mode, order) in [(Mode::A, 0), (Mode::A, 1), (Mode::B, 0)] {
            let r = std::panic::catch_unwind(std::panic::AssertUnwindSafe(|| {
                let mut tok = StatefulTokenizer::new(&jd, if order == 1 { Mode::C } else { mode });
                tok.set_subset(*sub);
                if order == 1 { tok.set_mode(mode); }
                tok.reset().push_str("ゑあゑい京都");
                tok.do_tokenize().map(|_| { let mut ms = MorphemeList::empty(&jd); ms.collect_results(&mut tok).unwrap(); ms.iter().map(|m| (m.surface().to_string(), m.dictionary_id(), m.word_id().word())).collect::<Vec<_>>() })
            }));
            let want = vec![("ゑあ".to_string(), 2, 0u32), ("ゑい".to_string(), 2, 1), ("京都".to_string(), 0, 3)];
            match r {
                Ok(Ok(got)) => if got != want && failures.len() < 10 { failures.push(format!("two user dictionaries, fields {}, mode {:?} ({}): (surface, dictionary, word) {:?}, declared {:?}", name, mode, if order == 1 { "set_subset then set_mode" } else { "created in that mode" }, got, want)); },
                Ok(Err(e)) => if failures.len() < 10 { failures.push(format!("two user dictionaries, fields {}, mode {:?}: analysis fails: {:?}", name, mode, e)); },
                Err(_) => if failures.len() < 10 { failures.push(format!("two user dictionaries, fields {}, mode {:?}: analysis panics", name, mode)); },
            }
        }}
        // parts of speech that exist only in a user dictionary: every layer reports its own strings
        for (q, dic, pos) in [("ゑう", 1, ["甲", "一", "*", "*", "*", "*"]), ("ゑあ", 2, ["乙", "二", "*", "*", "*", "*"]), ("ゑい", 2, ["丙", "三", "*", "*", "*", "*"]), ("ゑえ", 1, ["名詞", "普通名詞", "一般", "*", "*", "*"])] {
            let r = std::panic::catch_unwind(std::panic::AssertUnwindSafe(|| {
                let mut ms = MorphemeList::empty(&jd);
                ms.lookup(q, InfoSubset::all()).map(|_| ms.iter().map(|m| (m.dictionary_id(), m.part_of_speech().to_vec())).collect::<Vec<_>>())
            }));
            let want = (dic, pos.iter().map(|x| x.to_string()).collect::<Vec<_>>());
            match r {
                Ok(Ok(got)) => if !got.contains(&want) && failures.len() < 10 { failures.push(format!("two user dictionaries with own parts of speech: {:?} reports (dictionary, part of speech) {:?}, declared {:?}", q, got, want)); },
                Ok(Err(e)) => if failures.len() < 10 { failures.push(format!("two user dictionaries with own parts of speech: lookup of {:?} fails: {:?}", q, e)); },
                Err(_) => if failures.len() < 10 { failures.push(format!("two user dictionaries with own parts of speech: lookup of {:?} panics", q)); },
            }
        }
        println!("verif_oracle_second_user_dictionary_units: {} failures", failures.len());
        for f in failures.iter().take(5) { println!("FAILING INPUT: {}", f); }
        assert!(failures.is_empty());
    }

    /// C09 with words declaring MORE than two units and several compounds in one text: a dictionary with あいう (A: あ/い/う, B: あい/う),
    /// えお (A: え/お, no B units), あいうえお (A: five units, B: あいう/えお) and the unsplittable の.  Every text of up to 4 pieces is
    /// analysed in mode C; in modes A and B every C token that declares units must be replaced by exactly those units, in order, tiling
    /// its range, and every other token must be reported unchanged.
    #[test]
    fn verif_oracle_multi_unit_splits() {
        if !want("C09") && !want("C10") && !want("C03") { return; }
        let pos = "名詞,普通名詞,一般,*,*,*";
        let mut lex = String::new();
        for (k, c) in [("あ", 3000), ("い", 3000), ("う", 3000), ("え", 3000), ("お", 3000), ("の", 3000), ("あい", 2000)] { lex.push_str(&format!("{},8,8,{},{},{},{},{},*,A,*,*,*,*\n", k, c, k, pos, k, k)); }
        lex.push_str(&format!("あいう,8,8,-2000,あいう,{},あいう,あいう,*,C,0/1/2,6/2,*,*\n", pos));
        lex.push_str(&format!("えお,8,8,-2000,えお,{},えお,えお,*,C,3/4,*,*,*\n", pos));
        lex.push_str(&format!("あいうえお,8,8,-9000,あいうえお,{},あいうえお,あいうえお,*,C,0/1/2/3/4,7/8,*,*\n", pos));
        lex.push_str("五,9,9,2478,五,名詞,数詞,*,*,*,*,ゴ,五,*,A,*,*,*,*\n");
        // rows 11..13: a word reached through an EXPANDING normalisation (㍿ -> 株式会社: one original character, two units)
        for (k, c) in [("株式", 3000), ("会社", 3000)] { lex.push_str(&format!("{},8,8,{},{},{},{},{},*,A,*,*,*,*\n", k, c, k, pos, k, k)); }
        lex.push_str(&format!("株式会社,8,8,-2000,株式会社,{},株式会社,株式会社,*,C,11/12,*,*,*\n", pos));
        // rows 14..16: units whose own keys are LONGER than the word that declares them (okurigana variants: 打合せ = 打ち + 合わせ). The
        // statement of C09 does not cover such a word, but C03 / C01 do: no panic, and the sub-tokens still partition the word - every unit
        // but the last takes its own key length, the last one ends where the word ends
        for (k, c) in [("打ち", 3000), ("合わせ", 3000)] { lex.push_str(&format!("{},8,8,{},{},{},{},{},*,A,*,*,*,*\n", k, c, k, pos, k, k)); }
        lex.push_str(&format!("打合せ,8,8,-2000,打合せ,{},打合せ,打合せ,*,C,14/15,*,*,*\n", pos));
        let mut cfgb = ConfigTestSupport::new();
        let mut dic = DictBuilder::new_system();
        dic.read_conn(super::super::MATRIX_10_10).unwrap();
        dic.read_lexicon(lex.as_bytes()).unwrap();
        dic.resolve().unwrap();
        dic.compile(&mut cfgb.make_system()).unwrap();
        let jd = JapaneseDictionary::from_cfg(&cfgb.config()).unwrap();
        let units = |surface: &str, mode: Mode| -> Option<Vec<&'static str>> {
            match (surface, mode) {
                ("あいう", Mode::A) => Some(vec!["あ", "い", "う"]), ("あいう", Mode::B) => Some(vec!["あい", "う"]),
                ("えお", Mode::A) => Some(vec!["え", "お"]),
                ("あいうえお", Mode::A) => Some(vec!["あ", "い", "う", "え", "お"]), ("あいうえお", Mode::B) => Some(vec!["あいう", "えお"]),
                ("打合せ", Mode::A) => Some(vec!["打合", "せ"]),
                ("㍿", Mode::A) => Some(vec!["㍿", ""]),       // both units lie inside the one original character: the first maps to it, the second is empty
                _ => None,
            }
        };
        let pieces = ["あいう", "えお", "の", "あいうえお", "あ", "㍿", "打合せ"];
        let mut texts: Vec<String> = Vec::new();
        let mut frontier = vec![String::new()];
        for _ in 0..4 {
            let mut nf = Vec::new();
            for t in &frontier { for c in pieces.iter() { let mut s = t.clone(); s.push_str(c); nf.push(s); } }
            texts.extend(nf.iter().cloned());
            frontier = nf;
        }
        let run = |t: &str, mode: Mode| -> Result<Vec<(usize, usize, String, u32)>, String> {
            std::panic::catch_unwind(std::panic::AssertUnwindSafe(|| {
                let mut tok = StatefulTokenizer::new(&jd, mode);
                tok.reset().push_str(t);
                tok.do_tokenize().map(|_| { let mut ms = MorphemeList::empty(&jd); ms.collect_results(&mut tok).unwrap(); ms.iter().map(|m| (m.begin(), m.end(), m.surface().to_string(), m.word_id().as_raw())).collect::<Vec<_>>() }).map_err(|e| format!("{:?}", e))
            })).unwrap_or_else(|_| Err("panic".to_string()))
        };
        let mut failures: Vec<String> = Vec::new();
        for t in texts.iter() {
            let c = match run(t, Mode::C) { Ok(x) => x, Err(e) => { if failures.len() < 20 { failures.push(format!("C09: mode C analysis of {:?} fails: {}", t, e)); } continue; } };
            for mode in [Mode::A, Mode::B] {
                let got = match run(t, mode) { Ok(x) => x, Err(e) => { if failures.len() < 20 { failures.push(format!("C09: mode {:?} analysis of {:?} fails: {}", mode, t, e)); } continue; } };
                let mut want: Vec<(usize, usize, String)> = Vec::new();
                let mut unchanged: Vec<(usize, usize, String, u32)> = Vec::new();
                for k in c.iter() {
                    match units(&k.2, mode) {
                        Some(us) => { let mut p = k.0; for u in us { want.push((p, p + u.len(), u.to_string())); p += u.len(); } }
                        None => { want.push((k.0, k.1, k.2.clone())); unchanged.push(k.clone()); }
                    }
                }
                let got3: Vec<(usize, usize, String)> = got.iter().map(|k| (k.0, k.1, k.2.clone())).collect();
                if got3 != want && failures.len() < 20 { failures.push(format!("C09: {:?} in mode {:?}: tokens {:?}, the mode C tokens {:?} with their declared units give {:?}", t, mode, got3, c.iter().map(|k| k.2.clone()).collect::<Vec<_>>(), want)); }
                for k in unchanged.iter() { if !got.contains(k) && failures.len() < 20 { failures.push(format!("C09: {:?} in mode {:?}: the token {:?} declares no units but is not reported unchanged", t, mode, k)); } }
                // the split API: every mode C morpheme split on demand - the pieces, in order, are the direct analysis in that mode, and
                // split_into reports `true` exactly for the words that declare units in that mode
                let api = std::panic::catch_unwind(std::panic::AssertUnwindSafe(|| -> Result<Vec<(usize, usize, String, u32)>, String> {
                    let mut tok = StatefulTokenizer::new(&jd, Mode::C);
                    tok.reset().push_str(t);
                    tok.do_tokenize().map_err(|e| format!("{:?}", e))?;
                    let mut ms = MorphemeList::empty(&jd); ms.collect_results(&mut tok).map_err(|e| format!("{:?}", e))?;
                    let mut all = Vec::new();
                    for m in ms.iter() {
                        let mut out = MorphemeList::empty(&jd);
                        let did = m.split_into(mode, &mut out).map_err(|e| format!("{:?}", e))?;
                        if did != units(&m.surface(), mode).is_some() { return Err(format!("split_into({:?}) of {:?} reports {}", mode, &*m.surface(), did)); }
                        if did { for x in out.iter() { all.push((x.begin(), x.end(), x.surface().to_string(), x.word_id().as_raw())); } } else { all.push((m.begin(), m.end(), m.surface().to_string(), m.word_id().as_raw())); }
                    }
                    Ok(all)
                })).unwrap_or_else(|_| Err("panic".to_string()));
                match api { Ok(a) => if a != got && failures.len() < 20 { failures.push(format!("C09: {:?}: splitting the mode C morphemes on demand in mode {:?} gives {:?}, the direct analysis {:?}", t, mode, a, got)); }, Err(e) => if failures.len() < 20 { failures.push(format!("C09: {:?}: on-demand split in mode {:?}: {}", t, mode, e)); } }
            }
        }
        // C10 / C09: two-level splits (a mode C morpheme into its B units, a B unit into its A units) into result lists WITH A HISTORY -
        // created from a list that was filled under a narrower field request - against the same splits into lists without history
        {
            type Row = (usize, usize, String, u32, u16, String);
            let describe = |l: &MorphemeList<&JapaneseDictionary>| -> Vec<Row> { l.iter().map(|m| (m.begin(), m.end(), m.surface().to_string(), m.word_id().as_raw(), m.part_of_speech_id(), m.reading_form().to_string())).collect() };
            let nested = |with_history: bool, text: &str| -> Result<Vec<Vec<Row>>, String> {
                std::panic::catch_unwind(std::panic::AssertUnwindSafe(|| -> Result<Vec<Vec<Row>>, String> {
                    let mut tok = StatefulTokenizer::new(&jd, Mode::C);
                    let mut ms = MorphemeList::empty(&jd);
                    if with_history {
                        tok.set_subset(InfoSubset::SURFACE);
                        tok.reset().push_str("あいうえお"); tok.do_tokenize().map_err(|e| format!("{:?}", e))?; ms.collect_results(&mut tok).map_err(|e| format!("{:?}", e))?;
                    }
                    let mut b_units = ms.empty_clone();
                    let mut a_units = ms.empty_clone();
                    tok.set_subset(InfoSubset::all());
                    tok.reset().push_str(text); tok.do_tokenize().map_err(|e| format!("{:?}", e))?; ms.collect_results(&mut tok).map_err(|e| format!("{:?}", e))?;
                    let mut out = vec![describe(&ms)];
                    for i in 0..ms.len() {
                        b_units.clear();
                        if ms.get(i).split_into(Mode::B, &mut b_units).map_err(|e| format!("{:?}", e))? {
                            out.push(describe(&b_units));
                            for j in 0..b_units.len() {
                                a_units.clear();
                                if b_units.get(j).split_into(Mode::A, &mut a_units).map_err(|e| format!("{:?}", e))? { out.push(describe(&a_units)); }
                            }
                        }
                    }
                    Ok(out)
                })).unwrap_or_else(|_| Err("panic".to_string()))
            };
            for text in ["あいうえお", "あいうえおのあいう", "えおあいうえお㍿"] {
                let (a, b) = (nested(false, text), nested(true, text));
                if a != b && failures.len() < 20 { failures.push(format!("C10: {:?} split twice (C -> B -> A) into lists with a history (created from a list filled under a narrower field request) gives {:?}, into lists without history {:?}", text, b, a)); }
                if let Ok(rows) = &a { if text == "あいうえお" && (rows.len() != 4 || rows[2].iter().map(|r| r.2.as_str()).collect::<Vec<_>>() != vec!["あ", "い", "う"]) && failures.len() < 20 { failures.push(format!("C09: nested split of あいうえお gives {:?}", rows)); } }
            }
        }
        println!("verif_oracle_multi_unit_splits: {} texts, {} failures", texts.len(), failures.len());
        for f in failures.iter().take(5) { println!("FAILING INPUT: {}", f); }
        assert!(failures.is_empty());
    }

    /// C13 end to end with the MeCab-style provider configured (class definitions and unknown-word definitions written for this test, the
    /// fallback provider behind it, path rewriting off): texts over letters, digits, kana, kanji, symbols, combining marks, variation
    /// selectors and joiners.  Every analysis succeeds and partitions the text; every out-of-vocabulary morpheme reports is_oov,
    /// dictionary -1, a part of speech of an unknown-word definition of one of the classes of its first character (or the fallback's),
    /// and the same text as normalised and dictionary form; and whether a base character is separated from the combining mark that
    /// follows it does not depend on what follows the mark.
    #[test]
    fn verif_oracle_oov_end_to_end() {
        if !want("C13") { return; }
        let mut cfgb = ConfigTestSupport::new();
        let mut dic = DictBuilder::new_system();
        dic.read_conn(super::super::MATRIX_10_10).unwrap();
        dic.read_lexicon(SYSTEM_LEX).unwrap();
        dic.resolve().unwrap();
        dic.compile(&mut cfgb.make_system()).unwrap();
        let mut chardef = tempfile::Builder::new().prefix("verif_char").suffix(".def").tempfile().unwrap();
        chardef.write_all("DEFAULT 0 1 0\nALPHA 1 1 0\nNUMERIC 1 1 0\nKANJI 0 0 2\nKATAKANA 1 1 2\nHIRAGANA 0 1 2\n".as_bytes()).unwrap();
        let defs = [("DEFAULT", "補助記号,一般,*,*,*,*"), ("ALPHA", "名詞,普通名詞,一般,*,*,*"), ("NUMERIC", "名詞,数詞,*,*,*,*"), ("KANJI", "名詞,固有名詞,一般,*,*,*"), ("KATAKANA", "名詞,普通名詞,サ変可能,*,*,*"), ("HIRAGANA", "感動詞,一般,*,*,*,*")];
        let mut unkdef = tempfile::Builder::new().prefix("verif_unk").suffix(".def").tempfile().unwrap();
        for (k, (c, p)) in defs.iter().enumerate() { unkdef.write_all(format!("{},7,7,{},{}\n", c, 9000 + 500 * k, p).as_bytes()).unwrap(); }
        let mut cfg = cfgb.config();
        cfg.path_rewrite_plugins.clear();
        let fallback_pos = "名詞,普通名詞,一般,*,*,*";
        cfg.oov_provider_plugins = vec![
            serde_json::json!({"class": "com.worksap.nlp.sudachi.MeCabOovPlugin", "charDef": chardef.path(), "unkDef": unkdef.path(), "userPOS": "allow"}),
            serde_json::json!({"class": "com.worksap.nlp.sudachi.SimpleOovPlugin", "oovPOS": fallback_pos.split(',').collect::<Vec<_>>(), "leftId": 8, "rightId": 8, "cost": 30000}),
        ];
        let jd = match JapaneseDictionary::from_cfg(&cfg) { Ok(d) => d, Err(e) => panic!("the MeCab provider configuration does not load: {:?}", e) };
        let allowed: Vec<String> = defs.iter().map(|d| d.1.to_string()).chain(std::iter::once(fallback_pos.to_string())).collect();
        let pieces = ["a", "B", "1", "ア", "ァ", "あ", "漢", "京都", "!", " ", "\u{301}", "\u{3099}", "\u{fe0f}", "\u{200d}", "😀", "\u{1F3FB}"];
        let mut texts: Vec<String> = Vec::new();
        let mut frontier = vec![String::new()];
        for _ in 0..3 {
            let mut nf = Vec::new();
            for t in &frontier { for c in pieces.iter() { let mut s = t.clone(); s.push_str(c); nf.push(s); } }
            texts.extend(nf.iter().cloned());
            frontier = nf;
        }
        let run = |t: &str| -> Result<Vec<(usize, usize, bool, i32, String, String, String)>, String> {
            std::panic::catch_unwind(std::panic::AssertUnwindSafe(|| {
                let mut tok = StatefulTokenizer::new(&jd, Mode::C);
                tok.reset().push_str(t);
                tok.do_tokenize().map(|_| { let mut ms = MorphemeList::empty(&jd); ms.collect_results(&mut tok).unwrap();
                    ms.iter().map(|m| (m.begin(), m.end(), m.is_oov(), m.dictionary_id(), m.part_of_speech().join(","), m.normalized_form().to_string(), m.dictionary_form().to_string())).collect::<Vec<_>>() }).map_err(|e| format!("{:?}", e))
            })).unwrap_or_else(|_| Err("panic".to_string()))
        };
        let mut failures: Vec<String> = Vec::new();
        for t in texts.iter() {
            let toks = match run(t) { Ok(x) => x, Err(e) => { if failures.len() < 20 { failures.push(format!("C13: analysis of {:?} fails: {}", t, e)); } continue; } };
            let mut pos = 0;
            for k in toks.iter() {
                if k.0 != pos && failures.len() < 20 { failures.push(format!("C13: morphemes of {:?} do not partition the text: {:?}", t, toks.iter().map(|k| (k.0, k.1)).collect::<Vec<_>>())); break; }
                pos = k.1;
                if k.2 {
                    if (k.3 != -1 || !allowed.contains(&k.4) || k.5 != k.6) && failures.len() < 20 { failures.push(format!("C13: {:?}: the out-of-vocabulary morpheme {}..{} reports dictionary {}, part of speech {:?}, normalised form {:?}, dictionary form {:?}", t, k.0, k.1, k.3, k.4, k.5, k.6)); }
                } else if k.3 < 0 && failures.len() < 20 { failures.push(format!("C13: {:?}: the morpheme {}..{} has no dictionary but is not reported as out of vocabulary", t, k.0, k.1)); }
            }
            if pos != t.len() && !toks.is_empty() && failures.len() < 20 { failures.push(format!("C13: morphemes of {:?} end at {} of {}", t, pos, t.len())); }
        }
        // a base character and the mark behind it: separated or not, whatever follows
        for base in ["a", "1", "ア", "あ", "漢", "!", "😀"] { for mark in ["\u{301}", "\u{3099}", "\u{fe0f}", "\u{1F3FB}"] {
            let mut verdicts: Vec<(String, bool)> = Vec::new();
            // (followers that can begin a word: a further mark would lengthen the run beyond the 2-character limit of the ungrouped
            // KANJI definition, and the cut the definition then prescribes is not "because of what follows")
            for follow in ["", "a", "1", "ア", "あ", "漢", "!", " ", "京都", "😀"] {
                let t = format!("{}{}{}", base, mark, follow);
                if let Ok(toks) = run(&t) { verdicts.push((follow.to_string(), toks.iter().any(|k| k.1 == base.len()))); }
            }
            if verdicts.iter().any(|v| v.1 != verdicts[0].1) && failures.len() < 20 { failures.push(format!("C13: whether {:?} is separated from the mark {:?} behind it depends on what follows: {:?}", base, mark, verdicts)); }
        }}
        println!("verif_oracle_oov_end_to_end: {} texts, {} failures", texts.len(), failures.len());
        for f in failures.iter().take(5) { println!("FAILING INPUT: {}", f); }
        assert!(failures.is_empty());
    }

    /// C02 end to end: path rewriting off; for every text that can be segmented into dictionary words, (1) the cumulative cost reported
    /// for each mode C morpheme equals the sum recomputed along the returned path from the word parameters and the connection matrix
    /// (sentence start included), and (2) that path - with the connection to the sentence end - costs no more than the cheapest
    /// segmentation into dictionary words found by an independent dynamic programme over the public lookup.
    #[test]
    fn verif_oracle_min_cost_path() {
        if !want("C02") { return; }
        let (cfgb, _jd0) = dict();
        let mut cfg = cfgb.config();
        cfg.path_rewrite_plugins.clear();
        let jd = JapaneseDictionary::from_cfg(&cfg).unwrap();
        let conn = jd.grammar().conn_matrix();
        let lex = jd.lexicon();
        let vocab = ["東京", "都", "東京都", "京都", "に", "行っ", "た", "いく", "い", "く", "行く", "東", "京"];
        let mut texts: Vec<String> = Vec::new();
        let mut frontier = vec![String::new()];
        for _ in 0..4 {
            let mut nf = Vec::new();
            for t in &frontier { for c in vocab.iter() { let mut s = t.clone(); s.push_str(c); nf.push(s); } }
            texts.extend(nf.iter().cloned());
            frontier = nf;
        }
        texts.sort(); texts.dedup();
        let mut failures: Vec<String> = Vec::new();
        let (mut cases, mut compared) = (0usize, 0usize);
        for t in texts.iter() {
            cases += 1;
            let r = std::panic::catch_unwind(std::panic::AssertUnwindSafe(|| {
                let mut tok = StatefulTokenizer::new(&jd, Mode::C);
                tok.reset().push_str(t);
                tok.do_tokenize().map(|_| { let mut ms = MorphemeList::empty(&jd); ms.collect_results(&mut tok).unwrap(); ms.iter().map(|m| (m.begin(), m.end(), m.word_id(), m.is_oov(), m.total_cost())).collect::<Vec<_>>() })
            }));
            let toks = match r { Ok(Ok(x)) => x, _ => { if failures.len() < 20 { failures.push(format!("C02: analysis of {:?} fails", t)); } continue; } };
            if toks.iter().any(|k| k.3) { continue; }                       // an unknown word on the path: its parameters are the provider's
            // (1) cumulative costs along the returned path
            let mut sum: i64 = 0; let mut prev_right: u16 = 0; let mut ok = true;
            for k in toks.iter() {
                let (l, r_, c) = lex.get_word_param(k.2);
                sum += conn.cost(prev_right, l as u16) as i64 + c as i64;
                if sum != k.4 as i64 { ok = false; }
                prev_right = r_ as u16;
            }
            if !ok && failures.len() < 20 { failures.push(format!("C02: {:?}: cumulative costs reported {:?}, recomputed along the path they end at {}", t, toks.iter().map(|k| k.4).collect::<Vec<_>>(), sum)); }
            let total = sum + conn.cost(prev_right, 0) as i64;
            // (2) independent minimum over dictionary segmentations: best[pos][right id]
            let n = t.len();
            let mut best: Vec<std::collections::HashMap<u16, i64>> = vec![std::collections::HashMap::new(); n + 1];
            best[0].insert(0, 0);
            for p in 0..n {
                if best[p].is_empty() { continue; }
                let here: Vec<(u16, i64)> = best[p].iter().map(|(a, b)| (*a, *b)).collect();
                for e in lex.lookup(t.as_bytes(), p) {
                    let (l, r_, c) = lex.get_word_param(e.word_id);
                    for (pr, pc) in here.iter() {
                        let v = pc + conn.cost(*pr, l as u16) as i64 + c as i64;
                        let slot = best[e.end].entry(r_ as u16).or_insert(i64::MAX);
                        if v < *slot { *slot = v; }
                    }
                }
            }
            if let Some(m) = best[n].iter().map(|(r_, c)| c + conn.cost(*r_, 0) as i64).min() {
                compared += 1;
                if total > m && failures.len() < 20 { failures.push(format!("C02: {:?}: the returned path {:?} costs {} (sentence end included), a segmentation into dictionary words costs {}", t, toks.iter().map(|k| &t[k.0..k.1]).collect::<Vec<_>>(), total, m)); }
            }
        }
        println!("verif_oracle_min_cost_path: {} texts ({} compared with the independent minimum), {} failures", cases, compared, failures.len());
        for f in failures.iter().take(5) { println!("FAILING INPUT: {}", f); }
        assert!(failures.is_empty());
    }

    /// C14, path-rewrite plugins only merge neighbours: every text of up to 5 pieces over {アイ ウ ア に 1 万 , 京都} is analysed with the
    /// configured plugins (numeral joining, katakana-OOV joining) and with none; the boundaries with plugins are a subset of those
    /// without, a token that is not the result of a merge is reported unchanged, and a merged token swallows only katakana or
    /// numeral material - never a neighbour of another kind
    #[test]
    fn verif_oracle_plugins_only_merge() {
        if !want("C14") { return; }
        let mut cfgb = ConfigTestSupport::new();
        let mut dic = DictBuilder::new_system();
        dic.read_conn(super::super::MATRIX_10_10).unwrap();
        // the common lexicon plus a word written with digits only that is NOT a numeral (a model number): such a word never starts a joined numeral
        let mut lex = SYSTEM_LEX.to_vec();
        if !lex.ends_with(b"\n") { lex.push(b'\n'); }
        lex.extend_from_slice("777,8,8,-3000,777,名詞,普通名詞,一般,*,*,*,ナナナナナナ,777,*,A,*,*,*,*\n".as_bytes());
        // a katakana word whose HEADWORD (half-width) differs from its index key: joined with its neighbours, the merged token's
        // dictionary-side surface is the concatenation of the merged words' surfaces (ｴ...), not the text it covers
        lex.extend_from_slice("エ,8,8,3000,ｴ,名詞,普通名詞,一般,*,*,*,エ,エ,*,A,*,*,*,*\n".as_bytes());
        dic.read_lexicon(&lex[..]).unwrap();
        dic.resolve().unwrap();
        dic.compile(&mut cfgb.make_system()).unwrap();
        let mut cfg0 = cfgb.config();
        cfg0.path_rewrite_plugins.clear();
        let without = JapaneseDictionary::from_cfg(&cfg0).unwrap();
        let mut failures = Vec::new();
        let mut ntexts = 0usize;
        // the plugins as configured, and with the numeral plugin told to keep the forms as they are ("enableNormalize": false)
        for keep_forms in [false, true] {
        let mut cfg1 = cfgb.config();
        if keep_forms { for p in cfg1.path_rewrite_plugins.iter_mut() { if p["class"].as_str().map(|c| c.contains("JoinNumericPlugin")).unwrap_or(false) { p["enableNormalize"] = serde_json::Value::Bool(false); } } }
        let with = JapaneseDictionary::from_cfg(&cfg1).unwrap();
        let numeral_pos = with.grammar().get_part_of_speech_id(&["名詞", "数詞", "*", "*", "*", "*"]);
        let pieces = ["アイ", "ウ", "ア", "に", "1", "万", ",", "京都", "777", "エ"];
        let mut texts: Vec<String> = Vec::new();
        let mut frontier = vec![String::new()];
        for _ in 0..5 {
            let mut nf = Vec::new();
            for t in &frontier { for c in pieces.iter() { let mut s = t.clone(); s.push_str(c); nf.push(s); } }
            texts.extend(nf.iter().cloned());
            frontier = nf;
        }
        let mergeable = |s: &str| s.chars().all(|c| ('\u{30a1}'..='\u{30ff}').contains(&c)) || s.chars().all(|c| c.is_ascii_digit() || "万,.".contains(c) || "〇一二三四五六七八九十百千億兆".contains(c));
        ntexts += texts.len();
        for t in texts.iter() {
            let run = |jd: &JapaneseDictionary| -> Result<Vec<(usize, usize, u16, u32, String, String)>, String> {
                std::panic::catch_unwind(std::panic::AssertUnwindSafe(|| {
                    let mut tok = StatefulTokenizer::new(jd, Mode::C);
                    tok.reset().push_str(t);
                    tok.do_tokenize().map(|_| { let mut ms = MorphemeList::empty(jd); ms.collect_results(&mut tok).unwrap(); ms.iter().map(|m| (m.begin(), m.end(), m.part_of_speech_id(), m.word_id().as_raw(), m.normalized_form().to_string(), m.get_word_info().surface().to_string())).collect::<Vec<_>>() }).map_err(|e| format!("{:?}", e))
                })).unwrap_or_else(|_| Err("panic".to_string()))
            };
            let (a, b) = match (run(&with), run(&without)) { (Ok(a), Ok(b)) => (a, b), (x, y) => { if failures.len() < 20 { failures.push(format!("C14: analysis of {:?} fails: with plugins {:?}, without {:?}", t, x.err(), y.err())); } continue; } };
            let ends_b: Vec<usize> = b.iter().map(|k| k.1).collect();
            for k in a.iter() {
                if !ends_b.contains(&k.1) { if failures.len() < 20 { failures.push(format!("C14: {:?}: boundary {} exists only with the plugins", t, k.1)); } break; }
                let inner: Vec<&(usize, usize, u16, u32, String, String)> = b.iter().filter(|x| x.0 >= k.0 && x.1 <= k.1).collect();
                if inner.len() == 1 {
                    // not a merge: reported unchanged (a lone numeral may get its normalised form re-issued by the numeral plugin)
                    let x = inner[0];
                    let numeral = mergeable(&t[k.0..k.1]) && t[k.0..k.1].chars().any(|c| c.is_ascii_digit() || c == '万');
                    if (x.2 != k.2 || x.3 != k.3 || (!numeral && x.4 != k.4) || x.5 != k.5) && failures.len() < 20 { failures.push(format!("C14: {:?}: the token {}..{} is not part of a merge but is reported as {:?} instead of {:?}", t, k.0, k.1, k, x)); }
                } else {
                    // a joined numeral carries the numeral part of speech (the plugin joins only runs that START with a numeral word)
                    if !t[k.0..k.1].chars().all(|c| ('\u{30a1}'..='\u{30ff}').contains(&c)) && Some(k.2) != numeral_pos && failures.len() < 20 { failures.push(format!("C14: {:?} (enableNormalize {}): the joined token {:?} carries part of speech {} instead of the numeral one {:?}", t, !keep_forms, &t[k.0..k.1], k.2, numeral_pos)); }
                    // the dictionary-side surface of a merged token is the concatenation of the surfaces of the tokens it swallowed
                    let cat: String = inner.iter().map(|x| x.5.as_str()).collect();
                    if cat != k.5 && failures.len() < 20 { failures.push(format!("C14: {:?}: the merged token {:?} has the dictionary-side surface {:?}, the merged tokens have {:?}", t, &t[k.0..k.1], k.5, inner.iter().map(|x| x.5.clone()).collect::<Vec<_>>())); }
                    for x in inner.iter() {
                        if !mergeable(&t[x.0..x.1]) && failures.len() < 20 { failures.push(format!("C14: {:?}: the token {:?} ({}..{}) can not be part of a merge, but was swallowed by {:?}", t, &t[x.0..x.1], x.0, x.1, &t[k.0..k.1])); }
                    }
                }
            }
        }
        }
        println!("verif_oracle_plugins_only_merge: {} texts, {} failures", ntexts, failures.len());
        for f in failures.iter().take(5) { println!("FAILING INPUT: {}", f); }
        assert!(failures.is_empty());
    }

    /// C16, the dictionary veto against the WHOLE remaining text: with a lexicon that holds a multi-character word containing a terminator
    /// (な。な), one ending with it (娘。) and the terminator itself as a one-character entry, every text of up to 6 pieces over
    /// {ば な 。 で 娘} is split with window limits 1..=7 and the default: the sentences partition the text, and no sentence that ends with a
    /// terminator ends strictly inside an occurrence of な。な (also when the window ends inside the word); a terminator that is in no
    /// multi-character dictionary word and is followed by more text does end a sentence (default window)
    #[test]
    fn verif_oracle_sentence_breaks_respect_dictionary_words() {
        if !want("C16") { return; }
        use crate::sentence_splitter::{SentenceSplitter, SplitSentences};
        let pos = "名詞,普通名詞,一般,*,*,*";
        let mut lex = String::new();
        for k in ["ば", "な", "で", "娘", "。", "な。な", "娘。"] { lex.push_str(&format!("{},8,8,3000,{},{},{},{},*,A,*,*,*,*\n", k, k, pos, k, k)); }
        lex.push_str("五,9,9,2478,五,名詞,数詞,*,*,*,*,ゴ,五,*,A,*,*,*,*\n");   // the numeral part of speech the configured plugins look up
        let mut cfgb = ConfigTestSupport::new();
        let mut dic = DictBuilder::new_system();
        dic.read_conn(super::super::MATRIX_10_10).unwrap();
        dic.read_lexicon(lex.as_bytes()).unwrap();
        dic.resolve().unwrap();
        dic.compile(&mut cfgb.make_system()).unwrap();
        let jd = JapaneseDictionary::from_cfg(&cfgb.config()).unwrap();
        let pieces = ["ば", "な", "。", "で", "娘"];
        let mut texts: Vec<String> = Vec::new();
        let mut frontier = vec![String::new()];
        for _ in 0..6 {
            let mut nf = Vec::new();
            for t in &frontier { for c in pieces.iter() { let mut s = t.clone(); s.push_str(c); nf.push(s); } }
            texts.extend(nf.iter().cloned());
            frontier = nf;
        }
        let mut failures: Vec<String> = Vec::new();
        let mut cases = 0usize;
        let word = "な。な";
        for limit in [0usize, 1, 2, 3, 4, 5, 6, 7] {
            let sp = if limit == 0 { SentenceSplitter::new() } else { SentenceSplitter::with_limit(limit) };
            let sp = sp.with_checker(jd.lexicon());
            for t in texts.iter().filter(|t| t.contains('。')) {
                cases += 1;
                let parts: Vec<(std::ops::Range<usize>, &str)> = match std::panic::catch_unwind(std::panic::AssertUnwindSafe(|| sp.split(t).take(t.len() + 2).collect::<Vec<_>>())) {
                    Ok(p) => p, Err(_) => { if failures.len() < 20 { failures.push(format!("C16: splitting {:?} with window limit {} panics", t, limit)); } continue; } };
                let ctx = format!("text {:?}, window limit {}: sentences {:?}", t, if limit == 0 { 4096 } else { limit }, parts.iter().map(|p| p.1).collect::<Vec<_>>());
                let mut at = 0; let mut ok = true;
                for (r, s) in &parts { if r.start != at || r.end <= r.start || r.end > t.len() || *s != &t[r.clone()] { ok = false; break; } at = r.end; }
                if !ok || at != t.len() { if failures.len() < 20 { failures.push(format!("C16: sentences do not partition the text: {}", ctx)); } continue; }
                for (r, s) in parts.iter().take(parts.len().saturating_sub(1)) {
                    if !s.ends_with('。') { continue; }   // a cut forced by the window, not a sentence boundary
                    let b = r.end;
                    let mut from = 0;
                    while let Some(p) = t[from..].find(word) {
                        let p = from + p;
                        if p < b && b < p + word.len() && failures.len() < 20 { failures.push(format!("C16: a sentence ends at byte {} inside the dictionary word {:?} at {}..{}: {}", b, word, p, p + word.len(), ctx)); }
                        from = p + "な".len();
                    }
                }
                if limit == 0 {
                    // converse: a terminator in no multi-character dictionary word, followed by a non-terminator, ends a sentence
                    let ends: Vec<usize> = parts.iter().map(|p| p.0.end).collect();
                    let cs: Vec<(usize, char)> = t.char_indices().collect();
                    for k in 0..cs.len() {
                        if cs[k].1 != '。' || k + 1 >= cs.len() || cs[k + 1].1 == '。' { continue; }
                        let in_word = (k >= 1 && cs[k - 1].1 == '娘') || (k >= 1 && cs[k - 1].1 == 'な' && cs[k + 1].1 == 'な');
                        let b = cs[k + 1].0;
                        if !in_word && !ends.contains(&b) && failures.len() < 20 { failures.push(format!("C16: the terminator at byte {} is in no multi-character dictionary word but does not end a sentence: {}", cs[k].0, ctx)); }
                    }
                }
            }
        }
        println!("verif_oracle_sentence_breaks_respect_dictionary_words: {} cases, {} failures", cases, failures.len());
        for f in failures.iter().take(5) { println!("FAILING INPUT: {}", f); }
        assert!(failures.is_empty());
    }

    /// C05, the grammar section read back: part-of-speech strings of 1 / 126 / 127 / 128 UTF-16 units (the length prefix switches to two
    /// bytes at 127, so the matrix starts at an odd or an even address) in front of a 10 x 11 matrix of pairwise distinct costs: every cell
    /// read through the loaded dictionary equals the matrix text, every entry reports its declared strings and is found by lookup
    #[test]
    fn verif_oracle_matrix_cells_behind_long_pos() {
        if !want("C05") { return; }
        let mut failures: Vec<String> = Vec::new();
        let mut cases = 0usize;
        let mut matrix = String::from("10 11\n");
        let cell = |l: usize, r: usize| -> i16 { (37 * l as i16 + 5 * r as i16 - 200) * 3 };
        for l in 0..10 { for r in 0..11 { matrix.push_str(&format!("{} {} {}\n", l, r, cell(l, r))); } }
        for n in [1usize, 126, 127, 128, 255] { for longs in [1usize, 2, 3] {
            cases += 1;
            let comp: String = std::iter::repeat('あ').take(n).collect();
            let mut pos: Vec<String> = vec!["名詞".to_string(), "普通名詞".to_string(), "一般".to_string(), "*".to_string(), "*".to_string(), "*".to_string()];
            for k in 0..longs { pos[3 + k] = format!("{}{}", comp, k); }
            let lex = format!("京,1,2,100,京,{},キョウ,京,*,A,*,*,*,*\n都,2,1,200,都,名詞,普通名詞,一般,*,*,*,ト,都,*,A,*,*,*,*\n五,9,9,2478,五,名詞,数詞,*,*,*,*,ゴ,五,*,A,*,*,*,*\n", pos.join(","));
            let r = std::panic::catch_unwind(std::panic::AssertUnwindSafe(|| -> Result<(), String> {
                let mut cfgb = ConfigTestSupport::new();
                let mut dic = DictBuilder::new_system();
                dic.read_conn(matrix.as_bytes()).map_err(|e| format!("matrix refused: {:?}", e))?;
                dic.read_lexicon(lex.as_bytes()).map_err(|e| format!("lexicon refused: {:?}", e))?;
                dic.resolve().map_err(|e| format!("{:?}", e))?;
                dic.compile(&mut cfgb.make_system()).map_err(|e| format!("{:?}", e))?;
                let jd = JapaneseDictionary::from_cfg(&cfgb.config()).map_err(|e| format!("does not load: {:?}", e))?;
                let m = jd.grammar().conn_matrix();
                if m.num_left() != 10 || m.num_right() != 11 { return Err(format!("matrix dimensions read as {} x {}", m.num_left(), m.num_right())); }
                for l in 0..10usize { for r in 0..11usize {
                    let got = m.cost(l as u16, r as u16);
                    if got != cell(l, r) { return Err(format!("connection cost ({}, {}) reads {}, the matrix text says {}", l, r, got, cell(l, r))); }
                }}
                let mut tok = StatefulTokenizer::new(&jd, Mode::C);
                tok.reset().push_str("京都");
                tok.do_tokenize().map_err(|e| format!("{:?}", e))?;
                let mut ms = MorphemeList::empty(&jd); ms.collect_results(&mut tok).map_err(|e| format!("{:?}", e))?;
                let got: Vec<(String, Vec<String>, String)> = ms.iter().map(|m| (m.surface().to_string(), m.part_of_speech().to_vec(), m.reading_form().to_string())).collect();
                let want = vec![("京".to_string(), pos.clone(), "キョウ".to_string()), ("都".to_string(), vec!["名詞", "普通名詞", "一般", "*", "*", "*"].into_iter().map(String::from).collect(), "ト".to_string())];
                if got != want { return Err(format!("京都 is reported as {:?}", got.iter().map(|g| (g.0.clone(), g.1.iter().map(|c| c.chars().count()).collect::<Vec<_>>(), g.2.clone())).collect::<Vec<_>>())); }
                Ok(())
            })).unwrap_or_else(|_| Err("panic".to_string()));
            if let Err(e) = r { if failures.len() < 20 { failures.push(format!("C05: dictionary with {} part-of-speech component(s) of {} characters: {}", longs, n + 1, e)); } }
        }}
        println!("verif_oracle_matrix_cells_behind_long_pos: {} dictionaries, {} failures", cases, failures.len());
        for f in failures.iter().take(5) { println!("FAILING INPUT: {}", f); }
        assert!(failures.is_empty());
    }

    /// C05, determinism and alignment: the same lexicon and matrix compiled twice with the same timestamp give byte-identical
    /// dictionaries (system and user), and a dictionary loaded from a buffer at every alignment modulo 4 analyses every text like the
    /// one loaded from the file and reports the same fields for every word
    #[test]
    fn verif_oracle_deterministic_and_alignment_independent() {
        if !want("C05") { return; }
        use crate::dic::storage::{Storage, SudachiDicData};
        let stamp = std::time::UNIX_EPOCH + std::time::Duration::from_secs(1_600_000_000);
        let build_sys = || -> Vec<u8> {
            let mut dic = DictBuilder::new_system();
            dic.set_compile_time(stamp);
            dic.read_conn(super::super::MATRIX_10_10).unwrap();
            dic.read_lexicon(SYSTEM_LEX).unwrap();
            dic.resolve().unwrap();
            let mut out = Vec::new(); dic.compile(&mut out).unwrap(); out
        };
        let mut failures = Vec::new();
        let (s1, s2) = (build_sys(), build_sys());
        if s1 != s2 { failures.push(format!("the system dictionary compiled twice from the same inputs differs (first difference at byte {:?}, lengths {} / {})", s1.iter().zip(s2.iter()).position(|(a, b)| a != b), s1.len(), s2.len())); }
        let mut cfgb = ConfigTestSupport::new();
        cfgb.make_system().write_all(&s1).unwrap();
        let sys = JapaneseDictionary::from_cfg(&cfgb.config()).unwrap();
        let build_user = |lex: &[u8]| -> Vec<u8> {
            let mut ud = DictBuilder::new_user(&sys);
            ud.set_compile_time(stamp);
            ud.read_lexicon(lex).unwrap();
            ud.resolve().unwrap();
            let mut out = Vec::new(); ud.compile(&mut out).unwrap(); out
        };
        for (name, lex) in [("user1", USER1_LEX), ("user2", USER2_LEX)] {
            let (u1, u2) = (build_user(lex), build_user(lex));
            if u1 != u2 { failures.push(format!("the user dictionary {} compiled twice from the same inputs differs (first difference at byte {:?})", name, u1.iter().zip(u2.iter()).position(|(a, b)| a != b))); }
        }
        // alignment
        let cfg = cfgb.config();
        let texts: Vec<String> = texts().into_iter().take(400).collect();
        let analyse = |jd: &JapaneseDictionary| -> Vec<Vec<(usize, usize, String, u16, String, String, String, u32)>> {
            texts.iter().map(|t| {
                let mut tok = StatefulTokenizer::new(jd, Mode::A);
                tok.reset().push_str(t);
                match tok.do_tokenize() { Ok(_) => { let mut ms = MorphemeList::empty(jd); ms.collect_results(&mut tok).unwrap(); ms.iter().map(|m| (m.begin(), m.end(), m.surface().to_string(), m.part_of_speech_id(), m.normalized_form().to_string(), m.dictionary_form().to_string(), m.reading_form().to_string(), m.word_id().as_raw())).collect() }, Err(_) => Vec::new() }
            }).collect()
        };
        let reference = analyse(&sys);
        // the raw numbers too: every connection cost and the parameters of every word
        let nwords = std::str::from_utf8(SYSTEM_LEX).unwrap().lines().filter(|l| !l.trim().is_empty()).count() as u32;
        let numbers = |jd: &JapaneseDictionary| -> Vec<i32> {
            let mut v = Vec::new();
            let m = jd.grammar().conn_matrix();
            for l in 0..m.num_left() as u16 { for r in 0..m.num_right() as u16 { v.push(m.cost(l, r) as i32); } }
            for w in 0..nwords { let p = jd.lexicon().get_word_param(crate::dic::word_id::WordId::new(0, w)); v.push(p.0 as i32); v.push(p.1 as i32); v.push(p.2 as i32); }
            v
        };
        let ref_numbers = numbers(&sys);
        for off in 0usize..4 {
            let mut buf = vec![0u8; s1.len() + 8];
            let base = buf.as_ptr() as usize;
            let shift = (4 - base % 4) % 4 + off;         // address = off modulo 4
            buf[shift..shift + s1.len()].copy_from_slice(&s1);
            let leaked: &'static [u8] = Box::leak(buf.into_boxed_slice());
            let slice: &'static [u8] = &leaked[shift..shift + s1.len()];
            let r = std::panic::catch_unwind(|| {
                let jd = JapaneseDictionary::from_cfg_storage(&cfg, SudachiDicData::new(Storage::Borrowed(slice))).map_err(|e| format!("{:?}", e))?;
                Ok::<_, String>((analyse(&jd), numbers(&jd)))
            });
            match r {
                Ok(Ok((got, nums))) => { if nums != ref_numbers { let i = (0..nums.len()).find(|i| nums[*i] != ref_numbers[*i]).unwrap(); failures.push(format!("dictionary loaded at an address = {} modulo 4: connection cost / word parameter number {} is {}, from the file {}", off, i, nums[i], ref_numbers[i])); }
                    if let Some(i) = (0..texts.len()).find(|i| got[*i] != reference[*i]) { failures.push(format!("dictionary loaded at an address = {} modulo 4: {:?} is analysed as {:?}, from the file as {:?}", off, texts[i], got[i], reference[i])); } }
                Ok(Err(e)) => failures.push(format!("dictionary loaded at an address = {} modulo 4 does not load: {}", off, e)),
                Err(_) => failures.push(format!("dictionary loaded at an address = {} modulo 4: loading or analysis panics", off)),
            }
        }
        println!("verif_oracle_deterministic_and_alignment_independent: {} failures", failures.len());
        for f in failures.iter().take(5) { println!("FAILING INPUT: {}", f); }
        assert!(failures.is_empty());
    }
