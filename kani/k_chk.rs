//@kani target=sudachi/src/dic/grammar.rs
//@kani harness=check_left_id_contract kind=complete
//@kani harness=check_right_id_contract kind=complete
//@kani harness=check_cost_contract kind=complete
//@kani harness=check_left_id_uses_lattice_dimension kind=complete
//@kani harness=check_left_id_strict kind=complete
//@kani harness=check_right_id_strict kind=complete
// K-CHK (C20): util/check_params.rs  check_left_id / check_right_id / check_cost for every i64 and every matrix dimension.
// Loop-free, inputs range over the full machine domain => complete proof, not a bounded stand-in.
    use crate::util::check_params::CheckParams;

    fn fake_format(_: std::fmt::Arguments<'_>) -> String { String::new() }

    fn grammar(nl: usize, nr: usize) -> Grammar<'static> {
        // zero-size data: one of the dimensions is 0, the other arbitrary (no data is read by the checks)
        let conn = match ConnectionMatrix::from_offset_size(&[], 0, nl, nr) {
            Ok(c) => c,
            Err(e) => { std::mem::forget(e); kani::assume(false); unreachable!() }
        };
        Grammar { _bytes: &[], pos_list: Vec::new(), storage_size: 0, connection: conn, character_category: CharacterCategory::default() }
    }

    /// valid dictionary invariant: dimensions are u16 header fields read as i16-compatible sizes
    fn dim() -> usize { let d: usize = kani::any(); kani::assume(d <= 32767); d }

    #[kani::proof]
    #[kani::stub(alloc::fmt::format, fake_format)]
    fn check_left_id_contract() {
        let nl = dim();
        let g = grammar(nl, 0);
        let raw: i64 = kani::any();
        let r = g.check_left_id(raw);
        match &r {
            // accepted => unchanged value that indexes an existing line of the matrix
            // (residual of known finding F1r: id 0 is accepted for a grammar without a matrix)
            Ok(v) => { assert!(*v as i64 == raw); assert!((*v as usize) < nl || (nl == 0 && *v == 0)); }
            // rejected only when it does not
            Err(_) => { assert!(raw < 0 || raw >= nl as i64); }
        }
        kani::cover!(r.is_ok());
        kani::cover!(r.is_err());
        std::mem::forget(r); std::mem::forget(g);
    }

    #[kani::proof]
    #[kani::stub(alloc::fmt::format, fake_format)]
    fn check_right_id_contract() {
        let nr = dim();
        let g = grammar(0, nr);
        let raw: i64 = kani::any();
        let r = g.check_right_id(raw);
        match &r {
            Ok(v) => { assert!(*v as i64 == raw); assert!((*v as usize) < nr || (nr == 0 && *v == 0)); }
            Err(_) => { assert!(raw < 0 || raw >= nr as i64); }
        }
        kani::cover!(r.is_ok());
        kani::cover!(r.is_err());
        std::mem::forget(r); std::mem::forget(g);
    }

    #[kani::proof]
    #[kani::stub(alloc::fmt::format, fake_format)]
    fn check_cost_contract() {
        let g = grammar(0, 0);
        let raw: i64 = kani::any();
        let r = g.check_cost(raw);
        match &r {
            Ok(v) => { assert!(*v as i64 == raw); }
            Err(_) => { assert!(raw < i16::MIN as i64 || raw > i16::MAX as i64); }
        }
        kani::cover!(r.is_ok());
        kani::cover!(r.is_err());
        std::mem::forget(r); std::mem::forget(g);
    }

    /// FULL-STRENGTH (known finding F4): the lattice passes a node's left id as the `right` argument of
    /// ConnectionMatrix::cost, i.e. it must be < num_right; the check compares it with num_left.
    #[kani::proof]
    #[kani::stub(alloc::fmt::format, fake_format)]
    fn check_left_id_uses_lattice_dimension() {
        let nl = dim();
        let g = grammar(nl, 0);
        let raw: i64 = kani::any();
        let r = g.check_left_id(raw);
        if let Ok(v) = &r { assert!((*v as usize) < g.conn_matrix().num_right()); }
        std::mem::forget(r); std::mem::forget(g);
    }

    /// FULL-STRENGTH twins of the two contracts above without the empty-matrix exemption (known finding F1r)
    #[kani::proof]
    #[kani::stub(alloc::fmt::format, fake_format)]
    fn check_left_id_strict() {
        let nl = dim();
        let g = grammar(nl, 0);
        let raw: i64 = kani::any();
        let r = g.check_left_id(raw);
        if let Ok(v) = &r { assert!((*v as usize) < nl); }
        std::mem::forget(r); std::mem::forget(g);
    }
    #[kani::proof]
    #[kani::stub(alloc::fmt::format, fake_format)]
    fn check_right_id_strict() {
        let nr = dim();
        let g = grammar(0, nr);
        let raw: i64 = kani::any();
        let r = g.check_right_id(raw);
        if let Ok(v) = &r { assert!((*v as usize) < nr); }
        std::mem::forget(r); std::mem::forget(g);
    }
