// UNIT V-PSPLIT (C05, C06): dic/build/lexicon.rs  LexiconReader::parse_split and dic/build/parse.rs it_next -- how ONE split unit of a
// lexicon row is read: a word-id literal becomes a reference to that word, anything else is an inline reference
// `headword,pos1,..,pos6,reading` whose fields are unescaped, whose part of speech is looked up (or registered) in the compiler's table and
// whose reading is stored as absent when it equals the headword.
// ASSUMED: the regex `^U?\d+$` as a predicate of the text, `splitn(8, ",")` as the list of its parts (at most 8), the field parsers unescape /
// unescape_cow / parse_wordid as functions of the text (decided in v_parse), pos_of (decided in v_pos), none_if_equal (str == Cow<str>).
// Dropped: the texts of error values (R12).
use vstd::prelude::*;
use vstd::string::*;
verus! {
global size_of usize == 8;
//@include common/error.rs.inc
//@include common/build_prelude.rs.inc
//@include common/wordid_stub.rs.inc
#[verifier::external_body] fn err_string() -> String { String::new() }   // R12: message texts are not verified
#[verifier::external_body] pub struct DicCompilationCtx { _p: () }
#[verifier::external_body] pub struct CowStr { _p: () }
pub trait AsText { spec fn text(&self) -> Seq<char>; }
impl AsText for CowStr { uninterp spec fn text(&self) -> Seq<char>; }
impl AsText for String { open spec fn text(&self) -> Seq<char> { self@ } }
spec fn absent_if_equal(base: Seq<char>, v: Seq<char>) -> Option<Seq<char>> { if base == v { None } else { Some(v) } }
spec fn opt_text(o: Option<String>) -> Option<Seq<char>> { match o { Some(s) => Some(s@), None => None } }
#[verifier::external_body]
fn none_if_equal<B: AsText>(surface: &B, data: CowStr) -> (r: Option<String>) ensures opt_text(r) == absent_if_equal(surface.text(), data.text()) { unimplemented!() }

//@extract sudachi/src/dic/build/lexicon.rs :: enum SplitUnit
//@  derive
//@end
//@extract sudachi/src/dic/build/lexicon.rs :: struct RawLexiconEntry
//@end
//@extract sudachi/src/analysis/mod.rs :: enum Mode
//@  derive Clone, Copy, PartialEq, Eq, Structural
//@end
#[verifier::external_body] pub struct PosTable { _p: () }
impl PosTable { pub uninterp spec fn ents(&self) -> Seq<(Seq<Seq<char>>, u16)>; }
//@extract sudachi/src/dic/build/lexicon.rs :: struct LexiconReader
//@  rw R14 1 custom
//@  | IndexMap<StrPosEntry, u16>
//@  > PosTable
//@end

// ---- the field parsers as functions of the text (contracts discharged in v_parse; unescape_cow has the body of unescape)
uninterp spec fn sp_unescape(s: Seq<char>) -> Option<Seq<char>>;
uninterp spec fn sp_wordid(s: Seq<char>) -> Option<WordId>;
uninterp spec fn sp_is_wordid_literal(s: Seq<char>) -> bool;
#[verifier::external_body] fn unescape(data: &str) -> (r: DicWriteResult<String>)
    ensures r is Ok <==> sp_unescape(data@) is Some, r is Ok ==> Some(r->Ok_0@) == sp_unescape(data@) { unimplemented!() }
#[verifier::external_body] fn unescape_cow(data: &str) -> (r: DicWriteResult<CowStr>)
    ensures r is Ok <==> sp_unescape(data@) is Some, r is Ok ==> Some(r->Ok_0.text()) == sp_unescape(data@) { unimplemented!() }
#[verifier::external_body] fn parse_wordid(data: &str) -> (r: DicWriteResult<WordId>)
    ensures r is Ok <==> sp_wordid(data@) is Some, r is Ok ==> Some(r->Ok_0) == sp_wordid(data@) { unimplemented!() }
#[verifier::external_body] fn word_id_literal_is_match(data: &str) -> (r: bool) ensures r == sp_is_wordid_literal(data@) { unimplemented!() }
/// R14i: `data.splitn(8, ",")` as a cursor over the list of parts (ASSUMED std contract: at most 8 parts, in order)
uninterp spec fn sp_comma_parts(s: Seq<char>) -> Seq<Seq<char>>;
pub struct StrParts<'a> { pub parts: Vec<&'a str>, pub pos: usize }
#[verifier::external_body]
fn str_splitn8<'a>(s: &'a str) -> (r: StrParts<'a>)
    ensures r.pos == 0, r.parts@.len() == sp_comma_parts(s@).len(), r.parts@.len() <= 8, forall|i: int| 0 <= i < r.parts@.len() ==> (#[trigger] r.parts@[i])@ == sp_comma_parts(s@)[i]
{ unimplemented!() }
impl<'a> StrParts<'a> {
    fn next(&mut self) -> (r: Option<&'a str>)
        requires old(self).pos <= old(self).parts@.len()
        ensures
            final(self).parts == old(self).parts, final(self).pos <= final(self).parts@.len(),
            old(self).pos < old(self).parts@.len() ==> r == Some(old(self).parts@[old(self).pos as int]) && final(self).pos == old(self).pos + 1,
            old(self).pos >= old(self).parts@.len() ==> r is None && final(self).pos == old(self).pos,
    {
        if self.pos < self.parts.len() { let x = self.parts[self.pos]; self.pos = self.pos + 1; Some(x) } else { None }
    }
}

//@extract sudachi/src/dic/build/parse.rs :: fn it_next
//@  rw R14i 1 custom
//@  | fn it_next<'a, I, T, F>\(
//@  > fn it_next<'a, T, F>(
//@  rw R14i 1 custom
//@  | data: &mut I,
//@  > data: &mut StrParts<'a>,
//@  rw R14i 1 custom
//@  | I: Iterator<Item = &'a str>,\s*
//@  >
//@  rw R12 1 custom
//@  | original: orig\.to_owned\(\),
//@  > original: err_string(),
//@  ret r
//@  spec
        requires old(data).pos <= old(data).parts@.len(), forall|s: &'a str| f.requires((s,)),
        ensures
            final(data).parts == old(data).parts, final(data).pos <= final(data).parts@.len(),
            // the next part goes through the given parser; a missing part is an error
            old(data).pos < old(data).parts@.len() ==> final(data).pos == old(data).pos + 1 && f.ensures((old(data).parts@[old(data).pos as int],), r),
            old(data).pos >= old(data).parts@.len() ==> r is Err,
//@end

impl LexiconReader {
    // contract discharged on the real body in unit v_pos (the id names the six strings in the table)
    #[verifier::external_body]
    fn pos_of(&mut self, data: [CowStr; 6]) -> (r: DicWriteResult<u16>)
        ensures
            final(self).entries == old(self).entries, final(self).unresolved == old(self).unresolved, final(self).start_pos == old(self).start_pos,
            r is Ok ==> (r->Ok_0 as int) < final(self).pos.ents().len() && final(self).pos.ents()[r->Ok_0 as int].0 == Seq::new(6, |k: int| data@[k].text()),
    { unimplemented!() }

//@extract sudachi/src/dic/build/lexicon.rs :: impl LexiconReader :: fn parse_split
//@  rw R14 1 custom
//@  | WORD_ID_LITERAL\.is_match\(data\)
//@  > word_id_literal_is_match(data)
//@  rw R14i 1 custom
//@  | data\.splitn\(8, ","\)
//@  > str_splitn8(data)
//@  ret r
//@  spec
        ensures
            final(self).entries == old(self).entries, final(self).unresolved == old(self).unresolved, final(self).start_pos == old(self).start_pos,
            // a word-id literal is a reference to the word it denotes
            sp_is_wordid_literal(data@) ==> (r is Ok <==> sp_wordid(data@) is Some) && (r is Ok ==> r->Ok_0 == SplitUnit::Ref(sp_wordid(data@)->Some_0)),
            // anything else is `headword,pos1,...,pos6,reading`: eight parts, each unescaped; the part of speech is the id of parts 1..6
            // in the compiler's table; the reading is absent when it equals the headword
            !sp_is_wordid_literal(data@) && r is Ok ==> ({
                let p = sp_comma_parts(data@);
                &&& p.len() == 8 && forall|k: int| 0 <= k < 8 ==> sp_unescape(#[trigger] p[k]) is Some
                &&& r->Ok_0 is Inline
                &&& r->Ok_0->surface@ == sp_unescape(p[0])->Some_0
                &&& (r->Ok_0->pos as int) < final(self).pos.ents().len()
                &&& final(self).pos.ents()[r->Ok_0->pos as int].0 == Seq::new(6, |k: int| sp_unescape(p[1 + k])->Some_0)
                &&& opt_text(r->Ok_0->reading) == absent_if_equal(sp_unescape(p[0])->Some_0, sp_unescape(p[7])->Some_0)
            }),
//@  after let pos = self.pos_of(
            proof {
                let p = sp_comma_parts(data@);
                assert(self.pos.ents()[pos as int].0 =~= Seq::new(6, |k: int| sp_unescape(p[1 + k])->Some_0));
            }
//@end
}
} // verus!
fn main() {}
