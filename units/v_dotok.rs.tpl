// UNIT V-DOTOK (C10, C01, C07): analysis/stateful_tokenizer.rs  StatefulTokenizer::do_tokenize / rewrite_input / swap_result
// The stages (start_build, the input-text plugins, build, the lattice builder, best-path resolution, the path-rewrite plugins,
// split_path) are opaque here -- their bodies are under contract in v_buf0, v_norm, v_bufro, v_build, v_path, v_katakana/v_numeric and
// v_node.  This unit decides the GLUE: the result handed out by swap_result is tok_result(dictionary, text, mode, subset) -- a closed
// term that mentions neither the old lattice, nor the OOV scratch, nor an earlier result, nor an earlier failure.
use vstd::prelude::*;
use vstd::string::*;
use std::ops::Range;
verus! {
global size_of usize == 8;
//@include common/error.rs.inc
//@include common/wordid_stub.rs.inc
//@include common/info_subset.rs.inc
//@include common/node_types.rs.inc
//@extract sudachi/src/analysis/inner.rs :: struct NodeIdx
//@end
//@extract sudachi/src/analysis/mod.rs :: enum Mode
//@  derive Clone, Copy, PartialEq, Eq, Structural
//@end
/// assumed std contract of Option::get_or_insert_with
pub assume_specification<T, F: FnOnce() -> T + core::marker::Destruct> [Option::<T>::get_or_insert_with] (o: &mut Option<T>, f: F) -> (r: &mut T)
    ensures
        (*old(o)) is Some ==> *r == (*old(o))->Some_0,
        (*old(o)) is None ==> f.ensures((), *r),
        *final(o) == Some(*final(r));
#[verifier::external_body] fn str_is_empty(s: &str) -> (r: bool) ensures r == (s@.len() == 0) { s.is_empty() }

// ---- opaque collaborators.  ASSUMED (determinism): each stage is a function of the abstract values it is given
#[verifier::external_body] pub struct InputView { _p: () }
#[verifier::external_body] pub struct LatView { _p: () }
#[verifier::external_body] pub struct Grammar { _p: () }
#[verifier::external_body] pub struct InputBuffer { _p: () }
impl InputBuffer {
    pub uninterp spec fn view(&self) -> InputView;
    pub uninterp spec fn sp_started(i: InputView) -> InputView;
    pub uninterp spec fn sp_built(i: InputView, g: Grammar) -> InputView;
    pub uninterp spec fn sp_current(i: InputView) -> Seq<char>;
    #[verifier::external_body]
    fn start_build(&mut self) -> (r: SudachiResult<()>) ensures r is Ok ==> final(self)@ == Self::sp_started(old(self)@) { unimplemented!() }
    #[verifier::external_body]
    fn build(&mut self, g: &Grammar) -> (r: SudachiResult<()>) ensures r is Ok ==> final(self)@ == Self::sp_built(old(self)@, *g) { unimplemented!() }
    #[verifier::external_body]
    fn current(&self) -> (r: &str) ensures r@ == Self::sp_current(self@) { unimplemented!() }
}
#[verifier::external_body] pub struct Lattice { _p: () }
impl Lattice { pub uninterp spec fn view(&self) -> LatView; }
/// `Box<dyn InputTextPlugin + Sync + Send>`
#[verifier::external_body] pub struct InputPlugin { _p: () }
impl InputPlugin {
    pub uninterp spec fn sp_rewrite(&self, i: InputView) -> InputView;
    #[verifier::external_body]
    fn rewrite(&self, input: &mut InputBuffer) -> (r: SudachiResult<()>) ensures r is Ok ==> final(input)@ == self.sp_rewrite(old(input)@) { unimplemented!() }
}
/// `Box<dyn PathRewritePlugin + Sync + Send>`
#[verifier::external_body] pub struct PathPlugin { _p: () }
impl PathPlugin {
    pub uninterp spec fn sp_rewrite(&self, i: InputView, p: Seq<ResultNode>, l: LatView) -> Seq<ResultNode>;
    #[verifier::external_body]
    fn rewrite(&self, text: &InputBuffer, path: Vec<ResultNode>, lattice: &Lattice) -> (r: SudachiResult<Vec<ResultNode>>)
        ensures r is Ok ==> r->Ok_0@ == self.sp_rewrite(text@, path@, lattice@) { unimplemented!() }
}
pub trait DictionaryAccess {
    spec fn sp_grammar(&self) -> Grammar;
    spec fn sp_in_plugins(&self) -> Seq<InputPlugin>;
    spec fn sp_path_plugins(&self) -> Seq<PathPlugin>;
    /// the lattice the builder produces for a built input (v_build: lattice_is); the best path read off it (v_path: token_ok)
    spec fn sp_lattice(&self, i: InputView) -> LatView;
    spec fn sp_best(&self, i: InputView, l: LatView, subset: InfoSubset) -> Seq<ResultNode>;
    spec fn sp_split(&self, p: Seq<ResultNode>, mode: Mode, subset: InfoSubset, i: InputView) -> Seq<ResultNode>;
    fn grammar(&self) -> (r: &Grammar) ensures *r == self.sp_grammar();
    fn input_text_plugins(&self) -> (r: &[InputPlugin]) ensures r@ == self.sp_in_plugins();
    fn path_rewrite_plugins(&self) -> (r: &[PathPlugin]) ensures r@ == self.sp_path_plugins();
}
// contract discharged on the real body in unit v_node (split_path)
#[verifier::external_body]
fn split_path<D: DictionaryAccess>(dict: &D, path: Vec<ResultNode>, mode: Mode, subset: InfoSubset, input: &InputBuffer) -> (r: SudachiResult<Vec<ResultNode>>)
    ensures r is Ok ==> r->Ok_0@ == dict.sp_split(path@, mode, subset, input@)
{ unimplemented!() }

//@extract sudachi/src/analysis/stateful_tokenizer.rs :: struct StatefulTokenizer
//@end

/// the input after the first k input-text plugins, in configuration order
spec fn in_upto(pl: Seq<InputPlugin>, k: int, i: InputView) -> InputView decreases k
{ if k <= 0 { i } else { pl[k - 1].sp_rewrite(in_upto(pl, k - 1, i)) } }
/// the path after the first k path-rewrite plugins, in configuration order
spec fn path_upto(pl: Seq<PathPlugin>, k: int, i: InputView, l: LatView, p: Seq<ResultNode>) -> Seq<ResultNode> decreases k
{ if k <= 0 { p } else { pl[k - 1].sp_rewrite(i, path_upto(pl, k - 1, i, l, p), l) } }
/// the analysed text: started, rewritten by every input-text plugin in order, then built with the dictionary's grammar
spec fn tok_input<D: DictionaryAccess>(d: D, i0: InputView) -> InputView
{ InputBuffer::sp_built(in_upto(d.sp_in_plugins(), d.sp_in_plugins().len() as int, InputBuffer::sp_started(i0)), d.sp_grammar()) }
/// C10: what an analysis reports -- a function of the dictionary, the text, the mode and the field request, and of nothing else
spec fn tok_result<D: DictionaryAccess>(d: D, i0: InputView, mode: Mode, subset: InfoSubset) -> Seq<ResultNode> {
    let i = tok_input(d, i0);
    let l = d.sp_lattice(i);
    if InputBuffer::sp_current(i).len() == 0 { Seq::empty() }      // C01: only an empty normalised text yields no morphemes here
    else { d.sp_split(path_upto(d.sp_path_plugins(), d.sp_path_plugins().len() as int, i, l, d.sp_best(i, l, subset)), mode, subset, i) }
}
/// what swap_result hands out
spec fn path_view(p: Option<Vec<ResultNode>>) -> Seq<ResultNode> { if p is Some { p->Some_0@ } else { Seq::empty() } }
/// state between public operations; deliberately says nothing about top_path: an analysis may fail after the path was taken
spec fn tok_inv<D>(t: StatefulTokenizer<D>) -> bool { t.top_path_ids@.len() == 0 }

impl<D: DictionaryAccess> StatefulTokenizer<D> {
//@extract sudachi/src/analysis/stateful_tokenizer.rs :: impl<D: DictionaryAccess> StatefulTokenizer<D> :: fn rewrite_input
//@  rw R6p 1 custom
//@  | for p in self\.dictionary\.input_text_plugins\(\) \{
//@  > let __pl = self.dictionary.input_text_plugins(); let mut __iv: usize = 0; while __iv < __pl.len() { let p = &__pl[__iv]; __iv += 1;
//@  ret r
//@  spec
        ensures
            final(self).dictionary == old(self).dictionary, final(self).mode == old(self).mode, final(self).subset == old(self).subset,
            final(self).top_path == old(self).top_path, final(self).top_path_ids == old(self).top_path_ids, final(self).debug == old(self).debug,
            // C07: every configured input-text plugin is applied, in configuration order
            r is Ok ==> final(self).input@ == in_upto(old(self).dictionary.sp_in_plugins(), old(self).dictionary.sp_in_plugins().len() as int, old(self).input@),
//@  atstart
        let ghost t0 = *self;
//@  loop 1
            invariant
                t0 == *old(self), __pl@ == t0.dictionary.sp_in_plugins(), __iv <= __pl@.len(),
                self.dictionary == t0.dictionary, self.mode == t0.mode, self.subset == t0.subset, self.top_path == t0.top_path,
                self.top_path_ids == t0.top_path_ids, self.debug == t0.debug,
                self.input@ == in_upto(__pl@, __iv as int, t0.input@),
            decreases __pl@.len() - __iv
//@end
// contracts discharged on the real bodies in units v_build (LatticeBuilder::build_lattice) and v_path (resolve_best_path)
//@extract sudachi/src/analysis/stateful_tokenizer.rs :: impl<D: DictionaryAccess> StatefulTokenizer<D> :: fn build_lattice
//@  stub v_build
//@  ret r
//@  spec
        ensures
            final(self).dictionary == old(self).dictionary, final(self).mode == old(self).mode, final(self).subset == old(self).subset,
            final(self).top_path == old(self).top_path, final(self).top_path_ids == old(self).top_path_ids, final(self).debug == old(self).debug,
            final(self).input == old(self).input,
            r is Ok ==> final(self).lattice@ == old(self).dictionary.sp_lattice(old(self).input@),
//@end
//@extract sudachi/src/analysis/stateful_tokenizer.rs :: impl<D: DictionaryAccess> StatefulTokenizer<D> :: fn resolve_best_path
//@  stub v_path
//@  ret r
//@  spec
        requires old(self).top_path_ids@.len() == 0
        ensures
            final(self).top_path_ids@.len() == 0, final(self).top_path is None,
            final(self).lattice == old(self).lattice, final(self).input == old(self).input, final(self).subset == old(self).subset,
            final(self).mode == old(self).mode, final(self).dictionary == old(self).dictionary, final(self).debug == old(self).debug,
            // the tokens of the best path are APPENDED to what the recycled vector held
            r is Ok ==> r->Ok_0@ == path_view(old(self).top_path) + old(self).dictionary.sp_best(old(self).input@, old(self).lattice@, old(self).subset),
//@end

//@extract sudachi/src/analysis/stateful_tokenizer.rs :: impl<D: DictionaryAccess> StatefulTokenizer<D> :: fn do_tokenize
//@  rw Rdbg * custom
//@  | \n\s*if debug \{\n.*?\n        \};?\n
//@  > \n
//@  rw R13 1 custom
//@  | self\.input\.current\(\)\.is_empty\(\)
//@  > str_is_empty(self.input.current())
//@  rw R6p 1 custom
//@  | for plugin in self\.dictionary\.path_rewrite_plugins\(\) \{
//@  > let __pl = self.dictionary.path_rewrite_plugins(); let mut __iv: usize = 0; while __iv < __pl.len() { let plugin = &__pl[__iv]; __iv += 1;
//@  ret r
//@  spec
        requires
            tok_inv(*old(self)),
            // the state reset() leaves (v_tok): a recycled result vector is empty
            path_view(old(self).top_path).len() == 0,
        ensures
            tok_inv(*final(self)),
            final(self).dictionary == old(self).dictionary, final(self).mode == old(self).mode, final(self).subset == old(self).subset,
            final(self).debug == old(self).debug,
            r is Ok ==> final(self).input@ == tok_input(old(self).dictionary, old(self).input@),
            // C10 / C01: the result is tok_result(dictionary, text, mode, subset), whatever the tokenizer processed before
            r is Ok ==> path_view(final(self).top_path) == tok_result(old(self).dictionary, old(self).input@, old(self).mode, old(self).subset),
            // a successful analysis of a non-empty text always leaves a result vector to hand out
            r is Ok && InputBuffer::sp_current(final(self).input@).len() > 0 ==> final(self).top_path is Some,
//@  atstart
        let ghost t0 = *self;
//@  loop 1
            invariant
                t0 == *old(self), __pl@ == t0.dictionary.sp_path_plugins(), __iv <= __pl@.len(),
                self.dictionary == t0.dictionary, self.mode == t0.mode, self.subset == t0.subset, self.debug == t0.debug,
                self.top_path_ids@.len() == 0, self.top_path is None,
                self.input@ == tok_input(t0.dictionary, t0.input@), self.lattice@ == t0.dictionary.sp_lattice(self.input@),
                path@ == path_upto(__pl@, __iv as int, self.input@, self.lattice@, t0.dictionary.sp_best(self.input@, self.lattice@, t0.subset)),
            decreases __pl@.len() - __iv
//@  before let mut path = self.resolve_best_path()?;
        proof { assert(path_view(self.top_path) + t0.dictionary.sp_best(self.input@, self.lattice@, self.subset) =~= t0.dictionary.sp_best(self.input@, self.lattice@, self.subset)); }
//@end

//@extract sudachi/src/analysis/stateful_tokenizer.rs :: impl<D: DictionaryAccess> StatefulTokenizer<D> :: fn swap_result
//@  spec
        requires tok_inv(*old(self))     // and NOTHING about top_path: also callable after a failed analysis (C10)
        ensures
            tok_inv(*final(self)),
            // the caller receives the analysed input, the result path and the field request of this analysis ...
            *final(input) == old(self).input, final(result)@ == path_view(old(self).top_path), *final(subset) == old(self).subset,
            // ... and the tokenizer keeps the caller's buffers for recycling
            final(self).input == *old(input), path_view(final(self).top_path) == old(result)@, final(self).top_path is Some,
            final(self).dictionary == old(self).dictionary, final(self).mode == old(self).mode, final(self).subset == old(self).subset,
//@end
}

/// C10: reset-free statement of history independence -- two tokenizers over the same dictionary, mode and field request that are
/// given the same text report the same result, whatever else differs between them (lattice, scratch vectors, earlier failure)
proof fn theorem_history_free<D: DictionaryAccess>(a0: StatefulTokenizer<D>, a1: StatefulTokenizer<D>, b0: StatefulTokenizer<D>, b1: StatefulTokenizer<D>)
    requires
        a0.dictionary == b0.dictionary, a0.mode == b0.mode, a0.subset == b0.subset, a0.input@ == b0.input@,
        path_view(a1.top_path) == tok_result(a0.dictionary, a0.input@, a0.mode, a0.subset),
        path_view(b1.top_path) == tok_result(b0.dictionary, b0.input@, b0.mode, b0.subset),
    ensures path_view(a1.top_path) == path_view(b1.top_path)
{}
} // verus!
fn main() {}
