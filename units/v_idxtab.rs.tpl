// UNIT V-IDXTAB (C04, C05): dic/build/index.rs IndexBuilder::build_word_id_table -- the word-id table section
use vstd::prelude::*;
use vstd::string::*;
verus! {
global size_of usize == 8;
//@include common/error.rs.inc
//@include common/build_prelude.rs.inc
//@include common/wordid_stub.rs.inc
//@include specs/wi_format_cursor.rs.inc
//@include specs/idxtab_specs.rs.inc

//@extract sudachi/src/dic/build/index.rs :: struct IndexBuilder
//@  rw R14 1 custom
//@  | IndexMap<&'a str, IndexEntry, FxBuildHasher>
//@  > OrdIdx<'a>
//@end
impl<'a> IndexBuilder<'a> {
//@extract sudachi/src/dic/build/index.rs :: impl<'a> IndexBuilder<'a> :: fn build_word_id_table
//@  rw R14 1 custom
//@  | for \(k, entry\) in self\.data\.iter_mut\(\) \{
//@  > let mut __ie: usize = 0; while __ie < self.data.len() { let __i = __ie; __ie += 1;
//@  rw R14 1 custom
//@  | entry\.offset = ([^;]+);
//@  > self.data.set_offset(__i, \1);
//@  rw R14 1 custom
//@  | std::mem::take\(&mut entry\.ids\)
//@  > self.data.take_ids(__i)
//@  rw R14c 1 custom
//@  | write_u32_array\(&mut result, &ids\)\.map_err\(\|e\| \{.*?\}\)\?;
//@  > match write_u32_array(&mut result, ids.as_slice()) { Ok(_) => {}, Err(e) => { return Err(table_error(e)); } }
//@  ret r
//@  spec
        requires old(self).data.ents().len() <= 0x0fff_ffff,
        ensures
            r is Ok ==> ({
                let e0 = old(self).data.ents();
                let e1 = final(self).data.ents();
                &&& e1.len() == e0.len()
                // every key keeps its place; its record starts at the recorded offset and holds exactly its ids
                &&& forall|i: int| 0 <= i < e0.len() ==> (#[trigger] e1[i]).0 == e0[i].0 && e1[i].2 as int == tab_off(e0, i)
                &&& r->Ok_0@ == tab_bytes(e0, e0.len() as int)
            }),
            r is Ok ==> forall|i: int| 0 <= i < old(self).data.ents().len() ==> (#[trigger] old(self).data.ents()[i]).1.len() <= 127,
//@  atstart
        let ghost e0 = self.data.ents();
//@  loop 1
            invariant
                self.data.ents().len() == e0.len(), __ie <= e0.len(),
                forall|i: int| 0 <= i < e0.len() ==> (#[trigger] self.data.ents()[i]).0 == e0[i].0,
                forall|i: int| 0 <= i < __ie ==> (#[trigger] self.data.ents()[i]).2 as int == tab_off(e0, i),
                forall|i: int| 0 <= i < __ie ==> (#[trigger] e0[i]).1.len() <= 127,
                forall|i: int| __ie <= i < e0.len() ==> (#[trigger] self.data.ents()[i]).1 == e0[i].1,
                result@ == tab_bytes(e0, __ie as int),
            decreases e0.len() - __ie
//@  loopstart 1
            proof { lemma_tab_off(e0, __ie as int); }
//@end
}
/// C04: the record of key i, read back from the table at its offset, gives exactly its ids (whatever follows it)
proof fn theorem_table_lookup(e0: Seq<(Seq<char>, Seq<WordId>, usize)>, i: int)
    requires 0 <= i < e0.len(), forall|k: int| 0 <= k < e0.len() ==> (#[trigger] e0[k]).1.len() <= 127
    ensures ({
        let table = tab_bytes(e0, e0.len() as int);
        let off = tab_off(e0, i);
        0 <= off <= table.len() && dec_wids(table.subrange(off, table.len() as int)) == Some((table.subrange(tab_off(e0, i + 1), table.len() as int), e0[i].1))
    })
{
    let n = e0.len() as int;
    let table = tab_bytes(e0, n);
    lemma_tab_split(e0, i, n);
    lemma_tab_off(e0, i);
    let rec = rec_bytes(e0[i].1);
    let rest = table.subrange(tab_off(e0, i + 1), table.len() as int);
    assert(table.subrange(tab_off(e0, i), table.len() as int) =~= rec + rest);
    lemma_dec_record(e0[i].1, rest);
}
} // verus!
fn main() {}
