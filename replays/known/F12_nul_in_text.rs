// Demonstration for finding F12 (C04): append to sudachi/src/dic/build/index.rs (its test module builds tries) and run
// `cargo test -p sudachi --lib verif_f12`.
// Lookup must report exactly the keys that are prefixes of the text: "京都" is not a prefix of "京\0都".
#[cfg(test)]
mod verif_f12 {
    use super::*;
    use crate::dic::lexicon::trie::Trie;
    use std::convert::TryInto;
    fn make_trie(data: Vec<u8>) -> Trie<'static> {
        let mut elems: Vec<u32> = Vec::with_capacity(data.len() / 4);
        for i in (0..data.len()).step_by(4) { let arr: [u8; 4] = data[i..i + 4].try_into().unwrap(); elems.push(u32::from_le_bytes(arr)) }
        Trie::new_owned(elems)
    }
    #[test]
    fn verif_f12_nul_byte_is_not_skipped() {
        let mut bldr = IndexBuilder::new();
        bldr.add("京都", WordId::new(0, 0));
        bldr.add("東京", WordId::new(0, 1));
        let _ = bldr.build_word_id_table().unwrap();
        let trie = make_trie(bldr.build_trie().unwrap());
        let text = "京\0都".as_bytes();
        let found: Vec<_> = trie.common_prefix_iterator(text, 0).collect();
        assert!(found.is_empty(), "no key is a prefix of 京\\0都, but lookup reported {:?}", found);
    }
}
