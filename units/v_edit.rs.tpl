// UNIT V-EDIT  (C01, C03, C08): sudachi/src/input_text/buffer/edit.rs  add_replace + resolve_edits
use vstd::prelude::*;
use vstd::utf8::*;
use vstd::string::*;
use std::ops::Range;
verus! {

//@include common/str_prelude.rs.inc
//@include common/vec_prelude.rs.inc

//@extract sudachi/src/input_text/buffer/mod.rs :: const REALLY_MAX_LENGTH
//@end

//@extract sudachi/src/input_text/buffer/edit.rs :: struct ReplaceOp
//@end

//@extract sudachi/src/input_text/buffer/edit.rs :: enum ReplaceTgt
//@end

//@include specs/edit_specs.rs.inc
//@include specs/edit_lemmas.rs.inc

//@extract sudachi/src/input_text/buffer/edit.rs :: fn add_replace
//@  ret delta
//@  spec
    requires
        what.start <= what.end < source_mapping.len(),
        source_mapping.len() <= 70000,
        mono(source_mapping@),
    ensures
        final(target)@ == old(target)@ + with@,
        exists|r: Seq<usize>| #[trigger] repl_ok(source_mapping@, what.start as int, what.end as int, with.spec_bytes().len() as int, r)
            && final(target_mapping)@ == old(target_mapping)@ + r,
        delta == with.spec_bytes().len() - (what.end - what.start),
//@  atstart
    broadcast use axiom_str_len_fits;
    let ghost wl = with.spec_bytes().len() as int;
    let ghost tm0 = target_mapping@;
    proof { assert(old(target)@ + Seq::<char>::empty() =~= old(target)@); }
//@  before if with.is_empty() {
    proof { if wl == 0 { lemma_empty_str(with); assert(old(target)@ + with@ =~= old(target)@); assert(tm0 + Seq::<usize>::empty() =~= tm0);
            assert(repl_ok(source_mapping@, what.start as int, what.end as int, wl, Seq::<usize>::empty())); } }
//@  rw R7 1
//@  loop 1
        invariant
            wl == with.spec_bytes().len(), wl > 0, __end__ == wl, 1 <= __it__ <= wl,
            pos == source_mapping@[what.end as int],
            source_mapping@[what.start as int] <= source_mapping@[what.end as int],
            target_mapping@.len() == tm0.len() + __it__,
            target_mapping@.subrange(0, tm0.len() as int) == tm0,
            repl_ok(source_mapping@, what.start as int, what.end as int, __it__ as int, target_mapping@.subrange(tm0.len() as int, target_mapping@.len() as int)),
        decreases wl - __it__
//@  before target_mapping.push(pos);
        let ghost r0 = target_mapping@.subrange(tm0.len() as int, target_mapping@.len() as int);
//@  after target_mapping.push(pos);
        proof {
            let r1 = target_mapping@.subrange(tm0.len() as int, target_mapping@.len() as int);
            assert(r1 =~= r0.push(pos));
            assert(target_mapping@.subrange(0, tm0.len() as int) =~= tm0);
            assert forall|i: int, j: int| 0 <= i <= j < r1.len() implies r1[i] <= r1[j] by {
                if j < r0.len() { assert(r1[i] == r0[i] && r1[j] == r0[j]); } else if i < r0.len() { assert(r1[i] == r0[i]); }
            }
        }
//@  before with.len() as isize - what.len() as isize
    proof {
        let r = target_mapping@.subrange(tm0.len() as int, target_mapping@.len() as int);
        assert(target_mapping@ =~= tm0 + r);
    }
//@end

//@extract sudachi/src/input_text/buffer/edit.rs :: fn resolve_edits
//@  rw R9 1 custom
//@  | for edit in edits\.drain\(\.\.\) \{
//@  > let mut __d = drain_all(edits); while __d.has_next() { let edit = __d.take_next();
//@  rw R13' 1 custom
//@  | &source\[([^\]\.]+(?:\.[a-z_]+)*)\.\.([^\]\.]+(?:\.[a-z_]+)*)\]
//@  > str_slice(source, \1, \2)
//@  rw R13' 1 custom
//@  | &source\[([^\]\.]+(?:\.[a-z_]+)*)\.\.\]
//@  > str_slice(source, \1, source.len())
//@  rw R8 1 custom
//@  | target_mapping\.extend\(source_mapping\[([^\]\.]+(?:\.[a-z_]+)*)\.\.([^\]\.]+(?:\.[a-z_]+)*)\]\.iter\(\)\)
//@  > vec_extend_slice(target_mapping, source_mapping, \1, \2)
//@  rw R8 1 custom
//@  | target_mapping\.extend\(source_mapping\[([^\]\.]+(?:\.[a-z_]+)*)\.\.\]\.iter\(\)\)
//@  > vec_extend_slice(target_mapping, source_mapping, \1, source_mapping.len())
//@  rw R13 1 custom
//@  | c\.encode_utf8\(&mut \[0; 4\]\)
//@  > char_utf8(c).as_str()
//@  ret res
//@  specfile specs/resolve_edits.contract
//@  atstart
    broadcast use axiom_str_len_fits;
    let ghost e0 = edits@;
    let ghost src = source.spec_bytes();
    let ghost sm = source_mapping@;
    let ghost n = src.len() as int;
    proof {
        encode_utf8_valid_utf8(source@);
        is_char_boundary_start_end_of_seq(src);
        assert(target@ =~= Seq::<char>::empty());
        lemma_encode_empty();
    }
//@  loop 1
        invariant
            __d.items() == e0, e0 == old(edits)@, edits@.len() == 0, 0 <= __d.pos() <= e0.len(),
            src == source.spec_bytes(), sm == source_mapping@, n == src.len(), n <= LIMIT_NORM(),
            edits_ok(e0, src), srcmap_ok(sm, n),
            is_char_boundary(src, 0), is_char_boundary(src, n),
            start == prev_end(e0, __d.pos()), start <= n,
            encode_utf8(target@) == out_bytes(src, e0, __d.pos()),
            target_mapping@.len() == tpos(src, e0, __d.pos()),
            cur_len == len_after(src, e0, __d.pos()), cur_len <= LIMIT_NORM(),
            forall|kk: int| 0 < kk <= __d.pos() ==> #[trigger] len_after(src, e0, kk) <= LIMIT_NORM(),
            mono(target_mapping@), bounded(target_mapping@, sm[n] as int),
            forall|i: int| 0 <= i < target_mapping@.len() ==> target_mapping@[i] <= sm[start as int],
            unrep(src, sm, e0, target_mapping@, __d.pos(), false), replimg(src, sm, e0, target_mapping@, __d.pos()),
        decreases e0.len() - __d.pos()
//@  before target.push_str(str_slice(source, start, edit.what.start));
        let ghost k = __d.pos() - 1;
        let ghost tm_a = target_mapping@;
        let ghost tg_a = target@;
        proof {
            assert(edit == e0[k]);
            lemma_prev_end_le(src, e0, k);
            lemma_out_bytes_unfold(src, e0, k + 1);
        }
//@  before start = edit.what.end;
        let ghost tg_b = target@;
        proof {
            assert(tgt_bytes(e0[k].with).len() <= with_max());
            let a = prev_end(e0, k); let b = e0[k].what.start as int;
            assert(exists|x: Seq<char>| tg_b == tg_a + x && #[trigger] encode_utf8(x) == src.subrange(a, b));
            let x = choose|x: Seq<char>| tg_b == tg_a + x && #[trigger] encode_utf8(x) == src.subrange(a, b);
            encode_utf8_concat(tg_a, x);
        }
//@  after };
        proof {
            let w = tgt_chars(e0[k].with);
            assert(target@ == tg_b + w);
            encode_utf8_concat(tg_b, w);
            assert(encode_utf8(target@) == out_bytes(src, e0, k + 1));
            let seg = sm.subrange(prev_end(e0, k), e0[k].what.start as int);
            let wl = tgt_bytes(e0[k].with).len() as int;
            assert(exists|r: Seq<usize>| #[trigger] repl_ok(sm, e0[k].what.start as int, e0[k].what.end as int, wl, r) && target_mapping@ == tm_a + seg + r);
            let r = choose|r: Seq<usize>| #[trigger] repl_ok(sm, e0[k].what.start as int, e0[k].what.end as int, wl, r) && target_mapping@ == tm_a + seg + r;
            lemma_map_step(src, sm, e0, k, tm_a, r, target_mapping@);
            assert(cur_len == len_after(src, e0, k + 1));
        }
//@  before return cur_len as usize;
            proof { assert(0 < k + 1 <= e0.len() && len_after(src, e0, k + 1) > LIMIT_NORM()); }
//@  before target.push_str(str_slice(source, start, source.len()));
    let ghost tm_a = target_mapping@;
    let ghost tg_a = target@;
    proof { lemma_prev_end_le(src, e0, e0.len() as int); }
//@  before // first byte of mapping MUST be 0
    let ghost tm_b = target_mapping@;
    proof {
        let a = prev_end(e0, e0.len() as int);
        assert(exists|x: Seq<char>| target@ == tg_a + x && #[trigger] encode_utf8(x) == src.subrange(a, n));
        let x = choose|x: Seq<char>| target@ == tg_a + x && #[trigger] encode_utf8(x) == src.subrange(a, n);
        encode_utf8_concat(tg_a, x);
    }
//@  before cur_len as usize #2
    proof {
        assert(target_mapping@ =~= tm_b.update(0, 0usize));
        lemma_map_final(src, sm, e0, tm_a, target_mapping@);
    }
//@end

} // verus!
fn main() {}
