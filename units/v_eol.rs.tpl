// UNIT V-EOL (C19, one clause): sudachi-cli/src/main.rs  strip_eol -- the analysed text is the input line without its line terminator
use vstd::prelude::*;
use vstd::utf8::*;
use vstd::string::*;
verus! {
global size_of usize == 8;

/// assumed std contract of the unsafe constructor: the bytes must be valid UTF-8 (so its use here is an obligation)
pub assume_specification [std::str::from_utf8_unchecked] (b: &[u8]) -> (r: &str)
    requires valid_utf8(b@),
    ensures r.spec_bytes() == b@;

/// C19: "analyses each input line without its line terminator (a blank line yields an empty analysis)":
/// one trailing "\n" or "\r\n" is removed, nothing else
spec fn without_eol(d: Seq<u8>) -> Seq<u8> {
    let n = d.len() as int;
    if n >= 2 && d[n - 1] == 10u8 && d[n - 2] == 13u8 { d.subrange(0, n - 2) }
    else if n >= 1 && d[n - 1] == 10u8 { d.subrange(0, n - 1) }
    else { d }
}
proof fn lemma_drop_ascii(s: Seq<u8>)
    requires valid_utf8(s), s.len() > 0, s.last() == 10u8 || s.last() == 13u8
    ensures valid_utf8(s.subrange(0, s.len() - 1))
{
    if s.len() > 1 {
        is_char_boundary_iff_not_is_continuation_byte(s, s.len() - 1);
        assert(!is_continuation_byte(s[s.len() - 1])) by { assert(10u8 & 0xC0 != 0x80) by (bit_vector); assert(13u8 & 0xC0 != 0x80) by (bit_vector); }
    } else { is_char_boundary_start_end_of_seq(s); }
    valid_utf8_split(s, s.len() - 1);
}

//@extract sudachi-cli/src/main.rs :: fn strip_eol
//@  ret r
//@  spec
    ensures r.spec_bytes() == without_eol(data.spec_bytes()),
//@  atstart
    let ghost d = data.spec_bytes();
    proof { encode_utf8_valid_utf8(data@); }
//@  before bytes = &bytes[..len]; #1
        proof { lemma_drop_ascii(bytes@); }
//@  before bytes = &bytes[..len]; #2
            proof { lemma_drop_ascii(bytes@); }
//@  before // Safety: str was correct
    proof { assert(bytes@ =~= without_eol(d)); }
//@end
} // verus!
fn main() {}
