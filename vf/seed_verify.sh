#!/bin/bash
# usage: seed_verify.sh <ID> <demo cargo test args...>
# Confirms in the scratch worktree /tmp/seed/<ID>: (1) suite passes with the patch (demo removed), (2) demo fails with the patch,
# (3) demo passes without the patch.  (No git stash: the stash list is shared between worktrees.)
set -u
ID=$1; shift
W=/tmp/seed/$ID
cd $W || exit 2
git reset -q && git checkout -q -- . && git clean -fdq -e target && git apply /tmp/seed/${ID}_patch.diff || { echo "patch does not apply"; exit 2; }
echo "== suite with patch (no demo)"; cargo test --workspace --offline 2>&1 | grep -E "^test result" | awk '{p+=$4; f+=$6} END {print "passed",p,"failed",f}'
git apply /tmp/seed/${ID}_demo.diff || { echo "demo does not apply"; exit 2; }
echo "== demo with patch"; cargo test --offline "$@" 2>&1 | grep -E "^test result|^test .*FAILED" | head -8
git apply -R /tmp/seed/${ID}_patch.diff
echo "== demo without patch"; cargo test --offline "$@" 2>&1 | grep -E "^test result|^test .*FAILED" | head -8
git apply /tmp/seed/${ID}_patch.diff
