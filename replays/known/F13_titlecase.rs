// F13 (C07): demonstration against the real code.  Append to sudachi/src/plugin/input_text/default_input_text/mod.rs in a scratch
// copy of /repo and run  cargo test --offline -p sudachi --lib verif_f13 -- --nocapture
// Before fix 9926c22: "ǅ" -> "Dž" (NFKC applied, lower-casing skipped because char::is_uppercase('ǅ') is false: titlecase letter).
// After the fix both tests pass.
#[cfg(test)]
mod verif_f13 {
    use super::*;
    use crate::input_text::InputBuffer;
    #[test]
    fn titlecase_is_lowercased() {
        let mut plugin = DefaultInputTextPlugin::default();
        plugin.read_rewrite_lists(std::io::Cursor::new("".as_bytes())).unwrap();
        for (input, want) in [("ǅ", "dž"), ("ᾼ", "ᾳ"), ("Ａ", "a"), ("xǅ", "xdž")] {
            let mut buf = InputBuffer::from(input);
            plugin.rewrite(&mut buf).unwrap();
            println!("{:?} -> {:?} (want {:?})", input, buf.current(), want);
            assert_eq!(buf.current(), want);
        }
    }
}
