// Demonstration for finding F3 (C20): append as a child module of
// sudachi/src/plugin/connect_cost/inhibit_connection.rs and run `cargo test -p sudachi --lib verif_f3`.
// Before the fix: set_up accepts a pair outside the 1x1 matrix and edit() then panics
// (index out of bounds / debug assertion) or, in a larger matrix, rewrites a different cell.
#[cfg(test)]
mod verif_f3 {
    use super::*;
    use crate::config::Config;
    fn bytes() -> Vec<u8> {
        let mut buf = Vec::new();
        buf.extend(&(0 as i16).to_le_bytes());
        buf.extend(&(2 as i16).to_le_bytes()); // num_left
        buf.extend(&(2 as i16).to_le_bytes()); // num_right
        for c in [10i16, 11, 12, 13] { buf.extend(&c.to_le_bytes()); }
        buf
    }
    #[test]
    fn verif_f3_out_of_range_pair_is_rejected() {
        let b = bytes();
        let grammar = Grammar::parse(&b, 0).expect("grammar");
        let cfg = Config::minimal_at("/nonexistent");
        let mut plugin = InhibitConnectionPlugin::default();
        // left = 3 is outside 0..2 ; 1*2+3 = 5 > 3 -> would index outside, (3,0) -> cell 3 = (1,1) silently
        let r = plugin.set_up(&serde_json::json!({"inhibitPair": [[3, 0]]}), &cfg, &grammar);
        assert!(r.is_err(), "an inhibited pair outside the matrix must be rejected at load time");
    }
    #[test]
    fn verif_f3_silent_wrong_cell() {
        let b = bytes();
        let mut grammar = Grammar::parse(&b, 0).expect("grammar");
        let cfg = Config::minimal_at("/nonexistent");
        let mut plugin = InhibitConnectionPlugin::default();
        if plugin.set_up(&serde_json::json!({"inhibitPair": [[3, 0]]}), &cfg, &grammar).is_ok() {
            plugin.edit(&mut grammar);
            // cell (left 1, right 1) was never named by the configuration
            assert_eq!(13, grammar.connect_cost(1, 1), "a different matrix cell was edited");
        }
    }
}
