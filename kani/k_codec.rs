//@kani target=sudachi/src/dic/read/mod.rs
//@kani harness=encode_utf16_is_enc16 kind=complete
//@kani harness=to_le_bytes_are_le kind=complete
//@kani harness=from_le_bytes_is_u16_of kind=complete
//@kani harness=decode_utf16_one_step kind=complete
//@kani harness=nom_le_readers_are_le kind=complete unwind=6
//@kani harness=u64_and_i16_le kind=complete unwind=10
// K-CODEC (C05): the std / nom primitives behind the ASSUMED wrapper contracts of specs/codec_wr.rs.inc, codec_rd.rs.inc and v_utf16,
// checked on the compiled code over their FULL domain (every char, every u16 / u32 / i16, every pair of code units, every four
// bytes).  Each harness is loop-free except nom's fixed-width byte loop (unwinding assertions on): complete, not bounded.
// The arithmetic below is the text of the spec functions enc16 / le16u / le32 / u16_of / u32_of / dec16 (one step).
    #[kani::proof]
    fn encode_utf16_is_enc16() {
        let c: char = kani::any();
        let v = c as u32;
        let mut buf = [0u16; 2];
        let r = c.encode_utf16(&mut buf);
        if v < 0x10000 {
            assert!(r.len() == 1 && r[0] == v as u16);
        } else {
            assert!(r.len() == 2);
            assert!(r[0] == (0xD800 + (v - 0x10000) / 0x400) as u16);
            assert!(r[1] == (0xDC00 + (v - 0x10000) % 0x400) as u16);
        }
        kani::cover!(v == 0xFFFF);
        kani::cover!(v == 0x10000);
        kani::cover!(v == 0x10FFFF);
    }
    #[kani::proof]
    fn to_le_bytes_are_le() {
        let a: u16 = kani::any();
        let b = a.to_le_bytes();
        assert!(b[0] == (a & 0xff) as u8 && b[1] == (a >> 8) as u8);
        let c: u32 = kani::any();
        let d = c.to_le_bytes();
        assert!(d[0] == (c & 0xff) as u8 && d[1] == ((c >> 8) & 0xff) as u8 && d[2] == ((c >> 16) & 0xff) as u8 && d[3] == (c >> 24) as u8);
        // i16 / i32 fields are written through the same bytes as their unsigned reinterpretation
        let e: i16 = kani::any();
        let (x, y) = (e.to_le_bytes(), (e as u16).to_le_bytes());
        assert!(x[0] == y[0] && x[1] == y[1]);
        let f: i32 = kani::any();
        let (x, y) = (f.to_le_bytes(), (f as u32).to_le_bytes());
        assert!(x[0] == y[0] && x[1] == y[1] && x[2] == y[2] && x[3] == y[3]);
        kani::cover!(a == 0x8001);
    }
    #[kani::proof]
    fn from_le_bytes_is_u16_of() {
        let p1: u8 = kani::any();
        let p2: u8 = kani::any();
        assert!(u16::from_le_bytes([p1, p2]) == (p1 as u16) | ((p2 as u16) << 8));
        kani::cover!(p1 == 0xff && p2 == 0x01);
    }
    #[kani::proof]
    fn decode_utf16_one_step() {
        // one step of char::decode_utf16 over the real U16CodeUnits reader, for every pair of code units
        let data: [u8; 4] = kani::any();
        let u0 = (data[0] as u16) | ((data[1] as u16) << 8);
        let u1 = (data[2] as u16) | ((data[3] as u16) << 8);
        let mut it = char::decode_utf16(u16str::U16CodeUnits::new(&data));
        let first = it.next();
        let surr0 = 0xD800 <= u0 && u0 <= 0xDFFF;
        match first {
            None => assert!(false),
            Some(Ok(c)) => {
                if !surr0 { assert!(c as u32 == u0 as u32); }
                else {
                    assert!(u0 <= 0xDBFF && 0xDC00 <= u1 && u1 <= 0xDFFF);
                    assert!(c as u32 == 0x10000 + ((u0 - 0xD800) as u32) * 0x400 + (u1 - 0xDC00) as u32);
                }
            }
            Some(Err(_)) => assert!(surr0 && !(u0 <= 0xDBFF && 0xDC00 <= u1 && u1 <= 0xDFFF)),
        }
        kani::cover!(surr0 && u0 <= 0xDBFF && 0xDC00 <= u1 && u1 <= 0xDFFF);
        kani::cover!(!surr0);
        kani::cover!(u0 >= 0xDC00 && surr0);
    }
    #[kani::proof]
    #[kani::unwind(6)]
    fn nom_le_readers_are_le() {
        let data: [u8; 4] = kani::any();
        let want32 = (data[0] as u32) | ((data[1] as u32) << 8) | ((data[2] as u32) << 16) | ((data[3] as u32) << 24);
        match u32_parser(&data[..]) {
            Ok((rest, v)) => { assert!(v == want32); assert!(rest.len() == 0); }
            Err(e) => { std::mem::forget(e); assert!(false); }
        }
        let r16: SudachiNomResult<&[u8], u16> = nom::number::complete::le_u16(&data[..]);
        match r16 {
            Ok((rest, v)) => { assert!(v == (data[0] as u16) | ((data[1] as u16) << 8)); assert!(rest.len() == 2); }
            Err(e) => { std::mem::forget(e); assert!(false); }
        }
        let r32: SudachiNomResult<&[u8], i32> = nom::number::complete::le_i32(&data[..]);
        match r32 {
            Ok((rest, v)) => { assert!(v == want32 as i32); assert!(rest.len() == 0); }
            Err(e) => { std::mem::forget(e); assert!(false); }
        }
        // too short an input is an error, never a partial value
        let short: SudachiNomResult<&[u8], u32> = nom::number::complete::le_u32(&data[..3]);
        match short { Ok(_) => assert!(false), Err(e) => { std::mem::forget(e); } }
        kani::cover!(want32 == 0x80000001);
    }
    #[kani::proof]
    #[kani::unwind(10)]
    fn u64_and_i16_le() {
        // header fields (u64) and matrix dimensions / cells (i16): writer side to_le_bytes, reader side nom le_u64 / le_i16
        let v: u64 = kani::any();
        let b = v.to_le_bytes();
        assert!(b[0] == (v & 0xff) as u8 && b[1] == ((v >> 8) & 0xff) as u8 && b[2] == ((v >> 16) & 0xff) as u8 && b[3] == ((v >> 24) & 0xff) as u8
            && b[4] == ((v >> 32) & 0xff) as u8 && b[5] == ((v >> 40) & 0xff) as u8 && b[6] == ((v >> 48) & 0xff) as u8 && b[7] == (v >> 56) as u8);
        let data: [u8; 8] = kani::any();
        let want64 = (data[0] as u64) | ((data[1] as u64) << 8) | ((data[2] as u64) << 16) | ((data[3] as u64) << 24)
            | ((data[4] as u64) << 32) | ((data[5] as u64) << 40) | ((data[6] as u64) << 48) | ((data[7] as u64) << 56);
        let r64: SudachiNomResult<&[u8], u64> = nom::number::complete::le_u64(&data[..]);
        match r64 {
            Ok((rest, x)) => { assert!(x == want64); assert!(rest.len() == 0); }
            Err(e) => { std::mem::forget(e); assert!(false); }
        }
        let r16: SudachiNomResult<&[u8], i16> = nom::number::complete::le_i16(&data[..]);
        match r16 {
            Ok((rest, x)) => { assert!(x == ((data[0] as u16) | ((data[1] as u16) << 8)) as i16); assert!(rest.len() == 6); }
            Err(e) => { std::mem::forget(e); assert!(false); }
        }
        let w: i16 = kani::any();
        let c = w.to_le_bytes();
        assert!(c[0] == ((w as u16) & 0xff) as u8 && c[1] == ((w as u16) >> 8) as u8);
        kani::cover!(w == -1);
        kani::cover!(want64 == 0x8000_0000_0000_0001);
    }
