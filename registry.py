"""Which units / harness sets decide which property.  (The property texts are in properties.jsonl.)"""

KANI_TIMEOUT = 1500

BACKENDS = {
    'verus': '0.2026.09.13.671956e (Z3 bundled with Verus, single-file mode, --rlimit per unit)',
    'kani': '0.68.0 (CBMC 6.x, CaDiCaL/kissat SAT back end)',
}

UNITS = {
    'v_edit': {
        'tpl': 'units/v_edit.rs.tpl', 'rlimit': 40,
        'oracle': {'file': 'oracles/edit_oracle.rs', 'target': 'sudachi/src/input_text/buffer/edit.rs'},
        'mutants': [
            {'name': 'first entry not composed with the previous map', 'file': 'sudachi/src/input_text/buffer/edit.rs',
             'find': 'target_mapping.push(source_mapping[what.start]);', 'replace': 'target_mapping.push(what.start);'},
            {'name': 'copied segment one short', 'file': 'sudachi/src/input_text/buffer/edit.rs',
             'find': 'target_mapping.extend(source_mapping[start..edit.what.start].iter());', 'replace': 'target_mapping.extend(source_mapping[start..edit.what.end].iter());'},
            {'name': 'off-by-one replacement length', 'file': 'sudachi/src/input_text/buffer/edit.rs',
             'find': 'for _ in 1..with.len() {', 'replace': 'for _ in 0..with.len() {'},
            {'name': 'drop pinning of entry 0', 'file': 'sudachi/src/input_text/buffer/edit.rs',
             'find': '*v = 0;', 'replace': '*v = *v;'},
            {'name': 'skip tail copy of map', 'file': 'sudachi/src/input_text/buffer/edit.rs',
             'find': 'target_mapping.extend(source_mapping[start..].iter());', 'replace': 'target_mapping.extend(source_mapping[edit_end..].iter());', 'also': [('let mut start: usize = 0;', 'let mut start: usize = 0; let edit_end = source_mapping.len() - 1;')]},
        ],
    },
    'v_buf0': {
        'tpl': 'units/v_buf0.rs.tpl', 'rlimit': 40,
        'mutants': [
            {'name': 'limit off by a factor', 'file': 'sudachi/src/input_text/buffer/mod.rs',
             'find': 'const MAX_LENGTH: usize = u16::MAX as usize / 4 * 3;', 'replace': 'const MAX_LENGTH: usize = u16::MAX as usize / 4 * 4;'},
            {'name': 'commit forgets to swap the map', 'file': 'sudachi/src/input_text/buffer/mod.rs',
             'find': 'std::mem::swap(&mut self.m2o, &mut self.m2o_2);', 'replace': ''},
            {'name': 'commit accepts over-long text', 'file': 'sudachi/src/input_text/buffer/mod.rs',
             'find': 'if sz > REALLY_MAX_LENGTH {', 'replace': 'if sz > REALLY_MAX_LENGTH + 1 {'},
            {'name': 'identity map one short', 'file': 'sudachi/src/input_text/buffer/mod.rs',
             'find': 'self.m2o.extend(0..self.modified.len() + 1);', 'replace': 'self.m2o.extend(0..self.modified.len() + 0);'},
        ],
    },
}

NOT_APPLICABLE = {
    'C18': 'the quantifier is over thread schedules; Kani has no thread support and Verus would need its permission/atomics types written into the code; what makes it true (no interior mutability behind &JapaneseDictionary, Send+Sync bounds) is decided by rustc, not by a contract',
}
for _i in range(1, 21):
    NOT_APPLICABLE.setdefault('C%02d' % _i, 'not yet under contract in this revision of /verif (see DESIGN.md build order)')

PROPS = {
    'C08': {
        'level_text': 'Verus discharges, for every text, map and edit batch, the postcondition `resolved` of the real resolve_edits/add_replace: rewritten text = specification, new offset map has one entry per byte, is non-decreasing, start->start, end->end, unreplaced positions keep their image',
        'level_note': 'assumed: plugins emit ordered non-overlapping edits on char boundaries; std contracts of str slicing, push_str, Vec::extend/drain, char::encode_utf8 (trusted wrappers R8/R9/R13); 64-bit usize; code-point offset tables (fill_orig_b2c) and Python begin()/end() not yet under contract',
        'verus': ['v_edit', 'v_buf0'],
        'kani': [],
        'assumptions': [
            'input-text plugins emit edit batches that are ordered, non-overlapping, in range and on UTF-8 character boundaries (edits_ok); they come from regex / aho-corasick match iterators',
        ],
    },
}
