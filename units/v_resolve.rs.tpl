// UNIT V-RESOLVE (C05, C06): dic/build/resolve.rs RawDictResolver::new / resolve_inline,
//                            dic/build/lexicon.rs RawLexiconEntry::surface / headword / reading, LexiconReader::resolve_split
use vstd::prelude::*;
use vstd::string::*;
verus! {
global size_of usize == 8;
//@include common/error.rs.inc
//@include common/build_prelude.rs.inc
//@include common/wordid_stub.rs.inc

//@extract sudachi/src/analysis/mod.rs :: enum Mode
//@  derive Clone, Copy, PartialEq, Eq, Structural
//@end
//@extract sudachi/src/dic/build/lexicon.rs :: enum SplitUnit
//@  derive
//@end
//@extract sudachi/src/dic/build/lexicon.rs :: struct RawLexiconEntry
//@end
//@include specs/entry_strings.rs.inc
//@include specs/resolve_specs.rs.inc

impl RawLexiconEntry {
//@extract sudachi/src/dic/build/lexicon.rs :: impl RawLexiconEntry :: fn surface
//@  rw R13s 1 custom
//@  | &self\.surface
//@  > self.surface.as_str()
//@  ret r
//@  spec
        ensures r@ == e_surface(*self)
//@end
//@extract sudachi/src/dic/build/lexicon.rs :: impl RawLexiconEntry :: fn headword
//@  rw R14s 1 custom
//@  | self\.(\w+)\.as_deref\(\)\.unwrap_or_else\(\|\| self\.(\w+)\(\)\)
//@  > opt_str_or(&self.\1, self.\2())
//@  ret r
//@  spec
        ensures r@ == e_headword(*self)
//@end
//@extract sudachi/src/dic/build/lexicon.rs :: impl RawLexiconEntry :: fn reading
//@  rw R14s 1 custom
//@  | self\.(\w+)\.as_deref\(\)\.unwrap_or_else\(\|\| self\.(\w+)\(\)\)
//@  > opt_str_or(&self.\1, self.\2())
//@  ret r
//@  spec
        ensures r@ == e_reading(*self)
//@end
}

//@extract sudachi/src/dic/build/resolve.rs :: struct RawDictResolver
//@  rw R14 1 custom
//@  | HashMap<&'a str, Vec<\(u16, Option<&'a str>, WordId\)>, FxBuildHasher>
//@  > StrIndex<'a>
//@end

impl<'a> RawDictResolver<'a> {
//@extract sudachi/src/dic/build/resolve.rs :: impl<'a> RawDictResolver<'a> :: fn new
//@  rw Rself 1 custom
//@  | -> Self \{
//@  > -> RawDictResolver<'a> {
//@  rw Rself 1 custom
//@  | Self \{ data \}
//@  > RawDictResolver { data }
//@  rw R14 1 custom
//@  | let mut data: HashMap<&'a str, Vec<\(u16, Option<&'a str>, WordId\)>, FxBuildHasher> =\s*HashMap::default\(\);
//@  > let mut data: StrIndex<'a> = StrIndex::default();
//@  rw R6 1
//@  rw R13 1 custom
//@  | if ([\w\.\(\)]+) == reading \{
//@  > if str_eq(\1, reading) {
//@  rw R14 1 custom
//@  | data\.entry\(surface\)\s*\.or_default\(\)\s*\.push\(
//@  > data.push_at(surface,
//@  ret r
//@  spec
        requires entries@.len() <= 0x0fff_ffff,
        ensures resolver_ok(r, entries@, if user { 1u8 } else { 0u8 }),
//@  atstart
        let ghost es = entries@;
//@  loop 1
            invariant
                es == entries@, es.len() <= 0x0fff_ffff, __it_i <= es.len(), dic_id == (if user { 1u8 } else { 0u8 }),
                forall|s: Seq<char>| #[trigger] bucket_view(data.m(), s) == bucket(es, dic_id, s, __it_i as int),
            decreases es.len() - __it_i
//@  loopstart 1
            let ghost m0 = data.m();
            let ghost k = __it_i as int;
//@  after (e.pos,
            proof {
                let t = (e.pos, read_opt, wid);
                assert(trip_view(t) == entry_trip(es[k], dic_id, k));
                assert forall|s: Seq<char>| #[trigger] bucket_view(data.m(), s) == bucket(es, dic_id, s, k + 1) by {
                    if s == e_surface(es[k]) {
                        assert(data.m()[s] == get_or_empty(m0, s).push(t));
                        assert(bucket_view(data.m(), s) =~= bucket_view(m0, s).push(trip_view(t)));
                    } else {
                        assert(bucket_view(data.m(), s) == bucket_view(m0, s));
                    }
                }
            }
//@end
}
impl<'a> RawDictResolver<'a> {
// R11: `impl SplitUnitResolver for RawDictResolver` checked as an inherent fn of the same body;
// R14c: `opt.and_then(|data| { ..loop with return.. })` in tail position as a match (same control flow)
//@extract sudachi/src/dic/build/resolve.rs :: impl SplitUnitResolver for RawDictResolver<'_> :: fn resolve_inline
//@  twin
//@  rw R14c 1 custom
//@  | self\.data\.get\(surface\)\.and_then\(\|data\| \{
//@  > match self.data.get(surface) { None => None, Some(data) => {
//@  rw R14c 1 custom
//@  | \n        \}\)\n
//@  > \n        } }\n
//@  rw R6v 1 custom
//@  | for \(p, rd, wid\) in data \{
//@  > let mut __j: usize = 0; while __j < data.len() { let (p, rd, wid) = (&data[__j].0, &data[__j].1, &data[__j].2); __j += 1;
//@  rw R13 1 custom
//@  | \*rd == reading
//@  > opt_str_eq(rd, reading)
//@  ret r
//@  spec
        ensures r == first_in(bucket_view(self.data.m(), surface@), pos, opt_view(reading)),
//@  atstart
        let ghost lv = bucket_view(self.data.m(), surface@);
        proof { assert(lv.subrange(0, lv.len() as int) =~= lv); }
//@  loop 1
                invariant
                    data@ == get_or_empty(self.data.m(), surface@), lv == bucket_view(self.data.m(), surface@), __j <= data@.len(),
                    lv.len() == data@.len(), lv.subrange(0, lv.len() as int) == lv,
                    forall|i: int| 0 <= i < __j ==> !trip_matches(#[trigger] lv[i], pos, opt_view(reading)),
                decreases data@.len() - __j
//@  before return Some(*wid);
                    proof {
                        assert(lv[__j - 1] == trip_view(data@[__j - 1]));
                        assert(trip_matches(lv[__j - 1], pos, opt_view(reading)));
                        lemma_first_scan(lv, pos, opt_view(reading), __j - 1, lv.len() as int);
                    }
//@  afterloop 1
            proof { lemma_first_scan(lv, pos, opt_view(reading), lv.len() as int, lv.len() as int); }
//@end
}

/// C05: an inline reference resolves to the first entry it names (surface, part of speech, reading - the reading is omitted when it
/// equals the index key), and to nothing if no entry is named
proof fn theorem_inline_reference(r: RawDictResolver, es: Seq<RawLexiconEntry>, dic: u8, surface: Seq<char>, pos: u16, rd: Option<Seq<char>>)
    requires resolver_ok(r, es, dic)
    ensures first_in(bucket_view(r.data.m(), surface), pos, rd) == first_named(es, dic, surface, pos, rd, es.len() as int)
{
    lemma_first_named(es, dic, surface, pos, rd, es.len() as int);
}

} // verus!
fn main() {}
