// UNIT V-REGEX (C13, C03): plugin/oov/regex_oov/mod.rs  RegexOovProvider::provide_oov
use vstd::prelude::*;
use vstd::string::*;
use std::ops::Range;
verus! {
global size_of usize == 8;
//@include common/error.rs.inc
//@include common/wordid_stub.rs.inc
//@include common/category_type.rs.inc
//@extract sudachi/src/analysis/inner.rs :: struct Node
//@  derive Clone
//@end
impl Node {
//@extract sudachi/src/analysis/inner.rs :: impl Node :: fn new
//@  ret r
//@  spec
        ensures r.begin == begin, r.end == end, r.left_id == left_id, r.right_id == right_id, r.cost == cost, r.word_id == word_id
//@end
    /// `LatticeNode::end` of a lattice node
    fn end(&self) -> (r: usize) ensures r == self.end { self.end as usize }
}
#[verifier::external_body] fn err_string() -> String { String::new() }   // R12: message texts are not verified
//@extract sudachi/src/analysis/created.rs :: enum HasWord
//@  derive Clone, Copy, PartialEq, Eq, Structural
//@end
/// what the analysis already produced at this position (analysis/created.rs; complete Kani set k_created): a word of `len`
/// characters exists => Yes (len < 64) or Maybe (len >= 64); none exists and len < 64 => No
#[verifier::external_body] pub struct CreatedWords { _p: () }
impl CreatedWords {
    pub uninterp spec fn sp_has(&self, len: int) -> HasWord;
    #[verifier::external_body]
    fn has_word(&self, length: i64) -> (r: HasWord)
        requires length > 0          // the debug assertion of CreatedWords::single
        ensures r == self.sp_has(length as int)
    { unimplemented!() }
}
/// opaque collaborator: the built text (contracts discharged on the real bodies in v_bufro / v_cont)
#[verifier::external_body] pub struct InputBuffer { _p: () }
impl InputBuffer {
    pub uninterp spec fn sp_nch(&self) -> int;
    pub uninterp spec fn sp_nb(&self) -> int;
    pub uninterp spec fn sp_c2b(&self, c: int) -> int;
    pub uninterp spec fn sp_chidx(&self, b: int) -> int;
    pub uninterp spec fn sp_cont(&self, c: int) -> int;
    pub uninterp spec fn sp_bytes(&self) -> Seq<u8>;
    /// facts of a built text (v_bufro: ro_wf, lemma_buf_facts_for_v_build)
    pub open spec fn sp_wf(&self) -> bool {
        &&& 0 <= self.sp_nch() <= 65535 && self.sp_bytes().len() == self.sp_nb() && self.sp_nb() <= 65535
        &&& forall|i: int, j: int| 0 <= i <= j <= self.sp_nch() ==> 0 <= #[trigger] self.sp_c2b(i) <= #[trigger] self.sp_c2b(j) <= self.sp_nb()
        &&& forall|i: int, x: int| 0 <= i < self.sp_nch() && #[trigger] self.sp_c2b(i) < x <= self.sp_nb() ==> i < #[trigger] self.sp_chidx(x) <= self.sp_nch()
    }
    #[verifier::external_body]
    fn cat_continuous_len(&self, offset: usize) -> (r: usize)
        requires offset < self.sp_nch()
        ensures r == self.sp_cont(offset as int), r <= 65535
    { unimplemented!() }
    pub uninterp spec fn sp_cat_at(&self, c: int) -> CategoryType;
    #[verifier::external_body]
    fn cat_at_char(&self, offset: usize) -> (r: CategoryType)
        requires offset < self.sp_nch()
        ensures r == self.sp_cat_at(offset as int)
    { unimplemented!() }
    #[verifier::external_body]
    fn current_chars(&self) -> (r: &[char]) ensures r@.len() == self.sp_nch() { unimplemented!() }
    #[verifier::external_body]
    fn curr_slice_c(&self, data: Range<usize>) -> (r: &str)
        requires data.start <= data.end <= self.sp_nch()
        ensures r.spec_bytes() == self.sp_bytes().subrange(self.sp_c2b(data.start as int), self.sp_c2b(data.end as int))
    { unimplemented!() }
    #[verifier::external_body]
    fn to_curr_byte_idx(&self, index: usize) -> (r: usize)
        requires index <= self.sp_nch()
        ensures r == self.sp_c2b(index as int)
    { unimplemented!() }
    #[verifier::external_body]
    fn ch_idx(&self, idx: usize) -> (r: usize)
        requires idx <= self.sp_nb()
        ensures r == self.sp_chidx(idx as int)
    { unimplemented!() }
}
/// R14: the `regex` crate.  ASSUMED: `find` returns the leftmost match of the window as a byte range inside it
#[verifier::external_body] pub struct Regex { _p: () }
#[verifier::external_body] pub struct Match<'a> { _p: core::marker::PhantomData<&'a ()> }
impl<'a> Match<'a> {
    pub uninterp spec fn sp_start(&self) -> int;
    pub uninterp spec fn sp_end(&self) -> int;
    #[verifier::external_body] fn start(&self) -> (r: usize) ensures r == self.sp_start() { unimplemented!() }
    #[verifier::external_body] fn end(&self) -> (r: usize) ensures r == self.sp_end() { unimplemented!() }
}
impl Regex {
    /// the match `find` reports in a window, as (start, end) byte offsets
    pub uninterp spec fn sp_find(&self, window: Seq<u8>) -> Option<(int, int)>;
    #[verifier::external_body]
    fn find<'a>(&self, text: &'a str) -> (r: Option<Match<'a>>)
        ensures
            r is Some <==> self.sp_find(text.spec_bytes()) is Some,
            r is Some ==> self.sp_find(text.spec_bytes()) == Some((r->Some_0.sp_start(), r->Some_0.sp_end()))
                && 0 <= r->Some_0.sp_start() <= r->Some_0.sp_end() <= text.spec_bytes().len(),
    { unimplemented!() }
}
//@extract sudachi/src/plugin/oov/regex_oov/mod.rs :: enum BoundaryMode
//@  derive Clone, Copy, PartialEq, Eq, Structural
//@end
//@extract sudachi/src/plugin/oov/regex_oov/mod.rs :: struct RegexOovProvider
//@  derive
//@end

/// strict boundary mode: the position continues the character-class run of the previous character
spec fn inside_run(p: RegexOovProvider, t: InputBuffer, offset: int) -> bool {
    p.boundaries == BoundaryMode::Strict && offset > 0 && t.sp_cont(offset) + 1 == t.sp_cont(offset - 1)
}
spec fn window_end(p: RegexOovProvider, t: InputBuffer, offset: int) -> int {
    if offset + p.max_length < t.sp_nch() { offset + p.max_length } else { t.sp_nch() }
}
/// the match of the configured expression in the window of at most max_length characters starting at `offset`
spec fn window_match(p: RegexOovProvider, t: InputBuffer, offset: int) -> Option<(int, int)> {
    p.regex->Some_0.sp_find(t.sp_bytes().subrange(t.sp_c2b(offset), t.sp_c2b(window_end(p, t, offset))))
}
/// C13 (regex provider): a candidate is produced exactly when the expression matches a NON-EMPTY text starting at the position,
/// the position is permitted by the boundary mode, and no candidate of the same length exists yet
spec fn regex_candidate(p: RegexOovProvider, t: InputBuffer, offset: int, other: CreatedWords, before: Seq<Node>) -> bool {
    let m = window_match(p, t, offset);
    let mend = t.sp_chidx(t.sp_c2b(offset) + m->Some_0.1);
    &&& !inside_run(p, t, offset)
    &&& m is Some && m->Some_0.0 == 0 && m->Some_0.1 > 0
    &&& other.sp_has(mend - offset) != HasWord::Yes
    &&& (other.sp_has(mend - offset) == HasWord::Maybe ==> forall|k: int| 0 <= k < before.len() ==> (#[trigger] before[k]).end as int != mend)
}

impl RegexOovProvider {
// R11: `impl OovProviderPlugin for RegexOovProvider { fn provide_oov }` checked as an inherent fn of the same body
//@extract sudachi/src/plugin/oov/regex_oov/mod.rs :: impl OovProviderPlugin for RegexOovProvider :: fn provide_oov
//@  twin
//@  rw R17o 1 custom
//@  | let regex = self\s*\.regex\s*\.as_ref\(\)\s*\.ok_or_else\(\|\| SudachiError::InvalidDictionaryGrammar\)\?;
//@  > let regex = match self.regex.as_ref() { Some(__r) => __r, None => { return Err(SudachiError::InvalidDictionaryGrammar); } };
//@  rw R12 1 custom
//@  | Err\(SudachiError::InvalidDataFormat\(m\.start\(\), format!\(.*?m\.as_str\(\)\)\)\)
//@  > Err(SudachiError::InvalidDataFormat(m.start(), err_string()))
//@  rw R6v 1 custom
//@  | for node in result\.iter\(\) \{
//@  > let mut __iv: usize = 0; while __iv < result.len() { let node = &result[__iv]; __iv += 1;
//@  ret r
//@  spec
        requires input_text.sp_wf(), offset < input_text.sp_nch(),
        ensures
            // no panic, no overflow, no empty or inverted window for ANY configured max_length (C03)
            // (in debug mode a match that does not start at the position is reported as an error VALUE)
            self.regex is Some && !self.debug ==> r is Ok,
            r is Ok ==> ({
                let t = *input_text;
                let m = window_match(*self, t, offset as int);
                let mend = t.sp_chidx(t.sp_c2b(offset as int) + m->Some_0.1);
                &&& (regex_candidate(*self, t, offset as int, other_words, old(result)@) ==> r->Ok_0 == 1
                        && final(result)@ == old(result)@.push(final(result)@.last())
                        && ({
                            let n = final(result)@.last();
                            &&& n.begin as int == offset && n.end as int == mend && n.begin < n.end && n.end as int <= t.sp_nch()
                            &&& n.left_id == self.left_id && n.right_id == self.right_id && n.cost == self.cost
                            &&& wid_dic(n.word_id) == 0xf && wid_word(n.word_id) == self.pos as u32
                        }))
                &&& (!regex_candidate(*self, t, offset as int, other_words, old(result)@) ==> r->Ok_0 == 0 && final(result)@ == old(result)@)
            }),
//@  before let byte_offset = input_text.to_curr_byte_idx(offset);
                proof {
                    let t = *input_text;
                    let we = window_end(*self, t, offset as int);
                    assert(end == we);
                    assert(t.sp_c2b(offset as int) <= t.sp_c2b(we) <= t.sp_nb());
                    assert(text_data.spec_bytes().len() == t.sp_c2b(we) - t.sp_c2b(offset as int));
                }
//@  loop 1
                            invariant
                                __iv <= result@.len(), result@ == old(result)@,
                                input_text.sp_wf(), offset < input_text.sp_nch(), !inside_run(*self, *input_text, offset as int),
                                window_match(*self, *input_text, offset as int) == Some((0int, m.sp_end())), m.sp_end() > 0,
                                match_end == input_text.sp_chidx(input_text.sp_c2b(offset as int) + m.sp_end()),
                                other_words.sp_has(match_end - offset) == HasWord::Maybe,
                                forall|k: int| 0 <= k < __iv ==> (#[trigger] result@[k]).end as int != match_end,
                            decreases result@.len() - __iv
//@end
}
} // verus!
fn main() {}
