// UNIT V-BUILD (C02, C03, C13): analysis/stateful_tokenizer.rs  LatticeBuilder::build_lattice / provide_oovs
use vstd::prelude::*;
use vstd::utf8::*;
use vstd::string::*;
verus! {
global size_of usize == 8;
//@include common/error.rs.inc
//@include common/category_type.rs.inc
//@include common/lattice_types.rs.inc
//@include specs/build_specs.rs.inc

impl Lattice {
// contracts of the lattice operations: discharged on the real bodies in unit v_lattice
//@extract sudachi/src/analysis/lattice.rs :: impl Lattice :: fn reset
//@  stub v_lattice
//@  specfile specs/lat_reset.contract
//@end
//@extract sudachi/src/analysis/lattice.rs :: impl Lattice :: fn insert
//@  stub v_lattice
//@  ret cost
//@  specfile specs/lat_insert.contract
//@end
//@extract sudachi/src/analysis/lattice.rs :: impl Lattice :: fn connect_eos
//@  stub v_lattice
//@  ret r
//@  specfile specs/lat_connect_eos.contract
//@end
//@extract sudachi/src/analysis/lattice.rs :: impl Lattice :: fn has_previous_node
//@  stub v_lattice
//@  ret r
//@  specfile specs/lat_has_previous_node.contract
//@end
}

//@extract sudachi/src/analysis/stateful_tokenizer.rs :: struct LatticeBuilder
//@  rw R14 1 custom
//@  | &'a \[Box<dyn OovProviderPlugin \+ Sync \+ Send>\]
//@  > &'a [Provider]
//@end

impl<'a> LatticeBuilder<'a> {
//@extract sudachi/src/analysis/stateful_tokenizer.rs :: impl<'a> LatticeBuilder<'a> :: fn provide_oovs
//@  rw Rgen 1 custom
//@  | fn provide_oovs<P>\(
//@  > fn provide_oovs(
//@  rw Rgen 1 custom
//@  | plugin: &P,
//@  > plugin: &Provider,
//@  rw Rgen 1 custom
//@  | where\s*P: OovProviderPlugin \+ 'a \+ \?Sized,
//@  >
//@  rw R7 1
//@  rw Rcl 1 custom
//@  | self\.node_buffer\[idx\]\.clone\(\)
//@  > node_clone(&self.node_buffer[idx])
//@  rw R14s 1 custom
//@  | node\.char_range\(\)\.len\(\)
//@  > (node.end() - node.begin())
//@  ret r
//@  spec
        requires
            builder_ok(*old(self)), (char_offset as int) < old(self).input.sp_nch(),
            lat_wf(*old(self).lattice, *old(self).matrix), old(self).lattice.size == old(self).input.sp_nch() + 1,
            provider_ok(*plugin, *old(self).input, *old(self).matrix),
            cost_bound(*old(self).lattice), frontier(*old(self).lattice, char_offset as int),
            rows_room(*old(self).lattice, plugin.sp_nodes(*old(self).input, char_offset as int, other)),
        ensures
            same_env(*old(self), *final(self)),
            r is Ok ==> ({
                let added = plugin.sp_nodes(*old(self).input, char_offset as int, other);
                &&& final(self).node_buffer@ == old(self).node_buffer@ + added
                &&& inserted(*old(self).lattice, *final(self).lattice, added)
                &&& r->Ok_0.bits == add_all(other.bits, added, added.len() as int)
                &&& lat_wf(*final(self).lattice, *final(self).matrix) && cost_bound(*final(self).lattice) && frontier(*final(self).lattice, char_offset as int)
                &&& final(self).lattice.size == old(self).lattice.size
            }),
//@  atstart
        let ghost b0 = *self;
        let ghost l0 = *self.lattice;
        let ghost nb0 = self.node_buffer@;
        let ghost other0 = other;
        let ghost added = plugin.sp_nodes(*self.input, char_offset as int, other);
        let ghost p = char_offset as int;
//@  after let num_provided
        proof { axiom_vec_len_fits(self.node_buffer); }
//@  loop 1
            invariant
                same_env(b0, *self), builder_ok(*self), p == char_offset, p < self.input.sp_nch(), added == plugin.sp_nodes(*self.input, p, other0),
                provider_ok(*plugin, *self.input, *self.matrix),
                self.node_buffer@ == nb0 + added, start_size == nb0.len(), __end_idx == start_size + added.len(), start_size <= __it_idx <= __end_idx,
                lat_wf(*self.lattice, *self.matrix), self.lattice.size == l0.size, l0.size == self.input.sp_nch() + 1,
                cost_bound(*self.lattice), frontier(*self.lattice, p),
                inserted(l0, *self.lattice, added.subrange(0, __it_idx - start_size)),
                other.bits == add_all(other0.bits, added, __it_idx - start_size),
                rows_room(l0, added), lat_wf(l0, *self.matrix),
            decreases __end_idx - __it_idx
//@  before let node = 
            let ghost j = idx - start_size;
            let ghost la = *self.lattice;
//@  before self.lattice.insert(node, self.matrix);
            proof {
                assert(node == added[j]);
                let en = node.end as int;
                lemma_no_overflow(la, *self.matrix, node);
                lemma_row_of_prefix_len(added, j, en);
                assert(la.ends@[en]@.len() == la.ends_full@[en]@.len());
                assert(l0.ends@[en]@.len() == l0.ends_full@[en]@.len());
                assert(la.ends_full@[en]@ == l0.ends_full@[en]@ + row_of(added.subrange(0, j), en));
                assert forall|e: int, k: int| has(la, e, k) implies (#[trigger] node_at(la, e, k)).begin != node.end by {}
            }
//@  after self.lattice.insert(node, self.matrix);
            proof {
                lemma_after_insert(la, *self.lattice, *self.matrix, added[j], self.lattice.ends@[added[j].end as int]@.last().total_cost, p);
                lemma_inserted_step(l0, la, *self.lattice, added, j);
            }
//@  atend
        proof { assert(added.subrange(0, added.len() as int) =~= added); }
//@end
}

/// R14s: `slice.last().unwrap()`
#[verifier::external_body]
fn slice_last<T>(s: &[T]) -> (r: &T) requires s@.len() > 0 ensures *r == s@.last() { s.last().unwrap() }

/// what one processed position leaves behind (used between the stages of one iteration of build_lattice)
spec fn stage_ok(b0: LatticeBuilder, b: LatticeBuilder, lp: Lattice, p: int) -> bool {
    &&& same_env(b0, b) && lat_wf(*b.lattice, *b.matrix) && b.lattice.size == b0.input.sp_nch() + 1
    &&& cost_bound(*b.lattice) && frontier(*b.lattice, p) && inserted(lp, *b.lattice, b.node_buffer@)
}
/// rows of the lattice = candidates of the positions before p + what was inserted at p so far
proof fn lemma_rows_now(b0: LatticeBuilder, lp: Lattice, l: Lattice, p: int, done: Seq<Node>)
    requires lattice_is(b0, lp, p), inserted(lp, l, done)
    ensures forall|e: int| 0 <= e < l.ends_full@.len() ==> (#[trigger] l.ends_full@[e])@ == row_of(log_upto(b0, p) + done, e)
{
    assert forall|e: int| 0 <= e < l.ends_full@.len() implies (#[trigger] l.ends_full@[e])@ == row_of(log_upto(b0, p) + done, e) by {
        lemma_row_of_concat(log_upto(b0, p), done, e);
    }
}
proof fn lemma_room(b0: LatticeBuilder, lp: Lattice, l: Lattice, conn: ConnectionMatrix, p: int, done: Seq<Node>, added: Seq<Node>)
    requires
        0 <= p < b0.input.sp_nch(), reach(b0, p), rows_fit(b0), is_prefix(done + added, cand(b0, p)),
        lattice_is(b0, lp, p), inserted(lp, l, done), lat_wf(l, conn),
    ensures rows_room(l, added)
{
    lemma_rows_now(b0, lp, l, p, done);
    assert forall|e: int| 0 <= e < l.ends_full@.len() implies (#[trigger] l.ends@[e])@.len() <= l.ends_full@[e]@.len() + (if e == 0 { 1int } else { 0int }) by {}
    lemma_rows_room(b0, l, p, done, added);
}
/// end of a position: the log grows by the candidates of p
proof fn lemma_position_done(b0: LatticeBuilder, lp: Lattice, l: Lattice, p: int)
    requires lattice_is(b0, lp, p), inserted(lp, l, cand(b0, p)), reach(b0, p), 0 <= p
    ensures lattice_is(b0, l, p + 1)
{
    lemma_rows_now(b0, lp, l, p, cand(b0, p));
    assert(log_upto(b0, p + 1) == log_upto(b0, p) + cand(b0, p));
}

impl<'a> LatticeBuilder<'a> {
//@extract sudachi/src/analysis/stateful_tokenizer.rs :: impl<'a> LatticeBuilder<'a> :: fn build_lattice
//@  rw R6 1 custom
//@  | for \(ch_off, &byte_off\) in self\.input\.curr_byte_offsets\(\)\.iter\(\)\.enumerate\(\) \{
//@  > let __offs = self.input.curr_byte_offsets(); let mut __it: usize = 0; while __it < __offs.len() { let ch_off = __it; let byte_off = __offs[__it]; __it += 1;
//@  rw R14 1 custom
//@  | for e in self\.lexicon\.lookup\(input_bytes, byte_off\) \{
//@  > let __es = self.lexicon.lookup_vec(input_bytes, byte_off); let mut __k: usize = 0; while __k < __es.len() { let e = &__es[__k]; __k += 1;
//@  rw Rcl 1 custom
//@  | node\.clone\(\)
//@  > node_clone(&node)
//@  rw R16 * custom
//@  | CategoryType::NOOOVBOW \| CategoryType::NOOOVBOW2
//@  > CategoryType::NOOOVBOW.union(CategoryType::NOOOVBOW2)
//@  rw R6v 1 custom
//@  | for provider in self\.oov_providers \{
//@  > let mut __ip: usize = 0; while __ip < self.oov_providers.len() { let provider = &self.oov_providers[__ip]; __ip += 1;
//@  rw R14s 1 custom
//@  | self\.oov_providers\.last\(\)\.unwrap\(\)
//@  > slice_last(self.oov_providers)
//@  ret r
//@  spec
        requires
            builder_ok(*old(self)), rows_fit(*old(self)), entries_ok(*old(self)),
            old(self).lattice.ends@.len() == old(self).lattice.ends_full@.len(), old(self).lattice.ends@.len() == old(self).lattice.indices@.len(),
        ensures
            same_env(*old(self), *final(self)),
            r is Ok ==> ({
                let n = old(self).input.sp_nch();
                // C02: a well-formed lattice (every stored node carries the minimum over its left neighbours), EOS connected to the best
                &&& lat_wf(*final(self).lattice, *final(self).matrix) && final(self).lattice.size == n + 1
                &&& final(self).lattice.eos is Some && final(self).lattice.eos->Some_0.1 != i32::MAX
                &&& is_best(*final(self).lattice, *final(self).matrix, eos_node(*final(self).lattice), final(self).lattice.eos->Some_0.0, final(self).lattice.eos->Some_0.1 as int)
                // C13: at every boundary the lattice holds exactly the prescribed candidates ending there
                &&& lattice_is(*old(self), *final(self).lattice, n)
                // C03: every reachable position received at least one candidate
                &&& forall|p: int| 0 <= p < n && reach(*old(self), p) ==> #[trigger] bits_final(*old(self), p) != 0
            }),
//@  atstart
        let ghost b0 = *self;
        let ghost nch = self.input.sp_nch();
//@  after self.lattice.reset(
        let ghost lf = *self.lattice;
        proof { lemma_fresh(b0, lf, nch); }
//@  loop 1
            invariant
                b0 == *old(self), same_env(b0, *self), builder_ok(b0), rows_fit(b0), entries_ok(b0), nch == b0.input.sp_nch(),
                __offs@.len() == nch, forall|k: int| 0 <= k < nch ==> #[trigger] __offs@[k] == b0.input.sp_c2b(k), __it <= nch,
                input_bytes@ == b0.input.sp_bytes(),
                lat_wf(*self.lattice, *self.matrix), self.lattice.size == nch + 1, cost_bound(*self.lattice), frontier(*self.lattice, __it as int),
                lattice_is(b0, *self.lattice, __it as int),
                forall|p: int| 0 <= p < __it && reach(b0, p) ==> #[trigger] bits_final(b0, p) != 0,
            decreases nch - __it
//@  loopstart 1
            let ghost lp = *self.lattice;
            let ghost p = __it as int;
//@  before continue; #1
                proof {
                    // nothing ends here: the position cannot be reached and contributes nothing
                    assert(p >= 1);
                    assert(lp.ends@[p]@.len() == lp.ends_full@[p]@.len());
                    assert(log_upto(b0, p + 1) == log_upto(b0, p));
                    assert(!reach(b0, p));
                    assert forall|e: int, k: int| has(lp, e, k) implies (#[trigger] node_at(lp, e, k)).begin <= p + 1 by {}
                }
//@  before self.node_buffer.clear();
            proof {
                if p >= 1 { assert(lp.ends@[p]@.len() == lp.ends_full@[p]@.len()); }
                assert(reach(b0, p));
                assert(__offs@[p] == b0.input.sp_c2b(p));
            }
//@  after self.node_buffer.clear();
            proof { lemma_inserted_refl(lp); }
            let ghost es = entries_at(b0, p);
//@  loop 2
                invariant
                    b0 == *old(self), same_env(b0, *self), builder_ok(b0), rows_fit(b0), entries_ok(b0), nch == b0.input.sp_nch(), p == ch_off, 0 <= p < nch, reach(b0, p),
                    byte_off == b0.input.sp_c2b(p), input_bytes@ == b0.input.sp_bytes(), lattice_is(b0, lp, p),
                    es == entries_at(b0, p), __es@ == es, __k <= es.len(),
                    stage_ok(b0, *self, lp, p),
                    self.node_buffer@ == dict_nodes(*b0.lexicon, *b0.input, p, es, __k as int),
                    created.bits == dict_bits(*b0.input, p, es, __k as int),
                decreases es.len() - __k
//@  loopstart 2
                let ghost kk = __k as int;
                let ghost la = *self.lattice;
                let ghost done = self.node_buffer@;
//@  before let (left_id, right_id, cost) =
                proof {
                    assert(*e == es[kk]);
                    assert(keep(*b0.input, es[kk]));
                    assert(b0.input.sp_c2b(p) < es[kk].end <= b0.input.sp_bytes().len() && is_char_boundary(b0.input.sp_bytes(), es[kk].end as int));
                }
//@  before self.node_buffer.push(
                proof {
                    assert(p < end_c <= nch);
                    assert(node == dict_node(*b0.lexicon, *b0.input, p, es[kk]));
                }
//@  before self.lattice.insert(node, self.matrix);
                proof {
                    let dn = dict_node(*b0.lexicon, *b0.input, p, es[kk]);
                    assert(self.node_buffer@ == done.push(dn));
                    assert(done.push(dn) == dict_nodes(*b0.lexicon, *b0.input, p, es, kk + 1));
                    // room in the row, no overflow, left-to-right order
                    lemma_dict_prefix(*b0.lexicon, *b0.input, p, es, kk + 1, es.len() as int);
                    lemma_prefix_refl_concat(cand_dict(b0, p), cand_oov(b0, p) + cand_fallback(b0, p));
                    assert(cand(b0, p) =~= cand_dict(b0, p) + (cand_oov(b0, p) + cand_fallback(b0, p)));
                    lemma_prefix_trans(done.push(dn), cand_dict(b0, p), cand(b0, p));
                    assert(done + seq![dn] =~= done.push(dn));
                    lemma_room(b0, lp, la, *self.matrix, p, done, seq![dn]);
                    assert(row_of(seq![dn], dn.end as int).len() >= 0);
                    lemma_no_overflow(la, *self.matrix, dn);
                    assert forall|e2: int, k2: int| has(la, e2, k2) implies (#[trigger] node_at(la, e2, k2)).begin != dn.end by {}
                }
//@  after self.lattice.insert(node, self.matrix);
                proof {
                    let dn = dict_node(*b0.lexicon, *b0.input, p, es[kk]);
                    lemma_after_insert(la, *self.lattice, *self.matrix, dn, self.lattice.ends@[dn.end as int]@.last().total_cost, p);
                    lemma_inserted_push(lp, la, *self.lattice, done, dn);
                }
//@  before // OOV
            let ghost cd = cand_dict(b0, p);
            let ghost bd = bits_dict(b0, p);
            proof {
                assert(self.node_buffer@ == cd && created.bits == bd);
                assert((0x4000_0000u32 | 0x8000_0000u32) == 0xC000_0000u32) by (bit_vector);
            }
//@  loop 3
                    invariant
                        b0 == *old(self), same_env(b0, *self), builder_ok(b0), rows_fit(b0), entries_ok(b0), nch == b0.input.sp_nch(), p == ch_off, 0 <= p < nch, reach(b0, p),
                        lattice_is(b0, lp, p), oov_allowed(*b0.input, p), cd == cand_dict(b0, p), bd == bits_dict(b0, p),
                        __ip <= self.oov_providers@.len(),
                        stage_ok(b0, *self, lp, p),
                        self.node_buffer@ == cd + prov_nodes(b0.oov_providers@, *b0.input, p, bd, __ip as int),
                        created.bits == prov_bits(b0.oov_providers@, *b0.input, p, bd, __ip as int),
                    decreases self.oov_providers@.len() - __ip
//@  before created = self.provide_oovs(ch_off, #1
                    let ghost lb = *self.lattice;
                    let ghost nbb = self.node_buffer@;
                    proof {
                        let i = __ip - 1;
                        let provs = b0.oov_providers@;
                        let added = provs[i].sp_nodes(*b0.input, p, created);
                        assert(created == CreatedWords { bits: prov_bits(provs, *b0.input, p, bd, i) });
                        let donep = prov_nodes(provs, *b0.input, p, bd, i);
                        assert(prov_nodes(provs, *b0.input, p, bd, i + 1) == donep + added);
                        lemma_prov_prefix(provs, *b0.input, p, bd, i + 1, provs.len() as int);
                        lemma_prefix_left(cd, donep + added, cand_oov(b0, p));
                        lemma_prefix_refl_concat(cd + cand_oov(b0, p), cand_fallback(b0, p));
                        lemma_prefix_trans(cd + (donep + added), cd + cand_oov(b0, p), cand(b0, p));
                        assert((cd + donep) + added =~= cd + (donep + added));
                        lemma_room(b0, lp, *self.lattice, *self.matrix, p, cd + donep, added);
                    }
//@  after created = self.provide_oovs(ch_off, #1
                    proof {
                        let i = __ip - 1;
                        let provs = b0.oov_providers@;
                        let added = provs[i].sp_nodes(*b0.input, p, CreatedWords { bits: prov_bits(provs, *b0.input, p, bd, i) });
                        lemma_inserted_compose(lp, lb, *self.lattice, nbb, added);
                        assert(self.node_buffer@ =~= cd + prov_nodes(provs, *b0.input, p, bd, i + 1));
                    }
//@  before if created.is_empty() #1
            let ghost co = cand_oov(b0, p);
            let ghost bo = bits_oov(b0, p);
            proof {
                if !oov_allowed(*b0.input, p) { assert(cd + co =~= cd); }
                assert(self.node_buffer@ == cd + co && created.bits == bo);
            }
//@  before created = self.provide_oovs(ch_off, #2
                let ghost lb2 = *self.lattice;
                proof {
                    assert(created == CreatedWords { bits: 0 });
                    let added = cand_fallback(b0, p);
                    assert(cand(b0, p) == (cd + co) + added);
                    assert(((cd + co) + added).subrange(0, ((cd + co) + added).len() as int) =~= (cd + co) + added);
                    lemma_room(b0, lp, lb2, *self.matrix, p, cd + co, added);
                }
//@  after created = self.provide_oovs(ch_off, #2
                proof { lemma_inserted_compose(lp, lb2, *self.lattice, cd + co, cand_fallback(b0, p)); }
//@  before if created.is_empty() #2
            proof {
                if bo != 0 { assert(cand(b0, p) =~= cd + co); }
                assert(self.node_buffer@ == cand(b0, p));
                assert(created.bits == bits_final(b0, p));
                lemma_position_done(b0, lp, *self.lattice, p);
                assert forall|e: int, k: int| has(*self.lattice, e, k) implies (#[trigger] node_at(*self.lattice, e, k)).begin <= p + 1 by {}
            }
//@  afterloop 3
            // (hint position only)
//@  before self.lattice.connect_eos(self.matrix)?;
        let ghost le = *self.lattice;
        proof { lemma_no_overflow(*self.lattice, *self.matrix, eos_node(*self.lattice)); }
//@  atend
        proof {
            let lz = *self.lattice;
            assert(lz.ends == le.ends && lz.ends_full == le.ends_full && lz.indices == le.indices && lz.size == le.size);
            lemma_wf_same(le, lz, *self.matrix);
            assert(eos_node(lz) == eos_node(le));
            assert(is_best(lz, *self.matrix, eos_node(lz), lz.eos->Some_0.0, lz.eos->Some_0.1 as int));
            assert(lattice_is(b0, lz, nch));
            assert(__it == nch);
        }
//@end
}
} // verus!
fn main() {}
