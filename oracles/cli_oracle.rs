    // BOUNDED end-to-end oracle for the command-line tool (C19): for a set of input lines the bytes written by the tool's analysis drivers
    // (AnalyzeNonSplitted / AnalyzeSplitted with the Wakachi and Simple outputs) are compared with the rendering of what the LIBRARY
    // computes for the same text (StatelessTokenizer, SentenceSplitter): space-joined surfaces, or the documented columns and EOS.
    use std::cell::RefCell;
    use std::rc::Rc;
    struct Shared(Rc<RefCell<Vec<u8>>>);
    impl Write for Shared {
        fn write(&mut self, b: &[u8]) -> io::Result<usize> { self.0.borrow_mut().extend_from_slice(b); Ok(b.len()) }
        fn flush(&mut self) -> io::Result<()> { Ok(()) }
    }
    fn dict() -> JapaneseDictionary {
        let cfg = Config::new(Some(PathBuf::from("../sudachi/tests/resources/sudachi.json")), Some(PathBuf::from("../sudachi/tests/resources")), None).expect("config");
        JapaneseDictionary::from_cfg(&cfg).expect("dictionary")
    }
    fn lines() -> Vec<String> {
        let pieces = ["東京都", "に", "行っ", "た", "。", "京都", "アイウ", "１２３", "！？", "「", "」", "a b", " ", "", "特a", "\t", "😀", "ｶﾞ"];
        let mut v: Vec<String> = Vec::new();
        for a in pieces.iter() { v.push(a.to_string()); for b in pieces.iter() { v.push(format!("{}{}", a, b)); for c in ["。", "東京都"] { v.push(format!("{}{}{}", a, b, c)); } } }
        v.push("東京都に行った。京都に行った。アイウ".to_string());
        v
    }
    fn render_wakati(ms: &MorphemeList<&JapaneseDictionary>) -> Vec<u8> {
        if ms.len() == 0 { return b"\n".to_vec(); }
        let s: Vec<String> = ms.iter().map(|m| m.surface().to_string()).collect();
        (s.join(" ") + "\n").into_bytes()
    }
    fn render_simple(ms: &MorphemeList<&JapaneseDictionary>, all: bool) -> Vec<u8> {
        let mut out = String::new();
        for m in ms.iter() {
            out.push_str(&m.surface()); out.push('\t'); out.push_str(&m.part_of_speech().join(",")); out.push('\t'); out.push_str(m.normalized_form());
            if all {
                out.push_str(&format!("\t{}\t{}\t{}\t{:?}", m.dictionary_form(), m.reading_form(), m.dictionary_id(), m.synonym_group_ids()));
                if m.is_oov() { out.push_str("\t(OOV)"); }
            }
            out.push('\n');
        }
        out.push_str("EOS\n");
        out.into_bytes()
    }
    #[test]
    fn verif_oracle_cli_output_is_the_library_result() {
        use sudachi::analysis::stateless_tokenizer::StatelessTokenizer;
        use sudachi::analysis::Tokenize;
        use sudachi::sentence_splitter::{SentenceSplitter, SplitSentences};
        let jd = dict();
        let mut failures: Vec<String> = Vec::new();
        let mut cases = 0;
        for mode in [Mode::C, Mode::A] { for format in 0..3usize { for split in [false, true] {
            let buf = Rc::new(RefCell::new(Vec::new()));
            let mut writer: output::Writer = BufWriter::new(Box::new(Shared(buf.clone())));
            let mut analyzer: Box<dyn Analysis> = match (format, split) {
                (0, false) => Box::new(AnalyzeNonSplitted::new(output::Wakachi::default(), &jd, mode, false)),
                (0, true) => Box::new(AnalyzeSplitted::new(output::Wakachi::default(), &jd, mode, false)),
                (f, false) => Box::new(AnalyzeNonSplitted::new(output::Simple::new(f == 2), &jd, mode, false)),
                (f, true) => Box::new(AnalyzeSplitted::new(output::Simple::new(f == 2), &jd, mode, false)),
            };
            let tok = StatelessTokenizer::new(&jd);
            let splitter = SentenceSplitter::new().with_checker(jd.lexicon());
            for line in lines() {
                cases += 1;
                buf.borrow_mut().clear();
                analyzer.analyze(&line, &mut writer);
                writer.flush().unwrap();
                let got = buf.borrow().clone();
                let mut want: Vec<u8> = Vec::new();
                let sentences: Vec<&str> = if split { splitter.split(&line).map(|(_, s)| s).collect() } else { vec![line.as_str()] };
                for s in sentences {
                    let ms = tok.tokenize(s, mode, false).expect("library analysis");
                    want.extend(if format == 0 { render_wakati(&ms) } else { render_simple(&ms, format == 2) });
                }
                if got != want && failures.len() < 20 {
                    failures.push(format!("line {:?} (mode {:?}, format {}, sentence splitting {}): the tool prints {:?}, the library result renders as {:?}", line, mode, ["wakati", "simple", "all"][format], split, String::from_utf8_lossy(&got), String::from_utf8_lossy(&want)));
                }
            }
        }}}
        println!("verif_oracle_cli_output_is_the_library_result: {} analyses, {} failures", cases, failures.len());
        for f in failures.iter().take(5) { println!("FAILING INPUT: {}", f); }
        assert!(failures.is_empty());
    }
