    // BOUNDED replay oracle for unit v_eol (C19): strip_eol removes exactly one trailing "\n" or "\r\n" and nothing else.
    // Every string of up to 6 characters over {a, CR, LF, あ} is compared with the specification without_eol.
    fn spec(d: &str) -> &str {
        if d.ends_with("\r\n") { &d[..d.len() - 2] } else if d.ends_with('\n') { &d[..d.len() - 1] } else { d }
    }
    #[test]
    fn verif_oracle_strip_eol() {
        let alphabet = ['a', '\r', '\n', 'あ'];
        let mut all = vec![String::new()];
        let mut layer = vec![String::new()];
        for _ in 0..6 {
            let mut next = Vec::new();
            for s in layer.iter() { for c in alphabet.iter() { let mut t = s.clone(); t.push(*c); next.push(t); } }
            all.extend(next.iter().cloned());
            layer = next;
        }
        let mut failures = Vec::new();
        for s in all.iter() {
            let got = std::panic::catch_unwind(|| strip_eol(s).to_string());
            match got {
                Ok(g) => if g != spec(s) && failures.len() < 20 { failures.push(format!("strip_eol({:?}) = {:?}, the line without its terminator is {:?}", s, g, spec(s))); },
                Err(_) => if failures.len() < 20 { failures.push(format!("strip_eol({:?}) panics", s)); },
            }
        }
        println!("verif_oracle_strip_eol: {} lines, {} failures", all.len(), failures.len());
        for f in failures.iter().take(5) { println!("FAILING INPUT: {}", f); }
        assert!(failures.is_empty());
    }
