//@kani target=sudachi/src/analysis/created.rs
//@kani harness=created_add_then_has kind=complete
//@kani harness=created_has_only_added kind=complete
//@kani harness=created_single_no_panic kind=complete
// K-CREATED (C03, C13): analysis/created.rs  CreatedWords::single / add_word / has_word over every i64 length and every bitset.
// Loop-free, full machine domain => complete.

    /// a word of length a that was added is reported (Yes below 64 characters, Maybe from 64 on), whatever else the set holds
    #[kani::proof]
    fn created_add_then_has() {
        let base = CreatedWords(kani::any());
        let a: i64 = kani::any();
        kani::assume(a > 0);
        let s = base.add_word(a);
        let r = s.has_word(a);
        if a < 64 { assert!(r == HasWord::Yes); } else { assert!(r == HasWord::Maybe); }
        assert!(s.not_empty());
    }

    /// only added lengths are reported: after adding a to the empty set, a different length b below 64 is "No",
    /// and lengths from 64 on share one bucket ("Maybe" iff a >= 64)
    #[kani::proof]
    fn created_has_only_added() {
        let a: i64 = kani::any();
        let b: i64 = kani::any();
        kani::assume(a > 0 && b > 0 && a != b);
        let s = CreatedWords::empty().add_word(a);
        let r = s.has_word(b);
        if b < 64 { assert!(r == HasWord::No); }
        else if a < 64 { assert!(r == HasWord::No); }
        else { assert!(r == HasWord::Maybe); }
        kani::cover!(r == HasWord::No);
        kani::cover!(r == HasWord::Maybe);
    }

    /// totality (C03): no overflow, no oversized shift, and the debug assertion `raw > 0` cannot fire for positive lengths
    #[kani::proof]
    fn created_single_no_panic() {
        let a: i64 = kani::any();
        kani::assume(a > 0);
        let s = CreatedWords::single(a);
        assert!(s.0.count_ones() == 1);
    }
