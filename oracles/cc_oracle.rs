    // Replay oracle for V-CC (C17): executable restatement of `forall c: get_category_types(compile(ranges), c) == expected(ranges, c)`.
    // Bounded stand-in: every list of at most 3 ranges over code points 0..6 with class sets from {DEFAULT, KANJI, DEFAULT|KANJI, ALPHA};
    // queried at every code point 0..8.  A failing test prints the failing input.
    fn expected(ranges: &[CatRange], c: u32) -> CategoryType {
        let mut u = CategoryType::empty();
        for r in ranges { if r.begin <= c && c < r.end { u |= r.categories; } }
        if u.is_empty() { CategoryType::DEFAULT } else { u }
    }
    #[test]
    fn verif_oracle_character_classes() {
        let cats = [CategoryType::DEFAULT, CategoryType::KANJI, CategoryType::DEFAULT | CategoryType::KANJI, CategoryType::ALPHA];
        let mut singles: Vec<CatRange> = Vec::new();
        for b in 0u32..6 { for e in (b + 1)..7 { for c in cats.iter() { singles.push(CatRange { begin: b, end: e, categories: *c }); } } }
        let mut failures: Vec<String> = Vec::new();
        let mut cases = 0usize;
        let check = |rs: &Vec<CatRange>, failures: &mut Vec<String>| {
            let cc = CharacterCategory::compile(rs);
            for c in 0u32..8 {
                let got = cc.get_category_types(char::from_u32(c).unwrap());
                let exp = expected(rs, c);
                if got != exp { failures.push(format!("ranges={:?} code point {}: got {:?}, expected {:?}", rs, c, got, exp)); return; }
            }
        };
        for a in singles.iter() {
            cases += 1; check(&vec![a.clone()], &mut failures);
            for b in singles.iter() {
                cases += 1; check(&vec![a.clone(), b.clone()], &mut failures);
            }
        }
        // triples: a sample keyed by VERIF_SEED (full enumeration of pairs above is exhaustive)
        let seed: usize = std::env::var("VERIF_SEED").ok().and_then(|s| s.parse().ok()).unwrap_or(0);
        let n = singles.len();
        for i in 0..4000usize {
            let x = (i.wrapping_mul(2654435761).wrapping_add(seed.wrapping_mul(40503))) % (n * n * n);
            let rs = vec![singles[x % n].clone(), singles[(x / n) % n].clone(), singles[x / (n * n)].clone()];
            cases += 1; check(&rs, &mut failures);
        }
        println!("verif_oracle_character_classes: {} cases, {} failures", cases, failures.len());
        for f in failures.iter().take(5) { println!("FAILING INPUT: {}", f); }
        assert!(failures.is_empty());
    }

    /// the definition-file reader (read_character_definition: str parsing, not within the verifier's reach) followed by compile:
    /// every small definition text is read and compared, code point by code point, with the union of the lines covering it.
    /// BOUNDED: texts of up to 3 lines drawn from ranges inside 0x30..0x37 with class sets {NUMERIC, ALPHA, NUMERIC ALPHA}.
    #[test]
    fn verif_oracle_definition_text() {
        let names = ["NUMERIC", "ALPHA", "NUMERIC ALPHA"];
        let sets = [CategoryType::NUMERIC, CategoryType::ALPHA, CategoryType::NUMERIC | CategoryType::ALPHA];
        let mut lines: Vec<(String, u32, u32, CategoryType)> = Vec::new();
        for b in 0x30u32..0x36 { for e in b..0x37 { for (k, n) in names.iter().enumerate() {
            let text = if b == e { format!("0x{:04X} {}", b, n) } else { format!("0x{:04X}..0x{:04X} {} # comment", b, e, n) };
            lines.push((text, b, e + 1, sets[k]));
        }}}
        let mut failures: Vec<String> = Vec::new();
        let mut cases = 0usize;
        let n = lines.len();
        let mut check = |sel: &[usize], failures: &mut Vec<String>| {
            cases += 1;
            let text: String = sel.iter().map(|i| format!("{}\n", lines[*i].0)).collect();
            let text = format!("# header\n\n{}", text);
            let cc = match CharacterCategory::from_reader(text.as_bytes()) { Ok(c) => c, Err(e) => { failures.push(format!("definition {:?} refused: {:?}", text, e)); return; } };
            for c in 0x2Eu32..0x3A {
                let mut want = CategoryType::empty();
                for i in sel { let l = &lines[*i]; if l.1 <= c && c < l.2 { want |= l.3; } }
                if want.is_empty() { want = CategoryType::DEFAULT; }
                let got = cc.get_category_types(char::from_u32(c).unwrap());
                if got != want { if failures.len() < 20 { failures.push(format!("definition {:?}: U+{:04X} has classes {:?}, the lines covering it give {:?}", text, c, got, want)); } return; }
            }
        };
        for a in 0..n { check(&[a], &mut failures); for b in 0..n { check(&[a, b], &mut failures); } }
        let seed: usize = std::env::var("VERIF_SEED").ok().and_then(|s| s.parse().ok()).unwrap_or(0);
        for i in 0..3000usize {
            let x = (i.wrapping_mul(2654435761).wrapping_add(seed.wrapping_mul(40503))) % (n * n * n);
            check(&[x % n, (x / n) % n, x / (n * n)], &mut failures);
        }
        println!("verif_oracle_definition_text: {} cases, {} failures", cases, failures.len());
        for f in failures.iter().take(5) { println!("FAILING INPUT: {}", f); }
        assert!(failures.is_empty());
    }
