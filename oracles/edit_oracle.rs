    // Replay oracle for V-EDIT: executable restatement of `resolved` (units/specs/edit_specs.rs.inc),
    // small exhaustive enumeration of texts and edit batches against the real resolve_edits.
    fn boundaries(s: &str) -> Vec<usize> { (0..=s.len()).filter(|&i| s.is_char_boundary(i)).collect() }

    fn check(source: &str, edits: &[(usize, usize, &str)]) -> Result<(), String> {
        let n = source.len();
        let sm: Vec<usize> = (0..=n).map(|i| i * 2).collect(); // any monotone map with sm[0]=0
        let mut ops: Vec<ReplaceOp> = edits.iter().map(|(a, b, w)| ReplaceOp { what: *a..*b, with: ReplaceTgt::Ref(w) }).collect();
        let mut target = String::new();
        let mut tm: Vec<usize> = Vec::new();
        let res = resolve_edits(source, &sm, &mut target, &mut tm, &mut ops);
        // expected text
        let mut exp = String::new();
        let mut prev = 0;
        let mut upos: Vec<(usize, usize)> = Vec::new(); // (target pos, source pos) of unreplaced positions
        for (a, b, w) in edits {
            for j in prev..*a { upos.push((exp.len() + (j - prev), j)); }
            exp.push_str(&source[prev..*a]);
            exp.push_str(w);
            prev = *b;
        }
        for j in prev..=n { upos.push((exp.len() + (j - prev), j)); }
        exp.push_str(&source[prev..]);
        let ctx = format!("source={:?} edits={:?} -> target={:?} map={:?} res={}", source, edits, target, tm, res);
        if !ops.is_empty() { return Err(format!("edits not drained: {}", ctx)); }
        if target != exp { return Err(format!("text differs from specification {:?}: {}", exp, ctx)); }
        if res != target.len() { return Err(format!("returned length wrong: {}", ctx)); }
        if tm.len() != res + 1 { return Err(format!("map length: {}", ctx)); }
        if tm[0] != 0 { return Err(format!("start not mapped to start: {}", ctx)); }
        if tm.windows(2).any(|w| w[0] > w[1]) { return Err(format!("map not monotone: {}", ctx)); }
        if tm.iter().any(|&x| x > sm[n]) { return Err(format!("map out of range: {}", ctx)); }
        if res > 0 && tm[res] != sm[n] { return Err(format!("end not mapped to end: {}", ctx)); }
        for (t, j) in upos { if t > 0 && tm[t] != sm[j] { return Err(format!("unreplaced position {} (source {}) moved: {}", t, j, ctx)); } }
        Ok(())
    }

    #[test]
    fn verif_oracle_resolve_edits() {
        let alphabet = ["a", "é", "漢"];
        let repl = ["", "x", "yz", "漢"];
        let mut texts: Vec<String> = vec![String::new()];
        let mut frontier = vec![String::new()];
        for _ in 0..3 {
            let mut nf = Vec::new();
            for t in &frontier { for c in alphabet.iter() { let mut s = t.clone(); s.push_str(c); nf.push(s); } }
            texts.extend(nf.iter().cloned());
            frontier = nf;
        }
        let mut failures = Vec::new();
        let mut cases = 0usize;
        for t in &texts {
            let bs = boundaries(t);
            // one edit
            for (i, &a) in bs.iter().enumerate() { for &b in &bs[i..] { for w in repl.iter() {
                cases += 1;
                if let Err(e) = check(t, &[(a, b, w)]) { failures.push(e); }
                // two edits
                for (k, &c) in bs.iter().enumerate() { if c < b { continue; } for &d in &bs[k..] { for w2 in repl.iter() {
                    cases += 1;
                    if let Err(e) = check(t, &[(a, b, w), (c, d, w2)]) { failures.push(e); }
                }}}
            }}}
        }
        println!("verif_oracle_resolve_edits: {} cases, {} failures", cases, failures.len());
        for f in failures.iter().take(5) { println!("FAILING INPUT: {}", f); }
        assert!(failures.is_empty());
    }

    /// two successive batches on real strings: the composed map must send character boundaries of the final text to
    /// character boundaries of the ORIGINAL text, be monotone, and be anchored at both ends (C08, composition clause)
    fn check2(orig: &str, e1: (usize, usize, &str), e2pick: usize, w2: &str) -> Result<(), String> {
        let id: Vec<usize> = (0..=orig.len()).collect();
        let mut ops = vec![ReplaceOp { what: e1.0..e1.1, with: ReplaceTgt::Ref(e1.2) }];
        let mut t1 = String::new();
        let mut m1: Vec<usize> = Vec::new();
        let r1 = resolve_edits(orig, &id, &mut t1, &mut m1, &mut ops);
        if r1 != t1.len() || t1.is_empty() { return Ok(()); }
        let bs = boundaries(&t1);
        // pick the e2pick-th (start,end) pair of boundaries of the intermediate text
        let mut pairs = Vec::new();
        for (i, &a) in bs.iter().enumerate() { for &b in &bs[i..] { pairs.push((a, b)); } }
        let (a2, b2) = pairs[e2pick % pairs.len()];
        let mut ops2 = vec![ReplaceOp { what: a2..b2, with: ReplaceTgt::Ref(w2) }];
        let mut t2 = String::new();
        let mut m2: Vec<usize> = Vec::new();
        let r2 = resolve_edits(&t1, &m1, &mut t2, &mut m2, &mut ops2);
        if t2.is_empty() { return Ok(()); }
        let ctx = format!("original={:?} batch1={:?} -> {:?} (map {:?}); batch2=({},{},{:?}) -> {:?} map {:?}", orig, e1, t1, m1, a2, b2, w2, t2, m2);
        if r2 != t2.len() || m2.len() != t2.len() + 1 { return Err(format!("length: {}", ctx)); }
        if m2[0] != 0 || m2[t2.len()] != orig.len() { return Err(format!("not anchored: {}", ctx)); }
        if m2.windows(2).any(|w| w[0] > w[1]) { return Err(format!("not monotone: {}", ctx)); }
        for (j, &o) in m2.iter().enumerate() {
            if o > orig.len() { return Err(format!("out of range at {}: {}", j, ctx)); }
            if t2.is_char_boundary(j) && !orig.is_char_boundary(o) { return Err(format!("boundary {} maps to non-boundary {}: {}", j, o, ctx)); }
        }
        Ok(())
    }

    #[test]
    fn verif_oracle_two_batches() {
        let alphabet = ["a", "é", "漢"];
        let repl = ["", "x", "yz", "漢字", "(株)"];
        let mut texts: Vec<String> = Vec::new();
        for a in alphabet.iter() { texts.push(a.to_string()); for b in alphabet.iter() { texts.push(format!("{}{}", a, b)); for c in alphabet.iter() { texts.push(format!("{}{}{}", a, b, c)); } } }
        let mut failures = Vec::new();
        let mut cases = 0usize;
        for t in &texts {
            let bs = boundaries(t);
            for (i, &a) in bs.iter().enumerate() { for &b in &bs[i..] { for w in repl.iter() {
                for pick in 0..15usize { for w2 in repl.iter() {
                    cases += 1;
                    if let Err(e) = check2(t, (a, b, w), pick, w2) { failures.push(e); }
                }}
            }}}
        }
        println!("verif_oracle_two_batches: {} cases, {} failures", cases, failures.len());
        for f in failures.iter().take(5) { println!("FAILING INPUT: {}", f); }
        assert!(failures.is_empty());
    }


    /// the over-long exit: the contract of resolve_edits says the edit list is empty afterwards on EVERY path (C03/C10: a
    /// refused input must leave nothing behind that the next input on the same buffer would see)
    #[test]
    fn verif_oracle_overlong_exit_drains() {
        let big = "x".repeat(70000);
        let mut failures = Vec::new();
        for source in ["", "a", "aé漢", "abcdef"] {
            let bs = boundaries(source);
            for (i, &a) in bs.iter().enumerate() { for &b in &bs[i..] {
                for tail in [false, true] {
                    let id: Vec<usize> = (0..=source.len()).collect();
                    let mut ops = vec![ReplaceOp { what: a..b, with: ReplaceTgt::Ref(&big) }];
                    if tail && b < source.len() { ops.push(ReplaceOp { what: b..source.len(), with: ReplaceTgt::Char('y') }); }
                    let nops = ops.len();
                    let mut t = String::new();
                    let mut m: Vec<usize> = Vec::new();
                    let r = resolve_edits(source, &id, &mut t, &mut m, &mut ops);
                    if r <= 65535 { failures.push(format!("source={:?} edit {}..{} with 70000 bytes: returned {} (not over the limit)", source, a, b, r)); }
                    if !ops.is_empty() { failures.push(format!("source={:?} {} edit(s), first {}..{} replaced by 70000 bytes: resolve_edits returned {} and left {} edit(s) in the list", source, nops, a, b, r, ops.len())); }
                }
            }}
        }
        println!("verif_oracle_overlong_exit_drains: {} failures", failures.len());
        for f in failures.iter().take(5) { println!("FAILING INPUT: {}", f); }
        assert!(failures.is_empty());
    }
