#!/bin/bash
# usage: seed_check.sh <patch file> <Cxx> [<Cyy> ...]   -- applies the patch to /repo, runs the quick checks, undoes it
P=$1; shift
git -C /repo apply "$P" || { echo "patch does not apply to /repo"; exit 2; }
for c in "$@"; do (cd /verif && ./check $c quick; echo "rc=$?"); done
git -C /repo checkout -- . ; git -C /repo status --short
