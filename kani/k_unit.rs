//@kani target=sudachi/src/dic/lexicon/trie.rs
//@kani harness=unit_accessors_agree_with_yada kind=complete
// K-UNIT (C04): lexicon/trie.rs Trie::{has_leaf,value,label,offset} against the dependency's own definition yada::unit::Unit
// for ALL 2^32 units (loop-free, full domain => complete).
    #[kani::proof]
    fn unit_accessors_agree_with_yada() {
        let u: u32 = kani::any();
        let y = yada::unit::Unit::from_u32(u);
        assert!(Trie::has_leaf(u as usize) == y.has_leaf());
        assert!(Trie::value(u) == y.value());
        assert!(Trie::label(u as usize) == y.label() as usize);
        assert!(Trie::offset(u as usize) == y.offset() as usize);
    }
