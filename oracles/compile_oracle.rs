    // BOUNDED robustness oracle for C06 (stand-in for the CSV reader and field parsers of dic/build/parse.rs / lexicon.rs, which are str /
    // regex code outside the verifier's reach): lexicon texts derived from a small valid lexicon by field-wise and row-wise mutation
    // (wrong arity, non-numeric and negative numbers, ids at and beyond the matrix size, over-long strings, bad escapes, dangling and
    // malformed references, over-long arrays) are compiled; the compiler must return a value (never panic), and whenever it reports
    // success the dictionary must load, every indexed entry must be found with readable word info, and its surface must be analysable.
    // A sink that fails after k bytes must never lead to a reported success.
    const BASE: [&str; 5] = [
        "京,6,6,5293,京,名詞,固有名詞,地名,一般,*,*,キョウ,京,*,A,*,*,*,*",
        "都,8,8,2914,都,名詞,普通名詞,一般,*,*,*,ト,都,*,A,*,*,*,*",
        "京都,6,8,5320,京都,名詞,固有名詞,地名,一般,*,*,キョウト,京都,*,B,0/1,*,0/1,1/5",
        "に,2,2,11406,に,助詞,接続助詞,*,*,*,*,ニ,に,*,A,*,*,*,*",
        "五,9,9,2478,五,名詞,数詞,*,*,*,*,ゴ,五,*,A,*,*,*,*",      // the test configuration's numeral plugin needs this part of speech
    ];
    fn values() -> Vec<String> {
        let mut v: Vec<String> = ["", "x", "-1", "0", "3", "4", "9", "10", "11", "32767", "32768", "-32768", "-32769", "99999999999", "4294967295", "4294967296", "268435455", "268435456",
            "*", "A", "B", "C", "BC", "Z", "0/1", "1/0", "2", "2/2", "U0", "U1", "U", "0/", "/", "0//1", "0/x", "1,2", " 1", "1 ", "+1", "0x1", "１",
            "\\u", "\\u{}", "\\u{110000}", "\\u{D800}", "\\u{41}", "\\u0041", "\\u004", "\\uD800", "\\u{0}", "\u{0}", "\"", "\"\"", "a\"b", "京,名詞,固有名詞,地名,一般,*,*,キョウ", "京,名詞,固有名詞,地名,一般,*,*", "無,名詞,固有名詞,地名,一般,*,*,ム",
            "\u{1F600}", "ｶﾞ"].iter().map(|s| s.to_string()).collect();
        v.push("あ".repeat(11000));            // 33000 bytes > 32767
        v.push("a".repeat(32767));
        v.push("a".repeat(32768));
        v.push(vec!["0"; 127].join("/"));
        v.push(vec!["0"; 128].join("/"));
        v.push(vec!["京,名詞,固有名詞,地名,一般,*,*,キョウ"; 3].join("/"));
        v
    }
    fn quote(f: &str) -> String { if f.contains(',') || f.contains('"') || f.contains('\n') { format!("\"{}\"", f.replace('"', "\"\"")) } else { f.to_string() } }
    fn candidates() -> Vec<String> {
        let mut out: Vec<String> = Vec::new();
        let join = |rows: &[String]| rows.join("\n") + "\n";
        let base: Vec<String> = BASE.iter().map(|s| s.to_string()).collect();
        out.push(join(&base));
        // field-wise mutation of rows 0 and 2 (raw and CSV-quoted)
        for row in [0usize, 2] {
            let fields: Vec<&str> = BASE[row].split(',').collect();
            for k in 0..fields.len() { for val in values() { for quoted in [false, true] {
                if quoted && !(val.contains(',') || val.contains('"')) { continue; }
                let mut f: Vec<String> = fields.iter().map(|s| s.to_string()).collect();
                f[k] = if quoted { quote(&val) } else { val.clone() };
                let mut rows = base.clone(); rows[row] = f.join(",");
                out.push(join(&rows));
            }}}
            // arity: the first n fields, and extra fields
            for n in 0..=fields.len() { let mut rows = base.clone(); rows[row] = fields[..n].join(","); out.push(join(&rows)); }
            let mut rows = base.clone(); rows[row] = format!("{},1,2,3", BASE[row]); out.push(join(&rows));
        }
        // whole-file shapes
        for t in ["", "\n", "\n\n", ",", ",,,,,,,,,,,,,,,,,,", "\u{feff}", "\"", "\"京", "京\r\n", "\0", "#comment"] { out.push(t.to_string()); out.push(format!("{}\n{}", BASE.join("\n"), t)); }
        out.push(BASE.iter().map(|s| s.to_string()).collect::<Vec<_>>().join("\r\n"));
        out.push(BASE[0].repeat(2));
        out
    }
    /// C09's hypothesis, checked on the lexicon text: every row with numeric / inline split units whose referenced surfaces do NOT
    /// concatenate to the row's own surface.  (Such a lexicon compiles; what analysis does with it is the known finding F19.)
    fn units_do_not_concatenate(lex: &str) -> bool {
        let mut rdr = csv::ReaderBuilder::new().has_headers(false).flexible(true).from_reader(lex.as_bytes());
        let rows: Vec<csv::StringRecord> = rdr.records().filter_map(|r| r.ok()).collect();
        let surf = |r: &csv::StringRecord| crate::dic::build::parse::unescape(r.get(0).unwrap_or("")).unwrap_or_default();
        for r in rows.iter() {
            for col in [15usize, 16] {
                let f = r.get(col).unwrap_or("*");
                if f.is_empty() || f == "*" { continue; }
                let mut cat = String::new();
                for part in f.split('/') {
                    if let Ok(i) = part.parse::<usize>() { match rows.get(i) { Some(x) => cat.push_str(&surf(x)), None => return true } }
                    else { cat.push_str(&crate::dic::build::parse::unescape(part.split(',').next().unwrap_or("")).unwrap_or_default()); }
                }
                if cat != surf(r) { return true; }
            }
        }
        false
    }
    struct FailAfter { left: usize, partial: bool, got: Vec<u8> }
    impl Write for FailAfter {
        fn write(&mut self, buf: &[u8]) -> std::io::Result<usize> {
            if self.left == 0 { return Err(std::io::Error::new(std::io::ErrorKind::Other, "sink full")); }
            let n = if self.partial { buf.len().min(self.left) } else if buf.len() <= self.left { buf.len() } else { return Err(std::io::Error::new(std::io::ErrorKind::Other, "sink full")); };
            self.got.extend_from_slice(&buf[..n]); self.left -= n; Ok(n)
        }
        fn flush(&mut self) -> std::io::Result<()> { Ok(()) }
    }
    fn build(lex: &[u8]) -> Result<Vec<u8>, String> {
        let mut dic = DictBuilder::new_system();
        dic.read_conn(super::super::MATRIX_10_10).map_err(|e| format!("{:?}", e))?;
        dic.read_lexicon(lex).map_err(|e| format!("{:?}", e))?;
        dic.resolve().map_err(|e| format!("{:?}", e))?;
        let mut out: Vec<u8> = Vec::new();
        dic.compile(&mut out).map_err(|e| format!("{:?}", e))?;
        Ok(out)
    }
    #[test]
    fn verif_oracle_compile_is_total_and_sound() {
        let cands = candidates();
        let mut failures: Vec<String> = Vec::new();
        let mut accepted = 0;
        let mut known_units = 0;
        let show = |s: &str| -> String { if s.len() > 300 { format!("{}... ({} bytes)", s.chars().take(120).collect::<String>(), s.len()) } else { s.to_string() } };
        for c in cands.iter() {
            eprintln!("TRYING lexicon {:?}", show(c));
            let r = std::panic::catch_unwind(|| build(c.as_bytes()));
            let bytes = match r {
                Err(_) => { if failures.len() < 20 { failures.push(format!("compiling the lexicon {:?} panics", show(c))); } continue; }
                Ok(Err(_)) => continue,
                Ok(Ok(b)) => b,
            };
            accepted += 1;
            // success => the dictionary loads, every indexed row is found, its word info is readable and its surface analysable
            let r = std::panic::catch_unwind(|| -> Result<(), String> {
                let mut cfgb = ConfigTestSupport::new();
                cfgb.make_system().write_all(&bytes).map_err(|e| format!("{:?}", e))?;
                let jd = JapaneseDictionary::from_cfg(&cfgb.config()).map_err(|e| format!("load: {:?}", e))?;
                let mut rdr = csv::ReaderBuilder::new().has_headers(false).flexible(true).from_reader(c.as_bytes());
                for rec in rdr.records() {
                    let rec = match rec { Ok(r) => r, Err(_) => continue };
                    let surface = match crate::dic::build::parse::unescape(rec.get(0).unwrap_or("")) { Ok(s) => s, Err(_) => continue };
                    let left: i32 = rec.get(1).and_then(|x| x.parse().ok()).unwrap_or(-1);
                    if left < 0 || surface.is_empty() { continue; }
                    let mut ms = MorphemeList::empty(&jd);
                    let n = ms.lookup(&surface, InfoSubset::all()).map_err(|e| format!("lookup of {:?}: {:?}", show(&surface), e))?;
                    if n == 0 { return Err(format!("the indexed row {:?} is not found", show(&surface))); }
                    for m in ms.iter() { let _ = (m.part_of_speech().len(), m.reading_form().len(), m.normalized_form().len(), m.dictionary_form().len(), m.synonym_group_ids().len()); }
                    if surface.len() <= 3000 {
                        for mode in [Mode::A, Mode::B, Mode::C] {
                            let tok = StatelessTokenizer::new(&jd);
                            let res = tok.tokenize(&surface, mode, false).map_err(|e| format!("analysis of {:?} in mode {:?}: {:?}", show(&surface), mode, e))?;
                            for m in res.iter() { let _ = (m.surface().len(), m.begin(), m.end(), m.part_of_speech().len()); }
                        }
                    }
                }
                Ok(())
            });
            match r {
                Ok(Ok(())) => {}
                bad => {
                    let what = match bad { Err(_) => "loading or using the dictionary panics".to_string(), Ok(Err(e)) => e, _ => String::new() };
                    if units_do_not_concatenate(c) {
                        // classified: reported once per class, listed (or not) in known_findings.txt
                        known_units += 1;
                        if known_units == 1 { println!("KNOWN-CLASS split-units-do-not-concatenate: the lexicon {:?} compiles, but {}", show(c), what); }
                    } else if failures.len() < 20 { failures.push(format!("the lexicon {:?} compiles, but {}", show(c), what)); }
                }
            }
        }
        // a failing sink is never reported as success (all-or-nothing and partial writes)
        let good = build((BASE.join("\n") + "\n").as_bytes()).expect("base lexicon");
        let mut sink_cases = 0;
        for partial in [false, true] {
            let mut k = 0usize;
            while k < good.len() {
                sink_cases += 1;
                let r = std::panic::catch_unwind(|| {
                    let mut dic = DictBuilder::new_system();
                    dic.read_conn(super::super::MATRIX_10_10).unwrap();
                    dic.read_lexicon((BASE.join("\n") + "\n").as_bytes()).unwrap();
                    dic.resolve().unwrap();
                    let mut w = FailAfter { left: k, partial, got: Vec::new() };
                    dic.compile(&mut w).is_ok()
                });
                match r {
                    Err(_) => if failures.len() < 20 { failures.push(format!("a sink failing after {} bytes (partial writes: {}) makes the compiler panic", k, partial)); },
                    Ok(true) => if failures.len() < 20 { failures.push(format!("a sink failing after {} of {} bytes (partial writes: {}) is reported as success", k, good.len(), partial)); },
                    Ok(false) => {}
                }
                k += if k < 400 { 1 } else { 13 };
            }
        }
        println!("verif_oracle_compile_is_total_and_sound: {} lexicon texts ({} accepted, {} of them with split units that do not concatenate to the key and a failing analysis), {} sink failure points, {} failures", cands.len(), accepted, known_units, sink_cases, failures.len());
        for f in failures.iter().take(8) { println!("FAILING INPUT: {}", f); }
        assert!(failures.is_empty());
    }

    /// BOUNDED: user dictionaries over the five-row system dictionary.  Every reference list of a user row (dictionary form, A units,
    /// B units, word structure) is replaced by every list of 1..=3 references over {valid / dangling system ids, valid / dangling
    /// user ids}: a list that contains a dangling reference at ANY position must be refused; an accepted dictionary must load with
    /// readable word info for the row.
    #[test]
    fn verif_oracle_user_dictionary_references() {
        let sys = build((BASE.join("\n") + "\n").as_bytes()).expect("base lexicon");
        let mut cfgb = ConfigTestSupport::new();
        cfgb.make_system().write_all(&sys).unwrap();
        let jd = JapaneseDictionary::from_cfg(&cfgb.config()).unwrap();
        let alphabet: [(&str, bool); 8] = [("0", true), ("4", true), ("5", false), ("9999", false), ("U0", true), ("U1", true), ("U2", false), ("U9999", false)];
        let mut lists: Vec<(String, bool)> = Vec::new();
        for a in alphabet.iter() {
            lists.push((a.0.to_string(), a.1));
            for b in alphabet.iter() {
                lists.push((format!("{}/{}", a.0, b.0), a.1 && b.1));
                for c in alphabet.iter() { lists.push((format!("{}/{}/{}", a.0, b.0, c.0), a.1 && b.1 && c.1)); }
            }
        }
        let mut failures: Vec<String> = Vec::new();
        let (mut cases, mut accepted, mut known_dic_form) = (0, 0, 0);
        for col in [13usize, 15, 16, 17] {
            for (list, valid) in lists.iter() {
                if col == 13 && list.contains('/') { continue; }
                cases += 1;
                let mut f: Vec<String> = "京都に,6,2,100,京都に,名詞,固有名詞,地名,一般,*,*,キョウトニ,京都に,*,C,*,*,*,*".split(',').map(|x| x.to_string()).collect();
                f[col] = list.clone();
                let lex = format!("すだち,6,6,100,すだち,名詞,固有名詞,地名,一般,*,*,スダチ,すだち,*,A,*,*,*,*\n{}\n", f.join(","));
                eprintln!("TRYING user lexicon {:?}", lex);
                let r = std::panic::catch_unwind(std::panic::AssertUnwindSafe(|| -> Result<Vec<u8>, String> {
                    let mut dic = DictBuilder::new_user(&jd);
                    dic.read_lexicon(lex.as_bytes()).map_err(|e| format!("{:?}", e))?;
                    dic.resolve().map_err(|e| format!("{:?}", e))?;
                    let mut out: Vec<u8> = Vec::new();
                    dic.compile(&mut out).map_err(|e| format!("{:?}", e))?;
                    Ok(out)
                }));
                match r {
                    Err(_) => if failures.len() < 20 { failures.push(format!("compiling the user lexicon {:?} panics", lex)); },
                    Ok(Err(_)) => {}
                    Ok(Ok(bytes)) => {
                        accepted += 1;
                        if !*valid { if failures.len() < 20 { failures.push(format!("the user lexicon {:?} (column {} = {:?} contains a reference to a word that does not exist) compiles", lex, col, list)); } continue; }
                        let r = std::panic::catch_unwind(|| -> Result<(), String> {
                            let mut cfg2 = ConfigTestSupport::new();
                            cfg2.make_system().write_all(&sys).map_err(|e| format!("{:?}", e))?;
                            cfg2.add_user().write_all(&bytes).map_err(|e| format!("{:?}", e))?;
                            let jd2 = JapaneseDictionary::from_cfg(&cfg2.config()).map_err(|e| format!("load: {:?}", e))?;
                            let mut ms = MorphemeList::empty(&jd2);
                            let n = ms.lookup("京都に", InfoSubset::all()).map_err(|e| format!("lookup: {:?}", e))?;
                            if n == 0 { return Err("the user row is not found".to_string()); }
                            for m in ms.iter() { let i = m.get_word_info(); let _ = (i.a_unit_split().len(), i.b_unit_split().len(), i.word_structure().len(), m.dictionary_form().len(), m.part_of_speech().len()); }
                            let tok = StatelessTokenizer::new(&jd2);
                            let res = tok.tokenize("京都に", Mode::C, false).map_err(|e| format!("analysis: {:?}", e))?;
                            for m in res.iter() { let _ = (m.surface().len(), m.dictionary_form().len()); }
                            Ok(())
                        });
                        match r {
                            Ok(Ok(())) => {}
                            // classified (F21): a dictionary-form reference of a user dictionary is validated as a system / `U` reference
                            // but resolved by the reader inside the user lexicon itself
                            Err(_) if col == 13 => { known_dic_form += 1; if known_dic_form == 1 { println!("KNOWN-CLASS user-dictionary-form-reference: the user lexicon {:?} compiles, but reading the word's info panics", lex); } }
                            Err(_) => if failures.len() < 20 { failures.push(format!("the user lexicon {:?} compiles, but loading or using it panics", lex)); },
                            Ok(Err(e)) => if failures.len() < 20 { failures.push(format!("the user lexicon {:?} compiles, but {}", lex, e)); },
                        }
                    }
                }
            }
        }
        println!("verif_oracle_user_dictionary_references: {} user lexicons ({} accepted, {} of them with a dictionary-form reference the reader cannot resolve), {} failures", cases, accepted, known_dic_form, failures.len());
        for f in failures.iter().take(8) { println!("FAILING INPUT: {}", f); }
        assert!(failures.is_empty());
    }
