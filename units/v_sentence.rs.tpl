// UNIT V-SENT (C16): sentence_splitter.rs SentenceIter::next  +  sentence_detector.rs NonBreakChecker::has_non_break_word
use vstd::prelude::*;
use vstd::utf8::*;
use vstd::string::*;
use std::ops::Range;
use std::cmp::Ordering;
verus! {
//@include common/str_prelude.rs.inc
//@include common/error.rs.inc
//@include common/wordid_stub.rs.inc

//@extract sudachi/src/dic/lexicon/mod.rs :: struct LexiconEntry
//@  derive
//@end

/// opaque collaborator: dictionary lookup (C04 decides it); ASSUMED here: keys are valid UTF-8, so every entry
/// found at offset i of a UTF-8 text starts and ends on character boundaries and is non-empty
#[verifier::external_body] pub struct LexiconSet<'a> { _p: core::marker::PhantomData<&'a ()> }
impl<'a> LexiconSet<'a> {
    uninterp spec fn sp_lookup(&self, input: Seq<u8>, offset: int) -> Seq<LexiconEntry>;
    /// R14: `for entry in self.lexicon.lookup(bytes, i)` over the collected entries (same order)
    #[verifier::external_body]
    fn lookup_vec(&self, input: &[u8], offset: usize) -> (r: Vec<LexiconEntry>)
        requires offset <= input@.len()
        ensures r@ == self.sp_lookup(input@, offset as int),
            forall|k: int| 0 <= k < r@.len() ==> offset < (#[trigger] r@[k]).end <= input@.len()
                && is_char_boundary(input@, offset as int) && is_char_boundary(input@, r@[k].end as int),
    { unimplemented!() }
}
/// R14s: std::cmp::max on usize (assumed std contract)
#[verifier::external_body]
fn max_usize(a: usize, b: usize) -> (r: usize) ensures r == (if a >= b { a } else { b }) { std::cmp::max(a, b) }
/// R13: `S.chars().take(2).count()` = number of characters, capped at 2
#[verifier::external_body]
fn chars_take2_count(s: &str) -> (r: usize)
    ensures r == (if decode_utf8(s.spec_bytes()).len() >= 2 { 2int } else { decode_utf8(s.spec_bytes()).len() as int })
{ s.chars().take(2).count() }

//@extract sudachi/src/sentence_detector.rs :: struct NonBreakChecker
//@end
//@extract sudachi/src/sentence_detector.rs :: struct SentenceDetector
//@end

/// C16: a dictionary word found at offset i vetoes a break at `eos` iff it ends after `eos`, or ends exactly at
/// `eos` and has more than one character (it "contains or ends with the terminator" and is multi-character)
spec fn vetoes(input: &str, i: int, e: LexiconEntry, eos: int) -> bool {
    e.end > eos || (e.end == eos && decode_utf8(input.spec_bytes().subrange(i, e.end as int)).len() > 1)
}
spec fn LOOKBACK() -> int { 30 }
/// the k-th dictionary word starting at byte i (inside the look-back window before `eos`) vetoes the break
spec fn veto_at(lex: LexiconSet, input: &str, eos: int, i: int, k: int) -> bool {
    &&& (if eos > LOOKBACK() { eos - LOOKBACK() } else { 0 }) <= i < eos
    &&& 0 <= k < lex.sp_lookup(input.spec_bytes(), i).len()
    &&& vetoes(input, i, lex.sp_lookup(input.spec_bytes(), i)[k], eos)
}
spec fn some_veto(lex: LexiconSet, input: &str, eos: int) -> bool {
    exists|i: int, k: int| #[trigger] veto_at(lex, input, eos, i, k)
}

impl<'a> NonBreakChecker<'a> {
//@extract sudachi/src/sentence_detector.rs :: impl<'a> NonBreakChecker<'a> :: fn new
//@  rw Rself 1 custom
//@  | -> Self \{
//@  > -> NonBreakChecker<'a> {
//@  ret r
//@  spec
        ensures r.bos == 0, r.lexicon == lexicon
//@end
//@extract sudachi/src/sentence_detector.rs :: impl NonBreakChecker<'_> :: fn has_non_break_word
//@  rw R7 1
//@  rw R14s 1 custom
//@  | std::cmp::max\(
//@  > max_usize(
//@  rw R14 1 custom
//@  | for entry in self\.lexicon\.lookup\(input_bytes, i\) \{
//@  > let __es = self.lexicon.lookup_vec(input_bytes, i); let mut __k: usize = 0; while __k < __es.len() { let entry = &__es[__k]; __k += 1;
//@  rw R13 * custom
//@  | input\[([^\]\.]+)\.\.([^\]\.]+)\]\.chars\(\)\.take\(2\)\.count\(\)
//@  > chars_take2_count(str_slice(input, \1, \2))
//@  rw R13 * custom
//@  | input\[([^\]\.]+)\.\.\]\.chars\(\)\.take\(2\)\.count\(\)
//@  > chars_take2_count(str_slice(input, \1, input.len()))
//@  ret r
//@  spec
        requires self.bos == 0, length <= input.spec_bytes().len(),
        ensures r == some_veto(*self.lexicon, input, length as int),
//@  atstart
        broadcast use axiom_str_len_fits;
        let ghost lex = *self.lexicon;
        let ghost eos = length as int;
        let ghost lo = if eos > LOOKBACK() { eos - LOOKBACK() } else { 0 };
//@  loop 1
            invariant
                eos == length, eos_byte == length, __end_i == eos_byte, lo == lookup_start, lo == (if eos > LOOKBACK() { eos - LOOKBACK() } else { 0 }), lo <= __it_i <= eos, eos <= input.spec_bytes().len(),
                input_bytes@ == input.spec_bytes(), lex == *self.lexicon,
                forall|ii: int, k: int| ii < __it_i ==> !#[trigger] veto_at(lex, input, eos, ii, k),
            decreases eos - __it_i
//@  loop 2
                invariant
                    eos == length, eos_byte == length, lo <= i < eos, lo == (if eos > LOOKBACK() { eos - LOOKBACK() } else { 0 }), eos <= input.spec_bytes().len(), input_bytes@ == input.spec_bytes(),
                    lex == *self.lexicon, __es@ == lex.sp_lookup(input.spec_bytes(), i as int), __k <= __es@.len(),
                    forall|k: int| 0 <= k < __es@.len() ==> i < (#[trigger] __es@[k]).end <= input.spec_bytes().len()
                        && is_char_boundary(input.spec_bytes(), i as int) && is_char_boundary(input.spec_bytes(), __es@[k].end as int),
                    forall|k: int| k < __k ==> !#[trigger] veto_at(lex, input, eos, i as int, k),
                decreases __es@.len() - __k
//@  before match end_byte.cmp(&eos_byte) {
                let ghost kk = __k - 1;
                proof {
                    assert(*entry == __es@[kk]);
                    if entry.end > eos { assert(veto_at(lex, input, eos, i as int, kk)); }
                }
//@  before return true;
                            proof { assert(veto_at(lex, input, eos, i as int, kk)); }
//@  atend
        proof {
            assert forall|ii: int, k: int| !#[trigger] veto_at(lex, input, eos, ii, k) by {}
        }
//@end
}
/// envelope of SentenceDetector::get_eos: a positive result is a byte offset inside the slice on a character boundary,
/// a negative result means "no boundary in this window"
spec fn eos_ok(slice: Seq<u8>, rv: isize) -> bool {
    rv < 0 || (0 < rv <= slice.len() && is_char_boundary(slice, rv as int))
}
/// C16 for get_eos: the result is 0 exactly for the empty text; a positive result is a position inside the text on a character
/// boundary at which no dictionary word vetoes the break (checked against the WHOLE remaining text, not the processing window);
/// a negative result is minus such a position
spec fn get_eos_ok(input: &str, checker: Option<&NonBreakChecker>, rv: isize) -> bool {
    let n = input.spec_bytes().len() as int;
    &&& (n == 0 <==> rv == 0)
    &&& (rv > 0 ==> rv <= n && is_char_boundary(input.spec_bytes(), rv as int)
            && (checker is Some ==> !some_veto(*checker->Some_0.lexicon, input, rv as int))
            // no break inside an unclosed bracket pair: the terminator match ends (at m) with every bracket closed
            && exists|m: int| 0 < m <= rv && #[trigger] bracket_level(input.spec_bytes().subrange(0, m)) == 0)
    &&& (rv < 0 ==> -rv <= n && is_char_boundary(input.spec_bytes(), -(rv as int)))
}

// ----- R14: fancy_regex searches of sentence_detector.rs (the lazy_static patterns) as functions with ASSUMED contracts:
// a match lies inside the haystack, ends on a character boundary, is not empty; the engine does not fail (backtrack limit)
pub struct ReMatch { pub s: usize, pub e: usize }
impl ReMatch {
    fn start(&self) -> (r: usize) ensures r == self.s { self.s }
    fn end(&self) -> (r: usize) ensures r == self.e { self.e }
}
spec fn match_ok(m: ReMatch, hay: Seq<u8>) -> bool {
    m.s < m.e <= hay.len() && is_char_boundary(hay, m.s as int) && is_char_boundary(hay, m.e as int)
}
impl From<RegexErr> for SudachiError { #[verifier::external_body] fn from(e: RegexErr) -> SudachiError { SudachiError::Other } }
#[verifier::external_body] pub struct RegexErr { _p: () }
/// `SENTENCE_BREAKER.find_iter(&s)` collected, in order
#[verifier::external_body]
fn re_sentence_breaker_find_iter(s: &str) -> (r: Vec<Result<ReMatch, RegexErr>>)
    ensures forall|k: int| 0 <= k < r@.len() ==> (#[trigger] r@[k]) is Ok && match_ok(r@[k]->Ok_0, s.spec_bytes())
{ unimplemented!() }
#[verifier::external_body]
fn re_take(v: &Vec<Result<ReMatch, RegexErr>>, i: usize) -> (r: Result<ReMatch, RegexErr>)
    requires i < v@.len()
    ensures r is Ok <==> v@[i as int] is Ok, r is Ok ==> r->Ok_0 == v@[i as int]->Ok_0
{ unimplemented!() }
#[verifier::external_body]
fn re_itemize_header_is_match(s: &str) -> (r: Result<bool, RegexErr>) ensures r is Ok { unimplemented!() }
#[verifier::external_body]
fn re_spaces_find(s: &str) -> (r: Result<Option<ReMatch>, RegexErr>)
    ensures r is Ok, r->Ok_0 is Some ==> match_ok(r->Ok_0->Some_0, s.spec_bytes())
{ unimplemented!() }
/// regex helpers of sentence_detector.rs, NOT verified; assumed: total on the slices get_eos passes, prohibited_bos returns the
/// byte length of a prefix of whole characters
/// which characters of a text are opening (true) / closing (false) brackets, in order: the matches of the PARENTHESIS pattern
/// "([open])|([close])" (ASSUMED: fancy_regex; the bracket sets are the constants OPEN_PARENTHESIS / CLOSE_PARENTHESIS)
pub uninterp spec fn bracket_events(text: Seq<u8>) -> Seq<bool>;
/// C16: number of brackets still open at the end of the text - a closing bracket with nothing open is ignored
spec fn level_of(ev: Seq<bool>, k: int) -> int
    decreases k
{
    if k <= 0 { 0 } else { let l = level_of(ev, k - 1); if ev[k - 1] { l + 1 } else if l > 0 { l - 1 } else { 0 } }
}
spec fn bracket_level(text: Seq<u8>) -> int { level_of(bracket_events(text), bracket_events(text).len() as int) }
proof fn lemma_level_bound(ev: Seq<bool>, k: int)
    requires 0 <= k <= ev.len()
    ensures 0 <= level_of(ev, k) <= k
    decreases k
{ if k > 0 { lemma_level_bound(ev, k - 1); } }
pub struct BracketCap { pub open: bool }
impl BracketCap {
    /// `caps.get(1)`: the first group (an opening bracket) took part in the match
    fn get(&self, i: usize) -> (r: Option<ReMatch>) requires i == 1 ensures (r is Some) == self.open { if self.open { Some(ReMatch { s: 0, e: 0 }) } else { None } }
}
/// `PARENTHESIS.captures_iter(s)` collected, in order
#[verifier::external_body]
fn re_parenthesis_captures(s: &str) -> (r: Vec<Result<BracketCap, RegexErr>>)
    ensures r@.len() == bracket_events(s.spec_bytes()).len(),
        forall|k: int| 0 <= k < r@.len() ==> (#[trigger] r@[k]) is Ok && r@[k]->Ok_0.open == bracket_events(s.spec_bytes())[k]
{ unimplemented!() }
#[verifier::external_body]
fn re_take_cap(v: &Vec<Result<BracketCap, RegexErr>>, i: usize) -> (r: Result<BracketCap, RegexErr>)
    requires i < v@.len()
    ensures r is Ok <==> v@[i as int] is Ok, r is Ok ==> r->Ok_0 == v@[i as int]->Ok_0
{ unimplemented!() }
proof fn axiom_vec_len_fits_caps(v: &Vec<Result<BracketCap, RegexErr>>) ensures v@.len() <= usize::MAX { admit(); }
//@extract sudachi/src/sentence_detector.rs :: fn parenthesis_level
//@  rw Rlazy *
//@  rw R14 1 custom
//@  | for caps in PARENTHESIS\.captures_iter\(s\) \{
//@  > let __cs = re_parenthesis_captures(s); let mut __ic: usize = 0; while __ic < __cs.len() { let caps = re_take_cap(&__cs, __ic); __ic += 1;
//@  ret r
//@  spec
    ensures r is Ok, r->Ok_0 == bracket_level(s.spec_bytes()),
//@  atstart
    let ghost ev = bracket_events(s.spec_bytes());
//@  loop 1
        invariant
            __cs@.len() == ev.len(), __ic <= __cs@.len(), ev == bracket_events(s.spec_bytes()),
            forall|k: int| 0 <= k < __cs@.len() ==> (#[trigger] __cs@[k]) is Ok && __cs@[k]->Ok_0.open == ev[k],
            level == level_of(ev, __ic as int),
        decreases __cs@.len() - __ic
//@  loopstart 1
        proof { lemma_level_bound(ev, __ic as int); axiom_vec_len_fits_caps(&__cs); }
//@end
#[verifier::external_body]
fn prohibited_bos(s: &str) -> (r: SudachiResult<usize>)
    ensures r is Ok, r->Ok_0 <= s.spec_bytes().len(), is_char_boundary(s.spec_bytes(), r->Ok_0 as int)
{ unimplemented!() }
#[verifier::external_body]
fn is_continuous_phrase(s: &str, eos: usize) -> (r: SudachiResult<bool>)
    requires 0 < eos < s.spec_bytes().len(), is_char_boundary(s.spec_bytes(), eos as int)
    ensures r is Ok
{ unimplemented!() }
/// R13: `input.chars().take(limit).collect::<String>()`: the longest prefix of at most `limit` characters
#[verifier::external_body]
fn str_take_chars(input: &str, limit: usize) -> (r: String)
    ensures
        r@ == input@.subrange(0, if limit as int <= input@.len() { limit as int } else { input@.len() as int }),
        encode_utf8(r@).len() <= input.spec_bytes().len(),
        encode_utf8(r@) == input.spec_bytes().subrange(0, encode_utf8(r@).len() as int),
        is_char_boundary(input.spec_bytes(), encode_utf8(r@).len() as int),
        limit >= 1 && input.spec_bytes().len() > 0 ==> encode_utf8(r@).len() > 0,
{ input.chars().take(limit).collect() }
#[verifier::external_body]
fn str_is_empty(s: &str) -> (r: bool) ensures r == (s.spec_bytes().len() == 0) { s.is_empty() }

/// a character boundary of a prefix (cut at a character boundary) is a character boundary of the whole text
proof fn lemma_prefix_boundary(whole: Seq<u8>, pre: Seq<u8>, p: int)
    requires
        valid_utf8(whole), valid_utf8(pre), pre.len() <= whole.len(), pre == whole.subrange(0, pre.len() as int),
        is_char_boundary(whole, pre.len() as int), 0 <= p <= pre.len(), is_char_boundary(pre, p),
    ensures is_char_boundary(whole, p)
{
    if p < pre.len() {
        is_char_boundary_iff_not_is_continuation_byte(pre, p);
        is_char_boundary_iff_not_is_continuation_byte(whole, p);
        assert(pre[p] == whole[p]);
    }
}

//@extract sudachi/src/sentence_detector.rs :: const DEFAULT_LIMIT
//@end
/// trusted UTF-8 fact: the part of a valid UTF-8 text after a character boundary is valid UTF-8
proof fn axiom_utf8_suffix_valid(whole: Seq<u8>, a: int)
    requires valid_utf8(whole), 0 <= a <= whole.len(), is_char_boundary(whole, a)
    ensures valid_utf8(whole.subrange(a, whole.len() as int))
{ admit(); }
/// a character boundary of the part after a character boundary is a character boundary of the whole text
proof fn lemma_suffix_boundary(whole: Seq<u8>, a: int, r: int)
    requires
        valid_utf8(whole), 0 <= a <= whole.len(), is_char_boundary(whole, a),
        0 <= r <= whole.len() - a, is_char_boundary(whole.subrange(a, whole.len() as int), r),
    ensures is_char_boundary(whole, a + r)
{
    let suf = whole.subrange(a, whole.len() as int);
    axiom_utf8_suffix_valid(whole, a);
    if r < suf.len() {
        is_char_boundary_iff_not_is_continuation_byte(suf, r);
        is_char_boundary_iff_not_is_continuation_byte(whole, a + r);
        assert(suf[r] == whole[a + r]);
    } else {
        is_char_boundary_start_end_of_seq(whole);
    }
}
impl SentenceDetector {
//@extract sudachi/src/sentence_detector.rs :: impl SentenceDetector :: fn new
//@  rw Rself 1 custom
//@  | -> Self \{
//@  > -> SentenceDetector {
//@  ret r
//@  spec
        ensures r.limit >= 1
//@end
//@extract sudachi/src/sentence_detector.rs :: impl SentenceDetector :: fn with_limit
//@  rw Rself 1 custom
//@  | -> Self \{
//@  > -> SentenceDetector {
//@  rw R14s * custom
//@  | limit\.max\(1\)
//@  > max_usize(limit, 1)
//@  ret r
//@  spec
        ensures r.limit >= 1
//@end
//@extract sudachi/src/sentence_detector.rs :: impl SentenceDetector :: fn get_eos
//@  rw Rlazy 2
//@  rw R13 1 custom
//@  | input\.is_empty\(\)
//@  > str_is_empty(input)
//@  rw R13 1 custom
//@  | input\.chars\(\)\.take\(([^()]+)\)\.collect\(\)
//@  > str_take_chars(input, \1)
//@  rw R14 1 custom
//@  | for mat in SENTENCE_BREAKER\.find_iter\(&s\) \{
//@  > let __ms = re_sentence_breaker_find_iter(s.as_str()); let mut __im: usize = 0; while __im < __ms.len() { let mat = re_take(&__ms, __im); __im += 1;
//@  rw R13' * custom
//@  | &s\[\.\.eos\]
//@  > str_slice(s.as_str(), 0, eos)
//@  rw R13' * custom
//@  | &s\[eos\.\.\]
//@  > str_slice(s.as_str(), eos, s.len())
//@  rw R14 1 custom
//@  | ITEMIZE_HEADER\.is_match\(&s\)
//@  > re_itemize_header_is_match(s.as_str())
//@  rw R14 1 custom
//@  | is_continuous_phrase\(&s, eos\)
//@  > is_continuous_phrase(s.as_str(), eos)
//@  rw R14 1 custom
//@  | SPACES\.find\(&s\)
//@  > re_spaces_find(s.as_str())
//@  ret r
//@  spec
        requires
            self.limit >= 1,
            checker is Some ==> checker->Some_0.bos == 0,
        ensures
            r is Ok,
            get_eos_ok(input, checker, r->Ok_0),
            input.spec_bytes().len() > 0 ==> eos_ok(input.spec_bytes(), r->Ok_0),
//@  atstart
        broadcast use axiom_str_len_fits;
        let ghost ib = input.spec_bytes();
        proof { encode_utf8_valid_utf8(input@); is_char_boundary_start_end_of_seq(ib); }
//@  before let input_exceeds_limit
        let ghost sb = encode_utf8(s@);
        proof { encode_utf8_valid_utf8(s@); is_char_boundary_start_end_of_seq(sb); }
//@  loop 1
            invariant
                ib == input.spec_bytes(), sb == encode_utf8(s@), valid_utf8(ib), valid_utf8(sb),
                0 < sb.len() <= ib.len(), sb == ib.subrange(0, sb.len() as int), is_char_boundary(ib, sb.len() as int),
                is_char_boundary(sb, 0), is_char_boundary(sb, sb.len() as int),
                checker is Some ==> checker->Some_0.bos == 0,
                __im <= __ms@.len(),
                forall|k: int| 0 <= k < __ms@.len() ==> (#[trigger] __ms@[k]) is Ok && match_ok(__ms@[k]->Ok_0, sb),
            decreases __ms@.len() - __im
//@  after let mut eos =
            let ghost e0 = eos as int;
//@  before if eos < s.len() && is_continuous_phrase
            proof {
                if e0 < sb.len() { lemma_suffix_boundary(sb, e0, eos - e0); }
                lemma_prefix_boundary(ib, sb, eos as int);
                assert(sb.subrange(0, e0) =~= ib.subrange(0, e0));
                assert(bracket_level(ib.subrange(0, e0)) == 0);
            }
//@  before return Ok(-(mat.end() as isize));
                proof { lemma_prefix_boundary(ib, sb, mat.e as int); }
//@end
}

//@extract sudachi/src/sentence_splitter.rs :: struct SentenceIter
//@end
impl<'s, 'x> SentenceIter<'s, 'x> {
    /// iterator state: position is inside the text, on a character boundary
    spec fn wf(&self) -> bool {
        &&& self.position <= self.data.spec_bytes().len() && is_char_boundary(self.data.spec_bytes(), self.position as int)
        // established by the constructors of SentenceDetector (limit >= 1) and NonBreakChecker::new (bos == 0)
        &&& self.splitter.limit >= 1
        &&& (self.checker is Some ==> self.checker->Some_0.bos == 0)
    }
// R11: `impl Iterator for SentenceIter { fn next }` verified as an inherent fn
//@extract sudachi/src/sentence_splitter.rs :: impl<'s, 'x> Iterator for SentenceIter<'s, 'x> :: fn next
//@  twin
//@  rw R11 1 custom
//@  | Option<Self::Item>
//@  > Option<(Range<usize>, &'s str)>
//@  rw R13' 1 custom
//@  | &self\.data\[self\.position\.\.\]
//@  > str_slice(self.data, self.position, self.data.len())
//@  rw R13' 1 custom
//@  | &self\.data\[range\.clone\(\)\]
//@  > str_slice(self.data, range.start, range.end)
//@  ret r
//@  spec
        requires old(self).wf(),
        ensures
            final(self).wf(), final(self).data == old(self).data,
            // iteration stops exactly at the end of the text ...
            old(self).position == old(self).data.spec_bytes().len() ==> r is None && final(self).position == old(self).position,
            // ... otherwise the next sentence is the non-empty range [position, position') on character boundaries,
            // equal to the text in that range; position' > position gives termination and contiguity
            old(self).position < old(self).data.spec_bytes().len() ==> ({
                &&& r is Some
                &&& r->Some_0.0.start == old(self).position
                &&& r->Some_0.0.end == final(self).position
                &&& old(self).position < final(self).position
                &&& r->Some_0.1.spec_bytes() == old(self).data.spec_bytes().subrange(old(self).position as int, final(self).position as int)
            }),
//@  atstart
        broadcast use axiom_str_len_fits;
//@  before let slice = 
        proof {
            encode_utf8_valid_utf8(self.data@);
            is_char_boundary_start_end_of_seq(self.data.spec_bytes());
        }
//@  before let range = self.position..end;
        proof {
            let d = self.data.spec_bytes();
            let sl = slice.spec_bytes();
            let p = self.position as int;
            encode_utf8_valid_utf8(slice@);
            if rv >= 0 {
                if (rv as int) < sl.len() {
                    is_char_boundary_iff_not_is_continuation_byte(sl, rv as int);
                    is_char_boundary_iff_not_is_continuation_byte(d, p + rv as int);
                    assert(sl[rv as int] == d[p + rv as int]);
                }
            }
        }
//@end
}
/// C16, first sentence, as a verified client of `next` (what `for s in splitter.split(text)` does): iteration terminates and the
/// ranges are non-empty, contiguous from 0, on character boundaries, cover the whole text, and each slice is the text in its range
fn all_sentences<'s, 'x>(it: SentenceIter<'s, 'x>) -> (out: Vec<(Range<usize>, &'s str)>)
    requires it.wf(), it.position == 0,
    ensures
        it.data.spec_bytes().len() == 0 ==> out@.len() == 0,
        it.data.spec_bytes().len() > 0 ==> out@.len() > 0 && out@[0].0.start == 0 && out@.last().0.end == it.data.spec_bytes().len(),
        forall|k: int| 0 <= k < out@.len() ==> (#[trigger] out@[k]).0.start < out@[k].0.end && out@[k].0.end <= it.data.spec_bytes().len()
            && is_char_boundary(it.data.spec_bytes(), out@[k].0.start as int) && is_char_boundary(it.data.spec_bytes(), out@[k].0.end as int)
            && out@[k].1.spec_bytes() == it.data.spec_bytes().subrange(out@[k].0.start as int, out@[k].0.end as int),
        forall|k: int| 0 <= k < out@.len() - 1 ==> (#[trigger] out@[k]).0.end == out@[k + 1].0.start,
{
    let ghost d = it.data.spec_bytes();
    let mut it = it;
    let mut out: Vec<(Range<usize>, &'s str)> = Vec::new();
    loop
        invariant
            it.wf(), it.data.spec_bytes() == d,
            out@.len() == 0 ==> it.position == 0,
            out@.len() > 0 ==> out@[0].0.start == 0 && out@.last().0.end == it.position,
            forall|k: int| 0 <= k < out@.len() ==> (#[trigger] out@[k]).0.start < out@[k].0.end && out@[k].0.end <= d.len()
                && is_char_boundary(d, out@[k].0.start as int) && is_char_boundary(d, out@[k].0.end as int)
                && out@[k].1.spec_bytes() == d.subrange(out@[k].0.start as int, out@[k].0.end as int),
            forall|k: int| 0 <= k < out@.len() - 1 ==> (#[trigger] out@[k]).0.end == out@[k + 1].0.start,
        ensures
            it.position == d.len(),
            out@.len() == 0 ==> it.position == 0,
            out@.len() > 0 ==> out@[0].0.start == 0 && out@.last().0.end == it.position,
            forall|k: int| 0 <= k < out@.len() ==> (#[trigger] out@[k]).0.start < out@[k].0.end && out@[k].0.end <= d.len()
                && is_char_boundary(d, out@[k].0.start as int) && is_char_boundary(d, out@[k].0.end as int)
                && out@[k].1.spec_bytes() == d.subrange(out@[k].0.start as int, out@[k].0.end as int),
            forall|k: int| 0 <= k < out@.len() - 1 ==> (#[trigger] out@[k]).0.end == out@[k + 1].0.start,
        decreases d.len() - it.position
    {
        let ghost prev = out@;
        match it.next() {
            None => { break; }
            Some(s) => {
                out.push(s);
                proof {
                    assert forall|k: int| 0 <= k < out@.len() - 1 implies (#[trigger] out@[k]).0.end == out@[k + 1].0.start by {
                        if k < prev.len() - 1 { assert(out@[k] == prev[k] && out@[k + 1] == prev[k + 1]); } else { assert(out@[k] == prev[k]); }
                    }
                    assert forall|k: int| 0 <= k < out@.len() implies (#[trigger] out@[k]).0.start < out@[k].0.end && out@[k].0.end <= d.len()
                        && is_char_boundary(d, out@[k].0.start as int) && is_char_boundary(d, out@[k].0.end as int)
                        && out@[k].1.spec_bytes() == d.subrange(out@[k].0.start as int, out@[k].0.end as int) by {
                        if k < prev.len() { assert(out@[k] == prev[k]); }
                    }
                    if prev.len() > 0 { assert(out@[0] == prev[0]); }
                }
            }
        }
    }
    out
}
} // verus!
fn main() {}
