#!/usr/bin/env python3
"""debug helper: generate a unit file   usage: gen.py <template> <out.rs> [--canary] [--repo DIR]"""
import sys, os
sys.path.insert(0, os.path.dirname(os.path.dirname(os.path.abspath(__file__))))
from vf import extract
repo = '/repo'
if '--repo' in sys.argv:
    repo = sys.argv[sys.argv.index('--repo') + 1]
r = extract.process_template(sys.argv[1], repo, canary='--canary' in sys.argv)
open(sys.argv[2], 'w').write(extract.render(r))
