"""Kani route: inject harness modules into a scratch copy of /repo, run cargo kani, parse results.

Harness file format (kani/<name>.rs):
    //@kani target=sudachi/src/analysis/created.rs
    //@kani harness=<fn name> kind=complete|bounded [unwind=N] [note=...]
    <rust code that becomes the body of  #[cfg(kani)] mod verif_kani_<name> { use super::*; ... }>
"""
import os
import re
import shutil
import subprocess
import time

COPY_TOP = ['Cargo.toml', 'Cargo.lock', 'sudachi', 'sudachi-cli', 'sudachi-fuzz', 'plugin', 'python', 'resources']


class Harness:
    def __init__(self, name, kind, unwind=None, note=''):
        self.name, self.kind, self.unwind, self.note = name, kind, unwind, note
        self.status = None        # SUCCESSFUL / FAILED / UNDECIDED
        self.checks_total = 0
        self.checks_failed = 0
        self.failed_checks = []
        self.time_s = 0.0
        self.cover_unsat = []
        self.playback = ''
        self.raw_tail = ''


class KaniSet:
    def __init__(self, name, path):
        self.name, self.path = name, path
        self.target = None
        self.harnesses = []
        self.body = ''
        self.package = 'sudachi'
        self.stub_fmt = True


def parse_harness_file(path):
    name = os.path.splitext(os.path.basename(path))[0]
    ks = KaniSet(name, path)
    body = []
    with open(path, encoding='utf-8') as f:
        for line in f:
            st = line.strip()
            if st.startswith('//@kani '):
                kv = dict(p.split('=', 1) for p in st[len('//@kani '):].split() if '=' in p)
                if 'target' in kv:
                    ks.target = kv['target']
                if 'package' in kv:
                    ks.package = kv['package']
                if 'harness' in kv:
                    ks.harnesses.append(Harness(kv['harness'], kv.get('kind', 'complete'), kv.get('unwind'), kv.get('note', '')))
            else:
                body.append(line)
    ks.body = ''.join(body)
    return ks


def make_scratch(repo_root, scratch):
    os.makedirs(scratch, exist_ok=True)
    for t in COPY_TOP:
        src = os.path.join(repo_root, t)
        dst = os.path.join(scratch, t)
        if os.path.isdir(src):
            shutil.copytree(src, dst, ignore=shutil.ignore_patterns('target', '.git', '__pycache__', '*.so'))
        elif os.path.exists(src):
            shutil.copy2(src, dst)
    os.makedirs(os.path.join(scratch, '.cargo'), exist_ok=True)
    with open(os.path.join(scratch, '.cargo', 'config.toml'), 'w') as f:
        f.write('[net]\noffline = true\n')


def inject(scratch, ks: KaniSet):
    tgt = os.path.join(scratch, ks.target)
    if not os.path.exists(tgt):
        raise FileNotFoundError('lost anchor: %s' % ks.target)
    with open(tgt, 'a', encoding='utf-8') as f:
        f.write('\n#[cfg(kani)]\n#[allow(unused, non_snake_case, dead_code)]\nmod verif_kani_%s {\n    use super::*;\n%s\n}\n' % (ks.name, ks.body))


def run_many(scratch, pairs, target_dir, timeout=2400, default_unwind=2, jobs=8):
    """One cargo-kani invocation for all (KaniSet, Harness) pairs (one compile, CBMC runs in parallel)."""
    env = dict(os.environ)
    env['CARGO_NET_OFFLINE'] = 'true'
    env['CARGO_TARGET_DIR'] = target_dir
    cmd = ['cargo', 'kani', '-p', 'sudachi', '-Z', 'stubbing', '-Z', 'function-contracts']
    for ks, h in pairs:
        cmd += ['--harness', 'verif_kani_%s::%s' % (ks.name, h.name)]
    cmd += ['-j', str(jobs), '--default-unwind', str(default_unwind), '--output-format', 'terse']
    t0 = time.time()
    try:
        p = subprocess.run(cmd, cwd=scratch, env=env, capture_output=True, text=True, timeout=timeout)
        out = p.stdout + '\n' + p.stderr
    except subprocess.TimeoutExpired as e:
        out = ((e.stdout or b'').decode('utf-8', 'replace') if isinstance(e.stdout, bytes) else (e.stdout or '')) + '\nTIMEOUT'
        subprocess.run(['pkill', '-9', '-x', 'cbmc'], capture_output=True)
    wall = time.time() - t0
    # thread -> harness
    by_name = {}
    for ks, h in pairs:
        by_name['verif_kani_%s::%s' % (ks.name, h.name)] = h
        h.cmd = ' '.join(cmd[:8]) + ' --harness verif_kani_%s::%s -j %d --default-unwind %d' % (ks.name, h.name, jobs, default_unwind)
        h.status = 'UNDECIDED'
        h.raw_tail = ''
    # split output into per-thread streams
    cur_thread_h = {}
    blocks = {}
    cur = None
    for line in out.split('\n'):
        m = re.match(r'Thread (\d+): Checking harness (\S+?)\.\.\.', line)
        if m:
            full = m.group(2)
            hh = None
            for nm, h in by_name.items():
                if full.endswith(nm):
                    hh = h
            cur_thread_h[m.group(1)] = hh
            cur = None
            continue
        m = re.match(r'Thread (\d+): ?(.*)$', line)
        if m:
            hh = cur_thread_h.get(m.group(1))
            cur = hh
            if hh is not None:
                blocks.setdefault(id(hh), []).append(m.group(2))
            continue
        m = re.match(r'Checking harness (\S+?)\.\.\.', line)
        if m:  # single-threaded format
            full = m.group(1)
            cur = None
            for nm, h in by_name.items():
                if full.endswith(nm):
                    cur = h
            continue
        if cur is not None:
            blocks.setdefault(id(cur), []).append(line)
            if line.startswith('Verification Time:'):
                cur = None
    for ks, h in pairs:
        txt = '\n'.join(blocks.get(id(h), []))
        h.raw_tail = txt[-5000:] if txt else out[-3000:]
        m = re.search(r'\*\* (\d+) of (\d+) failed', txt)
        if m:
            h.checks_failed, h.checks_total = int(m.group(1)), int(m.group(2))
        m = re.search(r'\*\* (\d+) of (\d+) cover properties satisfied', txt)
        if m and int(m.group(1)) != int(m.group(2)):
            h.cover_unsat.append('%s of %s cover properties satisfied' % (m.group(1), m.group(2)))
        m = re.search(r'Verification Time: ([\d\.]+)s', txt)
        h.time_s = float(m.group(1)) if m else wall
        if 'VERIFICATION:- SUCCESSFUL' in txt:
            h.status = 'SUCCESSFUL'
        elif 'VERIFICATION:- FAILED' in txt:
            h.status = 'FAILED'
            for fm in re.finditer(r'Failed Checks: (.*)\n\s*File: "([^"]+)", line (\d+), in (\S+)', txt):
                h.failed_checks.append({'desc': fm.group(1).strip(), 'file': fm.group(2), 'line': int(fm.group(3)), 'fn': fm.group(4)})
    return out, wall


def concrete_playback(scratch, ks: KaniSet, h: Harness, target_dir, timeout=1500, default_unwind=2):
    """Turn the counterexample of a failed harness into a unit test inside the scratch copy (kani writes it
    in place) and run it against the real code with `cargo kani playback`.  Returns (test_text, replay_failed, output)."""
    env = dict(os.environ)
    env['CARGO_NET_OFFLINE'] = 'true'
    env['CARGO_TARGET_DIR'] = target_dir
    base = ['cargo', 'kani', '-p', ks.package, '-Z', 'stubbing', '-Z', 'function-contracts', '-Z', 'concrete-playback']
    cmd = base + ['--concrete-playback=inplace', '--harness', 'verif_kani_%s::%s' % (ks.name, h.name), '--default-unwind', str(default_unwind)]
    try:
        p = subprocess.run(cmd, cwd=scratch, env=env, capture_output=True, text=True, timeout=timeout)
    except subprocess.TimeoutExpired:
        return '', False, 'playback generation timed out'
    src = open(os.path.join(scratch, ks.target), encoding='utf-8').read()
    m = re.search(r'(#\[test\]\s*\n\s*fn (kani_concrete_playback_%s_\w+)\(\) \{.*?\n\s*\})' % re.escape(h.name), src, re.S)
    if not m:
        return '', False, 'kani produced no concrete playback test: ' + (p.stdout + p.stderr)[-600:]
    h.playback = m.group(1)
    tname = m.group(2)
    cmd2 = ['cargo', 'kani', 'playback', '-Z', 'concrete-playback', '-p', ks.package, '--', tname]
    try:
        p2 = subprocess.run(cmd2, cwd=scratch, env=env, capture_output=True, text=True, timeout=timeout)
        out2 = p2.stdout + '\n' + p2.stderr
    except subprocess.TimeoutExpired:
        return h.playback, False, 'playback run timed out'
    failed = ('test result: FAILED' in out2) or ('panicked at' in out2)
    h.playback_output = out2[-2500:]
    return h.playback, failed, out2[-2500:]
