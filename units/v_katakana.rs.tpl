// UNIT V-KATA (C14, C03): plugin/path_rewrite/join_katakana_oov  rewrite_gen and its helpers
use vstd::prelude::*;
use vstd::string::*;
use std::ops::Range;
verus! {
global size_of usize == 8;
//@include common/error.rs.inc
//@include common/wordid_stub.rs.inc
//@include common/category_type.rs.inc
//@include common/node_types.rs.inc
//@include specs/node_specs.rs.inc
//@include specs/coarsen_specs.rs.inc

/// opaque collaborator: character-class queries on the normalised text (pure functions of the text)
trait InputTextIndex {
    spec fn sp_nch(&self) -> int;
    spec fn sp_cat_of_range(&self, a: int, b: int) -> CategoryType;
    spec fn sp_cat_at(&self, i: int) -> CategoryType;
    fn cat_of_range(&self, range: Range<usize>) -> (r: CategoryType)
        requires range.start <= range.end <= self.sp_nch()
        ensures r == self.sp_cat_of_range(range.start as int, range.end as int);
    fn cat_at_char(&self, offset: usize) -> (r: CategoryType)
        requires offset < self.sp_nch()
        ensures r == self.sp_cat_at(offset as int);
}
#[verifier::external_body] pub struct Lattice { _p: () }

// contract of concat_oov_nodes: discharged on the real body in unit v_node
//@extract sudachi/src/analysis/node.rs :: fn concat_oov_nodes
//@  stub v_node
//@  ret res
//@  specfile specs/concat_oov_nodes.contract
//@end

//@extract sudachi/src/plugin/path_rewrite/join_katakana_oov/mod.rs :: struct JoinKatakanaOovPlugin
//@end

spec fn is_kata<T: InputTextIndex>(text: &T, n: ResultNode) -> bool {
    (text.sp_cat_of_range(n.inner.begin as int, n.inner.end as int).bits & 128) == 128
}

impl JoinKatakanaOovPlugin {
//@extract sudachi/src/plugin/path_rewrite/join_katakana_oov/mod.rs :: impl JoinKatakanaOovPlugin :: fn is_katakana_node
//@  ret r
//@  spec
        requires node.inner.begin <= node.inner.end, (node.inner.end as int) <= text.sp_nch()
        ensures r == is_kata(text, *node)
//@end
//@extract sudachi/src/plugin/path_rewrite/join_katakana_oov/mod.rs :: impl JoinKatakanaOovPlugin :: fn can_oov_bow_node
//@  ret r
//@  spec
        requires (node.inner.begin as int) < text.sp_nch()
        ensures r == !((text.sp_cat_at(node.inner.begin as int).bits & 0x4000_0000) == 0x4000_0000)
//@end
//@extract sudachi/src/plugin/path_rewrite/join_katakana_oov/mod.rs :: impl JoinKatakanaOovPlugin :: fn is_shorter
//@  ret r
//@  spec
        requires node.inner.begin <= node.inner.end
        ensures r == (node.inner.end - node.inner.begin < self.min_length)
//@end
//@extract sudachi/src/plugin/path_rewrite/join_katakana_oov/mod.rs :: impl JoinKatakanaOovPlugin :: fn rewrite_gen
//@  ret res
//@  spec
        requires
            path@.len() <= 65536, path_ok(path@, text.sp_nch()),
        ensures
            // C14: only merges of adjacent tokens; every other token unchanged; the merged token covers the union
            res is Ok ==> is_coarsening(path@, res->Ok_0@, false) && path_ok(res->Ok_0@, text.sp_nch()),
//@  atstart
        let ghost p0 = path@;
        let ghost nch = text.sp_nch();
        let ghost mut cuts: Seq<int> = id_cuts(p0.len() as int);
        proof { lemma_coarsen_refl(p0, false); }
//@  loop 1
            invariant
                coarsens(p0, path@, cuts, false), path_ok(path@, nch), nch == text.sp_nch(), path@.len() <= 65536, i <= path@.len() + 1,
            ensures
                coarsens(p0, path@, cuts, false), path_ok(path@, nch),
            decreases path@.len() + 1 - i
//@  loop 2
                invariant_except_break -1 <= begin <= i - 1,
                invariant i < path@.len(), path_ok(path@, nch), nch == text.sp_nch(), path@.len() <= 65536,
                ensures -1 <= begin <= i,
                decreases begin + 1
//@  loop 3
                invariant i + 1 <= end <= path@.len(), path_ok(path@, nch), nch == text.sp_nch(),
                ensures i + 1 <= end <= path@.len(),
                decreases path@.len() - end
//@  loop 4
                invariant begin <= end <= path@.len(), path_ok(path@, nch), nch == text.sp_nch(),
                decreases end - begin
//@  before path = concat_oov_nodes(
                let ghost mid = path@;
                proof { lemma_chain_le(mid, begin as int, end - 1, nch); lemma_sum_le_span(mid, begin as int, end as int, nch); }
//@  after path = concat_oov_nodes(
                proof {
                    lemma_coarsen_merge(p0, mid, cuts, begin as int, end as int, path@, false);
                    lemma_path_ok_merge(mid, path@, begin as int, end as int, nch);
                    cuts = cuts.subrange(0, begin + 1) + cuts.subrange(end as int, cuts.len() as int);
                }
//@  atend
        proof { assert(is_coarsening(p0, path@, false)); }
//@end
}
} // verus!
fn main() {}
