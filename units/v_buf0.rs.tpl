// UNIT V-BUF0 (C01, C03, C08, C10): InputBuffer::reset / start_build / commit / rollback and the offset accessors
use vstd::prelude::*;
use vstd::utf8::*;
use vstd::string::*;
use std::ops::Range;
verus! {

//@include common/str_prelude.rs.inc
//@include common/vec_prelude.rs.inc
//@include common/error.rs.inc
//@include common/category_type.rs.inc

//@extract sudachi/src/input_text/buffer/mod.rs :: const MAX_LENGTH
//@end
//@extract sudachi/src/input_text/buffer/mod.rs :: const REALLY_MAX_LENGTH
//@end
//@extract sudachi/src/input_text/buffer/edit.rs :: struct ReplaceOp
//@end
//@extract sudachi/src/input_text/buffer/edit.rs :: enum ReplaceTgt
//@end
//@extract sudachi/src/input_text/buffer/mod.rs :: enum BufferState
//@end
//@extract sudachi/src/input_text/buffer/mod.rs :: struct InputBuffer
//@  rw R1p 1 custom
//@  | edit::ReplaceOp
//@  > ReplaceOp
//@end

//@include specs/edit_specs.rs.inc
//@include specs/m2o_ok.rs.inc
//@include specs/buf_specs.rs.inc
//@include specs/edit_lemmas.rs.inc

// contract of resolve_edits: discharged on the real body in unit v_edit (same contract file)
//@extract sudachi/src/input_text/buffer/edit.rs :: fn resolve_edits
//@  stub v_edit
//@  ret res
//@  specfile specs/resolve_edits.contract
//@end

impl InputBuffer {
//@extract sudachi/src/input_text/buffer/mod.rs :: impl InputBuffer :: fn reset
//@  ret r
//@  spec
    ensures
        buf_clean(*final(self)),
//@end

//@extract sudachi/src/input_text/buffer/mod.rs :: impl InputBuffer :: fn start_build
//@  rw R3 1
//@  rw R8 1 custom
//@  | self\.m2o\.extend\(([^;]+?)\.\.([^;]+?)\);
//@  > vec_extend_range(&mut self.m2o, \1, \2);
//@  ret r
//@  spec
    requires
        buf_clean(*old(self)),
    ensures
        // the documented limit: an error exactly beyond MAX_LENGTH bytes, no truncation
        r is Err <==> old(self).original@.len() >= 0 && encode_utf8(old(self).original@).len() > LIMIT_IN(),
        final(self).original@ == old(self).original@,
        r is Err ==> *final(self) == *old(self),
        r is Ok ==> buf_rw(*final(self)) && final(self).modified@ == final(self).original@
            && final(self).replaces@ == old(self).replaces@
            && forall|i: int| 0 <= i < final(self).m2o@.len() ==> final(self).m2o@[i] == i,
//@  atstart
        broadcast use axiom_str_len_fits;
//@  before vec_extend_range(&mut self.m2o
        proof { assert(self.modified@ =~= self.original@) by { assert(Seq::<char>::empty() + self.original@ =~= self.original@); } }
//@  atend
        proof {
            let nb = sbytes(self.modified).len() as int;
            assert forall|i: int, j: int| 0 <= i <= j < self.m2o@.len() implies self.m2o@[i] <= self.m2o@[j] by {}
        }
//@end

//@extract sudachi/src/input_text/buffer/mod.rs :: impl InputBuffer :: fn commit
//@  rw R1p 1 custom
//@  | edit::resolve_edits
//@  > resolve_edits
//@  ret r
//@  spec
    requires
        buf_rw(*old(self)),
        edits_ok(old(self).replaces@, encode_utf8(old(self).modified@)),
        // documented corner: inserting into an EMPTY rewritten text of a non-empty original would lose the end anchor
        encode_utf8(old(self).modified@).len() > 0 || encode_utf8(old(self).original@).len() == 0,
    ensures
        final(self).replaces@.len() == 0,
        final(self).original@ == old(self).original@,
        final(self).state == old(self).state,
        old(self).replaces@.len() == 0 ==> r is Ok && final(self).modified@ == old(self).modified@ && final(self).m2o@ == old(self).m2o@,
        // success: the text is the specified rewriting, within the limit, and the offset map is again well formed
        r is Ok && old(self).replaces@.len() > 0 && encode_utf8(final(self).modified@).len() > 0 ==> buf_rw(*final(self)),
        r is Ok && old(self).replaces@.len() > 0 ==> encode_utf8(final(self).modified@).len() <= LIMIT_NORM()
            && resolved(encode_utf8(old(self).modified@), old(self).m2o@, old(self).replaces@,
                        encode_utf8(final(self).modified@), final(self).m2o@, encode_utf8(final(self).modified@).len() as int),
        // failure is reported only when some prefix of the batch really exceeds the limit
        r is Err ==> exists|k: int| 0 < k <= old(self).replaces@.len()
            && #[trigger] len_after(encode_utf8(old(self).modified@), old(self).replaces@, k) > LIMIT_NORM(),
//@  atstart
        broadcast use axiom_str_len_fits;
        proof { lemma_encode_empty(); lemma_m2o_ok_srcmap(*self); }
        let ghost b0 = *self;
//@  before std::mem::swap(&mut self.modified, &mut self.modified_2);
        let ghost src = sbytes(b0.modified);
        let ghost tgt = sbytes(self.modified_2);
        let ghost tm = self.m2o_2@;
        proof {
            encode_utf8_valid_utf8(b0.modified@); encode_utf8_valid_utf8(self.modified_2@);
            theorem_boundary_clause(src, b0.m2o@, b0.replaces@, tgt, tm, sz as int);
            if tgt.len() > 0 {
                let no = sbytes(b0.original).len() as int;
                assert forall|i: int| 0 <= i <= tgt.len() && is_char_boundary(tgt, i) implies is_char_boundary(sbytes(b0.original), #[trigger] tm[i] as int) by {
                    let w = choose|w: int| 0 <= w <= src.len() && is_char_boundary(src, w) && tm[i] == b0.m2o@[w];
                    assert(is_char_boundary(sbytes(b0.original), b0.m2o@[w] as int));
                }
                assert forall|i: int, j: int| 0 <= i <= j < tm.len() implies tm[i] <= tm[j] by {}
                assert forall|i: int| 0 <= i <= tgt.len() implies #[trigger] tm[i] <= no by {}
                if src.len() == 0 { assert(no == 0); }
            }
        }
//@end

//@extract sudachi/src/input_text/buffer/mod.rs :: impl InputBuffer :: fn rollback
//@  spec
    ensures final(self).replaces@.len() == 0, final(self).modified@ == old(self).modified@, final(self).m2o@ == old(self).m2o@,
        final(self).original@ == old(self).original@, final(self).state == old(self).state,
//@end
}

} // verus!
fn main() {}
