// UNIT V-WID (C04, C12): dic/word_id.rs  from_raw / new / checked-arithmetic / oov / dic / word / is_oov / is_system / is_user
use vstd::prelude::*;
verus! {
//@include common/error.rs.inc
//@extract sudachi/src/dic/word_id.rs :: struct WordId
//@end
//@extract sudachi/src/dic/word_id.rs :: const WORD_MASK
//@end
//@include specs/wid_specs.rs.inc
impl WordId {
//@extract sudachi/src/dic/word_id.rs :: impl WordId :: fn from_raw
//@  ret r
//@  specfile specs/wid/from_raw.contract
//@end
//@extract sudachi/src/dic/word_id.rs :: impl WordId :: fn new
//@  rw R3 2 custom
//@  | debug_assert_eq!\((\w+) & \(!(\w+)\), 0\);
//@  > assert(\1 & (!\2) == 0) by (bit_vector) requires \1 <= \2;
//@  ret r
//@  specfile specs/wid/new.contract
//@  before let dic_part =
        proof { lemma_wid_pack(dic, word); }
//@end
//@extract sudachi/src/dic/word_id.rs :: impl WordId :: fn checked
//@  ret r
//@  specfile specs/wid/checked.contract
//@  atstart
        proof {
            assert(dic & !0xfu8 != 0 <==> dic > 0xfu8) by (bit_vector);
            assert(word & !0x0fff_ffffu32 != 0 <==> word > 0x0fff_ffffu32) by (bit_vector);
        }
//@end
//@extract sudachi/src/dic/word_id.rs :: impl WordId :: fn oov
//@  ret r
//@  specfile specs/wid/oov.contract
//@end
//@extract sudachi/src/dic/word_id.rs :: impl WordId :: fn dic
//@  ret r
//@  specfile specs/wid/dic.contract
//@  atstart
        proof { let x = self.raw; assert((x >> 28) <= 0xfu32) by (bit_vector); }
//@end
//@extract sudachi/src/dic/word_id.rs :: impl WordId :: fn word
//@  ret r
//@  specfile specs/wid/word.contract
//@end
//@extract sudachi/src/dic/word_id.rs :: impl WordId :: fn is_system
//@  ret r
//@  specfile specs/wid/is_system.contract
//@end
//@extract sudachi/src/dic/word_id.rs :: impl WordId :: fn is_user
//@  ret r
//@  specfile specs/wid/is_user.contract
//@end
//@extract sudachi/src/dic/word_id.rs :: impl WordId :: fn is_oov
//@  ret r
//@  specfile specs/wid/is_oov.contract
//@end
//@extract sudachi/src/dic/word_id.rs :: impl WordId :: fn as_raw
//@  ret r
//@  specfile specs/wid/as_raw.contract
//@end
}
} // verus!
fn main() {}
