// UNIT V-LAT (C02, C03, C10): analysis/lattice.rs  connect_node / insert / connect_bos / connect_eos / reset / reset_vec /
//                              node / has_previous_node / fill_top_path, with inner.rs Node/NodeIdx and the accessor traits
use vstd::prelude::*;
verus! {
global size_of usize == 8;

//@include common/error.rs.inc

//@extract sudachi/src/dic/word_id.rs :: struct WordId
//@end
impl WordId {
//@extract sudachi/src/dic/word_id.rs :: impl WordId :: fn from_raw
//@  ret r
//@  spec
        ensures r.raw == raw
//@end
//@extract sudachi/src/dic/word_id.rs :: impl WordId :: const EOS
//@  rw Rc 1 custom
//@  | WordId::from_raw\((\w+)\)
//@  > WordId { raw: \1 }
//@end
}

//@extract sudachi/src/dic/connect.rs :: struct ConnectionMatrix
//@  rw R5 1 custom
//@  | CowArray<'a, i16>
//@  > Vec<i16>, _lt: core::marker::PhantomData<&'a ()>
//@end
//@include specs/conn_specs.rs.inc
impl<'a> ConnectionMatrix<'a> {
//@extract sudachi/src/dic/connect.rs :: impl<'a> ConnectionMatrix<'a> :: fn cost
//@  stub v_conn
//@  ret c
//@  specfile specs/conn_cost.contract
//@end
}

// ---- accessor traits (node.rs): spec twins of the accessors are annotation only
trait RightId {
    spec fn sp_right_id(&self) -> u16;
//@extract sudachi/src/analysis/node.rs :: trait RightId :: fn right_id
//@  ret r
//@  spec
        ensures r == self.sp_right_id()
//@end
}
trait PathCost {
    spec fn sp_total_cost(&self) -> i32;
//@extract sudachi/src/analysis/node.rs :: trait PathCost :: fn total_cost
//@  ret r
//@  spec
        ensures r == self.sp_total_cost()
//@end
//@extract sudachi/src/analysis/node.rs :: trait PathCost :: fn is_connected_to_bos
//@  ret r
//@  spec
        ensures r == (self.sp_total_cost() != i32::MAX)
//@end
}
trait LatticeNode: RightId {
    spec fn sp_begin(&self) -> usize;
    spec fn sp_end(&self) -> usize;
    spec fn sp_cost(&self) -> i16;
    spec fn sp_left_id(&self) -> u16;
    spec fn sp_word_id(&self) -> WordId;
//@extract sudachi/src/analysis/node.rs :: trait LatticeNode :: fn begin
//@  ret r
//@  spec
        ensures r == self.sp_begin()
//@end
//@extract sudachi/src/analysis/node.rs :: trait LatticeNode :: fn end
//@  ret r
//@  spec
        ensures r == self.sp_end()
//@end
//@extract sudachi/src/analysis/node.rs :: trait LatticeNode :: fn cost
//@  ret r
//@  spec
        ensures r == self.sp_cost()
//@end
//@extract sudachi/src/analysis/node.rs :: trait LatticeNode :: fn word_id
//@  ret r
//@  spec
        ensures r == self.sp_word_id()
//@end
//@extract sudachi/src/analysis/node.rs :: trait LatticeNode :: fn left_id
//@  ret r
//@  spec
        ensures r == self.sp_left_id()
//@end
}

//@extract sudachi/src/analysis/inner.rs :: struct NodeIdx
//@end
impl NodeIdx {
//@extract sudachi/src/analysis/inner.rs :: impl NodeIdx :: fn empty
//@  ret r
//@  spec
        ensures r.end == u16::MAX, r.index == u16::MAX
//@end
//@extract sudachi/src/analysis/inner.rs :: impl NodeIdx :: fn new
//@  ret r
//@  spec
        ensures r.end == end, r.index == index
//@end
//@extract sudachi/src/analysis/inner.rs :: impl NodeIdx :: fn end
//@  ret r
//@  spec
        ensures r == self.end
//@end
//@extract sudachi/src/analysis/inner.rs :: impl NodeIdx :: fn index
//@  ret r
//@  spec
        ensures r == self.index
//@end
}

//@extract sudachi/src/analysis/inner.rs :: struct Node
//@  derive
//@end
impl Node {
//@extract sudachi/src/analysis/inner.rs :: impl Node :: fn new
//@  ret r
//@  spec
        ensures r.begin == begin, r.end == end, r.left_id == left_id, r.right_id == right_id, r.cost == cost, r.word_id == word_id
//@end
}
impl RightId for Node {
    spec fn sp_right_id(&self) -> u16 { self.right_id }
//@extract sudachi/src/analysis/inner.rs :: impl RightId for Node :: fn right_id
//@end
}
impl LatticeNode for Node {
    spec fn sp_begin(&self) -> usize { self.begin as usize }
    spec fn sp_end(&self) -> usize { self.end as usize }
    spec fn sp_cost(&self) -> i16 { self.cost }
    spec fn sp_left_id(&self) -> u16 { self.left_id }
    spec fn sp_word_id(&self) -> WordId { self.word_id }
//@extract sudachi/src/analysis/inner.rs :: impl LatticeNode for Node :: fn begin
//@end
//@extract sudachi/src/analysis/inner.rs :: impl LatticeNode for Node :: fn end
//@end
//@extract sudachi/src/analysis/inner.rs :: impl LatticeNode for Node :: fn cost
//@end
//@extract sudachi/src/analysis/inner.rs :: impl LatticeNode for Node :: fn word_id
//@end
//@extract sudachi/src/analysis/inner.rs :: impl LatticeNode for Node :: fn left_id
//@end
}

//@extract sudachi/src/analysis/lattice.rs :: struct VNode
//@end
impl RightId for VNode {
    spec fn sp_right_id(&self) -> u16 { self.right_id }
//@extract sudachi/src/analysis/lattice.rs :: impl RightId for VNode :: fn right_id
//@end
}
impl PathCost for VNode {
    spec fn sp_total_cost(&self) -> i32 { self.total_cost }
//@extract sudachi/src/analysis/lattice.rs :: impl PathCost for VNode :: fn total_cost
//@end
}
impl VNode {
//@extract sudachi/src/analysis/lattice.rs :: impl VNode :: fn new
//@  ret r
//@  spec
        ensures r.right_id == right_id, r.total_cost == total_cost
//@end
}

//@extract sudachi/src/analysis/lattice.rs :: struct Lattice
//@end

//@include specs/lattice_specs.rs.inc
//@include specs/lattice_lemmas.rs.inc

impl Lattice {
//@extract sudachi/src/analysis/lattice.rs :: impl Lattice :: fn reset_vec
//@  rw R7 1
//@  rw R6m 1
//@  spec
        ensures
            final(data)@.len() == (if old(data)@.len() <= target { target as nat } else { old(data)@.len() }),
            forall|i: int| 0 <= i < final(data)@.len() ==> (#[trigger] final(data)@[i])@.len() == 0,
//@  loop 1
            invariant __im_v <= data@.len(), data@.len() == old(data)@.len(),
                forall|i: int| 0 <= i < __im_v ==> (#[trigger] data@[i])@.len() == 0,
            decreases data@.len() - __im_v
//@  loop 2
            invariant
                cur_len <= __it__ <= target, __end__ == target, data@.len() == __it__,
                forall|i: int| 0 <= i < data@.len() ==> (#[trigger] data@[i])@.len() == 0,
            decreases target - __it__
//@end

//@extract sudachi/src/analysis/lattice.rs :: impl Lattice :: fn reset
//@  spec
        requires length <= 65535,
            // the three parallel arrays have one row per boundary (true of Lattice::default(), kept by every operation)
            old(self).ends@.len() == old(self).ends_full@.len(), old(self).ends@.len() == old(self).indices@.len(),
        ensures lat_fresh(*final(self), length as int),
//@end

//@extract sudachi/src/analysis/lattice.rs :: impl Lattice :: fn connect_bos
//@  spec
        requires old(self).ends@.len() > 0, old(self).ends@[0]@.len() == 0,
        ensures
            final(self).ends@ == old(self).ends@.update(0, final(self).ends@[0]),
            final(self).ends@[0]@.len() == 1 && final(self).ends@[0]@[0].total_cost == 0 && final(self).ends@[0]@[0].right_id == 0,
            final(self).ends_full == old(self).ends_full, final(self).indices == old(self).indices,
            final(self).eos == old(self).eos, final(self).size == old(self).size,
//@end

//@extract sudachi/src/analysis/lattice.rs :: impl Lattice :: fn connect_eos
//@  ret r
//@  spec
        requires lat_wf(*old(self), *conn), strict_no_overflow(*old(self), *conn, eos_node(*old(self))),
        ensures
            final(self).ends == old(self).ends, final(self).ends_full == old(self).ends_full,
            final(self).indices == old(self).indices, final(self).size == old(self).size,
            // an error exactly when no connected node ends at the last boundary
            r is Err <==> (forall|k: int| 0 <= k < old(self).ends@[old(self).size - 1]@.len() ==> !connected(#[trigger] old(self).ends@[old(self).size - 1]@[k])),
            r is Ok ==> final(self).eos is Some
                && is_best(*old(self), *conn, eos_node(*old(self)), final(self).eos->Some_0.0, final(self).eos->Some_0.1 as int)
                && final(self).eos->Some_0.1 != i32::MAX,
            r is Err ==> final(self).eos == old(self).eos,
//@  before let (idx, cost) = self.connect_node(&node, conn);
        proof {
            assert(node == eos_node(*self));
            assert(ids_ok(*self, *conn, node)) by {
                assert forall|k: int| 0 <= k < self.ends@[node.begin as int]@.len() implies (#[trigger] self.ends@[node.begin as int]@[k]).right_id < conn.num_left by {
                    lemma_row_ids(*self, *conn, node.begin as int, k);
                }
            }
        }
//@end

//@extract sudachi/src/analysis/lattice.rs :: impl Lattice :: fn insert
//@  ret cost
//@  spec
        requires
            lat_wf(*old(self), *conn),
            node.begin < node.end, (node.end as int) < old(self).size,
            (node.left_id as int) < conn.num_right, (node.right_id as int) < conn.num_left,
            old(self).ends@[node.end as int]@.len() < u16::MAX,
            // left-to-right construction: nothing stored so far begins where this node ends
            forall|e: int, k: int| has(*old(self), e, k) ==> (#[trigger] node_at(*old(self), e, k)).begin != node.end,
            strict_no_overflow(*old(self), *conn, node),
        ensures
            lat_wf(*final(self), *conn),
            final(self).size == old(self).size, final(self).eos == old(self).eos,
            final(self).ends@.len() == old(self).ends@.len(),
            final(self).ends_full@[node.end as int]@ == old(self).ends_full@[node.end as int]@.push(node),
            forall|e: int| 0 <= e < old(self).ends@.len() && e != node.end ==> final(self).ends@[e] == old(self).ends@[e]
                && final(self).ends_full@[e] == old(self).ends_full@[e] && final(self).indices@[e] == old(self).indices@[e],
            is_best(*old(self), *conn, node, final(self).indices@[node.end as int]@.last(), cost as int),
            final(self).ends@[node.end as int]@.last().total_cost == cost,
//@  before let (idx, cost) = self.connect_node(&node, conn);
        proof {
            assert(ids_ok(*self, *conn, node)) by {
                assert forall|k: int| 0 <= k < self.ends@[node.begin as int]@.len() implies (#[trigger] self.ends@[node.begin as int]@[k]).right_id < conn.num_left by {
                    lemma_row_ids(*self, *conn, node.begin as int, k);
                }
            }
        }
//@  atstart
        let ghost gnode = node;
//@  atend
        proof { lemma_insert_preserves(*old(self), *self, *conn, gnode, idx, cost); }
//@end

//@extract sudachi/src/analysis/lattice.rs :: impl Lattice :: fn has_previous_node
//@  rw R14s 1 custom
//@  | self\.ends\.get\(i\)\.map\(\|d\| !d\.is_empty\(\)\)\.unwrap_or\(false\)
//@  > (i < self.ends.len() && !self.ends[i].is_empty())
//@  ret r
//@  spec
        ensures r == (i < self.ends@.len() && self.ends@[i as int]@.len() > 0),
//@end

//@extract sudachi/src/analysis/lattice.rs :: impl Lattice :: fn node
//@  ret r
//@  spec
        requires
            (id.end as int) < self.ends_full@.len(), (id.end as int) < self.ends@.len(),
            (id.index as int) < self.ends_full@[id.end as int]@.len(), (id.index as int) < self.ends@[id.end as int]@.len(),
        ensures
            *r.0 == self.ends_full@[id.end as int]@[id.index as int],
            r.1 == self.ends@[id.end as int]@[id.index as int].total_cost,
//@end

//@extract sudachi/src/analysis/lattice.rs :: impl Lattice :: fn fill_top_path
//@  spec
        requires
            self.eos is Some ==> self.size >= 2 && exists|conn: ConnectionMatrix| #[trigger] lat_wf(*self, conn)
                && is_best(*self, conn, eos_node(*self), self.eos->Some_0.0, self.eos->Some_0.1 as int) && self.eos->Some_0.1 != i32::MAX,
        ensures
            self.eos is None ==> final(result)@ == old(result)@,
            self.eos is Some ==> final(result)@ == old(result)@ + chain(*self, self.eos->Some_0.0),
//@  before let (mut idx, _) = self.eos.unwrap();
        let ghost conn = choose|conn: ConnectionMatrix| #[trigger] lat_wf(*self, conn)
                && is_best(*self, conn, eos_node(*self), self.eos->Some_0.0, self.eos->Some_0.1 as int) && self.eos->Some_0.1 != i32::MAX;
        let ghost idx0 = self.eos->Some_0.0;
        let ghost res0 = result@;
//@  before loop {
        proof {
            lemma_eos_idx(*self, conn);
            assert(result@.drop_last() =~= res0);
        }
//@  loop 1
            invariant
                lat_wf(*self, conn), idx_ok(*self, idx), connected(vnode_at(*self, idx.end as int, idx.index as int)),
                result@.len() > 0, result@.last() == idx,
                res0 + chain(*self, idx0) == result@.drop_last() + chain(*self, idx),
            ensures
                final(result)@ == res0 + chain(*self, idx0),
            decreases idx.end
//@  before let prev_idx = self.indices[idx.end() as usize][idx.index() as usize];
            proof { lemma_back_pointer(*self, conn, idx); }
//@  before result.push(prev_idx);
                let ghost rb = result@;
                let ghost idx_b = idx;
//@  after idx = prev_idx;
                proof {
                    assert(result@.drop_last() =~= rb);
                    assert(rb =~= rb.drop_last() + seq![idx_b]);
                    assert(chain(*self, idx_b) == seq![idx_b] + chain(*self, prev_idx));
                    assert(rb.drop_last() + (seq![idx_b] + chain(*self, prev_idx)) =~= rb + chain(*self, prev_idx));
                }
//@  before break;
                proof {
                    assert(chain(*self, idx) == seq![idx]);
                    assert(result@.drop_last() + seq![idx] =~= result@);
                }
//@end

//@extract sudachi/src/analysis/lattice.rs :: impl Lattice :: fn connect_node
//@  rw R6 1
//@  ret res
//@  spec
        requires conn.wf(), ids_ok(*self, *conn, *r_node), strict_no_overflow(*self, *conn, *r_node),
        ensures is_best(*self, *conn, *r_node, res.0, res.1 as int),
//@  loop 1
            invariant
                begin == r_node.begin, node_cost == r_node.cost,
                conn.wf(), ids_ok(*self, *conn, *r_node), strict_no_overflow(*self, *conn, *r_node),
                __it_i <= self.ends@[begin as int]@.len(),
                forall|k: int| 0 <= k < __it_i && connected(self.ends@[begin as int]@[k]) ==> min_cost <= #[trigger] via_row(self.ends@[begin as int]@, *conn, *r_node, k),
                min_cost != i32::MAX ==> prev_idx.end == r_node.begin && 0 <= prev_idx.index < __it_i
                    && connected(self.ends@[begin as int]@[prev_idx.index as int]) && min_cost == via(*self, *conn, *r_node, prev_idx.index as int),
                min_cost == i32::MAX ==> (forall|k: int| 0 <= k < __it_i ==> !connected(#[trigger] self.ends@[begin as int]@[k])),
            decreases self.ends@[begin as int]@.len() - __it_i
//@  before let new_cost = 
            proof { assert(via(*self, *conn, *r_node, i as int) == l_node.total_cost + connect_cost + node_cost); }
//@end

//@extract sudachi/src/analysis/lattice.rs :: impl Lattice :: fn connect_node
//@  fnname connect_node__full
//@  rw R6 1
//@  ret res
//@  spec
        // FULL-STRENGTH twin (known finding F10): no assumption about the size of the costs -- the i32 sum must not overflow
        requires conn.wf(), ids_ok(*self, *conn, *r_node),
        ensures true,
//@  loop 1
            invariant
                begin == r_node.begin, node_cost == r_node.cost,
                conn.wf(), ids_ok(*self, *conn, *r_node),
                __it_i <= self.ends@[begin as int]@.len(),
            decreases self.ends@[begin as int]@.len() - __it_i
//@end
}

} // verus!
fn main() {}
