    // Replay oracle for C15 (NumericParser + StringNumber): numerals are GENERATED from values in several notations and the parser's
    // normalised form is compared with the decimal rendering of the value; near-miss malformed strings must be refused.
    // BOUNDED: the notations and value sets enumerated below.
    fn run(text: &str) -> Option<String> {
        let mut p = NumericParser::new();
        for c in text.chars() { if !p.append(&c) { return None; } }
        if !p.done() { return None; }
        Some(p.get_normalized())
    }
    const KD: [&str; 10] = ["〇", "一", "二", "三", "四", "五", "六", "七", "八", "九"];
    /// a group 1..=9999 with the small units 千 百 十; `one` writes the optional 一 before a unit
    fn kanji_group(g: u32, one: bool) -> String {
        let mut s = String::new();
        for (u, name) in [(1000, "千"), (100, "百"), (10, "十")] {
            let d = (g / u) % 10;
            if d == 0 { continue; }
            if d > 1 || one { s.push_str(KD[d as usize]); }
            s.push_str(name);
        }
        if g % 10 != 0 { s.push_str(KD[(g % 10) as usize]); }
        s
    }
    fn with_commas(v: u128) -> String {
        let d = v.to_string();
        let mut out = String::new();
        for (i, c) in d.chars().enumerate() { if i > 0 && (d.len() - i) % 3 == 0 { out.push(','); } out.push(c); }
        out
    }

    #[test]
    fn verif_oracle_numerals_render_their_value() {
        let mut failures: Vec<String> = Vec::new();
        let mut cases = 0usize;
        // leading zeros are specified only for plain digit strings (they are kept); elsewhere they do not change the value and are
        // not compared ("0.5千" is rendered "0500" by this implementation and by the Java original)
        fn strip(s: &str) -> String { let t = s.trim_start_matches('0'); if t.is_empty() || t.starts_with('.') { format!("0{}", t) } else { t.to_string() } }
        let mut check = |text: String, want: Option<String>, failures: &mut Vec<String>| {
            cases += 1;
            let plain = text.chars().all(|c| c.is_ascii_digit() || KD.contains(&c.to_string().as_str()));
            let mut got = run(&text);
            let mut want = want;
            if !plain { got = got.map(|g| strip(&g)); want = want.map(|w| strip(&w)); }
            if got != want && failures.len() < 30 { failures.push(format!("numeral {:?}: parser gives {:?}, the value renders as {:?}", text, got, want)); }
        };
        // 1. plain digit strings, Arabic and kanji digits mixed: leading zeros are kept
        let digs = [("0", "0"), ("1", "1"), ("9", "9"), ("〇", "0"), ("五", "5")];
        let mut layer: Vec<(String, String)> = vec![(String::new(), String::new())];
        for _ in 0..4 {
            let mut next = Vec::new();
            for (t, w) in &layer { for (a, b) in digs.iter() { next.push((format!("{}{}", t, a), format!("{}{}", w, b))); } }
            for (t, w) in &next { check(t.clone(), Some(w.clone()), &mut failures); }
            layer = next;
        }
        // 2. thousands separators
        for v in [1000u128, 1234, 10000, 99999, 123456, 1000000, 2000000, 12345678, 999999999, 1234567890123] {
            check(with_commas(v), Some(v.to_string()), &mut failures);
            let good = with_commas(v);
            // near misses: one comma moved by one digit, doubled, leading, trailing
            let pos = good.find(',').unwrap();
            let mut moved: Vec<char> = good.chars().collect(); moved.swap(pos, pos + 1);
            check(moved.iter().collect(), None, &mut failures);
            check(good.replacen(",", ",,", 1), None, &mut failures);
            check(format!(",{}", good), None, &mut failures);
            check(format!("{},", good), None, &mut failures);
        }
        // 2b. thousands separators in the group that FOLLOWS a large unit: the same placement rules apply there (a group of only
        // zeros before the first separator, a leading separator, a short or long group are malformed whatever precedes the unit)
        for (head, hv) in [("3万", 30_000u128), ("259万", 2_590_000), ("1億", 100_000_000), ("5兆", 5_000_000_000_000), ("二億", 200_000_000), ("1兆2億", 1_000_200_000_000)] {
            for (g, gv) in [("1,000", 1000u128), ("2,300", 2300), ("9,999", 9999)] {
                check(format!("{}{}", head, g), Some((hv + gv).to_string()), &mut failures);
            }
            for bad in ["0,500", "00,500", "000,500", ",500", "2,30", "2,3000", "2,,300", "0,000", "1,00", "12,34"] {
                check(format!("{}{}", head, bad), None, &mut failures);
            }
        }
        // 3. groups with small units, joined by the large units 兆 億 万; groups in Arabic or kanji notation
        let groups = [0u32, 1, 7, 10, 11, 20, 105, 110, 1000, 1001, 2345, 9999];
        let units: [(u32, &str); 4] = [(12, "兆"), (8, "億"), (4, "万"), (0, "")];
        for &g3 in &groups { for &g2 in &groups { for &g1 in &groups { for &g0 in &groups { for notation in 0..3 {
            if (g3 as usize + g2 as usize * 3 + g1 as usize * 7 + g0 as usize) % 5 != 0 { continue; } // thin out
            let gs = [g3, g2, g1, g0];
            if gs.iter().all(|g| *g == 0) { continue; }
            let mut text = String::new();
            let mut value: u128 = 0;
            for (g, (e, name)) in gs.iter().zip(units.iter()) {
                if *g == 0 { continue; }
                value += (*g as u128) * 10u128.pow(*e);
                match notation { 0 => text.push_str(&g.to_string()), 1 => text.push_str(&kanji_group(*g, false)), _ => text.push_str(&kanji_group(*g, true)) }
                text.push_str(name);
            }
            check(text, Some(value.to_string()), &mut failures);
        }}}}}
        // 4. fractions, alone and scaled by units; trailing fractional zeros are dropped
        for (t, w) in [("3.14", "3.14"), ("0.5", "0.5"), ("00.1000", "00.1"), ("12.50", "12.5"), ("1.0", "1"), ("10.0", "10"), ("100.00", "100"), ("1,500.0", "1500"), ("二〇.〇", "20"), ("三万10.00", "30010"), ("0.0", "0"), ("〇.五", "0.5"), ("1.5千", "1500"), ("1.25万", "12500"),
                       ("1.5百万", "1500000"), ("1.5百万1.5千20", "1501520"), ("2.5億3千", "250003000"), ("0.5千", "500"), ("1.05万", "10500"), ("千三百二十七.〇五", "1327.05")] {
            check(t.to_string(), Some(w.to_string()), &mut failures);
        }
        // 4b. a fraction scaled by a unit AFTER a higher group: the scaled fraction is added below the digits present
        let highs: [(&str, u128, u128); 6] = [("3億", 300_000_000, 100_000_000), ("三億", 300_000_000, 100_000_000), ("1兆", 1_000_000_000_000, 1_000_000_000_000),
                                              ("2万", 20_000, 10_000), ("二千", 2_000, 1_000), ("1兆2億", 1_000_200_000_000, 100_000_000)];
        let fracs: [(&str, u128); 5] = [("2.5", 250), ("1.5", 150), ("1.25", 125), ("0.5", 50), ("12.5", 1250)];      // hundredths
        let funits: [(&str, u128); 5] = [("万", 10_000), ("千", 1_000), ("百", 100), ("千万", 10_000_000), ("百万", 1_000_000)];
        for (ht, hv, hlow) in highs.iter() { for (ft, fh) in fracs.iter() { for (ut, uv) in funits.iter() {
            let scaled = fh * uv;                       // in hundredths
            if scaled % 100 != 0 { continue; }
            let add = scaled / 100;
            // the scaled group must lie entirely below the lowest unit of the higher part, and a unit like 千万 must itself be below it
            if add >= *hlow || *uv >= *hlow { continue; }
            // the small units 千 百 may only follow a group without a large unit of the same block
            if (*ut == "千" || *ut == "百") && *hlow < 10_000 && *uv >= *hlow { continue; }
            check(format!("{}{}{}", ht, ft, ut), Some((hv + add).to_string()), &mut failures);
        }}}
        // 5. near-miss malformed numerals are refused, never joined into a wrong value
        for t in ["1.", ".5", "1..5", "1.5.2", "1,00", "1,0000", "1,,000", "十百", "億万", "1.5千5百", "1.5千500", "三百二十百", "万", "1万万", "1千万億1万億", "一十十", "2百3千",
                  // a point that is followed by a unit instead of a digit is dangling
                  "1.万", "3.千", "二.百万", "12.十", "2千5.百", "1.億2万", "5.", "5.万3", "1,.5", "1.,5", "1,000.", "1,000.万",
                  // a thousands separator cannot follow the decimal point of the same digit run (found 2026-09-30: F22)
                  "1.2,345", "1.23,456", "12.3,456", "1.234,567", "1,234.5,678", "0.5,000", "1.0,000", "3万1.5,000", "1.5,000万"] {
            check(t.to_string(), None, &mut failures);
        }
        println!("verif_oracle_numerals_render_their_value: {} cases, {} failures", cases, failures.len());
        for f in failures.iter().take(8) { println!("FAILING INPUT: {}", f); }
        assert!(failures.is_empty());
    }
