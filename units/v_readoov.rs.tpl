// UNIT V-READOOV (C20): plugin/oov/mecab_oov/mod.rs  MeCabOovPlugin::read_oov -- the unknown-word definition file (unk.def)
// Text handling (lines, trim, split, number parsing) is ASSUMED (wrappers below); this unit decides the CHECKS: an unk.def line is
// accepted only if its class has a char.def entry and its connection ids index an existing row / column of the connection matrix.
use vstd::prelude::*;
use vstd::string::*;
verus! {
global size_of usize == 8;
//@include common/error.rs.inc
//@include common/category_type.rs.inc
#[verifier::external_body] fn err_string() -> String { String::new() }   // R12: message texts are not verified

/// R14: HashMap<CategoryType, V, RoMu> seen as a finite map (ASSUMED: std HashMap contains_key / get_mut / insert)
#[verifier::external_body]
#[verifier::accept_recursive_types(V)]
pub struct CatMap<V> { m: std::collections::HashMap<u32, V> }
impl<V> CatMap<V> {
    pub uninterp spec fn m(&self) -> Map<CategoryType, V>;
    #[verifier::external_body]
    fn new() -> (r: CatMap<V>) ensures r.m() == Map::<CategoryType, V>::empty() { unimplemented!() }
    #[verifier::external_body]
    fn contains_key(&self, k: &CategoryType) -> (r: bool) ensures r == self.m().contains_key(*k) { unimplemented!() }
}
/// the list of one class after appending a definition
pub open spec fn pushed(m: Map<CategoryType, Vec<OOV>>, k: CategoryType, o: OOV) -> Seq<OOV> {
    if m.contains_key(k) { m[k]@.push(o) } else { seq![o] }
}
impl CatMap<Vec<OOV>> {
    /// R14m: `match map.get_mut(&k) { None => { map.insert(k, vec![o]); } Some(l) => { l.push(o); } }`
    #[verifier::external_body]
    fn push_to(&mut self, k: CategoryType, o: OOV)
        ensures
            final(self).m().dom() == old(self).m().dom().insert(k),
            final(self).m()[k]@ == pushed(old(self).m(), k, o),
            forall|c: CategoryType| c != k && old(self).m().contains_key(c) ==> #[trigger] final(self).m()[c] == old(self).m()[c],
    { unimplemented!() }
}
//@extract sudachi/src/plugin/oov/mecab_oov/mod.rs :: struct CategoryInfo
//@  derive
//@end
//@extract sudachi/src/plugin/oov/mecab_oov/mod.rs :: struct OOV
//@  derive
//@end
//@extract sudachi/src/util/user_pos.rs :: enum UserPosMode
//@  derive Clone, Copy, PartialEq, Eq, Structural
//@end
/// opaque collaborators: the connection matrix dimensions (v_conn) and the grammar (handle_user_pos: v_merge)
#[verifier::external_body] pub struct ConnectionMatrix<'a> { _p: core::marker::PhantomData<&'a ()> }
impl<'a> ConnectionMatrix<'a> {
    pub uninterp spec fn sp_num_left(&self) -> usize;
    pub uninterp spec fn sp_num_right(&self) -> usize;
    #[verifier::external_body] fn num_left(&self) -> (r: usize) ensures r == self.sp_num_left() { unimplemented!() }
    #[verifier::external_body] fn num_right(&self) -> (r: usize) ensures r == self.sp_num_right() { unimplemented!() }
}
#[verifier::external_body] pub struct Grammar<'a> { _p: core::marker::PhantomData<&'a ()> }
impl<'a> Grammar<'a> {
    pub uninterp spec fn sp_conn(&self) -> ConnectionMatrix<'a>;
    pub uninterp spec fn sp_npos(&self) -> int;
    #[verifier::external_body] fn conn_matrix(&self) -> (r: &ConnectionMatrix<'a>) ensures *r == self.sp_conn() { unimplemented!() }
    // contract discharged on the real body in unit v_merge (ids handed out keep their meaning; the matrix is not touched)
    #[verifier::external_body]
    fn handle_user_pos(&mut self, pos: &[&str], mode: UserPosMode) -> (r: SudachiResult<u16>)
        ensures
            final(self).sp_conn() == old(self).sp_conn(), final(self).sp_npos() >= old(self).sp_npos(),
            r is Ok ==> (r->Ok_0 as int) < final(self).sp_npos(),
    { unimplemented!() }
}
/// R14r: `reader.lines()` read up front (ASSUMED: BufRead::lines; an I/O error ends the function with an error value either way)
#[verifier::external_body] pub struct Reader { _p: () }
#[verifier::external_body] fn reader_lines(reader: Reader) -> (r: SudachiResult<Vec<String>>) { unimplemented!() }
#[verifier::external_body] fn str_trim(s: &str) -> (r: &str) { s.trim() }
#[verifier::external_body] fn str_is_empty(s: &str) -> (r: bool) ensures r == (s@.len() == 0) { s.is_empty() }
#[verifier::external_body] fn str_first_char(s: &str) -> (r: char) requires s@.len() > 0 ensures r == s@[0] { s.chars().next().unwrap() }
#[verifier::external_body] fn str_split_comma(s: &str) -> (r: Vec<&str>) { s.split(',').collect() }
#[verifier::external_body] fn vec_slice<'a, 'b>(v: &'b Vec<&'a str>, a: usize, b: usize) -> (r: &'b [&'a str]) requires a <= b <= v@.len() ensures r@ == v@.subrange(a as int, b as int) { &v[a..b] }
/// R14p: `str::parse::<i16>()` / `parse::<CategoryType>()` (ASSUMED total: a value or an error; the value is whatever the text denotes)
#[verifier::external_body] fn parse_i16(s: &str) -> (r: SudachiResult<i16>) { unimplemented!() }
#[verifier::external_body] fn parse_category(s: &str) -> (r: SudachiResult<CategoryType>) { unimplemented!() }
/// R14c: `x as usize` for an i16 (Rust semantics: sign extension, a negative value becomes a huge one)
#[verifier::external_body]
fn i16_as_usize(x: i16) -> (r: usize) ensures r as int == (if x >= 0 { x as int } else { 0x1_0000_0000_0000_0000 + x as int }) { x as usize }
fn usize_max(a: usize, b: usize) -> (r: usize) ensures r == (if a >= b { a } else { b }) { if a >= b { a } else { b } }

/// C20: the connection ids of an accepted unk.def line index an existing row / column of the connection matrix
/// (`max(n, 1)`: with an EMPTY matrix id 0 is accepted - the residual F1r, listed as known finding for check_left_id/right_id)
spec fn oov_ok(o: OOV, m: ConnectionMatrix) -> bool {
    &&& 0 <= o.left_id && (o.left_id as int) < (if m.sp_num_left() >= 1 { m.sp_num_left() as int } else { 1int })
    &&& 0 <= o.right_id && (o.right_id as int) < (if m.sp_num_right() >= 1 { m.sp_num_right() as int } else { 1int })
}
spec fn list_ok(l: Map<CategoryType, Vec<OOV>>, cats: Map<CategoryType, CategoryInfo>, m: ConnectionMatrix, npos: int) -> bool {
    forall|c: CategoryType| #[trigger] l.contains_key(c) ==> cats.contains_key(c)
        && forall|j: int| 0 <= j < l[c]@.len() ==> oov_ok(#[trigger] l[c]@[j], m) && (l[c]@[j].pos_id as int) < npos
}

//@extract sudachi/src/plugin/oov/mecab_oov/mod.rs :: impl MeCabOovPlugin :: fn read_oov
//@  rw R14t 1 custom
//@  | fn read_oov<T: BufRead>\(\s*reader: T,\s*categories: &HashMap<CategoryType, CategoryInfo, RoMu>,\s*mut grammar: &mut Grammar,\s*user_pos: UserPosMode,\s*\) -> SudachiResult<HashMap<CategoryType, Vec<OOV>, RoMu>> \{
//@  > fn read_oov(reader: Reader, categories: &CatMap<CategoryInfo>, grammar: &mut Grammar, user_pos: UserPosMode) -> SudachiResult<CatMap<Vec<OOV>>> {
//@  rw R14t 1 custom
//@  | let mut oov_list: HashMap<CategoryType, Vec<OOV>, RoMu> = HashMap::with_hasher\(RoMu::new\(\)\);
//@  > let mut oov_list: CatMap<Vec<OOV>> = CatMap::new();
//@  rw R14r 1 custom
//@  | for \(i, line\) in reader\.lines\(\)\.enumerate\(\) \{\s*let line = line\?;\s*let line = line\.trim\(\);
//@  > let __ls = reader_lines(reader)?; let mut __il: usize = 0; while __il < __ls.len() { let i = __il; __il += 1; let line = str_trim(__ls[i].as_str());
//@  rw R13 1 custom
//@  | line\.is_empty\(\) \|\| line\.chars\(\)\.next\(\)\.unwrap\(\) == '#'
//@  > str_is_empty(line) || str_first_char(line) == '#'
//@  rw R13 1 custom
//@  | let cols: Vec<_> = line\.split\(','\)\.collect\(\);
//@  > let cols: Vec<&str> = str_split_comma(line);
//@  rw R12 * custom
//@  | format!\((?:[^()]|\([^()]*\))*\)
//@  > err_string()
//@  rw R14p 1 custom
//@  | let category_type: CategoryType = cols\[0\]\.parse\(\)\?;
//@  > let category_type: CategoryType = parse_category(cols[0])?;
//@  rw R14p * custom
//@  | (left_id|right_id|cost): cols\[(\d)\]\.parse\(\)\?
//@  > \1: parse_i16(cols[\2])?
//@  rw R13 1 custom
//@  | grammar\.handle_user_pos\(&cols\[4\.\.10\], user_pos\)\?
//@  > grammar.handle_user_pos(vec_slice(&cols, 4, 10), user_pos)?
//@  rw R14x * custom
//@  | grammar\.conn_matrix\(\)\.(num_left|num_right)\(\)\.max\(1\)
//@  > usize_max(grammar.conn_matrix().\1(), 1)
//@  rw R14c * custom
//@  | oov\.(left_id|right_id) as usize
//@  > i16_as_usize(oov.\1)
//@  rw R14m 1 custom
//@  | match oov_list\.get_mut\(&category_type\) \{\s*None => \{\s*oov_list\.insert\(category_type, vec!\[oov\]\);\s*\}\s*Some\(l\) => \{\s*l\.push\(oov\);\s*\}\s*\};
//@  > oov_list.push_to(category_type, oov);
//@  ret r
//@  spec
        requires
            // the dimensions of a loaded matrix come from two 16-bit header fields
            old(grammar).sp_conn().sp_num_left() <= 0x10000, old(grammar).sp_conn().sp_num_right() <= 0x10000,
        ensures
            final(grammar).sp_conn() == old(grammar).sp_conn(),
            // C20: loading succeeds only if every line's class is defined and its connection ids exist in the matrix
            r is Ok ==> list_ok(r->Ok_0.m(), categories.m(), old(grammar).sp_conn(), final(grammar).sp_npos()),
//@  atstart
        let ghost g0 = grammar.sp_conn();
//@  loop 1
            invariant
                grammar.sp_conn() == g0, g0 == old(grammar).sp_conn(), __il <= __ls@.len(),
                g0.sp_num_left() <= 0x10000, g0.sp_num_right() <= 0x10000,
                list_ok(oov_list.m(), categories.m(), g0, grammar.sp_npos()),
            decreases __ls@.len() - __il
//@  before oov_list.push_to(category_type, oov);
            let ghost m0 = oov_list.m();
            let ghost go = oov;
//@  after oov_list.push_to(category_type, oov);
            proof {
                let m1 = oov_list.m();
                assert forall|c: CategoryType| #[trigger] m1.contains_key(c) implies categories.m().contains_key(c)
                    && forall|j: int| 0 <= j < m1[c]@.len() ==> oov_ok(#[trigger] m1[c]@[j], g0) && (m1[c]@[j].pos_id as int) < grammar.sp_npos() by {
                    if c == category_type {
                        assert forall|j: int| 0 <= j < m1[c]@.len() implies oov_ok(#[trigger] m1[c]@[j], g0) && (m1[c]@[j].pos_id as int) < grammar.sp_npos() by {
                            if m0.contains_key(c) && j < m0[c]@.len() { assert(m1[c]@[j] == m0[c]@[j]); } else { assert(m1[c]@[j] == go); }
                        }
                    } else { assert(m0.contains_key(c)); assert(m1[c] == m0[c]); }
                }
            }
//@end
} // verus!
fn main() {}
