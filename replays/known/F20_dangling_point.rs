// F20 (C15): demonstration against the real code.  Append to sudachi/src/plugin/path_rewrite/join_numeric/numeric_parser/mod.rs in a
// scratch copy of /repo and run   cargo test --offline -p sudachi --lib verif_f20
// Before the fix: "1.億2万" -> Some("100020000") (the dangling point after "1" is forgotten when the digit 2 is read).
#[cfg(test)]
mod verif_f20 {
    use super::*;
    fn run(text: &str) -> Option<String> {
        let mut p = NumericParser::new();
        for c in text.chars() { if !p.append(&c) { return None; } }
        if p.done() { Some(p.get_normalized()) } else { None }
    }
    #[test]
    fn dangling_point_before_a_unit() {
        for t in ["1.万", "1.億2万", "2千5.百3", "1.億", "3.千5"] { assert_eq!(run(t), None, "{}", t); }
        for (t, w) in [("1.5億2万", "150020000"), ("1億2.5万", "100025000"), ("1.5千", "1500")] { assert_eq!(run(t).as_deref(), Some(w), "{}", t); }
    }
}
