// F16, F17 (C03, C13): demonstrations against the real code.  Append to sudachi/src/plugin/oov/regex_oov/test.rs in a scratch copy
// of /repo and run   cargo test --offline -p sudachi --lib verif_f1   (F17 also with --release: an EMPTY node (0, 0) is produced)

// F16: a regex OOV provider whose configured "maxLength" is near usize::MAX loads successfully; at any offset >= 1
// `offset + self.max_length` overflows: panic "attempt to add with overflow" with overflow checks, and without them the window end
// wraps below the start and `curr_slice_c(offset..end)` panics on the inverted slice.
#[test]
fn verif_f16_huge_max_length() {
    let p = plugin("[0-9a-z]+", |mut v| {
        v["maxLength"] = json!(usize::MAX);
        v["boundaries"] = json!("relaxed");
        v
    });
    let o = p.oovs("x12", 1);
    assert_eq!(1, o.len());
    assert_eq!(1, o[0].begin());
    assert_eq!(3, o[0].end());
}

// F17: a regex that can match the empty string (e.g. "[0-9]*") loads successfully; at a position where it matches nothing the
// match has length 0: `CreatedWords::single(0)` trips `debug_assert!(raw > 0)` (created.rs:48), and without debug assertions an
// EMPTY candidate node (begin == end) is pushed into the lattice.
#[test]
fn verif_f17_empty_match() {
    let p = plugin("[0-9]*", noop);
    let o = p.oovs("ab", 0);
    assert_eq!(0, o.len(), "an empty match is not a word: {:?}", o.iter().map(|n| (n.begin(), n.end())).collect::<Vec<_>>());
}
