// UNIT V-BUILD (C02, C03, C13): analysis/stateful_tokenizer.rs  LatticeBuilder::build_lattice / provide_oovs
use vstd::prelude::*;
use vstd::utf8::*;
use vstd::string::*;
verus! {
global size_of usize == 8;
//@include common/error.rs.inc
//@include common/category_type.rs.inc
//@include common/lattice_types.rs.inc
//@include specs/build_specs.rs.inc

impl Lattice {
// contracts of the lattice operations: discharged on the real bodies in unit v_lattice
//@extract sudachi/src/analysis/lattice.rs :: impl Lattice :: fn reset
//@  stub v_lattice
//@  specfile specs/lat_reset.contract
//@end
//@extract sudachi/src/analysis/lattice.rs :: impl Lattice :: fn insert
//@  stub v_lattice
//@  ret cost
//@  specfile specs/lat_insert.contract
//@end
//@extract sudachi/src/analysis/lattice.rs :: impl Lattice :: fn connect_eos
//@  stub v_lattice
//@  ret r
//@  specfile specs/lat_connect_eos.contract
//@end
//@extract sudachi/src/analysis/lattice.rs :: impl Lattice :: fn has_previous_node
//@  stub v_lattice
//@  ret r
//@  specfile specs/lat_has_previous_node.contract
//@end
}

//@extract sudachi/src/analysis/stateful_tokenizer.rs :: struct LatticeBuilder
//@  rw R14 1 custom
//@  | &'a \[Box<dyn OovProviderPlugin \+ Sync \+ Send>\]
//@  > &'a [Provider]
//@end

impl<'a> LatticeBuilder<'a> {
//@extract sudachi/src/analysis/stateful_tokenizer.rs :: impl<'a> LatticeBuilder<'a> :: fn provide_oovs
//@  rw Rgen 1 custom
//@  | fn provide_oovs<P>\(
//@  > fn provide_oovs(
//@  rw Rgen 1 custom
//@  | plugin: &P,
//@  > plugin: &Provider,
//@  rw Rgen 1 custom
//@  | where\s*P: OovProviderPlugin \+ 'a \+ \?Sized,
//@  >
//@  rw R7 1
//@  rw Rcl 1 custom
//@  | self\.node_buffer\[idx\]\.clone\(\)
//@  > node_clone(&self.node_buffer[idx])
//@  rw R14s 1 custom
//@  | node\.char_range\(\)\.len\(\)
//@  > (node.end() - node.begin())
//@  ret r
//@  spec
        requires
            builder_ok(*old(self)), (char_offset as int) < old(self).input.sp_nch(),
            lat_wf(*old(self).lattice, *old(self).matrix), old(self).lattice.size == old(self).input.sp_nch() + 1,
            provider_ok(*plugin, *old(self).input, *old(self).matrix),
            cost_bound(*old(self).lattice), frontier(*old(self).lattice, char_offset as int),
            rows_room(*old(self).lattice, plugin.sp_nodes(*old(self).input, char_offset as int, other)),
        ensures
            same_env(*old(self), *final(self)),
            r is Ok ==> ({
                let added = plugin.sp_nodes(*old(self).input, char_offset as int, other);
                &&& final(self).node_buffer@ == old(self).node_buffer@ + added
                &&& inserted(*old(self).lattice, *final(self).lattice, added)
                &&& r->Ok_0.bits == add_all(other.bits, added, added.len() as int)
                &&& lat_wf(*final(self).lattice, *final(self).matrix) && cost_bound(*final(self).lattice) && frontier(*final(self).lattice, char_offset as int)
                &&& final(self).lattice.size == old(self).lattice.size
            }),
//@  atstart
        let ghost b0 = *self;
        let ghost l0 = *self.lattice;
        let ghost nb0 = self.node_buffer@;
        let ghost other0 = other;
        let ghost added = plugin.sp_nodes(*self.input, char_offset as int, other);
        let ghost p = char_offset as int;
//@  after let num_provided
        proof { axiom_vec_len_fits(self.node_buffer); }
//@  loop 1
            invariant
                same_env(b0, *self), builder_ok(*self), p == char_offset, p < self.input.sp_nch(), added == plugin.sp_nodes(*self.input, p, other0),
                provider_ok(*plugin, *self.input, *self.matrix),
                self.node_buffer@ == nb0 + added, start_size == nb0.len(), __end_idx == start_size + added.len(), start_size <= __it_idx <= __end_idx,
                lat_wf(*self.lattice, *self.matrix), self.lattice.size == l0.size, l0.size == self.input.sp_nch() + 1,
                cost_bound(*self.lattice), frontier(*self.lattice, p),
                inserted(l0, *self.lattice, added.subrange(0, __it_idx - start_size)),
                other.bits == add_all(other0.bits, added, __it_idx - start_size),
                rows_room(l0, added), lat_wf(l0, *self.matrix),
            decreases __end_idx - __it_idx
//@  before let node = 
            let ghost j = idx - start_size;
            let ghost la = *self.lattice;
//@  before self.lattice.insert(node, self.matrix);
            proof {
                assert(node == added[j]);
                let en = node.end as int;
                lemma_no_overflow(la, *self.matrix, node);
                lemma_row_of_prefix_len(added, j, en);
                assert(la.ends@[en]@.len() == la.ends_full@[en]@.len());
                assert(l0.ends@[en]@.len() == l0.ends_full@[en]@.len());
                assert(la.ends_full@[en]@ == l0.ends_full@[en]@ + row_of(added.subrange(0, j), en));
                assert forall|e: int, k: int| has(la, e, k) implies (#[trigger] node_at(la, e, k)).begin != node.end by {}
            }
//@  after self.lattice.insert(node, self.matrix);
            proof {
                lemma_after_insert(la, *self.lattice, *self.matrix, added[j], self.lattice.ends@[added[j].end as int]@.last().total_cost, p);
                lemma_inserted_step(l0, la, *self.lattice, added, j);
            }
//@  atend
        proof { assert(added.subrange(0, added.len() as int) =~= added); }
//@end
}
} // verus!
fn main() {}
