// UNIT V-PSM (C07, C01, C08): plugin/input_text/prolonged_sound_mark/mod.rs  ProlongedSoundMarkPlugin::rewrite_impl and
// plugin/input_text/ignore_yomigana/mod.rs IgnoreYomiganaPlugin::rewrite_impl
// with the real InputEditor::replace_ref.  The regular expression is a model (ASSUMED: find_iter yields ordered, non-overlapping,
// in-range matches on character boundaries; WHICH stretches it matches - two or more prolonged sound marks - is not modelled).
// Decided: one edit per match, in order, replacing exactly the matched range by the replacement symbol, and the batch satisfies
// edits_ok - the hypothesis under which C01 / C08 are proved for the buffer (v_edit).
use vstd::prelude::*;
use vstd::utf8::*;
use vstd::string::*;
use std::ops::Range;
verus! {
//@include common/str_prelude.rs.inc
//@include common/error.rs.inc
//@extract sudachi/src/input_text/buffer/edit.rs :: struct ReplaceOp
//@end
//@extract sudachi/src/input_text/buffer/edit.rs :: enum ReplaceTgt
//@end
//@extract sudachi/src/input_text/buffer/edit.rs :: struct InputEditor
//@end
//@include specs/edit_specs.rs.inc
impl<'a> InputEditor<'a> {
//@extract sudachi/src/input_text/buffer/edit.rs :: impl<'a> InputEditor<'a> :: fn replace_ref
//@  spec
        ensures final(self).replaces@ == old(self).replaces@.push(ReplaceOp { what: range, with: ReplaceTgt::Ref(result) }),
//@end
}
#[verifier::external_body] pub struct InputBuffer { _p: () }
impl InputBuffer {
    pub uninterp spec fn sp_current(&self) -> Seq<u8>;
    #[verifier::external_body] fn current(&self) -> (r: &str) ensures r.spec_bytes() == self.sp_current() { unimplemented!() }
}
#[verifier::external_body] pub struct CharSetStd { _p: () }
/// R14: regex::Regex (model)
#[verifier::external_body] pub struct Regex { _p: () }
pub struct RMatch { pub s: usize, pub e: usize }
impl RMatch {
    fn range(&self) -> (r: Range<usize>) ensures r.start == self.s, r.end == self.e { self.s..self.e }
    fn start(&self) -> (r: usize) ensures r == self.s { self.s }
    fn end(&self) -> (r: usize) ensures r == self.e { self.e }
}
/// ordered, non-overlapping, inside the text, on character boundaries
spec fn matches_ok(ms: Seq<RMatch>, hay: Seq<u8>) -> bool {
    &&& forall|k: int| 0 <= k < ms.len() ==> (#[trigger] ms[k]).s <= ms[k].e <= hay.len() && is_char_boundary(hay, ms[k].s as int) && is_char_boundary(hay, ms[k].e as int)
    &&& forall|k: int, l: int| 0 <= k < l < ms.len() ==> (#[trigger] ms[k]).e <= (#[trigger] ms[l]).s
}
impl Regex {
    pub uninterp spec fn sp_find_all(&self, hay: Seq<u8>) -> Seq<RMatch>;
    /// R9r: `for m in re.find_iter(data)` over the collected matches (ASSUMED contract of regex find_iter)
    #[verifier::external_body]
    fn find_all(&self, hay: &str) -> (r: Vec<RMatch>) ensures r@ == self.sp_find_all(hay.spec_bytes()), matches_ok(r@, hay.spec_bytes()) { unimplemented!() }
}
//@extract sudachi/src/plugin/input_text/prolonged_sound_mark/mod.rs :: struct ProlongedSoundMarkPlugin
//@  derive
//@  rw R14 1 custom
//@  | HashSet<char>
//@  > CharSetStd
//@end

/// the edits e[from..] are one per match, in order: the matched range becomes the replacement symbol
spec fn psm_tail(e: Seq<ReplaceOp>, from: int, ms: Seq<RMatch>, n: int, sym: Seq<char>) -> bool {
    &&& e.len() == from + n
    &&& forall|k: int| 0 <= k < n ==> (#[trigger] e[from + k]).what.start == ms[k].s && e[from + k].what.end == ms[k].e
            && e[from + k].with is Ref && tgt_chars(e[from + k].with) == sym
}
impl ProlongedSoundMarkPlugin {
// R11: `impl InputTextPlugin for ProlongedSoundMarkPlugin { fn rewrite_impl }` checked as an inherent fn of the same body
//@extract sudachi/src/plugin/input_text/prolonged_sound_mark/mod.rs :: impl InputTextPlugin for ProlongedSoundMarkPlugin :: fn rewrite_impl
//@  twin
//@  rw R9r 1 custom
//@  | for m in re\.find_iter\(data\) \{
//@  > let __ms = re.find_all(data); let mut __im: usize = 0; while __im < __ms.len() { let m = &__ms[__im]; __im += 1;
//@  ret r
//@  spec
        requires
            self.regex is Some,     // set_up stores the expression before the plugin is used
            sbytes_of(&self.replace_symbol).len() <= with_max(),
        ensures
            r is Ok,
            ({
                let ms = self.regex->Some_0.sp_find_all(input.sp_current());
                let e0 = old(edit.replaces)@; let e1 = r->Ok_0.replaces@;
                // C07: one edit per match, appended in text order: the matched stretch becomes the replacement symbol
                &&& e1.subrange(0, e0.len() as int) == e0 && psm_tail(e1, e0.len() as int, ms, ms.len() as int, self.replace_symbol@)
                // C01 / C08: the batch this plugin appends is ordered, non-overlapping, in range and on character boundaries
                &&& edits_ok(e1.subrange(e0.len() as int, e1.len() as int), input.sp_current())
            }),
//@  atstart
        let ghost e0 = edit.replaces@;
        proof { assert(edit.replaces@.subrange(0, e0.len() as int) =~= e0); }
//@  loop 1
            invariant
                __ms@ == self.regex->Some_0.sp_find_all(input.sp_current()), matches_ok(__ms@, input.sp_current()), __im <= __ms@.len(),
                sbytes_of(&self.replace_symbol).len() <= with_max(),
                edit.replaces@.subrange(0, e0.len() as int) == e0, psm_tail(edit.replaces@, e0.len() as int, __ms@, __im as int, self.replace_symbol@),
            decreases __ms@.len() - __im
//@  before edit.replace_ref(
            let ghost eb = edit.replaces@;
//@  atend
        proof {
            let ms = __ms@; let n = ms.len() as int; let e1 = edit.replaces@;
            let t = e1.subrange(e0.len() as int, e1.len() as int);
            assert forall|k: int| 0 <= k < t.len() implies (#[trigger] t[k]) == e1[e0.len() + k] by { }
        }
//@end
}
spec fn sbytes_of(s: &String) -> Seq<u8> { encode_utf8(s@) }
// ---- plugin/input_text/ignore_yomigana/mod.rs  IgnoreYomiganaPlugin::rewrite_impl: the bracketed reading (capture group 1) is deleted
/// R14: regex captures (model).  ASSUMED: group 1 takes part in every match of the expression built by make_regex (it is not optional
/// there), and the group-1 ranges of successive matches are ordered, non-overlapping, in range and on character boundaries
pub struct RCaptures { pub g1: RMatch }
impl RCaptures { fn get(&self, i: usize) -> (r: Option<&RMatch>) requires i == 1 ensures r is Some, *r->Some_0 == self.g1 { Some(&self.g1) } }
spec fn groups_of(cs: Seq<RCaptures>) -> Seq<RMatch> { cs.map_values(|c: RCaptures| c.g1) }
impl Regex {
    pub uninterp spec fn sp_captures_all(&self, hay: Seq<u8>) -> Seq<RCaptures>;
    #[verifier::external_body]
    fn captures_all(&self, hay: &str) -> (r: Vec<RCaptures>) ensures r@ == self.sp_captures_all(hay.spec_bytes()), matches_ok(groups_of(r@), hay.spec_bytes()) { unimplemented!() }
}
#[verifier::external_body] pub struct CharacterCategory { _p: () }
//@extract sudachi/src/plugin/input_text/ignore_yomigana/mod.rs :: struct IgnoreYomiganaPlugin
//@  derive
//@  rw R14 2 custom
//@  | HashSet<char>
//@  > CharSetStd
//@end
impl IgnoreYomiganaPlugin {
//@extract sudachi/src/plugin/input_text/ignore_yomigana/mod.rs :: impl InputTextPlugin for IgnoreYomiganaPlugin :: fn rewrite_impl
//@  twin
//@  rw R9r 1 custom
//@  | for m in regex\.captures_iter\(data\) \{
//@  > let __ms = regex.captures_all(data); let mut __im: usize = 0; while __im < __ms.len() { let m = &__ms[__im]; __im += 1;
//@  ret r
//@  spec
        requires self.regex is Some,
        ensures
            r is Ok,
            ({
                let ms = groups_of(self.regex->Some_0.sp_captures_all(input.sp_current()));
                let e0 = old(edit.replaces)@; let e1 = r->Ok_0.replaces@;
                // C07: the reading in brackets after a kanji (capture group 1 of every match) is deleted, nothing else is touched
                &&& e1.subrange(0, e0.len() as int) == e0 && psm_tail(e1, e0.len() as int, ms, ms.len() as int, Seq::<char>::empty())
                &&& edits_ok(e1.subrange(e0.len() as int, e1.len() as int), input.sp_current())
            }),
//@  atstart
        let ghost e0 = edit.replaces@;
        proof { assert(edit.replaces@.subrange(0, e0.len() as int) =~= e0); reveal_strlit(""); }
//@  loop 1
            invariant
                __ms@ == self.regex->Some_0.sp_captures_all(input.sp_current()), matches_ok(groups_of(__ms@), input.sp_current()), __im <= __ms@.len(),
                ""@ == Seq::<char>::empty(),
                edit.replaces@.subrange(0, e0.len() as int) == e0, psm_tail(edit.replaces@, e0.len() as int, groups_of(__ms@), __im as int, Seq::<char>::empty()),
            decreases __ms@.len() - __im
//@  atend
        proof {
            let e1 = edit.replaces@;
            let t = e1.subrange(e0.len() as int, e1.len() as int);
            assert forall|k: int| 0 <= k < t.len() implies (#[trigger] t[k]) == e1[e0.len() + k] by { }
            assert(encode_utf8(Seq::<char>::empty()).len() == 0) by { reveal_with_fuel(encode_utf8, 2); }
        }
//@end
}

} // verus!
fn main() {}
