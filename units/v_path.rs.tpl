// UNIT V-PATH (C01, C02, C03, C13): analysis/stateful_tokenizer.rs  StatefulTokenizer::resolve_best_path
use vstd::prelude::*;
use vstd::string::*;
use std::ops::Range;
verus! {
global size_of usize == 8;
//@include common/error.rs.inc
//@include common/wordid_stub.rs.inc
//@include common/info_subset.rs.inc
//@include common/node_types.rs.inc
//@include common/vec_prelude_min.rs.inc
//@extract sudachi/src/analysis/inner.rs :: struct NodeIdx
//@end
//@extract sudachi/src/analysis/mod.rs :: enum Mode
//@  derive Clone, Copy, PartialEq, Eq, Structural
//@end
pub assume_specification<T> [std::mem::replace] (dest: &mut T, src: T) -> (r: T)
    ensures r == *old(dest), *final(dest) == src;
/// R9: `for x in v.drain(..)`
#[verifier::external_body]
fn drain_all<T>(v: &mut Vec<T>) -> (r: DrainAll<T>)
    ensures r.items() == old(v)@, r.pos() == 0, final(v)@.len() == 0
{ let mut rev: Vec<T> = v.drain(..).collect(); rev.reverse(); DrainAll { rev } }
/// R14s: slice::reverse
#[verifier::external_body]
fn vec_reverse<T>(v: &mut Vec<T>) ensures final(v)@ == old(v)@.reverse() { v.reverse(); }
/// Rcl: derive(Clone) on Node copies every field
#[verifier::external_body]
fn node_clone(n: &Node) -> (r: Node) ensures r == *n { n.clone() }
/// R13: str::to_owned
#[verifier::external_body]
fn str_to_owned(s: &str) -> (r: String) ensures r@ == s@ { s.to_owned() }

// ---- opaque collaborators; contracts as discharged in units v_lattice (fill_top_path, node), v_bufro (to_curr_byte_idx), v_lset
#[verifier::external_body] pub struct Lattice { _p: () }
impl Lattice {
    /// back-pointer chain of the chosen path, EOS side first (v_lattice: chain(l, eos idx)); empty if no EOS was connected
    uninterp spec fn sp_chain(&self) -> Seq<NodeIdx>;
    uninterp spec fn sp_node(&self, id: NodeIdx) -> Node;
    uninterp spec fn sp_cost(&self, id: NodeIdx) -> i32;
    #[verifier::external_body]
    fn fill_top_path(&self, result: &mut Vec<NodeIdx>) ensures final(result)@ == old(result)@ + self.sp_chain() { unimplemented!() }
    #[verifier::external_body]
    fn node(&self, id: NodeIdx) -> (r: (&Node, i32)) ensures *r.0 == self.sp_node(id), r.1 == self.sp_cost(id) { unimplemented!() }
}
#[verifier::external_body] pub struct InputBuffer { _p: () }
impl InputBuffer {
    uninterp spec fn sp_nch(&self) -> int;
    uninterp spec fn sp_c2b(&self, i: int) -> int;            // char index -> byte offset in the normalised text (v_bufro: mod_c2b)
    uninterp spec fn sp_slice_c(&self, a: int, b: int) -> Seq<char>;
    #[verifier::external_body]
    fn to_curr_byte_idx(&self, index: usize) -> (r: usize)
        requires index <= self.sp_nch()
        ensures r == self.sp_c2b(index as int), r <= 65535
    { unimplemented!() }
    #[verifier::external_body]
    fn curr_slice_c(&self, data: Range<usize>) -> (r: &str)
        requires data.start <= data.end <= self.sp_nch()
        ensures r@ == self.sp_slice_c(data.start as int, data.end as int)
    { unimplemented!() }
}
#[verifier::external_body] pub struct LexiconSet<'a> { _p: core::marker::PhantomData<&'a ()> }
impl<'a> LexiconSet<'a> {
    uninterp spec fn sp_word_info(&self, id: WordId, subset: InfoSubset) -> WordInfo;
    #[verifier::external_body]
    fn get_word_info_subset(&self, id: WordId, subset: InfoSubset) -> (r: SudachiResult<WordInfo>)
        ensures r is Ok ==> r->Ok_0 == self.sp_word_info(id, subset)
    { unimplemented!() }
}
trait DictionaryAccess {
    spec fn sp_lexicon(&self) -> LexiconSet<'_>;
    fn lexicon(&self) -> (r: &LexiconSet<'_>) ensures *r == self.sp_lexicon();
}

//@extract sudachi/src/analysis/stateful_tokenizer.rs :: struct StatefulTokenizer
//@end

/// what the k-th token of the result must be, given the k-th lattice node of the chosen path (text order)
spec fn token_ok<D: DictionaryAccess>(t: StatefulTokenizer<D>, id: NodeIdx, n: ResultNode) -> bool {
    let inner = t.lattice.sp_node(id);
    &&& n.inner == inner
    // C02: the reported cumulative cost is the lattice's stored cumulative cost of that node
    &&& n.total_cost == t.lattice.sp_cost(id)
    // C01: byte range = byte offsets of the node's first and one-past-last character, without u16 truncation
    &&& n.begin_bytes as int == t.input.sp_c2b(inner.begin as int) && n.end_bytes as int == t.input.sp_c2b(inner.end as int)
    // C13: an OOV token reports the configured part of speech and the normalised text as its surface; a dictionary token its record
    &&& (wid_dic(inner.word_id) == 0xf ==> n.word_info.data.pos_id == wid_word(inner.word_id) as u16
            && n.word_info.data.surface@ == t.input.sp_slice_c(inner.begin as int, inner.end as int)
            && n.word_info.data.head_word_length == 0)
    &&& (wid_dic(inner.word_id) != 0xf ==> n.word_info == t.dictionary.sp_lexicon().sp_word_info(inner.word_id, t.subset))
}
#[verifier::external_body] fn string_new() -> (r: String) ensures r@.len() == 0 { String::new() }

impl<D: DictionaryAccess> StatefulTokenizer<D> {
//@extract sudachi/src/analysis/stateful_tokenizer.rs :: impl<D: DictionaryAccess> StatefulTokenizer<D> :: fn resolve_best_path
//@  rw R14c 1 custom
//@  | std::mem::replace\(&mut self\.top_path, None\)\.unwrap_or_else\(\|\| Vec::new\(\)\)
//@  > match std::mem::replace(&mut self.top_path, None) { Some(__v) => __v, None => Vec::new() }
//@  rw R14s * custom
//@  | self\.top_path_ids\.reverse\(\);
//@  > vec_reverse(&mut self.top_path_ids);
//@  rw R9 1 custom
//@  | for pid in self\.top_path_ids\.drain\(\.\.\) \{
//@  > let mut __d = drain_all(&mut self.top_path_ids); while __d.has_next() { let pid = __d.take_next();
//@  rw R13 1 custom
//@  | self\.input\.curr_slice_c\(([^;]+?)\)\.to_owned\(\);
//@  > str_to_owned(self.input.curr_slice_c(\1));
//@  rw Rd 1 custom
//@  | \.\.Default::default\(\)
//@  > head_word_length: 0, normalized_form: string_new(), dictionary_form_word_id: 0, dictionary_form: string_new(), reading_form: string_new(), a_unit_split: Vec::new(), b_unit_split: Vec::new(), word_structure: Vec::new(), synonym_group_ids: Vec::new(),
//@  rw R11 1 custom
//@  | \}\s*\.into\(\)
//@  > }.into_word_info()
//@  rw Rcl 1 custom
//@  | inner\.clone\(\)
//@  > node_clone(inner)
//@  ret r
//@  spec
        requires
            old(self).top_path_ids@.len() == 0,
            // every node of the chosen path lies inside the text (established by the lattice builder)
            forall|k: int| 0 <= k < old(self).lattice.sp_chain().len() ==>
                (#[trigger] old(self).lattice.sp_node(old(self).lattice.sp_chain()[k])).begin <= old(self).lattice.sp_node(old(self).lattice.sp_chain()[k]).end
                && (old(self).lattice.sp_node(old(self).lattice.sp_chain()[k]).end as int) <= old(self).input.sp_nch(),
        ensures
            final(self).top_path_ids@.len() == 0, final(self).top_path is None,
            final(self).lattice == old(self).lattice, final(self).input == old(self).input, final(self).subset == old(self).subset,
            final(self).mode == old(self).mode, final(self).dictionary == old(self).dictionary,
            r is Ok ==> ({
                let base = if old(self).top_path is Some { old(self).top_path->Some_0@ } else { Seq::<ResultNode>::empty() };
                let ids = old(self).lattice.sp_chain().reverse();
                &&& r->Ok_0@.len() == base.len() + ids.len()
                &&& r->Ok_0@.subrange(0, base.len() as int) == base
                // one token per lattice node of the chosen path, in text order
                &&& forall|k: int| 0 <= k < ids.len() ==> token_ok(*old(self), ids[k], #[trigger] r->Ok_0@[base.len() + k])
            }),
//@  atstart
        let ghost t0 = *self;
        let ghost base = if self.top_path is Some { self.top_path->Some_0@ } else { Seq::<ResultNode>::empty() };
        let ghost ids = self.lattice.sp_chain().reverse();
//@  loop 1
            invariant
                __d.items() == ids, 0 <= __d.pos() <= ids.len(), self.top_path_ids@.len() == 0, self.top_path is None,
                self.lattice == t0.lattice, self.input == t0.input, self.subset == t0.subset, self.mode == t0.mode, self.dictionary == t0.dictionary,
                *lex == t0.dictionary.sp_lexicon(), ids == t0.lattice.sp_chain().reverse(),
                forall|k: int| 0 <= k < ids.len() ==> (#[trigger] t0.lattice.sp_node(ids[k])).begin <= t0.lattice.sp_node(ids[k]).end
                    && (t0.lattice.sp_node(ids[k]).end as int) <= t0.input.sp_nch(),
                path@.len() == base.len() + __d.pos(), path@.subrange(0, base.len() as int) == base,
                forall|k: int| 0 <= k < __d.pos() ==> token_ok(t0, ids[k], #[trigger] path@[base.len() + k]),
            decreases ids.len() - __d.pos()
//@  before let (inner, cost) = self.lattice.node(pid);
            let ghost k = __d.pos() - 1;
            let ghost p_before = path@;
//@  after )); #4
            proof {
                assert(path@.subrange(0, base.len() as int) =~= base);
                assert forall|kk: int| 0 <= kk < __d.pos() implies token_ok(t0, ids[kk], #[trigger] path@[base.len() + kk]) by {
                    if kk < k { assert(path@[base.len() + kk] == p_before[base.len() + kk]); }
                }
            }
//@end
}
impl WordInfoData {
    /// R11: `WordInfoData { .. }.into()`  (From<WordInfoData> for WordInfo)
    fn into_word_info(self) -> (r: WordInfo) ensures r.data == self { WordInfo::from(self) }
}
} // verus!
fn main() {}
