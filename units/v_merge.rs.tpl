// UNIT V-MERGE (C12): dic/grammar.rs Grammar::merge / register_pos, util/user_pos.rs handle_user_pos,
//                     dic/dictionary.rs JapaneseDictionary::merge_user_dictionary
use vstd::prelude::*;
use vstd::string::*;
verus! {
global size_of usize == 8;
//@include common/error.rs.inc
//@include common/wordid_stub.rs.inc
//@include common/info_subset.rs.inc
//@extract sudachi/src/dic/lexicon/word_infos.rs :: struct WordInfoData
//@  derive
//@end
//@extract sudachi/src/dic/lexicon/word_infos.rs :: struct WordInfo
//@  derive
//@end
//@extract sudachi/src/dic/lexicon/mod.rs :: const MAX_DICTIONARIES
//@end
//@extract sudachi/src/dic/mod.rs :: const POS_DEPTH
//@end
impl From<LexiconSetError> for SudachiError { #[verifier::external_body] fn from(e: LexiconSetError) -> SudachiError { SudachiError::LexiconSetError(e) } }
#[verifier::external_body] fn err_string() -> String { String::new() }   // R12: message texts are not verified

// opaque collaborators (R14): their content plays no role in the part-of-speech bookkeeping
#[verifier::external_body] pub struct ConnectionMatrix<'a> { _p: core::marker::PhantomData<&'a ()> }
#[verifier::external_body] pub struct CharacterCategory { _p: () }
#[verifier::external_body] pub struct Header { _p: () }
#[verifier::external_body] pub struct SudachiDicData { _p: () }
#[verifier::external_body] pub struct Plugins { _p: () }

//@extract sudachi/src/dic/grammar.rs :: struct Grammar
//@end

/// a part of speech is its list of component strings
spec fn pos_same(a: Vec<String>, b: Seq<String>) -> bool {
    a@.len() == b.len() && forall|k: int| 0 <= k < b.len() ==> (#[trigger] a@[k])@ == b[k]@
}
/// a loaded grammar: every part of speech has six components, and the ids fit 16 bits
spec fn pos6(l: Seq<Vec<String>>) -> bool { l.len() <= 65536 && forall|i: int| 0 <= i < l.len() ==> (#[trigger] l[i])@.len() == 6 }
spec fn is_prefix<T>(a: Seq<T>, b: Seq<T>) -> bool { a.len() <= b.len() && forall|i: int| 0 <= i < a.len() ==> b[i] == a[i] }

/// `Vec::extend(Vec)`: appends the elements of the argument in order (trusted std)
#[verifier::external_body]
fn vec_extend_owned<T>(v: &mut Vec<T>, o: Vec<T>)
    ensures final(v)@ == old(v)@ + o@
{ v.extend(o) }
/// `pos.iter().map(|x| x.to_string()).collect()`: the component strings, in order (trusted std)
#[verifier::external_body]
fn to_components(pos: &[String]) -> (r: Vec<String>)
    ensures pos_same(r, pos@)
{ pos.iter().map(|x| x.to_string()).collect() }

/// R14z: `a.iter().zip(b).all(|(x, y)| x.as_ref() == y)`: true iff the two lists agree on their common prefix (std zip / all)
#[verifier::external_body]
fn zip_all_equal(a: &[String], b: &Vec<String>) -> (r: bool)
    ensures r == (forall|k: int| 0 <= k < a@.len() && k < b@.len() ==> (#[trigger] a@[k])@ == b@[k]@)
{ a.iter().zip(b).all(|(x, y)| x == y) }

impl<'a> Grammar<'a> {
// the real loop and length guard; the iterator chain `a.iter().zip(b).all(|(x, y)| x.as_ref() == y)` is an ASSUMED helper
// (zip_all_equal: componentwise equality over the common prefix)
//@extract sudachi/src/dic/grammar.rs :: impl<'a> Grammar<'a> :: fn get_part_of_speech_id
//@  rw Rgen 1 custom
//@  | fn get_part_of_speech_id<S>\(&self, pos1: &\[S\]\) -> Option<u16>\s*where\s*S: AsRef<str>,
//@  > fn get_part_of_speech_id(&self, pos1: &[String]) -> Option<u16>
//@  rw R14z 1 custom
//@  | pos1\.iter\(\)\.zip\(pos2\)\.all\(\|\(a, b\)\| a\.as_ref\(\) == b\)
//@  > zip_all_equal(pos1, pos2)
//@  rw R6 1
//@  ret r
//@  spec
        requires pos6(self.pos_list@)
        ensures
            r is Some ==> (r->Some_0 as int) < self.pos_list@.len() && pos_same(self.pos_list@[r->Some_0 as int], pos1@),
            r is None ==> forall|i: int| 0 <= i < self.pos_list@.len() ==> !pos_same(#[trigger] self.pos_list@[i], pos1@),
//@  loop 1
            invariant
                pos1@.len() == 6, pos6(self.pos_list@), __it_i <= self.pos_list@.len(),
                forall|i: int| 0 <= i < __it_i ==> !pos_same(#[trigger] self.pos_list@[i], pos1@),
            decreases self.pos_list@.len() - __it_i
//@end

//@extract sudachi/src/dic/grammar.rs :: impl<'a> Grammar<'a> :: fn register_pos
//@  rw Rgen 1 custom
//@  | fn register_pos<S>\(&mut self, pos: &\[S\]\) -> SudachiResult<u16>\s*where\s*S: AsRef<str> \+ ToString,
//@  > fn register_pos(&mut self, pos: &[String]) -> SudachiResult<u16>
//@  rw R12 1 custom
//@  | pos\.iter\(\)\.map\(\|x\| x\.as_ref\(\)\)\.join\(","\)
//@  > err_string()
//@  rw R12 1 custom
//@  | "Too much POS tags registered"\.to_owned\(\)
//@  > err_string()
//@  rw R14 1 custom
//@  | pos\.iter\(\)\.map\(\|x\| x\.to_string\(\)\)\.collect\(\)
//@  > to_components(pos)
//@  ret r
//@  specfile specs/register_pos.contract
//@end

//@extract sudachi/src/dic/grammar.rs :: impl<'a> Grammar<'a> :: fn merge
//@  rw R14 1 custom
//@  | self\.pos_list\.extend\(other\.pos_list\);
//@  > vec_extend_owned(&mut self.pos_list, other.pos_list);
//@  spec
        ensures
            // the other grammar's parts of speech are appended, in order, after everything registered so far
            final(self).pos_list@ == old(self).pos_list@ + other.pos_list@,
//@end

// R11: `impl UserPosSupport for &mut Grammar` checked as an inherent fn of Grammar (same body; `self` auto-derefs)
//@extract sudachi/src/util/user_pos.rs :: impl<'a> UserPosSupport for &'a mut Grammar<'_> :: fn handle_user_pos
//@  twin
//@  rw Rgen 1 custom
//@  | fn handle_user_pos<S: AsRef<str> \+ ToString \+ Display>\(\s*&mut self,\s*pos: &\[S\],
//@  > fn handle_user_pos(&mut self, pos: &[String],
//@  rw R12 1 custom
//@  | format!\(\s*"POS \{\} was not in the dictionary, user-defined POS are forbidden",\s*pos\.iter\(\)\.join\(","\)\s*\)
//@  > err_string()
//@  ret r
//@  spec
        requires pos6(old(self).pos_list@)
        ensures
            pos6(final(self).pos_list@),
            // whatever happens, ids handed out earlier keep their meaning
            is_prefix(old(self).pos_list@, final(self).pos_list@),
            final(self).pos_list@.len() <= old(self).pos_list@.len() + 1,
            // success: the id names exactly the requested part of speech
            r is Ok ==> (r->Ok_0 as int) < final(self).pos_list@.len() && pos_same(final(self).pos_list@[r->Ok_0 as int], pos@),
            // forbid mode never registers anything
            mode == UserPosMode::Forbid ==> final(self).pos_list@ == old(self).pos_list@,
            r is Err ==> final(self).pos_list@ == old(self).pos_list@,
//@end
}

//@extract sudachi/src/util/user_pos.rs :: enum UserPosMode
//@  derive Clone, Copy, PartialEq, Eq, Structural
//@end

/// opaque collaborator: one lexicon
#[verifier::external_body] pub struct AbstractRest { _p: () }
pub struct Lexicon<'a> { lex_id: u8, _rest: AbstractRest, _p: core::marker::PhantomData<&'a ()> }
impl<'a> Lexicon<'a> {
    uninterp spec fn sp_info(&self, word_id: u32, subset: InfoSubset) -> WordInfo;
    /// ASSUMED: rewrites the cost column only (tokenizes each surface with the dictionary merged so far)
    #[verifier::external_body]
    fn update_cost(&mut self, dict: &JapaneseDictionary) -> (r: SudachiResult<()>)
        ensures final(self).lex_id == old(self).lex_id, forall|w: u32, s: InfoSubset| final(self).sp_info(w, s) == old(self).sp_info(w, s)
    { unimplemented!() }
}
//@extract sudachi/src/dic/lexicon_set.rs :: struct LexiconSet
//@end
//@include specs/lset_specs.rs.inc
impl<'a> LexiconSet<'a> {
//@extract sudachi/src/dic/lexicon_set.rs :: impl<'a> LexiconSet<'a> :: fn append
//@  ret r
//@  stub v_lset
//@  specfile specs/lset_append.contract
//@end
}

//@extract sudachi/src/dic/mod.rs :: struct DictionaryLoader
//@end
/// parts of speech declared by the user dictionary stored in `bytes` (empty when it has no grammar section)
uninterp spec fn ud_pos(bytes: Seq<u8>) -> Seq<Vec<String>>;
spec fn gram_pos(g: Option<Grammar>) -> Seq<Vec<String>> { match g { Some(g) => g.pos_list@, None => Seq::empty() } }
impl<'a> DictionaryLoader<'a> {
    /// ASSUMED (binary reader, C05): the loaded grammar section carries the dictionary's own part-of-speech list
    #[verifier::external_body]
    fn read_user_dictionary(dictionary_bytes: &'a [u8]) -> (r: SudachiResult<DictionaryLoader<'a>>)
        ensures r is Ok ==> gram_pos(r->Ok_0.grammar) == ud_pos(dictionary_bytes@)
    { unimplemented!() }
}

//@extract sudachi/src/dic/dictionary.rs :: struct JapaneseDictionary
//@end

/// C12, merge step: what adding one user dictionary does to the numbering
spec fn merged_ok(before: JapaneseDictionary, after: JapaneseDictionary, bytes: Seq<u8>) -> bool {
    let n = before._lexicon.lexicons@.len() as int;
    // the new dictionary gets the next number; the ones before keep theirs and their offsets
    &&& after._lexicon.lexicons@.len() == n + 1
    &&& after._lexicon.lexicons@.last().lex_id == n
    &&& after._lexicon.lexicons@.subrange(0, n) == before._lexicon.lexicons@
    &&& ids_ok(after._lexicon)
    &&& after._lexicon.num_system_pos == before._lexicon.num_system_pos
    // its part-of-speech offset is the number of parts of speech present before the merge
    // (system + plugin-registered + earlier user dictionaries) ...
    &&& after._lexicon.pos_offsets@.len() == n + 1 && after._lexicon.pos_offsets@.subrange(0, n) == before._lexicon.pos_offsets@
    &&& after._lexicon.pos_offsets@[n] as int == before._grammar.pos_list@.len()
    // ... and its own parts of speech are appended there, in order
    &&& after._grammar.pos_list@ == before._grammar.pos_list@ + ud_pos(bytes)
}

impl JapaneseDictionary {
//@extract sudachi/src/dic/dictionary.rs :: impl JapaneseDictionary :: fn merge_user_dictionary
//@  rw R10 1 custom
//@  | \(mut self, dictionary_bytes
//@  > (self, dictionary_bytes
//@  rw R10 3 custom
//@  | \bself\._
//@  > __self._
//@  rw R10 1 custom
//@  | update_cost\(&self\)
//@  > update_cost(&__self)
//@  rw R10 1 custom
//@  | Ok\(self\)
//@  > Ok(__self)
//@  ret r
//@  atstart
        let mut __self = self;
//@  atend
        proof {
            let n = self._lexicon.lexicons@.len() as int;
            assert(__self._lexicon.pos_offsets@.subrange(0, n) =~= self._lexicon.pos_offsets@);
            assert(__self._grammar.pos_list@ =~= self._grammar.pos_list@ + ud_pos(dictionary_bytes@));
        }
//@  spec
        requires ids_ok(self._lexicon),
        ensures
            r is Ok ==> merged_ok(self, r->Ok_0, dictionary_bytes@),
            // a 15th user dictionary is rejected with an error
            self._lexicon.lexicons@.len() >= 15 ==> r is Err,
//@end
}

/// C12, consequence for every user word: a part of speech numbered p >= num_system_pos in the new user dictionary (the builder
/// numbers its own parts of speech after the system ones, in the order of its grammar section) is reported, after rebasing
/// (LexiconSet::get_word_info_subset, unit v_lset), as exactly the strings that dictionary declared; every id that existed before
/// the merge (system, plugin-registered, earlier user dictionaries) still names the same strings.
proof fn theorem_user_pos_resolves(before: JapaneseDictionary, after: JapaneseDictionary, bytes: Seq<u8>, p: u16)
    requires
        ids_ok(before._lexicon), merged_ok(before, after, bytes),
        p as int >= before._lexicon.num_system_pos, (p as int - before._lexicon.num_system_pos) < ud_pos(bytes).len(),
    ensures
        ({
            let d = before._lexicon.lexicons@.len() as u8;
            let k = rebased_pos(after._lexicon, d, p);
            0 <= k < after._grammar.pos_list@.len() && after._grammar.pos_list@[k] == ud_pos(bytes)[p as int - before._lexicon.num_system_pos]
        }),
        forall|i: int| 0 <= i < before._grammar.pos_list@.len() ==> after._grammar.pos_list@[i] == before._grammar.pos_list@[i],
        forall|j: int| 0 <= j < before._lexicon.lexicons@.len() ==> after._lexicon.pos_offsets@[j] == before._lexicon.pos_offsets@[j],
{
    let n = before._lexicon.lexicons@.len() as int;
    assert(before._lexicon.pos_offsets@.len() == n);
    assert forall|j: int| 0 <= j < n implies after._lexicon.pos_offsets@[j] == before._lexicon.pos_offsets@[j] by {
        assert(after._lexicon.pos_offsets@.subrange(0, n)[j] == before._lexicon.pos_offsets@[j]);
    }
    assert(n as u8 > 0 && n as u8 as int == n);
}
} // verus!
fn main() {}
