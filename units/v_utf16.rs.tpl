// UNIT V-UTF16 (C05, C06): dic/build/primitives.rs Utf16Writer::write (the UTF-16 payload encoder, its two loops),
//                          dic/read/u16str.rs U16CodeUnits::new / next (the code-unit reader)  -- against the CONCRETE codec
//                          definitions (specs/codec_wr.rs.inc, codec_rd.rs.inc); the string round trip is lemma_dec_str.
use vstd::prelude::*;
use vstd::string::*;
use vstd::utf8::*;
use vstd::slice::*;
verus! {
//@include common/str_prelude.rs.inc
//@include common/wordid_stub_min.rs.inc
//@include common/build_prelude.rs.inc
use BuildFailure::InvalidSize;
//@include specs/wi_format_cursor.rs.inc
//@include specs/codec_wr.rs.inc
//@include specs/codec_wr32.rs.inc
spec fn le32s(vals: Seq<u32>, k: int) -> Seq<u8> decreases k { if k <= 0 { Seq::empty() } else { le32s(vals, k - 1) + le32(vals[k - 1]) } }
proof fn lemma_le32s_len(vals: Seq<u32>, k: int) requires 0 <= k <= vals.len() ensures le32s(vals, k).len() == 4 * k decreases k
{ if k > 0 { lemma_le32s_len(vals, k - 1); lemma_le32_len(vals[k - 1]); } }
//@include specs/codec_lemmas.rs.inc

/// R13: `S.chars()` collected: the characters of the text in order, each at least one byte long (ASSUMED std)
#[verifier::external_body]
fn str_chars_vec(s: &str) -> (r: Vec<char>) ensures r@ == s@, r@.len() <= s.spec_bytes().len() { s.chars().collect() }
/// R14: `C.encode_utf16(&mut scratch)` copied out: the one or two code units of a character (ASSUMED std; checked for EVERY char
/// against this arithmetic definition by the complete Kani harness k_codec::encode_utf16_is_enc16)
#[verifier::external_body]
fn char_encode_utf16(c: char) -> (r: Vec<u16>) ensures r@ == enc16(c) { let mut b = [0u16; 2]; c.encode_utf16(&mut b).to_vec() }
/// a character has at most two UTF-16 code units
proof fn lemma_units_bound(s: Seq<char>) ensures units_of(s).len() <= 2 * s.len() decreases s.len()
{ if s.len() > 0 { lemma_units_bound(s.drop_last()); } }

//@extract sudachi/src/dic/build/primitives.rs :: struct Utf16Writer
//@end
impl Utf16Writer {
//@extract sudachi/src/dic/build/primitives.rs :: impl Utf16Writer :: fn write_len
//@  rw R15 1 custom
//@  | <W: Write>
//@  > <W: VWrite>
//@  stub v_wiw
//@  ret r
//@  spec
        ensures
            length > 32767 ==> r is Err,
            r is Ok ==> length <= 32767 && final(w).sink() == old(w).sink() + enc_len(length as u16) && r->Ok_0 == enc_len(length as u16).len(),
//@end
//@extract sudachi/src/dic/build/primitives.rs :: impl Utf16Writer :: fn write
//@  rw R15 1 custom
//@  | <W: Write, T: AsRef<str>>\(&mut self, w: &mut W, data: T\)
//@  > <W: VWrite>(&mut self, w: &mut W, data: &str)
//@  rw R15 1 custom
//@  | let str_data: &str = data\.as_ref\(\);
//@  > let str_data: &str = data;
//@  rw R13 1 custom
//@  | for c in str_data\.chars\(\) \{
//@  > let __cs = str_chars_vec(str_data); let mut __ic: usize = 0; while __ic < __cs.len() { let c = __cs[__ic]; __ic += 1;
//@  rw R14 1 custom
//@  | for u16c in c\.encode_utf16\(&mut scratch\) \{
//@  > let __eu = char_encode_utf16(c); let mut __iu: usize = 0; while __iu < __eu.len() { let u16c = &__eu[__iu]; __iu += 1;
//@  rw R14 1 custom
//@  | self\.buffer\.extend_from_slice\(&u16c\.to_le_bytes\(\)\);
//@  > self.buffer.extend_from_slice(u16_to_le_bytes(*u16c).as_slice());
//@  rw R15 1 custom
//@  | w\.write_all\(&self\.buffer\)\?;
//@  > w.write_all(self.buffer.as_slice())?;
//@  ret r
//@  specfile specs/utf16_write.contract
//@  atstart
        let ghost s0 = w.sink();
        proof { axiom_str_len_fits(data); }
//@  loop 1
        invariant
            __cs@ == data@, __ic <= __cs@.len(), str_data@ == data@,
            self.buffer@ == le16s(units_of(data@.subrange(0, __ic as int))),
            length == units_of(data@.subrange(0, __ic as int)).len(),
            w.sink() == s0, __cs@.len() <= 4 * 64 * 1024,
        decreases __cs@.len() - __ic
//@  loop 2
        invariant
            __cs@ == data@, 0 < __ic <= __cs@.len(), c == data@[__ic - 1], __eu@ == enc16(c), __iu <= __eu@.len(),
            self.buffer@ == le16s(units_of(data@.subrange(0, __ic - 1)) + __eu@.subrange(0, __iu as int)),
            length == units_of(data@.subrange(0, __ic - 1)).len() + __iu,
            w.sink() == s0, __cs@.len() <= 4 * 64 * 1024, units_of(data@.subrange(0, __ic - 1)).len() <= 2 * (__ic - 1),
        decreases __eu@.len() - __iu
//@  before let __eu = char_encode_utf16(c);
        proof {
            lemma_units_bound(data@.subrange(0, __ic - 1));
            assert(units_of(data@.subrange(0, __ic - 1)) + Seq::<u16>::empty() =~= units_of(data@.subrange(0, __ic - 1)));
        }
//@  after self.buffer.extend_from_slice(
        proof {
            let ghost pre = units_of(data@.subrange(0, __ic - 1));
            let ghost a = pre + __eu@.subrange(0, __iu as int);
            assert(a.drop_last() =~= pre + __eu@.subrange(0, __iu - 1));
            assert(a.last() == *u16c);
        }
//@  afterloop 2
        proof {
            let ghost sub = data@.subrange(0, __ic as int);
            assert(sub.drop_last() =~= data@.subrange(0, __ic - 1));
            assert(sub.last() == c);
            assert(__eu@.subrange(0, __iu as int) =~= __eu@);
        }
//@  afterloop 1
        proof {
            assert(data@.subrange(0, __ic as int) =~= data@);
            reveal(enc_str);
            lemma_le16s_len(units_of(data@));
        }
//@  atend
        proof {
            assert(s0 + enc_len(length as u16) + self.buffer@ =~= s0 + (enc_len(length as u16) + self.buffer@));
        }
//@end
}

// ----- the code-unit reader -----
/// R14: `u16::from_le_bytes([p1, p2])` (ASSUMED std; checked for every pair of bytes by k_codec::from_le_bytes_is_u16_of)
#[verifier::external_body]
fn u16_from_le(p1: u8, p2: u8) -> (r: u16) ensures r == u16_of(p1, p2) { u16::from_le_bytes([p1, p2]) }
//@extract sudachi/src/dic/read/u16str.rs :: struct U16CodeUnits
//@end
impl<'a> U16CodeUnits<'a> {
    /// what is left to read: the code units from the current offset on
    spec fn rest(&self) -> Seq<u16> { units_le(self.data@.subrange(self.offset as int, self.data@.len() as int)) }
    spec fn wf(&self) -> bool { self.offset <= self.data@.len() && self.data@.len() % 2 == 0 && self.offset % 2 == 0 }
//@extract sudachi/src/dic/read/u16str.rs :: impl<'a> U16CodeUnits<'a> :: fn new
//@  ret r
//@  spec
        requires data@.len() % 2 == 0,
        ensures r.wf(), r.rest() == units_le(data@),
//@  atend
        proof { assert(data@.subrange(0, data@.len() as int) =~= data@); }
//@end
//@extract sudachi/src/dic/read/u16str.rs :: impl Iterator for U16CodeUnits<'_> :: fn next
//@  twin
//@  rw R14 1 custom
//@  | u16::from_le_bytes\(\[(\w+), (\w+)\]\)
//@  > u16_from_le(\1, \2)
//@  rw R11 1 custom
//@  | Option<Self::Item>
//@  > Option<u16>
//@  ret r
//@  spec
        requires old(self).wf(),
        ensures
            final(self).wf(), final(self).data@ == old(self).data@,
            // the iterator yields the code units of the payload in order, low byte first, and ends exactly at its end
            old(self).rest().len() == 0 ==> r is None && final(self).rest().len() == 0,
            old(self).rest().len() > 0 ==> r == Some(old(self).rest()[0]) && final(self).rest() == old(self).rest().skip(1),
//@  atend
        proof {
            let ghost d = self.data@; let ghost o = old(self).offset as int;
            assert(old(self).rest().len() == (d.len() - o) / 2);
            assert(final(self).rest() =~= old(self).rest().skip(1));
        }
//@end
}

/// C05, string level: what `Utf16Writer::write` put into the sink for a text is read back as that text by the record reader's
/// string decoder `dec_str` - the contract of write (proved above on the real loops) composed with lemma_dec_str
proof fn theorem_string_roundtrip(s: Seq<char>, before: Seq<u8>, after: Seq<u8>, rest: Seq<u8>)
    requires after == before + enc_str(s), str_fits(s)
    ensures exists|field: Seq<u8>| after == before + field && dec_str(field + rest) == Some((rest, s))
{ lemma_dec_str(s, rest); }

} // verus!
fn main() {}
