    // BOUNDED replay oracle for unit v_utf16 (C05 / C06): a string written by the real Utf16Writer::write is
    //   (a) the documented length prefix (number of UTF-16 code units) followed by std's UTF-16LE encoding, computed independently here,
    //   (b) read back by the real utf16_string_parser as the same text, leaving exactly the appended tail,
    //   (c) skipped by skip_u16_string to the same place.
    // Texts: every combination of up to 3 characters from a 9-character alphabet spanning the 1-, 2-, 3- and 4-byte UTF-8 classes
    // (incl. U+FFFF, U+10000, U+10FFFF, the last character below and first above the surrogate gap), repeated to lengths around the
    // one- / two-byte prefix boundary (126, 127, 128 units) and the limit (32767 / 32768 units); the writer is REUSED across strings.
    #[test]
    fn verif_oracle_utf16_write_read() {
        use crate::dic::read::u16str::{skip_u16_string, utf16_string_parser};
        let alphabet: Vec<char> = vec!['a', '\u{7f}', '\u{80}', 'あ', '\u{d7ff}', '\u{e000}', '\u{ffff}', '\u{10000}', '\u{10ffff}'];
        let mut texts: Vec<String> = vec![String::new()];
        for &a in &alphabet { texts.push(a.to_string()); for &b in &alphabet { texts.push([a, b].iter().collect()); for &c in &alphabet { texts.push([a, b, c].iter().collect()); } } }
        for &a in &alphabet {
            let per = a.len_utf16();
            for units in [126usize, 127, 128, 129, 255, 256, 257, 32766, 32767, 32768, 32769] {
                let n = units / per;
                let mut s: String = std::iter::repeat(a).take(n).collect();
                if per == 2 && units % 2 == 1 { s.push('z'); }
                texts.push(s);
            }
        }
        let tail: Vec<u8> = vec![0xAB, 0xCD, 0xEF];
        let mut failures: Vec<String> = Vec::new();
        let mut wr = Utf16Writer::new();
        let mut n = 0usize;
        for t in &texts {
            n += 1;
            let units: Vec<u16> = t.encode_utf16().collect();
            let mut sink: Vec<u8> = Vec::new();
            let res = wr.write(&mut sink, t.as_str());
            let label = if t.chars().count() <= 3 { format!("{:?}", t) } else { format!("{} x {:?} ({} units)", t.chars().count(), t.chars().next().unwrap(), units.len()) };
            match res {
                Err(_) => { if units.len() <= 32767 && failures.len() < 20 { failures.push(format!("{}: refused although it has {} <= 32767 code units", label, units.len())); } }
                Ok(written) => {
                    if units.len() > 32767 { if failures.len() < 20 { failures.push(format!("{}: accepted with {} > 32767 code units", label, units.len())); } continue; }
                    let mut want: Vec<u8> = Vec::new();
                    if units.len() < 127 { want.push(units.len() as u8); } else { want.push(((units.len() >> 8) as u8) | 0x80); want.push((units.len() & 0xff) as u8); }
                    for u in &units { want.push((*u & 0xff) as u8); want.push((*u >> 8) as u8); }
                    if (sink != want || written != want.len()) && failures.len() < 20 { failures.push(format!("{}: wrote {} bytes (reported {}), expected {} bytes; first bytes {:?} vs {:?}", label, sink.len(), written, want.len(), &sink[..sink.len().min(6)], &want[..want.len().min(6)])); }
                    let mut bytes = sink.clone(); bytes.extend_from_slice(&tail);
                    match utf16_string_parser(&bytes) {
                        Ok((rest, s)) => { if (rest != &tail[..] || &s != t) && failures.len() < 20 { failures.push(format!("{}: read back as {} characters, {} bytes left (expected {})", label, s.chars().count(), rest.len(), tail.len())); } }
                        Err(_) => if failures.len() < 20 { failures.push(format!("{}: what the writer wrote cannot be read back", label)); },
                    }
                    match skip_u16_string(&bytes) {
                        Ok((rest, _)) => { if rest != &tail[..] && failures.len() < 20 { failures.push(format!("{}: skipping leaves {} bytes (expected {})", label, rest.len(), tail.len())); } }
                        Err(_) => if failures.len() < 20 { failures.push(format!("{}: what the writer wrote cannot be skipped", label)); },
                    }
                }
            }
        }
        println!("verif_oracle_utf16_write_read: {} texts, {} failures", n, failures.len());
        for f in failures.iter().take(5) { println!("FAILING INPUT: {}", f); }
        assert!(failures.is_empty());
    }
