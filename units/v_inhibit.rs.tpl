// UNIT V-INHIBIT (C20, C03): plugin/connect_cost/inhibit_connection.rs  InhibitConnectionPlugin::set_up / edit / inhibit_connection,
//                           dic/grammar.rs Grammar::set_connect_cost / conn_matrix
use vstd::prelude::*;
use vstd::string::*;
verus! {
global size_of usize == 8;
//@include common/error.rs.inc
//@extract sudachi/src/dic/connect.rs :: struct ConnectionMatrix
//@  rw R5 1 custom
//@  | CowArray<'a, i16>
//@  > Vec<i16>, _lt: core::marker::PhantomData<&'a ()>
//@end
//@include specs/conn_specs.rs.inc
impl<'a> ConnectionMatrix<'a> {
//@extract sudachi/src/dic/connect.rs :: impl<'a> ConnectionMatrix<'a> :: fn update
//@  stub v_conn
//@  specfile specs/conn_update.contract
//@end
//@extract sudachi/src/dic/connect.rs :: impl<'a> ConnectionMatrix<'a> :: fn num_left
//@  stub v_conn
//@  ret r
//@  spec
        ensures r == self.num_left
//@end
//@extract sudachi/src/dic/connect.rs :: impl<'a> ConnectionMatrix<'a> :: fn num_right
//@  stub v_conn
//@  ret r
//@  spec
        ensures r == self.num_right
//@end
}
#[verifier::external_body] pub struct CharacterCategory { _p: () }
// Rc: the associated const `Grammar::INHIBITED_CONNECTION` extracted as a free const (an associated const of a lifetime-generic impl
// crashes the installed Verus); its use is rewritten accordingly
//@extract sudachi/src/dic/grammar.rs :: impl<'a> Grammar<'a> :: const INHIBITED_CONNECTION
//@end
//@extract sudachi/src/dic/grammar.rs :: struct Grammar
//@end
impl<'a> Grammar<'a> {
//@extract sudachi/src/dic/grammar.rs :: impl<'a> Grammar<'a> :: fn conn_matrix
//@  ret r
//@  spec
        ensures *r == self.connection
//@end
//@extract sudachi/src/dic/grammar.rs :: impl<'a> Grammar<'a> :: fn set_connect_cost
//@  spec
        requires old(self).connection.wf(), 0 <= left_id, (left_id as int) < old(self).connection.num_left, 0 <= right_id, (right_id as int) < old(self).connection.num_right,
        ensures
            final(self).connection.wf(), final(self).connection.num_left == old(self).connection.num_left, final(self).connection.num_right == old(self).connection.num_right,
            // exactly the cell of the pair (left node's right id, right node's left id) changes
            final(self).connection.data@ == old(self).connection.data@.update(old(self).connection.spec_index(left_id as u16, right_id as u16), cost),
            final(self).pos_list == old(self).pos_list,
//@end
}
#[verifier::external_body] pub struct Value { _p: () }
#[verifier::external_body] pub struct Config { _p: () }
//@extract sudachi/src/plugin/connect_cost/inhibit_connection.rs :: struct PluginSettings
//@  derive
//@  attr
//@end
/// R14: `serde_json::from_value(settings.clone())?` (ASSUMED: total or an error; the pairs are whatever the JSON holds)
#[verifier::external_body]
fn settings_from_value(settings: &Value) -> (r: SudachiResult<PluginSettings>) { unimplemented!() }
#[verifier::external_body] fn err_string() -> String { String::new() }

//@extract sudachi/src/plugin/connect_cost/inhibit_connection.rs :: struct InhibitConnectionPlugin
//@  derive
//@end
/// C20: every configured pair addresses an existing cell of the connection matrix
spec fn pairs_ok(pairs: Seq<(i16, i16)>, m: ConnectionMatrix) -> bool {
    forall|k: int| 0 <= k < pairs.len() ==> 0 <= (#[trigger] pairs[k]).0 && (pairs[k].0 as int) < m.num_left && 0 <= pairs[k].1 && (pairs[k].1 as int) < m.num_right
}
/// the matrix after inhibiting the first n pairs, in order
spec fn inhibited(data: Seq<i16>, m: ConnectionMatrix, pairs: Seq<(i16, i16)>, n: int) -> Seq<i16>
    decreases n
{
    if n <= 0 { data } else { inhibited(data, m, pairs, n - 1).update(m.spec_index(pairs[n - 1].0 as u16, pairs[n - 1].1 as u16), i16::MAX) }
}
impl InhibitConnectionPlugin {
//@extract sudachi/src/plugin/connect_cost/inhibit_connection.rs :: impl InhibitConnectionPlugin :: fn inhibit_connection
//@  rw Rc 1 custom
//@  | Grammar::INHIBITED_CONNECTION
//@  > INHIBITED_CONNECTION
//@  spec
        requires old(grammar).connection.wf(), 0 <= left, (left as int) < old(grammar).connection.num_left, 0 <= right, (right as int) < old(grammar).connection.num_right,
        ensures
            final(grammar).connection.wf(), final(grammar).connection.num_left == old(grammar).connection.num_left, final(grammar).connection.num_right == old(grammar).connection.num_right,
            final(grammar).connection.data@ == old(grammar).connection.data@.update(old(grammar).connection.spec_index(left as u16, right as u16), i16::MAX),
//@end
// R11: `impl EditConnectionCostPlugin for InhibitConnectionPlugin` checked as inherent fns of the same bodies
//@extract sudachi/src/plugin/connect_cost/inhibit_connection.rs :: impl EditConnectionCostPlugin for InhibitConnectionPlugin :: fn set_up
//@  twin
//@  rw R14 1 custom
//@  | serde_json::from_value\(settings\.clone\(\)\)\?
//@  > settings_from_value(settings)?
//@  rw R6v 1 custom
//@  | for \(left, right\) in &inhibit_pairs \{
//@  > let mut __ip: usize = 0; while __ip < inhibit_pairs.len() { let (left, right) = (&inhibit_pairs[__ip].0, &inhibit_pairs[__ip].1); __ip += 1;
//@  rw R12 1 custom
//@  | format!\(\s*"inhibitPair \(\{\}, \{\}\) is outside of the connection matrix \(\{\} x \{\}\)",\s*left,\s*right,\s*matrix\.num_left\(\),\s*matrix\.num_right\(\)\s*\)
//@  > err_string()
//@  ret r
//@  spec
        ensures
            // C20: loading succeeds only if every inhibited pair indexes an existing cell
            r is Ok ==> pairs_ok(final(self).inhibit_pairs@, grammar.connection),
            r is Err ==> final(self).inhibit_pairs@ == old(self).inhibit_pairs@,
//@  loop 1
            invariant
                *matrix == grammar.connection, __ip <= inhibit_pairs@.len(), *self == *old(self),
                forall|k: int| 0 <= k < __ip ==> 0 <= (#[trigger] inhibit_pairs@[k]).0 && (inhibit_pairs@[k].0 as int) < matrix.num_left && 0 <= inhibit_pairs@[k].1 && (inhibit_pairs@[k].1 as int) < matrix.num_right,
            decreases inhibit_pairs@.len() - __ip
//@end
//@extract sudachi/src/plugin/connect_cost/inhibit_connection.rs :: impl EditConnectionCostPlugin for InhibitConnectionPlugin :: fn edit
//@  twin
//@  rw R6v 1 custom
//@  | for \(left, right\) in &self\.inhibit_pairs \{
//@  > let mut __ip: usize = 0; while __ip < self.inhibit_pairs.len() { let (left, right) = (&self.inhibit_pairs[__ip].0, &self.inhibit_pairs[__ip].1); __ip += 1;
//@  spec
        requires old(grammar).connection.wf(), pairs_ok(self.inhibit_pairs@, old(grammar).connection),
        ensures
            final(grammar).connection.wf(), final(grammar).connection.num_left == old(grammar).connection.num_left, final(grammar).connection.num_right == old(grammar).connection.num_right,
            // exactly the configured cells are inhibited, nothing else changes
            final(grammar).connection.data@ == inhibited(old(grammar).connection.data@, old(grammar).connection, self.inhibit_pairs@, self.inhibit_pairs@.len() as int),
//@  atstart
        let ghost g0 = *grammar;
//@  loop 1
            invariant
                g0.connection.wf(), pairs_ok(self.inhibit_pairs@, g0.connection), __ip <= self.inhibit_pairs@.len(),
                grammar.connection.wf(), grammar.connection.num_left == g0.connection.num_left, grammar.connection.num_right == g0.connection.num_right,
                grammar.connection.data@ == inhibited(g0.connection.data@, g0.connection, self.inhibit_pairs@, __ip as int),
            decreases self.inhibit_pairs@.len() - __ip
//@end
}
} // verus!
fn main() {}
