// UNIT V-CLIOUT (C19): sudachi-cli/src/output.rs  Wakachi::write / Simple::write / write_morpheme_basic / write_morpheme_extended / subset
// The command-line tool prints, per analysis, exactly the library's morphemes: space-joined surfaces, or one line per morpheme in the
// documented column format followed by "EOS".  The morphemes are opaque here (their accessors are under contract in unit v_morph);
// this unit decides WHAT is written for them, byte for byte, and that a sink error is never swallowed.
use vstd::prelude::*;
use vstd::string::*;
verus! {
global size_of usize == 8;
//@include common/error.rs.inc
//@include common/build_prelude.rs.inc
//@include common/info_subset.rs.inc
impl From<IoErr> for SudachiError { #[verifier::external_body] fn from(e: IoErr) -> SudachiError { SudachiError::Other } }

// ---- byte-string literals (R18: `b"..."` -> wrapper returning the same bytes)
#[verifier::external_body] fn lit_nl() -> (r: &'static [u8]) ensures r@ == seq![10u8] { b"\n" }
#[verifier::external_body] fn lit_tab() -> (r: &'static [u8]) ensures r@ == seq![9u8] { b"\t" }
#[verifier::external_body] fn lit_comma() -> (r: &'static [u8]) ensures r@ == seq![44u8] { b"," }
#[verifier::external_body] fn lit_eos() -> (r: &'static [u8]) ensures r@ == seq![69u8, 79u8, 83u8, 10u8] { b"EOS\n" }
#[verifier::external_body] fn lit_oov() -> (r: &'static [u8]) ensures r@ == seq![9u8, 40u8, 79u8, 79u8, 86u8, 41u8] { b"\t(OOV)" }
pub open spec fn sbytes(s: Seq<char>) -> Seq<u8> { vstd::utf8::encode_utf8(s) }
#[verifier::external_body] fn string_as_bytes(s: &String) -> (r: &[u8]) ensures r@ == sbytes(s@) { s.as_bytes() }
#[verifier::external_body] fn str_as_bytes(s: &str) -> (r: &[u8]) ensures r@ == sbytes(s@) { s.as_bytes() }

// ---- opaque collaborators: a result list and its morphemes (accessors under contract in unit v_morph)
pub trait DictionaryAccess { }
/// `std::cell::Ref<'a, str>`
#[verifier::external_body] pub struct StrRef<'a> { _p: core::marker::PhantomData<&'a ()> }
impl<'a> StrRef<'a> {
    pub uninterp spec fn sp_bytes(&self) -> Seq<u8>;
    #[verifier::external_body] fn as_bytes(&self) -> (r: &[u8]) ensures r@ == self.sp_bytes() { unimplemented!() }
}
#[verifier::external_body]
#[verifier::reject_recursive_types(T)]
pub struct Morpheme<'a, T> { _p: core::marker::PhantomData<&'a T> }
impl<'a, T: DictionaryAccess> Morpheme<'a, T> {
    pub uninterp spec fn sp_index(&self) -> int;
    pub uninterp spec fn sp_surface(&self) -> Seq<u8>;
    pub uninterp spec fn sp_pos(&self) -> Seq<String>;
    pub uninterp spec fn sp_norm(&self) -> Seq<char>;
    pub uninterp spec fn sp_dic_form(&self) -> Seq<char>;
    pub uninterp spec fn sp_reading(&self) -> Seq<char>;
    pub uninterp spec fn sp_dic_id(&self) -> i32;
    pub uninterp spec fn sp_syn(&self) -> Seq<u32>;
    pub uninterp spec fn sp_oov(&self) -> bool;
    #[verifier::external_body] pub fn index(&self) -> (r: usize) ensures r == self.sp_index() { unimplemented!() }
    #[verifier::external_body] pub fn surface(&self) -> (r: StrRef<'_>) ensures r.sp_bytes() == self.sp_surface() { unimplemented!() }
    #[verifier::external_body] pub fn part_of_speech(&self) -> (r: &[String]) ensures r@ == self.sp_pos() { unimplemented!() }
    #[verifier::external_body] pub fn normalized_form(&self) -> (r: &str) ensures r@ == self.sp_norm() { unimplemented!() }
    #[verifier::external_body] pub fn dictionary_form(&self) -> (r: &str) ensures r@ == self.sp_dic_form() { unimplemented!() }
    #[verifier::external_body] pub fn reading_form(&self) -> (r: &str) ensures r@ == self.sp_reading() { unimplemented!() }
    #[verifier::external_body] pub fn dictionary_id(&self) -> (r: i32) ensures r == self.sp_dic_id() { unimplemented!() }
    #[verifier::external_body] pub fn synonym_group_ids(&self) -> (r: &[u32]) ensures r@ == self.sp_syn() { unimplemented!() }
    #[verifier::external_body] pub fn is_oov(&self) -> (r: bool) ensures r == self.sp_oov() { unimplemented!() }
}
#[verifier::external_body]
#[verifier::reject_recursive_types(T)]
pub struct MorphemeList<T> { _p: core::marker::PhantomData<T> }
impl<T: DictionaryAccess> MorphemeList<T> {
    pub uninterp spec fn sp_len(&self) -> nat;
    pub uninterp spec fn sp_morph(&self, i: int) -> Morpheme<'_, T>;
    #[verifier::external_body] pub fn len(&self) -> (r: usize) ensures r == self.sp_len() { unimplemented!() }
    /// R6i: `for m in morphemes.iter()` visits get(0), get(1), ... (MorphemeIter::next and Morpheme::for_list: unit v_morph)
    #[verifier::external_body]
    pub fn get(&self, idx: usize) -> (r: Morpheme<'_, T>)
        requires idx < self.sp_len()
        ensures r == self.sp_morph(idx as int), r.sp_index() == idx
    { unimplemented!() }
}
/// R18f: `write!(writer, "\t{}\t{}\t{}\t{:?}", a, b, c, d)?` -- ASSUMED: std formatting writes exactly the rendering of the
/// format string with Display of a, b, c and Debug of d (ext_text), or fails
pub uninterp spec fn ext_text(dic_form: Seq<char>, reading: Seq<char>, dic_id: i32, syn: Seq<u32>) -> Seq<u8>;
#[verifier::external_body]
fn write_ext<W: VWrite>(writer: &mut W, a: &str, b: &str, c: i32, d: &[u32]) -> (r: Result<(), IoErr>)
    ensures r is Ok ==> final(writer).sink() == old(writer).sink() + ext_text(a@, b@, c, d@)
{ unimplemented!() }

//@extract sudachi-cli/src/output.rs :: struct Wakachi
//@end
//@extract sudachi-cli/src/output.rs :: struct Simple
//@end

// ---- C19: what the tool prints
/// the part-of-speech strings joined by ","
spec fn pos_joined(p: Seq<String>, n: int) -> Seq<u8> decreases n
{ if n <= 0 { Seq::empty() } else { pos_joined(p, n - 1) + sbytes(p[n - 1]@) + (if n == p.len() { Seq::<u8>::empty() } else { seq![44u8] }) } }
/// surface TAB pos,pos,... TAB normalised form
spec fn basic_cols<T: DictionaryAccess>(m: Morpheme<'_, T>) -> Seq<u8>
{ m.sp_surface() + seq![9u8] + pos_joined(m.sp_pos(), m.sp_pos().len() as int) + seq![9u8] + sbytes(m.sp_norm()) }
/// TAB dictionary form TAB reading TAB dictionary id TAB synonym ids [TAB (OOV)]
spec fn ext_cols<T: DictionaryAccess>(m: Morpheme<'_, T>) -> Seq<u8>
{ ext_text(m.sp_dic_form(), m.sp_reading(), m.sp_dic_id(), m.sp_syn()) + (if m.sp_oov() { seq![9u8, 40u8, 79u8, 79u8, 86u8, 41u8] } else { Seq::<u8>::empty() }) }
spec fn simple_line<T: DictionaryAccess>(m: Morpheme<'_, T>, all: bool) -> Seq<u8>
{ basic_cols(m) + (if all { ext_cols(m) } else { Seq::<u8>::empty() }) + seq![10u8] }
spec fn simple_lines<T: DictionaryAccess>(l: MorphemeList<T>, n: int, all: bool) -> Seq<u8> decreases n
{ if n <= 0 { Seq::empty() } else { simple_lines(l, n - 1, all) + simple_line(l.sp_morph(n - 1), all) } }
/// surfaces separated by the word separator, terminated by the sentence separator
spec fn wakachi_text<T: DictionaryAccess>(l: MorphemeList<T>, n: int, sep: Seq<u8>, end: Seq<u8>) -> Seq<u8> decreases n
{ if n <= 0 { Seq::empty() } else { wakachi_text(l, n - 1, sep, end) + l.sp_morph(n - 1).sp_surface() + (if n == l.sp_len() { end } else { sep }) } }

//@extract sudachi-cli/src/output.rs :: fn write_morpheme_basic
//@  rw R15 1 custom
//@  | fn write_morpheme_basic<T: DictionaryAccess>\(\s*writer: &mut Writer,
//@  > fn write_morpheme_basic<T: DictionaryAccess, W: VWrite>(writer: &mut W,
//@  rw R18 * custom
//@  | b"\\t"
//@  > lit_tab()
//@  rw R18 * custom
//@  | b","
//@  > lit_comma()
//@  rw R13 1 custom
//@  | pos\.as_bytes\(\)
//@  > string_as_bytes(pos)
//@  rw R13 * custom
//@  | morpheme\.(normalized_form|dictionary_form|reading_form)\(\)\.as_bytes\(\)
//@  > str_as_bytes(morpheme.\1())
//@  rw R6 1
//@  ret r
//@  spec
        ensures r is Ok ==> final(writer).sink() == old(writer).sink() + basic_cols(*morpheme)
//@  atstart
        let ghost s0 = writer.sink();
//@  loop 1
            invariant
                __it_idx <= all_pos@.len(), all_pos@ == morpheme.sp_pos(),
                writer.sink() == s0 + morpheme.sp_surface() + seq![9u8] + pos_joined(all_pos@, __it_idx as int),
            decreases all_pos@.len() - __it_idx
//@  before let all_pos = morpheme.part_of_speech();
        proof { assert(writer.sink() + pos_joined(morpheme.sp_pos(), 0) =~= writer.sink()); }
//@  atend
        proof { assert(writer.sink() =~= s0 + basic_cols(*morpheme)); }
//@end

//@extract sudachi-cli/src/output.rs :: fn write_morpheme_extended
//@  rw R15 1 custom
//@  | fn write_morpheme_extended<T: DictionaryAccess>\(\s*writer: &mut Writer,
//@  > fn write_morpheme_extended<T: DictionaryAccess, W: VWrite>(writer: &mut W,
//@  rw R18f 1 custom
//@  | write!\(\s*writer,\s*"\\t\{\}\\t\{\}\\t\{\}\\t\{:\?\}",\s*([^,]+),\s*([^,]+),\s*([^,]+),\s*([^,]+),\s*\)\?;
//@  > write_ext(writer, \1, \2, \3, \4)?;
//@  rw R18 * custom
//@  | b"\\t\(OOV\)"
//@  > lit_oov()
//@  ret r
//@  spec
        ensures r is Ok ==> final(writer).sink() == old(writer).sink() + ext_cols(*morpheme)
//@  atend
        proof { assert(writer.sink() =~= old(writer).sink() + ext_cols(*morpheme)); }
//@end

impl Wakachi {
// R11: `impl<T: DictionaryAccess> SudachiOutput<T> for Wakachi { fn write, fn subset }` checked as inherent fns of the same bodies
//@extract sudachi-cli/src/output.rs :: impl<T: DictionaryAccess> SudachiOutput<T> for Wakachi :: fn write
//@  rw R15 1 custom
//@  | fn write\(&self, writer: &mut Writer, morphemes: &MorphemeList<T>\)
//@  > fn write<T: DictionaryAccess, W: VWrite>(&self, writer: &mut W, morphemes: &MorphemeList<T>)
//@  rw R18 * custom
//@  | b"\\n"
//@  > lit_nl()
//@  rw R6i 1 custom
//@  | for m in morphemes\.iter\(\) \{
//@  > let mut __im: usize = 0; while __im < morphemes.len() { let m = morphemes.get(__im); __im += 1;
//@  rw R13 1 custom
//@  | trailer\.as_bytes\(\)
//@  > string_as_bytes(trailer)
//@  ret r
//@  spec
        ensures
            // C19: an empty analysis prints an empty line; otherwise the surfaces joined by the word separator, then the sentence separator
            r is Ok ==> final(writer).sink() == old(writer).sink() + (if morphemes.sp_len() == 0 { seq![10u8] }
                else { wakachi_text(*morphemes, morphemes.sp_len() as int, sbytes(self.word_separator@), sbytes(self.sentence_separator@)) }),
//@  atstart
        let ghost s0 = writer.sink();
//@  loop 1
            invariant
                __im <= morphemes.sp_len(), last_idx == morphemes.sp_len() - 1,
                writer.sink() == s0 + wakachi_text(*morphemes, __im as int, sbytes(self.word_separator@), sbytes(self.sentence_separator@)),
            decreases morphemes.sp_len() - __im
//@  before let last_idx = morphemes.len() - 1;
        proof { assert(s0 + wakachi_text(*morphemes, 0, sbytes(self.word_separator@), sbytes(self.sentence_separator@)) =~= s0); }
//@  after writer.write_all(string_as_bytes(trailer))?;
            proof {
                let sep = sbytes(self.word_separator@); let end = sbytes(self.sentence_separator@);
                assert(writer.sink() =~= s0 + wakachi_text(*morphemes, __im as int, sep, end));
            }
//@end
//@extract sudachi-cli/src/output.rs :: impl<T: DictionaryAccess> SudachiOutput<T> for Wakachi :: fn subset
//@  ret r
//@  spec
        ensures r.bits == 0
//@end
}

impl Simple {
//@extract sudachi-cli/src/output.rs :: impl<T: DictionaryAccess> SudachiOutput<T> for Simple :: fn write
//@  rw R15 1 custom
//@  | fn write\(&self, writer: &mut Writer, morphemes: &MorphemeList<T>\)
//@  > fn write<T: DictionaryAccess, W: VWrite>(&self, writer: &mut W, morphemes: &MorphemeList<T>)
//@  rw R18 * custom
//@  | b"\\n"
//@  > lit_nl()
//@  rw R18 * custom
//@  | b"EOS\\n"
//@  > lit_eos()
//@  rw R6i 1 custom
//@  | for m in morphemes\.iter\(\) \{
//@  > let mut __im: usize = 0; while __im < morphemes.len() { let m = morphemes.get(__im); __im += 1;
//@  ret r
//@  spec
        ensures
            // C19: one line per morpheme in the column format, in order, then "EOS"
            r is Ok ==> final(writer).sink() == old(writer).sink() + simple_lines(*morphemes, morphemes.sp_len() as int, self.print_all) + seq![69u8, 79u8, 83u8, 10u8],
//@  atstart
        let ghost s0 = writer.sink();
        proof { assert(s0 + simple_lines(*morphemes, 0, self.print_all) =~= s0); }
//@  loop 1
            invariant
                __im <= morphemes.sp_len(),
                writer.sink() == s0 + simple_lines(*morphemes, __im as int, self.print_all),
            decreases morphemes.sp_len() - __im
//@  after writer.write_all(lit_nl())?;
            proof { assert(writer.sink() =~= s0 + simple_lines(*morphemes, __im as int, self.print_all)); }
//@end
//@extract sudachi-cli/src/output.rs :: impl<T: DictionaryAccess> SudachiOutput<T> for Simple :: fn subset
//@  rw R16 * custom
//@  | = InfoSubset::(\w+) \| InfoSubset::(\w+);
//@  > = InfoSubset::\1.union(InfoSubset::\2);
//@  rw R16 * custom
//@  | subset \|= InfoSubset::DIC_FORM_WORD_ID\s*\| InfoSubset::READING_FORM\s*\| InfoSubset::SYNONYM_GROUP_ID;
//@  > subset = subset.union(InfoSubset::DIC_FORM_WORD_ID).union(InfoSubset::READING_FORM).union(InfoSubset::SYNONYM_GROUP_ID);
//@  ret r
//@  spec
        ensures
            // the fields the columns read are requested: part of speech and normalised form always; dictionary form, reading and synonym
            // groups for the extended columns
            r.bits & 12u32 == 12u32, self.print_all ==> r.bits & (16u32 | 32u32 | 512u32) == (16u32 | 32u32 | 512u32),
//@  atend
        proof { assert((4u32 | 8u32) & 12u32 == 12u32 && ((4u32 | 8u32) | 16u32 | 32u32 | 512u32) & 12u32 == 12u32 && ((4u32 | 8u32) | 16u32 | 32u32 | 512u32) & (16u32 | 32u32 | 512u32) == (16u32 | 32u32 | 512u32)) by (bit_vector); }
//@end
}
} // verus!
fn main() {}
