// UNIT V-IDX (C04, C05): dic/build/mod.rs DictBuilder::write_index, dic/build/index.rs IndexBuilder::add
use vstd::prelude::*;
use vstd::string::*;
verus! {
global size_of usize == 8;
//@include common/error.rs.inc
//@include common/build_prelude.rs.inc
//@include common/wordid_stub.rs.inc
//@extract sudachi/src/analysis/mod.rs :: enum Mode
//@  derive Clone, Copy, PartialEq, Eq, Structural
//@end
//@extract sudachi/src/dic/build/lexicon.rs :: enum SplitUnit
//@  derive
//@end
//@extract sudachi/src/dic/build/lexicon.rs :: struct RawLexiconEntry
//@end
//@include specs/entry_strings.rs.inc
//@include specs/idx_specs.rs.inc

impl RawLexiconEntry {
//@extract sudachi/src/dic/build/lexicon.rs :: impl RawLexiconEntry :: fn surface
//@  stub v_resolve
//@  ret r
//@  spec
        ensures r@ == e_surface(*self)
//@end
//@extract sudachi/src/dic/build/lexicon.rs :: impl RawLexiconEntry :: fn headword
//@  stub v_resolve
//@  ret r
//@  spec
        ensures r@ == e_headword(*self)
//@end
//@extract sudachi/src/dic/build/lexicon.rs :: impl RawLexiconEntry :: fn should_index
//@  stub v_valid
//@  ret r
//@  spec
        ensures r == (self.left_id >= 0),
//@end
}

//@extract sudachi/src/dic/build/index.rs :: struct IndexBuilder
//@  rw R14 1 custom
//@  | IndexMap<&'a str, IndexEntry, FxBuildHasher>
//@  > IdxMap<'a>
//@end
impl<'a> IndexBuilder<'a> {
//@extract sudachi/src/dic/build/index.rs :: impl<'a> IndexBuilder<'a> :: fn new
//@  rw Rself 1 custom
//@  | -> Self \{
//@  > -> IndexBuilder<'a> {
//@  rw Rself 1 custom
//@  | Self \{
//@  > IndexBuilder {
//@  rw R14 1 custom
//@  | IndexMap::default\(\)
//@  > IdxMap::default()
//@  ret r
//@  spec
        ensures forall|s: Seq<char>| #[trigger] r.data.ids(s) == Seq::<WordId>::empty(),
//@end
//@extract sudachi/src/dic/build/index.rs :: impl<'a> IndexBuilder<'a> :: fn add
//@  rw R14 1 custom
//@  | self\.data\.entry\(key\)\.or_default\(\)\.ids\.push\(id\)
//@  > self.data.push_id(key, id)
//@  spec
        ensures
            final(self).data.ids(key@) == old(self).data.ids(key@).push(id),
            forall|s: Seq<char>| s != key@ ==> #[trigger] final(self).data.ids(s) == old(self).data.ids(s),
//@end
// the word-id table and the trie: NOT under contract in this unit (the record writer write_u32_array is decided in v_wiw, the trie
// builder is the yada crate); ASSUMED: together they represent the index they are built from (section_of / axiom_section)
    pub uninterp spec fn sp_table(&self) -> Seq<u8>;
    #[verifier::external_body]
    fn build_word_id_table(&mut self) -> (r: SudachiResult<Vec<u8>>)
        ensures r is Ok ==> final(self).sp_table() == r->Ok_0@ && final(self).sp_src() == old(self).data
    { unimplemented!() }
    pub uninterp spec fn sp_src(&self) -> IdxMap<'a>;
    #[verifier::external_body]
    fn build_trie(&mut self) -> (r: SudachiResult<Vec<u8>>)
        ensures r is Ok ==> section_of(old(self).sp_src(), old(self).sp_table(), r->Ok_0@) && r->Ok_0@.len() <= u32::MAX
    { unimplemented!() }
}

//@extract sudachi/src/dic/build/mod.rs :: struct DictBuilder
//@  rw R14 1 custom
//@  | lexicon: lexicon::LexiconReader,
//@  > lexicon: LexiconReader,
//@  rw R14 1 custom
//@  | conn: conn::ConnBuffer,
//@  > conn: OpaqueT,
//@  rw R14 1 custom
//@  | ctx: DicCompilationCtx,
//@  > ctx: OpaqueT,
//@  rw R14 1 custom
//@  | header: Header,
//@  > header: OpaqueT,
//@end

impl<D> DictBuilder<D> {
//@extract sudachi/src/dic/build/mod.rs :: impl<D: DictionaryAccess> DictBuilder<D> :: fn write_index
//@  rw R15 1 custom
//@  | <W: Write>
//@  > <W: VWrite>
//@  rw R6 1
//@  rw R13b * custom
//@  | w\.write_all\(&\((\w+)\.len\(\) as u32\)\.to_le_bytes\(\)\)\?;
//@  > w.write_all(u32_to_le_bytes(\1.len() as u32).as_slice())?;
//@  rw R13b * custom
//@  | w\.write_all\(&\(trie_size as u32\)\.to_le_bytes\(\)\)\?;
//@  > w.write_all(u32_to_le_bytes(trie_size as u32).as_slice())?;
//@  rw R15 2 custom
//@  | w\.write_all\(&(trie|word_id_table)\)\?;
//@  > w.write_all(\1.as_slice())?;
//@  rw R14s 1 custom
//@  | std::mem::drop\(trie\);
//@  > drop_vec(trie);
//@  ret r
//@  spec
        requires old(self).lexicon.sp_entries().len() <= 0x0fff_ffff,
        ensures
            final(self).lexicon == old(self).lexicon,
            // C04: the index section written to the sink files under every key exactly the word ids (dictionary part 0, word number =
            // position in the lexicon) of the indexed entries (left id >= 0) with that key, in lexicon order
            r is Ok ==> exists|trie: Seq<u8>, table: Seq<u8>| #[trigger] section_written(old(w).sink(), final(w).sink(), trie, table)
                // the reported size is the number of bytes written (write_lexicon adds it to the offset of the word section)
                && r->Ok_0 == 8 + trie.len() + table.len()
                && forall|s: Seq<char>| #[trigger] lookup_ids(trie, table, s) == ibucket(old(self).lexicon.sp_entries(), s, old(self).lexicon.sp_entries().len() as int),
//@  atstart
        let ghost es = self.lexicon.sp_entries();
        let ghost s0 = w.sink();
//@  loop 1
            invariant
                es == self.lexicon.sp_entries(), es.len() <= 0x0fff_ffff, self.lexicon == old(self).lexicon, w.sink() == s0, size == 0,
                __it_i <= es.len(),
                forall|s: Seq<char>| #[trigger] index.data.ids(s) == ibucket(es, s, __it_i as int),
            decreases es.len() - __it_i
//@  after index.add(
                proof {
                    let raw = wid.raw;
                    let iu = i as u32;
                    assert(raw == iu) by (bit_vector) requires (raw >> 28) as u8 == 0u8, raw & 0x0fff_ffffu32 == iu;
                    assert(wid == idx_wid(i as int));
                }
//@  before let report = ReportBuilder::new("trie");
        let ghost idx0 = index.data;
//@  after let trie = index.build_trie()?;
        proof { axiom_section(idx0, word_id_table@, trie@); axiom_vec_u8_len(&word_id_table); }
        let ghost trie_g = trie@;
//@  atend
        proof { assert(section_written(s0, w.sink(), trie_g, word_id_table@)); }
//@end
}
} // verus!
fn main() {}
