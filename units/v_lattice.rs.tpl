// UNIT V-LAT (C02, C03, C10): analysis/lattice.rs  connect_node / insert / connect_bos / connect_eos / reset / reset_vec /
//                              node / has_previous_node / fill_top_path, with inner.rs Node/NodeIdx and the accessor traits
use vstd::prelude::*;
verus! {
global size_of usize == 8;

//@include common/error.rs.inc

//@include common/lattice_types.rs.inc

impl Lattice {
//@extract sudachi/src/analysis/lattice.rs :: impl Lattice :: fn reset_vec
//@  rw R7 1
//@  rw R6m 1
//@  spec
        ensures
            final(data)@.len() == (if old(data)@.len() <= target { target as nat } else { old(data)@.len() }),
            forall|i: int| 0 <= i < final(data)@.len() ==> (#[trigger] final(data)@[i])@.len() == 0,
//@  loop 1
            invariant __im_v <= data@.len(), data@.len() == old(data)@.len(),
                forall|i: int| 0 <= i < __im_v ==> (#[trigger] data@[i])@.len() == 0,
            decreases data@.len() - __im_v
//@  loop 2
            invariant
                cur_len <= __it__ <= target, __end__ == target, data@.len() == __it__,
                forall|i: int| 0 <= i < data@.len() ==> (#[trigger] data@[i])@.len() == 0,
            decreases target - __it__
//@end

//@extract sudachi/src/analysis/lattice.rs :: impl Lattice :: fn reset
//@  specfile specs/lat_reset.contract
//@end

//@extract sudachi/src/analysis/lattice.rs :: impl Lattice :: fn connect_bos
//@  spec
        requires old(self).ends@.len() > 0, old(self).ends@[0]@.len() == 0,
        ensures
            final(self).ends@ == old(self).ends@.update(0, final(self).ends@[0]),
            final(self).ends@[0]@.len() == 1 && final(self).ends@[0]@[0].total_cost == 0 && final(self).ends@[0]@[0].right_id == 0,
            final(self).ends_full == old(self).ends_full, final(self).indices == old(self).indices,
            final(self).eos == old(self).eos, final(self).size == old(self).size,
//@end

//@extract sudachi/src/analysis/lattice.rs :: impl Lattice :: fn connect_eos
//@  ret r
//@  specfile specs/lat_connect_eos.contract
//@  before let (idx, cost) = self.connect_node(&node, conn);
        proof {
            assert(node == eos_node(*self));
            assert(ids_ok(*self, *conn, node)) by {
                assert forall|k: int| 0 <= k < self.ends@[node.begin as int]@.len() implies (#[trigger] self.ends@[node.begin as int]@[k]).right_id < conn.num_left by {
                    lemma_row_ids(*self, *conn, node.begin as int, k);
                }
            }
        }
//@end

//@extract sudachi/src/analysis/lattice.rs :: impl Lattice :: fn insert
//@  ret cost
//@  specfile specs/lat_insert.contract
//@  before let (idx, cost) = self.connect_node(&node, conn);
        proof {
            assert(ids_ok(*self, *conn, node)) by {
                assert forall|k: int| 0 <= k < self.ends@[node.begin as int]@.len() implies (#[trigger] self.ends@[node.begin as int]@[k]).right_id < conn.num_left by {
                    lemma_row_ids(*self, *conn, node.begin as int, k);
                }
            }
        }
//@  atstart
        let ghost gnode = node;
//@  atend
        proof { lemma_insert_preserves(*old(self), *self, *conn, gnode, idx, cost); }
//@end

//@extract sudachi/src/analysis/lattice.rs :: impl Lattice :: fn has_previous_node
//@  rw R14s 1 custom
//@  | self\.ends\.get\(i\)\.map\(\|d\| !d\.is_empty\(\)\)\.unwrap_or\(false\)
//@  > (i < self.ends.len() && !self.ends[i].is_empty())
//@  ret r
//@  specfile specs/lat_has_previous_node.contract
//@end

//@extract sudachi/src/analysis/lattice.rs :: impl Lattice :: fn node
//@  ret r
//@  spec
        requires
            (id.end as int) < self.ends_full@.len(), (id.end as int) < self.ends@.len(),
            (id.index as int) < self.ends_full@[id.end as int]@.len(), (id.index as int) < self.ends@[id.end as int]@.len(),
        ensures
            *r.0 == self.ends_full@[id.end as int]@[id.index as int],
            r.1 == self.ends@[id.end as int]@[id.index as int].total_cost,
//@end

//@extract sudachi/src/analysis/lattice.rs :: impl Lattice :: fn fill_top_path
//@  spec
        requires
            self.eos is Some ==> self.size >= 2 && exists|conn: ConnectionMatrix| #[trigger] lat_wf(*self, conn)
                && is_best(*self, conn, eos_node(*self), self.eos->Some_0.0, self.eos->Some_0.1 as int) && self.eos->Some_0.1 != i32::MAX,
        ensures
            self.eos is None ==> final(result)@ == old(result)@,
            self.eos is Some ==> final(result)@ == old(result)@ + chain(*self, self.eos->Some_0.0),
//@  before let (mut idx, _) = self.eos.unwrap();
        let ghost conn = choose|conn: ConnectionMatrix| #[trigger] lat_wf(*self, conn)
                && is_best(*self, conn, eos_node(*self), self.eos->Some_0.0, self.eos->Some_0.1 as int) && self.eos->Some_0.1 != i32::MAX;
        let ghost idx0 = self.eos->Some_0.0;
        let ghost res0 = result@;
//@  before loop {
        proof {
            lemma_eos_idx(*self, conn);
            assert(result@.drop_last() =~= res0);
        }
//@  loop 1
            invariant
                lat_wf(*self, conn), idx_ok(*self, idx), connected(vnode_at(*self, idx.end as int, idx.index as int)),
                result@.len() > 0, result@.last() == idx,
                res0 + chain(*self, idx0) == result@.drop_last() + chain(*self, idx),
            ensures
                final(result)@ == res0 + chain(*self, idx0),
            decreases idx.end
//@  before let prev_idx = self.indices[idx.end() as usize][idx.index() as usize];
            proof { lemma_back_pointer(*self, conn, idx); }
//@  before result.push(prev_idx);
                let ghost rb = result@;
                let ghost idx_b = idx;
//@  after idx = prev_idx;
                proof {
                    assert(result@.drop_last() =~= rb);
                    assert(rb =~= rb.drop_last() + seq![idx_b]);
                    assert(chain(*self, idx_b) == seq![idx_b] + chain(*self, prev_idx));
                    assert(rb.drop_last() + (seq![idx_b] + chain(*self, prev_idx)) =~= rb + chain(*self, prev_idx));
                }
//@  before break;
                proof {
                    assert(chain(*self, idx) == seq![idx]);
                    assert(result@.drop_last() + seq![idx] =~= result@);
                }
//@end

//@extract sudachi/src/analysis/lattice.rs :: impl Lattice :: fn connect_node
//@  rw R6 1
//@  ret res
//@  spec
        requires conn.wf(), ids_ok(*self, *conn, *r_node), strict_no_overflow(*self, *conn, *r_node),
        ensures is_best(*self, *conn, *r_node, res.0, res.1 as int),
//@  loop 1
            invariant
                begin == r_node.begin, node_cost == r_node.cost,
                conn.wf(), ids_ok(*self, *conn, *r_node), strict_no_overflow(*self, *conn, *r_node),
                __it_i <= self.ends@[begin as int]@.len(),
                forall|k: int| 0 <= k < __it_i && connected(self.ends@[begin as int]@[k]) ==> min_cost <= #[trigger] via_row(self.ends@[begin as int]@, *conn, *r_node, k),
                min_cost != i32::MAX ==> prev_idx.end == r_node.begin && 0 <= prev_idx.index < __it_i
                    && connected(self.ends@[begin as int]@[prev_idx.index as int]) && min_cost == via(*self, *conn, *r_node, prev_idx.index as int),
                min_cost == i32::MAX ==> (forall|k: int| 0 <= k < __it_i ==> !connected(#[trigger] self.ends@[begin as int]@[k])),
            decreases self.ends@[begin as int]@.len() - __it_i
//@  before let new_cost = 
            #[if_ident(connect_cost)] proof { assert(via(*self, *conn, *r_node, i as int) == l_node.total_cost + connect_cost + node_cost); }
//@end

//@extract sudachi/src/analysis/lattice.rs :: impl Lattice :: fn connect_node
//@  fnname connect_node__full
//@  rw R6 1
//@  ret res
//@  spec
        // FULL-STRENGTH twin (known finding F10): no assumption about the size of the costs -- the i32 sum must not overflow
        requires conn.wf(), ids_ok(*self, *conn, *r_node),
        ensures true,
//@  loop 1
            invariant
                begin == r_node.begin, node_cost == r_node.cost,
                conn.wf(), ids_ok(*self, *conn, *r_node),
                __it_i <= self.ends@[begin as int]@.len(),
            decreases self.ends@[begin as int]@.len() - __it_i
//@end
}

} // verus!
fn main() {}
