// UNIT V-HEADER (C05): dic/header.rs  HeaderVersion::to_u64 / from_u64, Header::parse / has_grammar / has_synonym_group_ids.
// (Header::write_to is under contract in v_compile, where the version number is an opaque sp_u64; this unit decides what it is.)
// Decided: the version number written for a header reads back as the same version (from_u64(to_u64(v)) == Some(v)), distinct versions
// have distinct numbers, no other number is accepted, to_u64 cannot reach its panic arm; Header::parse takes the version from the first
// eight bytes, the time from the next eight and fails for an unknown version or a short buffer; which versions carry a grammar section
// and synonym group ids (what DictBuilder / the loader branch on).
// ASSUMED: header_parser (nom tuple(le_u64, le_u64, description_parser): little-endian integers, NUL-terminated description of 256 bytes).
use vstd::prelude::*;
verus! {
global size_of usize == 8;
#[verifier::external_body] fn vpanic() requires false { unimplemented!() }
//@extract sudachi/src/dic/header.rs :: enum HeaderError
//@  derive
//@  rw R2 * custom
//@  | #\[error\((?:[^()]|\([^()]*\))*\)\]
//@  >
//@end
//@extract sudachi/src/dic/header.rs :: enum HeaderVersion
//@  derive PartialEq, Eq, Structural
//@end
//@extract sudachi/src/dic/header.rs :: enum SystemDictVersion
//@  derive PartialEq, Eq, Structural
//@end
//@extract sudachi/src/dic/header.rs :: enum UserDictVersion
//@  derive PartialEq, Eq, Structural
//@end
//@extract sudachi/src/dic/header.rs :: struct Header
//@  derive
//@end

/// the five version numbers of the format (docs: dictionary header)
spec fn version_number(v: HeaderVersion) -> u64 {
    match v {
        HeaderVersion::SystemDict(SystemDictVersion::Version1) => 0x7366d3f18bd111e7,
        HeaderVersion::SystemDict(SystemDictVersion::Version2) => 0xce9f011a92394434,
        HeaderVersion::UserDict(UserDictVersion::Version1) => 0xa50f31188bd211e7,
        HeaderVersion::UserDict(UserDictVersion::Version2) => 0x9fdeb5a90168d868,
        HeaderVersion::UserDict(UserDictVersion::Version3) => 0xca9811756ff64fb0,
    }
}
impl HeaderVersion {
//@extract sudachi/src/dic/header.rs :: impl HeaderVersion :: const SYSTEM_DICT_VERSION_1
//@end
//@extract sudachi/src/dic/header.rs :: impl HeaderVersion :: const SYSTEM_DICT_VERSION_2
//@end
//@extract sudachi/src/dic/header.rs :: impl HeaderVersion :: const USER_DICT_VERSION_1
//@end
//@extract sudachi/src/dic/header.rs :: impl HeaderVersion :: const USER_DICT_VERSION_2
//@end
//@extract sudachi/src/dic/header.rs :: impl HeaderVersion :: const USER_DICT_VERSION_3
//@end
//@extract sudachi/src/dic/header.rs :: impl HeaderVersion :: fn to_u64
//@  rw R12 1 custom
//@  | panic!\("unknown version \{:\?\}", self\)
//@  > { vpanic(); 0 }
//@  ret r
//@  spec
        ensures r == version_number(*self)
//@end
//@extract sudachi/src/dic/header.rs :: impl HeaderVersion :: fn from_u64
//@  ret r
//@  spec
        ensures
            r is Some <==> exists|w: HeaderVersion| version_number(w) == v,
            r is Some ==> version_number(r->Some_0) == v,
//@  atstart
        proof {
            assert(version_number(HeaderVersion::SystemDict(SystemDictVersion::Version1)) == 0x7366d3f18bd111e7);
            assert(version_number(HeaderVersion::SystemDict(SystemDictVersion::Version2)) == 0xce9f011a92394434);
            assert(version_number(HeaderVersion::UserDict(UserDictVersion::Version1)) == 0xa50f31188bd211e7);
            assert(version_number(HeaderVersion::UserDict(UserDictVersion::Version2)) == 0x9fdeb5a90168d868);
            assert(version_number(HeaderVersion::UserDict(UserDictVersion::Version3)) == 0xca9811756ff64fb0);
        }
//@end
}
/// the header fields as the bytes denote them (ASSUMED nom contract; le64_at = little-endian u64, desc_of = text up to the first NUL)
//@include specs/codec64.rs.inc
pub uninterp spec fn desc_of(b: Seq<u8>) -> Seq<char>;
#[verifier::external_body]
fn header_parser_w(input: &[u8]) -> (r: Result<(u64, u64, String), HeaderError>)
    ensures
        r is Ok <==> input@.len() >= 272,
        r is Ok ==> r->Ok_0.0 == le64_at(input@, 0) && r->Ok_0.1 == le64_at(input@, 8) && r->Ok_0.2@ == desc_of(input@.subrange(16, 272)),
        r is Err ==> r->Err_0 == HeaderError::CannotParse,
{ unimplemented!() }
#[verifier::external_body]
fn opt_ok_or(o: Option<HeaderVersion>, e: HeaderError) -> (r: Result<HeaderVersion, HeaderError>)
    ensures o is Some ==> r == Ok::<HeaderVersion, HeaderError>(o->Some_0), o is None ==> r == Err::<HeaderVersion, HeaderError>(e) { o.ok_or(e) }

impl Header {
//@extract sudachi/src/dic/header.rs :: impl Header :: fn parse
//@  rw R14 1 custom
//@  | let \(_rest, \(version, create_time, description\)\) =\s*header_parser\(bytes\)\.map_err\(\|_\| HeaderError::CannotParse\)\?;
//@  > let (version, create_time, description) = header_parser_w(bytes)?;
//@  rw R14o 1 custom
//@  | HeaderVersion::from_u64\(version\)\.ok_or\((HeaderError::\w+)\)\?
//@  > opt_ok_or(HeaderVersion::from_u64(version), \1)?
//@  ret r
//@  spec
        ensures
            // C05: a header reads back with the version whose number stands in the first eight bytes, the time of the next eight
            r is Ok <==> bytes@.len() >= 272 && exists|w: HeaderVersion| version_number(w) == le64_at(bytes@, 0),
            r is Ok ==> version_number(r->Ok_0.version) == le64_at(bytes@, 0) && r->Ok_0.create_time == le64_at(bytes@, 8)
                && r->Ok_0.description@ == desc_of(bytes@.subrange(16, 272)),
            r is Err && bytes@.len() >= 272 ==> r->Err_0 == HeaderError::InvalidVersion,
//@end
//@extract sudachi/src/dic/header.rs :: impl Header :: fn has_grammar
//@  ret r
//@  spec
        // every system dictionary and user dictionaries of version 2 and 3 carry a grammar section
        ensures r == (self.version is SystemDict || self.version == HeaderVersion::UserDict(UserDictVersion::Version2) || self.version == HeaderVersion::UserDict(UserDictVersion::Version3))
//@end
//@extract sudachi/src/dic/header.rs :: impl Header :: fn has_synonym_group_ids
//@  ret r
//@  spec
        ensures r == (self.version == HeaderVersion::SystemDict(SystemDictVersion::Version2) || self.version == HeaderVersion::UserDict(UserDictVersion::Version3))
//@end
}

/// C05: the version written by the compiler (write_to writes to_u64 little-endian, v_compile) reads back as the same version
proof fn theorem_version_roundtrip(v: HeaderVersion, w: HeaderVersion)
    ensures version_number(v) == version_number(w) ==> v == w
{
}
} // verus!
fn main() {}
