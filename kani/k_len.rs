//@kani target=sudachi/src/dic/build/primitives.rs
//@kani harness=write_len_roundtrip kind=complete
// K-LEN (C05, C06): build/primitives.rs Utf16Writer::write_len  <->  read/u16str.rs string_length_parser, for EVERY usize length.
// Loop-free (the sink is a byte array), full domain => complete.
    #[kani::proof]
    fn write_len_roundtrip() {
        let length: usize = kani::any();
        let wr = Utf16Writer { buffer: Vec::new() };
        let mut buf = [0u8; 4];
        let res = { let mut w: &mut [u8] = &mut buf; wr.write_len(&mut w, length) };
        match res {
            Err(e) => {
                // the format limit: lengths above 32767 are rejected, never truncated
                assert!(length > 32767);
                std::mem::forget(e);
            }
            Ok(n) => {
                assert!(length <= 32767);
                assert!(n == if length < 127 { 1 } else { 2 });
                // the reader decodes exactly what was written and consumes exactly the bytes written
                match crate::dic::read::u16str::string_length_parser(&buf[..]) {
                    Ok((rest, l)) => { assert!(l as usize == length); assert!(rest.len() == 4 - n); }
                    Err(e) => { std::mem::forget(e); assert!(false); }
                }
            }
        }
        kani::cover!(length == 126);
        kani::cover!(length == 127);
        kani::cover!(length == 32767);
        std::mem::forget(wr);
    }
