// UNIT V-NUM (C14, C03): plugin/path_rewrite/join_numeric  JoinNumericPlugin::concat / rewrite_gen (index arithmetic and merge-only)
use vstd::prelude::*;
use vstd::string::*;
use std::ops::Range;
verus! {
global size_of usize == 8;
//@include common/error.rs.inc
//@include common/wordid_stub.rs.inc
//@include common/category_type.rs.inc
//@include common/node_types.rs.inc
//@include specs/node_specs.rs.inc
//@include specs/coarsen_specs.rs.inc

trait InputTextIndex {
    spec fn sp_nch(&self) -> int;
    spec fn sp_cat_of_range(&self, a: int, b: int) -> CategoryType;
    fn cat_of_range(&self, range: Range<usize>) -> (r: CategoryType)
        requires range.start <= range.end <= self.sp_nch()
        ensures r == self.sp_cat_of_range(range.start as int, range.end as int);
}

/// R13: `a == b` on &str (assumed std contract: equality of contents)
#[verifier::external_body]
fn str_eq(a: &str, b: &str) -> (r: bool) ensures r == (a@ == b@) { a == b }

//@extract sudachi/src/plugin/path_rewrite/join_numeric/numeric_parser/mod.rs :: enum Error
//@  derive PartialEq, Eq, Structural
//@end
/// opaque collaborator: the numeral parser (its own behaviour is C15's subject); only `error_state` is read here
#[verifier::external_body] pub struct AbstractRest { _p: () }
pub struct NumericParser { pub error_state: Error, _rest: AbstractRest }
impl NumericParser {
    #[verifier::external_body] fn new() -> NumericParser { unimplemented!() }
    #[verifier::external_body] fn clear(&mut self) { unimplemented!() }
    #[verifier::external_body] fn append(&mut self, c: &char) -> bool { unimplemented!() }
    #[verifier::external_body] fn done(&mut self) -> bool { unimplemented!() }
    #[verifier::external_body] fn get_normalized(&mut self) -> String { unimplemented!() }
}

// contract of concat_nodes: discharged on the real body in unit v_node
//@extract sudachi/src/analysis/node.rs :: fn concat_nodes
//@  stub v_node
//@  ret res
//@  specfile specs/concat_nodes.contract
//@end

//@extract sudachi/src/plugin/path_rewrite/join_numeric/mod.rs :: struct JoinNumericPlugin
//@end

/// what JoinNumericPlugin::concat may do to a path: nothing, or one merge of [b,e) that keeps the part of speech
spec fn same_or_merged(old: Seq<ResultNode>, new: Seq<ResultNode>, b: int, e: int) -> bool {
    new == old || (b < e && merged_at(old, new, b, e)
        && new[b].word_info.data.pos_id == old[b].word_info.data.pos_id
        && new[b].word_info.data.head_word_length == sum_hwl(old, b, e))
}

proof fn lemma_path_ok_weaken(p: Seq<ResultNode>, nch: int)
    requires path_ok(p, nch)
    ensures path_ok(p, 0x10000)
{
    assert forall|k: int| 0 <= k < p.len() implies (#[trigger] p[k]).inner.end <= 0x10000 by {}
}
/// bookkeeping after a call of JoinNumericPlugin::concat: the path is still a coarsening of the original one
proof fn lemma_after_concat(p0: Seq<ResultNode>, mid: Seq<ResultNode>, cuts: Seq<int>, b: int, e: int, newp: Seq<ResultNode>, nch: int) -> (c2: Seq<int>)
    requires coarsens(p0, mid, cuts, true), path_ok(mid, nch), same_or_merged(mid, newp, b, e)
    ensures coarsens(p0, newp, c2, true), path_ok(newp, nch),
        newp == mid || (b < e && newp.len() == mid.len() - (e - b) + 1)
{
    if newp == mid { cuts }
    else {
        lemma_coarsen_merge(p0, mid, cuts, b, e, newp, true);
        lemma_path_ok_merge(mid, newp, b, e, nch);
        cuts.subrange(0, b + 1) + cuts.subrange(e, cuts.len() as int)
    }
}

impl JoinNumericPlugin {
//@extract sudachi/src/plugin/path_rewrite/join_numeric/mod.rs :: impl JoinNumericPlugin :: fn concat
//@  rw R13 1 custom
//@  | normalized_form != word_info\.normalized_form\(\)
//@  > !str_eq(normalized_form.as_str(), word_info.normalized_form())
//@  ret res
//@  spec
        requires begin < path@.len(), begin <= end, end <= path@.len(), path_ok(path@, 0x10000),
        ensures res is Ok ==> same_or_merged(path@, res->Ok_0@, begin as int, end as int),
//@  before path = concat_nodes( #1
                proof { if begin < end { lemma_chain_le(path@, begin as int, end - 1, 0x10000); lemma_sum_le_span(path@, begin as int, end as int, 0x10000); } }
//@  before path = concat_nodes( #2
            proof { lemma_chain_le(path@, begin as int, end - 1, 0x10000); lemma_sum_le_span(path@, begin as int, end as int, 0x10000); }
//@end

//@extract sudachi/src/plugin/path_rewrite/join_numeric/mod.rs :: impl JoinNumericPlugin :: fn rewrite_gen
//@  attr #[verifier::exec_allows_no_decreases_clause]
//@  rw R1p 6 custom
//@  | numeric_parser::Error::
//@  > Error::
//@  rw R13 6 custom
//@  | \b(ss?) == "([,.])"
//@  > str_eq(\1, "\2")
//@  rw Rc 1 custom
//@  | char::MAX
//@  > '\u{10FFFF}'
//@  rw R16 1 custom
//@  | CategoryType::NUMERIC \| CategoryType::KANJINUMERIC
//@  > CategoryType::NUMERIC.union(CategoryType::KANJINUMERIC)
//@  ret res
//@  spec
        requires path@.len() <= 65536, path_ok(path@, text.sp_nch()),
        ensures
            // C14: only merges of adjacent tokens (a lone numeral may be re-issued with a new normalised form)
            res is Ok ==> is_coarsening(path@, res->Ok_0@, true) && path_ok(res->Ok_0@, text.sp_nch()),
//@  atstart
        let ghost p0 = path@;
        let ghost nch = text.sp_nch();
        let ghost mut cuts: Seq<int> = id_cuts(p0.len() as int);
        proof { lemma_coarsen_refl(p0, true); }
//@  loop 1
            invariant
                coarsens(p0, path@, cuts, true), path_ok(path@, nch), nch == text.sp_nch(), path@.len() <= 65536,
                -1 <= i <= path@.len(), -1 <= begin_idx,
                begin_idx >= 0 ==> begin_idx <= i && begin_idx < path@.len(),
//@  loop 2
                    invariant
                        -1 <= i <= path@.len(), -1 <= begin_idx, path@.len() <= 65536,
                        begin_idx >= 0 ==> begin_idx <= i && begin_idx < path@.len(),
//@  before self.concat(path, begin_idx as usize, #1
                    let ghost mid = path@;
                    let ghost bb = begin_idx as int;
                    let ghost ee = i as int;
                    proof { lemma_path_ok_weaken(mid, nch); }
//@  after self.concat(path, begin_idx as usize, #1
                    proof { cuts = lemma_after_concat(p0, mid, cuts, bb, ee, path@, nch); }
//@  before let ss = path[i as usize
                    let ghost mid = path@;
                    let ghost bb = begin_idx as int;
                    let ghost ee = i - 1;
                    proof { lemma_path_ok_weaken(mid, nch); }
//@  after self.concat(path, begin_idx as usize, #2
                        proof { cuts = lemma_after_concat(p0, mid, cuts, bb, ee, path@, nch); }
//@  before let len = path.len();
            let ghost mid = path@;
            let ghost bb = begin_idx as int;
            proof { lemma_path_ok_weaken(mid, nch); }
//@  after self.concat(path, begin_idx as usize, #3
                proof { cuts = lemma_after_concat(p0, mid, cuts, bb, len as int, path@, nch); }
//@  after self.concat(path, begin_idx as usize, #4
                    proof { cuts = lemma_after_concat(p0, mid, cuts, bb, len - 1, path@, nch); }
//@  atend
        proof { assert(is_coarsening(p0, path@, true)); }
//@end
}
} // verus!
fn main() {}
