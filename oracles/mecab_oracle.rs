    // BOUNDED replay oracle for the definition-file readers of the MeCab OOV plugin (C13 / C20; str parsing outside the verifier's reach):
    // read_character_property (char.def class lines: invoke / group / length per class) and read_oov (unk.def: class, ids, cost, POS).
    fn props(text: &str) -> SudachiResult<std::collections::HashMap<CategoryType, (bool, bool, u32)>> {
        MeCabOovPlugin::read_character_property(std::io::Cursor::new(text.as_bytes()))
            .map(|m| m.iter().map(|(k, v)| { assert_eq!(*k, v.category_type); (*k, (v.is_invoke, v.is_group, v.length)) }).collect())
    }
    #[test]
    fn verif_oracle_char_def_class_lines() {
        let mut failures = Vec::new();
        let mut cases = 0;
        let classes = [("KANJI", CategoryType::KANJI), ("ALPHA", CategoryType::ALPHA), ("DEFAULT", CategoryType::DEFAULT)];
        for (n1, c1) in classes.iter() { for inv in ["0", "1"] { for grp in ["0", "1"] { for len in ["0", "1", "2", "10", "4294967295"] {
            for noise in ["", "# comment\n", "\n", "0x4E00..0x9FFF KANJI\n", "   \n", "0x0041 ALPHA # x\n"] {
                cases += 1;
                let text = format!("{}{} {} {} {}\n{}NUMERIC 1 1 0 # tail comment\n", noise, n1, inv, grp, len, noise);
                match props(&text) {
                    Ok(m) => {
                        let want = (inv == "1", grp == "1", len.parse::<u32>().unwrap());
                        if m.len() != 2 || m.get(c1) != Some(&want) || m.get(&CategoryType::NUMERIC) != Some(&(true, true, 0)) {
                            if failures.len() < 20 { failures.push(format!("char.def {:?} is read as {:?}", text, m)); }
                        }
                    }
                    Err(e) => if failures.len() < 20 { failures.push(format!("char.def {:?} is refused: {:?}", text, e)); },
                }
            }
        }}}}
        // malformed texts are refused with an error value, never a panic
        for bad in ["KANJI 1 1\n", "KANJI\n", "FOO 1 1 1\n", "KANJI 1 1 x\n", "KANJI 1 1 -1\n", "KANJI 1 1 4294967296\n", "KANJI 1 1 0\nKANJI 0 0 0\n"] {
            cases += 1;
            match std::panic::catch_unwind(|| props(bad).is_err()) {
                Ok(true) => {}
                Ok(false) => if failures.len() < 20 { failures.push(format!("malformed char.def {:?} is accepted", bad)); },
                Err(_) => if failures.len() < 20 { failures.push(format!("malformed char.def {:?} panics", bad)); },
            }
        }
        println!("verif_oracle_char_def_class_lines: {} texts, {} failures", cases, failures.len());
        for f in failures.iter().take(5) { println!("FAILING INPUT: {}", f); }
        assert!(failures.is_empty());
    }

    #[test]
    fn verif_oracle_unk_def_lines() {
        use crate::util::user_pos::UserPosMode;
        use crate::util::testing::{build_mock_bytes, build_mock_grammar};
        let cats = MeCabOovPlugin::read_character_property(std::io::Cursor::new("KANJI 0 0 2\nALPHA 1 1 0\n".as_bytes())).unwrap();
        let mut failures = Vec::new();
        let mut cases = 0;
        let bytes = build_mock_bytes();
        let base = build_mock_grammar(&bytes);
        let (nl, nr) = (base.conn_matrix().num_left() as i64, base.conn_matrix().num_right() as i64);
        let ids: Vec<i64> = vec![-32768, -1, 0, 1, nl - 1, nl, nl + 1, nr - 1, nr, nr + 1, 32767];
        for &l in ids.iter() { for &r in ids.iter() { for cost in [-32768i64, -1, 0, 32767] { for class in ["KANJI", "ALPHA", "NUMERIC"] {
            cases += 1;
            let mut grammar = build_mock_grammar(&bytes);
            let text = format!("# c\n\n{},{},{},{},名詞,普通名詞,一般,*,*,*\n", class, l, r, cost);
            let res = std::panic::catch_unwind(std::panic::AssertUnwindSafe(|| MeCabOovPlugin::read_oov(std::io::Cursor::new(text.as_bytes()), &cats, &mut grammar, UserPosMode::Allow)));
            let ok_expected = class != "NUMERIC" && 0 <= l && l < nl.max(1) && 0 <= r && r < nr.max(1);
            match res {
                Err(_) => if failures.len() < 20 { failures.push(format!("unk.def line {:?} panics", text)); },
                Ok(Err(_)) => if ok_expected && failures.len() < 20 { failures.push(format!("unk.def line {:?} is refused although class and ids are valid (matrix {} x {})", text, nl, nr)); },
                Ok(Ok(m)) => {
                    if !ok_expected { if failures.len() < 20 { failures.push(format!("unk.def line {:?} is accepted (matrix {} x {})", text, nl, nr)); } continue; }
                    let key = if class == "KANJI" { CategoryType::KANJI } else { CategoryType::ALPHA };
                    let good = m.len() == 1 && m.get(&key).map(|v| v.len() == 1 && v[0].left_id as i64 == l && v[0].right_id as i64 == r && v[0].cost as i64 == cost
                        && grammar.pos_list[v[0].pos_id as usize] == vec!["名詞", "普通名詞", "一般", "*", "*", "*"]).unwrap_or(false);
                    if !good && failures.len() < 20 { failures.push(format!("unk.def line {:?} is read as {:?}", text, m)); }
                }
            }
        }}}}
        // several definitions per class, in every interleaving of two classes: each class keeps ALL its definitions, in file order
        let defs = [("KANJI", 1i16, 100i16), ("ALPHA", 2, 200), ("KANJI", 3, 300), ("ALPHA", 4, 400), ("KANJI", 5, 500)];
        for mask in 1u32..32 {
            let chosen: Vec<&(&str, i16, i16)> = defs.iter().enumerate().filter(|(i, _)| mask & (1 << i) != 0).map(|(_, d)| d).collect();
            cases += 1;
            let text: String = chosen.iter().map(|(c, id, cost)| format!("{},{},{},{},名詞,普通名詞,一般,*,*,*\n", c, id, id, cost)).collect();
            let mut grammar = build_mock_grammar(&bytes);
            match MeCabOovPlugin::read_oov(std::io::Cursor::new(text.as_bytes()), &cats, &mut grammar, UserPosMode::Allow) {
                Err(e) => if failures.len() < 20 { failures.push(format!("unk.def {:?} is refused: {:?}", text, e)); },
                Ok(m) => {
                    for (name, key) in [("KANJI", CategoryType::KANJI), ("ALPHA", CategoryType::ALPHA)] {
                        let want: Vec<(i16, i16, i16)> = chosen.iter().filter(|d| d.0 == name).map(|d| (d.1, d.1, d.2)).collect();
                        let got: Vec<(i16, i16, i16)> = m.get(&key).map(|v| v.iter().map(|o| (o.left_id, o.right_id, o.cost)).collect()).unwrap_or_default();
                        if got != want && failures.len() < 20 { failures.push(format!("unk.def {:?}: class {} has the definitions (left, right, cost) {:?}, the file gives {:?}", text, name, got, want)); }
                    }
                }
            }
        }
        println!("verif_oracle_unk_def_lines: {} lines, {} failures", cases, failures.len());
        for f in failures.iter().take(5) { println!("FAILING INPUT: {}", f); }
        assert!(failures.is_empty());
    }
