    // Replay oracle for V-MERGE: executable restatement of Grammar::merge's and register_pos' contracts (units/v_merge.rs.tpl),
    // enumerated over small part-of-speech lists with overlaps.  BOUNDED: lists of up to 3 entries drawn from 3 tags.
    fn mk(pos: &[usize]) -> Grammar<'static> {
        Grammar {
            _bytes: &[],
            pos_list: pos.iter().map(|i| tag(*i)).collect(),
            storage_size: 0,
            connection: ConnectionMatrix::from_offset_size(&[], 0, 0, 0).unwrap(),
            character_category: CharacterCategory::default(),
        }
    }
    fn tag(i: usize) -> Vec<String> {
        let names = ["名詞", "動詞", "記号"];
        vec![names[i].to_string(), "*".into(), "*".into(), "*".into(), "*".into(), "*".into()]
    }
    fn lists() -> Vec<Vec<usize>> {
        let mut r: Vec<Vec<usize>> = vec![vec![]];
        let mut frontier: Vec<Vec<usize>> = vec![vec![]];
        for _ in 0..3 {
            let mut nf = Vec::new();
            for l in &frontier { for t in 0..3 { let mut x = l.clone(); x.push(t); nf.push(x); } }
            r.extend(nf.iter().cloned());
            frontier = nf;
        }
        r
    }

    #[test]
    fn verif_oracle_merge_appends_in_order() {
        let mut failures = Vec::new();
        let mut cases = 0;
        for a in lists() { for b in lists() {
            cases += 1;
            let mut g = mk(&a);
            let before = g.pos_list.clone();
            let other = mk(&b);
            let theirs = other.pos_list.clone();
            g.merge(other);
            let mut exp = before.clone();
            exp.extend(theirs.iter().cloned());
            if g.pos_list != exp {
                failures.push(format!("grammar with parts of speech {:?} merged with a grammar declaring {:?}: list is {:?}, expected the second list appended in order ({} + {} entries, got {})",
                    a, b, g.pos_list.iter().map(|p| p[0].clone()).collect::<Vec<_>>(), a.len(), b.len(), g.pos_list.len()));
            }
        }}
        println!("verif_oracle_merge_appends_in_order: {} cases, {} failures", cases, failures.len());
        for f in failures.iter().take(5) { println!("FAILING INPUT: {}", f); }
        assert!(failures.is_empty());
    }

    #[test]
    fn verif_oracle_register_pos_keeps_ids() {
        let mut failures = Vec::new();
        for a in lists() { for t in 0..3 {
            let mut g = mk(&a);
            let before = g.pos_list.clone();
            let r = g.register_pos(&tag(t));
            let ctx = format!("register_pos({}) on list {:?} -> {:?}, list now {} entries", t, a, r.as_ref().ok(), g.pos_list.len());
            if g.pos_list.len() < before.len() || g.pos_list[..before.len()] != before[..] || g.pos_list.len() > before.len() + 1 {
                failures.push(format!("earlier ids changed: {}", ctx));
            }
            match r {
                Ok(id) => if (id as usize) >= g.pos_list.len() || g.pos_list[id as usize] != tag(t) { failures.push(format!("id does not name the part of speech: {}", ctx)); },
                Err(_) => failures.push(format!("refused: {}", ctx)),
            }
        }}
        println!("verif_oracle_register_pos_keeps_ids: {} failures", failures.len());
        for f in failures.iter().take(5) { println!("FAILING INPUT: {}", f); }
        assert!(failures.is_empty());
    }

    /// C20 / C12: a part of speech "exists" only as a whole: lookups with fewer or more than six components, with a proper prefix or an
    /// extension of a registered part of speech, find nothing, and handle_user_pos in forbid mode refuses them
    #[test]
    fn verif_oracle_pos_lookup_is_exact() {
        use crate::util::user_pos::{UserPosMode, UserPosSupport};
        let mut failures = Vec::new();
        let mut cases = 0;
        for l in lists() {
            if l.is_empty() { continue; }
            let mut g = mk(&l);
            for (i, t) in l.iter().enumerate() {
                let full = tag(*t);
                let first = l.iter().position(|x| x == t).unwrap();
                cases += 1;
                if g.get_part_of_speech_id(&full) != Some(first as u16) && failures.len() < 20 { failures.push(format!("list {:?}: lookup of entry {} gives {:?}", l, i, g.get_part_of_speech_id(&full))); }
                for n in 0..6usize {
                    cases += 1;
                    let part: Vec<String> = full[..n].to_vec();
                    if g.get_part_of_speech_id(&part).is_some() && failures.len() < 20 { failures.push(format!("list {:?}: the {}-component prefix {:?} is found as id {:?}", l, n, part, g.get_part_of_speech_id(&part))); }
                    let mut gg = &mut g;
                    if gg.handle_user_pos(&part, UserPosMode::Forbid).is_ok() && failures.len() < 20 { failures.push(format!("list {:?}: handle_user_pos(forbid) accepts the {}-component list {:?}", l, n, part)); }
                }
                let mut longer = full.clone(); longer.push("*".to_string());
                cases += 1;
                if g.get_part_of_speech_id(&longer).is_some() && failures.len() < 20 { failures.push(format!("list {:?}: the 7-component list {:?} is found", l, longer)); }
            }
        }
        println!("verif_oracle_pos_lookup_is_exact: {} lookups, {} failures", cases, failures.len());
        for f in failures.iter().take(5) { println!("FAILING INPUT: {}", f); }
        assert!(failures.is_empty());
    }
