// UNIT V-TRIE (C04, C03): lexicon/trie.rs  TrieEntryIter::next / get, Trie::common_prefix_iterator / get
// against the abstract double-array semantics (yada's unit layout; the bit accessors are decided by Kani unit k_unit)
use vstd::prelude::*;
verus! {
global size_of usize == 8;

//@extract sudachi/src/dic/lexicon/trie.rs :: struct TrieEntry
//@  derive
//@end
impl TrieEntry {
//@extract sudachi/src/dic/lexicon/trie.rs :: impl TrieEntry :: fn new
//@  ret r
//@  spec
        ensures r.value == value, r.end == offset
//@end
}
//@extract sudachi/src/dic/lexicon/trie.rs :: struct Trie
//@  rw R5 1 custom
//@  | CowArray<'a, u32>
//@  > Vec<u32>, _lt: core::marker::PhantomData<&'a ()>
//@end
//@extract sudachi/src/dic/lexicon/trie.rs :: struct TrieEntryIter
//@end

//@include specs/trie_specs.rs.inc

impl<'a> Trie<'a> {
// the four accessors: bodies are proved equal to yada::unit::Unit for all 2^32 units by the Kani harness k_unit;
// here their results are the uninterpreted layout functions u_*
//@extract sudachi/src/dic/lexicon/trie.rs :: impl<'a> Trie<'a> :: fn has_leaf
//@  stub KANI_k_unit
//@  ret r
//@  spec
        ensures r == u_has_leaf(unit)
//@end
//@extract sudachi/src/dic/lexicon/trie.rs :: impl<'a> Trie<'a> :: fn value
//@  stub KANI_k_unit
//@  ret r
//@  spec
        ensures r == u_value(unit)
//@end
//@extract sudachi/src/dic/lexicon/trie.rs :: impl<'a> Trie<'a> :: fn label
//@  stub KANI_k_unit
//@  ret r
//@  spec
        ensures r == u_label(unit)
//@end
//@extract sudachi/src/dic/lexicon/trie.rs :: impl<'a> Trie<'a> :: fn offset
//@  stub KANI_k_unit
//@  ret r
//@  spec
        ensures r == u_offset(unit)
//@end
//@extract sudachi/src/dic/lexicon/trie.rs :: impl<'a> Trie<'a> :: fn get
//@  rw R3 1
//@  rw R4 1
//@  ret r
//@  spec
        requires index < self.array@.len()
        ensures r == self.array@[index as int]
//@end
//@extract sudachi/src/dic/lexicon/trie.rs :: impl<'a> Trie<'a> :: fn common_prefix_iterator
//@  rw R5 1 custom
//@  | trie: &self\.array,
//@  > trie: self.array.as_slice(),
//@  ret it
//@  spec
        requires self.array@.len() > 0, offset <= input@.len(),
        ensures it.trie@ == self.array@, it.data@ == input@, it.offset == offset,
            // the search starts in the root state
            it.node_pos == u_offset(self.array@[0] as usize),
//@end
}

impl<'a> TrieEntryIter<'a> {
//@extract sudachi/src/dic/lexicon/trie.rs :: impl<'a> TrieEntryIter<'a> :: fn get
//@  rw R3 1
//@  rw R4 1
//@  ret r
//@  spec
        requires index < self.trie@.len()
        ensures r == self.trie@[index as int]
//@end

// R11: `impl Iterator for TrieEntryIter { fn next }` verified as an inherent fn
//@extract sudachi/src/dic/lexicon/trie.rs :: impl<'a> Iterator for TrieEntryIter<'a> :: fn next
//@  twin
//@  rw R11 1 custom
//@  | Option<Self::Item>
//@  > Option<TrieEntry>
//@  rw R7 1
//@  ret r
//@  spec
        requires
            old(self).offset <= old(self).data@.len(),
            da_valid(old(self).trie@), old(self).node_pos < old(self).trie@.len(),
        ensures
            final(self).trie@ == old(self).trie@, final(self).data@ == old(self).data@,
            // C04: exactly the next prefix that is a key (or none), with its value and end offset
            next_ok(old(self).trie@, old(self).data@, old(self).node_pos, old(self).offset as int, r, final(self).node_pos, final(self).offset as int),
            final(self).offset <= final(self).data@.len(), final(self).node_pos < final(self).trie@.len(),
            r is None ==> final(self).node_pos == old(self).node_pos && final(self).offset == old(self).offset,
//@  atstart
        let ghost t = self.trie@;
        let ghost d = self.data@;
        let ghost p0 = self.node_pos;
        let ghost o0 = self.offset as int;
//@  loop 1
            invariant
                self.offset == o0, self.node_pos == p0, p0 < t.len(), o0 <= __it_i <= d.len(), __end_i == d.len(), da_valid(t), node_pos < t.len(),
                self.trie@ == t, self.data@ == d, t == old(self).trie@, d == old(self).data@, p0 == old(self).node_pos, o0 == old(self).offset,
                walk(t, p0, d, o0, __it_i as int) == Some(node_pos),
                forall|j: int| o0 < j <= __it_i ==> !#[trigger] leaf_at(t, p0, d, o0, j),
            decreases d.len() - __it_i
//@  before node_pos ^= *k as usize;
            let ghost old_np = node_pos;
//@  after node_pos ^= *k as usize;
            proof { lemma_xor_low(old_np, *k, t.len() as usize); assert(*k == d[i as int]); }
//@  before return None; #1
                proof {
                    assert(*k == d[i as int]);
                    assert(walk(t, p0, d, o0, i + 1) is None);
                    assert forall|j: int| o0 < j <= d.len() implies !#[trigger] leaf_at(t, p0, d, o0, j) by {
                        if j > i { lemma_walk_none(t, p0, d, o0, i + 1, j); if j == i + 1 { } }
                    }
                }
//@  before return None; #2
                proof {
                    assert(walk(t, p0, d, o0, i + 1) is None);
                    assert forall|j: int| o0 < j <= d.len() implies !#[trigger] leaf_at(t, p0, d, o0, j) by {
                        if j > i { lemma_walk_none(t, p0, d, o0, i + 1, j); if j == i + 1 { } }
                    }
                }
//@  before node_pos ^= Trie::offset(unit);
            let ghost q = node_pos;
//@  after node_pos ^= Trie::offset(unit);
            proof {
                assert(walk(t, p0, d, o0, i + 1) == Some(node_pos));
                assert(node_pos < t.len());
            }
//@  before let r = TrieEntry::new(
                proof { assert(leaf_at(t, p0, d, o0, i + 1)); }
//@  afterloop 1
        proof {
            assert forall|j: int| o0 < j <= d.len() implies !#[trigger] leaf_at(t, p0, d, o0, j) by {}
        }
//@end
}
/// C04 as a verified client of `next` (what `for e in trie.common_prefix_iterator(input, offset)` does):
/// the entries reported are EXACTLY the positions j > offset such that input[offset..j) is a key (leaf_at from the
/// root state), each exactly once, in increasing order, each with the value stored for that key
fn all_entries<'a>(it: TrieEntryIter<'a>) -> (out: Vec<TrieEntry>)
    requires it.offset <= it.data@.len(), da_valid(it.trie@), it.node_pos < it.trie@.len(),
    ensures
        forall|k: int| 0 <= k < out@.len() ==> it.offset < (#[trigger] out@[k]).end <= it.data@.len()
            && leaf_at(it.trie@, it.node_pos, it.data@, it.offset as int, out@[k].end as int)
            && walk(it.trie@, it.node_pos, it.data@, it.offset as int, out@[k].end as int) is Some
            && out@[k].value == u_value(it.trie@[walk(it.trie@, it.node_pos, it.data@, it.offset as int, out@[k].end as int)->Some_0 as int]),
        forall|k: int, l: int| 0 <= k < l < out@.len() ==> out@[k].end < out@[l].end,
        forall|j: int| it.offset < j <= it.data@.len() && leaf_at(it.trie@, it.node_pos, it.data@, it.offset as int, j)
            ==> exists|k: int| 0 <= k < out@.len() && #[trigger] out@[k].end == j,
{
    let ghost t = it.trie@;
    let ghost d = it.data@;
    let ghost p0 = it.node_pos;
    let ghost o0 = it.offset as int;
    let mut it = it;
    let mut out: Vec<TrieEntry> = Vec::new();
    loop
        invariant
            it.trie@ == t, it.data@ == d, da_valid(t), p0 < t.len(), o0 <= it.offset <= d.len(), it.node_pos < t.len(),
            walk(t, p0, d, o0, it.offset as int) == Some(it.node_pos),
            forall|k: int| 0 <= k < out@.len() ==> o0 < (#[trigger] out@[k]).end <= it.offset
                && leaf_at(t, p0, d, o0, out@[k].end as int)
                && walk(t, p0, d, o0, out@[k].end as int) is Some
                && out@[k].value == u_value(t[walk(t, p0, d, o0, out@[k].end as int)->Some_0 as int]),
            forall|k: int, l: int| 0 <= k < l < out@.len() ==> out@[k].end < out@[l].end,
            forall|j: int| o0 < j <= it.offset && leaf_at(t, p0, d, o0, j) ==> exists|k: int| 0 <= k < out@.len() && #[trigger] out@[k].end == j,
        ensures
            forall|k: int| 0 <= k < out@.len() ==> o0 < (#[trigger] out@[k]).end <= d.len()
                && leaf_at(t, p0, d, o0, out@[k].end as int)
                && walk(t, p0, d, o0, out@[k].end as int) is Some
                && out@[k].value == u_value(t[walk(t, p0, d, o0, out@[k].end as int)->Some_0 as int]),
            forall|k: int, l: int| 0 <= k < l < out@.len() ==> out@[k].end < out@[l].end,
            forall|j: int| o0 < j <= d.len() && leaf_at(t, p0, d, o0, j) ==> exists|k: int| 0 <= k < out@.len() && #[trigger] out@[k].end == j,
        decreases d.len() - it.offset
    {
        let ghost prev = out@;
        let ghost np = it.node_pos;
        let ghost off = it.offset as int;
        match it.next() {
            None => {
                proof {
                    assert forall|j: int| o0 < j <= d.len() && leaf_at(t, p0, d, o0, j) implies exists|k: int| 0 <= k < out@.len() && #[trigger] out@[k].end == j by {
                        if j > off { lemma_walk_compose(t, p0, d, o0, off, j); }
                    }
                }
                break;
            }
            Some(e) => {
                out.push(e);
                proof {
                    let en = e.end as int;
                    lemma_walk_compose(t, p0, d, o0, off, en);
                    assert forall|k: int| 0 <= k < out@.len() implies o0 < (#[trigger] out@[k]).end <= it.offset
                        && leaf_at(t, p0, d, o0, out@[k].end as int)
                        && walk(t, p0, d, o0, out@[k].end as int) is Some
                        && out@[k].value == u_value(t[walk(t, p0, d, o0, out@[k].end as int)->Some_0 as int]) by {
                        if k < prev.len() { assert(out@[k] == prev[k]); }
                    }
                    assert forall|k: int, l: int| 0 <= k < l < out@.len() implies out@[k].end < out@[l].end by {
                        if l < prev.len() { assert(out@[k] == prev[k] && out@[l] == prev[l]); } else { assert(out@[k] == prev[k]); }
                    }
                    assert forall|j: int| o0 < j <= it.offset && leaf_at(t, p0, d, o0, j) implies exists|k: int| 0 <= k < out@.len() && #[trigger] out@[k].end == j by {
                        if j <= off {
                            let k = choose|k: int| 0 <= k < prev.len() && #[trigger] prev[k].end == j;
                            assert(out@[k].end == j);
                        } else if j < en {
                            lemma_walk_compose(t, p0, d, o0, off, j);
                        } else {
                            assert(out@[prev.len() as int].end == j);
                        }
                    }
                }
            }
        }
    }
    out
}
} // verus!
fn main() {}
