// UNIT V-SNUM (C15): plugin/path_rewrite/join_numeric/numeric_parser/string_number.rs  StringNumber: the string-based
//                    arbitrary-precision arithmetic (new / clear / append / shift_scale / add / set_point / int_length / is_zero /
//                    normalize_scale / fill_zero) against exact decimal values
use vstd::prelude::*;
use vstd::string::*;
verus! {
global size_of usize == 8;
//@include specs/snum_specs.rs.inc

//@extract sudachi/src/plugin/path_rewrite/join_numeric/numeric_parser/string_number.rs :: struct StringNumber
//@  derive
//@end

impl StringNumber {
//@extract sudachi/src/plugin/path_rewrite/join_numeric/numeric_parser/string_number.rs :: impl StringNumber :: fn new
//@  rw R13 1 custom
//@  | String::new\(\)
//@  > string_new()
//@  ret r
//@  spec
        ensures sn_wf(r), r.significand@.len() == 0, r.scale == 0, r.point == -1, r.is_all_zero,
//@end
//@extract sudachi/src/plugin/path_rewrite/join_numeric/numeric_parser/string_number.rs :: impl StringNumber :: fn clear
//@  rw R13 1 custom
//@  | self\.significand\.clear\(\);
//@  > string_clear(&mut self.significand);
//@  spec
        ensures sn_wf(*final(self)), final(self).significand@.len() == 0, final(self).scale == 0, final(self).point == -1, final(self).is_all_zero,
//@end
//@extract sudachi/src/plugin/path_rewrite/join_numeric/numeric_parser/string_number.rs :: impl StringNumber :: fn has_point
//@  ret r
//@  spec
        ensures r == (self.point >= 0),
//@end
//@extract sudachi/src/plugin/path_rewrite/join_numeric/numeric_parser/string_number.rs :: impl StringNumber :: fn is_zero
//@  rw R13 1 custom
//@  | self\.significand\.len\(\)
//@  > digits_len(&self.significand)
//@  ret r
//@  spec
        requires all_digits(self.significand@),
        ensures r == (self.significand@.len() == 0),
//@end
//@extract sudachi/src/plugin/path_rewrite/join_numeric/numeric_parser/string_number.rs :: impl StringNumber :: fn append
//@  rw R13 1 custom
//@  | self\.significand \+= &i\.to_string\(\);
//@  > string_push_digit(&mut self.significand, i);
//@  spec
        requires sn_wf(*old(self)), 0 <= i <= 9,
        ensures
            sn_wf(*final(self)), final(self).scale == old(self).scale, final(self).point == old(self).point,
            final(self).significand@ == old(self).significand@.push(dch(i as int)),
            // value: one more digit at the end
            sn_m(*final(self)) == 10 * sn_m(*old(self)) + i,
            final(self).is_all_zero == (old(self).is_all_zero && i == 0),
//@  atend
        proof { lemma_dval_push(old(self).significand@, dch(i as int)); }
//@end
//@extract sudachi/src/plugin/path_rewrite/join_numeric/numeric_parser/string_number.rs :: impl StringNumber :: fn fill_zero
//@  rw R13 1 custom
//@  | self\.significand \+= &"0"\.repeat\(length\);
//@  > string_push_zeros(&mut self.significand, length);
//@  spec
        requires all_digits(old(self).significand@),
        ensures
            final(self).significand@ == old(self).significand@ + zeros(length as nat), all_digits(final(self).significand@),
            final(self).scale == old(self).scale, final(self).point == old(self).point, final(self).is_all_zero == old(self).is_all_zero,
            dval(final(self).significand@) == dval(old(self).significand@) * pow10(length as nat),
//@  atend
        proof {
            lemma_zeros(length as nat);
            lemma_dval_concat(old(self).significand@, zeros(length as nat));
        }
//@end
//@extract sudachi/src/plugin/path_rewrite/join_numeric/numeric_parser/string_number.rs :: impl StringNumber :: fn normalize_scale
//@  rw R13 1 custom
//@  | self\.significand\.len\(\)
//@  > digits_len(&self.significand)
//@  spec
        requires sn_wf(*old(self)), old(self).scale <= 0x3fff_ffff, old(self).significand@.len() <= 0x3fff_ffff,
        ensures
            sn_wf(*final(self)), final(self).significand@ == old(self).significand@, final(self).is_all_zero == old(self).is_all_zero,
            // the value is unchanged: only the split between `scale` and the decimal point moves
            sn_e(*final(self)) == sn_e(*old(self)),
            final(self).point < 0 || final(self).scale == 0,
            final(self).scale <= old(self).scale,
            old(self).point < 0 ==> final(self).scale == old(self).scale && final(self).point == old(self).point,
            final(self).point >= 0 ==> final(self).point >= old(self).point,
//@end
//@extract sudachi/src/plugin/path_rewrite/join_numeric/numeric_parser/string_number.rs :: impl StringNumber :: fn int_length
//@  rw R13 1 custom
//@  | self\.significand\.len\(\)
//@  > digits_len(&self.significand)
//@  ret r
//@  spec
        requires sn_wf(*old(self)), old(self).scale <= 0x3fff_ffff, old(self).significand@.len() <= 0x3fff_ffff,
        ensures
            sn_wf(*final(self)), final(self).significand@ == old(self).significand@, final(self).is_all_zero == old(self).is_all_zero,
            sn_e(*final(self)) == sn_e(*old(self)), final(self).point < 0 || final(self).scale == 0,
            // number of digits before the decimal point, counting the zeros that `scale` stands for
            r == (if final(self).point >= 0 { final(self).point as int } else { final(self).significand@.len() + final(self).scale }),
            r == final(self).significand@.len() + sn_e(*final(self)),
//@end
//@extract sudachi/src/plugin/path_rewrite/join_numeric/numeric_parser/string_number.rs :: impl StringNumber :: fn shift_scale
//@  rw R13 1 custom
//@  | self\.significand \+= "(\d)";
//@  > string_push_digit(&mut self.significand, \1);
//@  spec
        requires sn_wf(*old(self)), 0 <= i <= 1000, old(self).scale <= 0x3fff_ffff, old(self).significand@.len() == 0 ==> old(self).point < 0,
        ensures
            sn_wf(*final(self)), final(self).point == old(self).point,
            // a unit multiplies by a power of ten; a bare unit counts as 1 x unit
            sn_m(*final(self)) == (if old(self).significand@.len() == 0 { 1 } else { sn_m(*old(self)) }),
            sn_e(*final(self)) == sn_e(*old(self)) + i,
            final(self).significand@.len() > 0, final(self).significand@.len() <= old(self).significand@.len() + 1,
            final(self).scale == old(self).scale + i,
//@  atend
        proof { if old(self).significand@.len() == 0 { lemma_dval_push(old(self).significand@, dch(1)); } }
//@end
//@extract sudachi/src/plugin/path_rewrite/join_numeric/numeric_parser/string_number.rs :: impl StringNumber :: fn set_point
//@  rw R13 1 custom
//@  | self\.significand\.len\(\)
//@  > digits_len(&self.significand)
//@  ret r
//@  spec
        requires sn_wf(*old(self)), old(self).significand@.len() <= 0x3fff_ffff,
        ensures
            sn_wf(*final(self)), final(self).significand@ == old(self).significand@, final(self).scale == old(self).scale,
            r == (old(self).scale == 0 && old(self).point < 0),
            r ==> final(self).point == old(self).significand@.len(),
            !r ==> final(self).point == old(self).point,
            // the value is unchanged: the point is placed after the last digit
            sn_m(*final(self)) == sn_m(*old(self)), sn_e(*final(self)) == sn_e(*old(self)),
//@end
//@extract sudachi/src/plugin/path_rewrite/join_numeric/numeric_parser/string_number.rs :: impl StringNumber :: fn add
//@  rw R13 * custom
//@  | self\.significand \+= &number\.significand;
//@  > string_append(&mut self.significand, &number.significand);
//@  rw R13 * custom
//@  | self\.significand\.len\(\)
//@  > digits_len(&self.significand)
//@  ret r
//@  spec
        requires
            sn_wf(*old(self)), sn_wf(*old(number)),
            old(self).scale <= 0x3fff_ffff, old(self).significand@.len() <= 0x3fff_ffff, old(number).scale <= 0x3fff_ffff, old(number).significand@.len() <= 0x3fff_ffff,
            // a numeral never starts with the decimal point (the parser refuses it)
            old(number).point != 0,
        ensures
            sn_wf(*final(self)), sn_wf(*final(number)),
            // the addend keeps its value (it may be re-normalised)
            final(number).significand@ == old(number).significand@, sn_e(*final(number)) == sn_e(*old(number)),
            // C15: success means exact addition; refusal leaves the value alone
            r ==> val_sum(sn_m(*old(self)), sn_e(*old(self)), sn_m(*old(number)), sn_e(*old(number)), sn_m(*final(self)), sn_e(*final(self))),
            !r ==> sn_m(*final(self)) == sn_m(*old(self)) && sn_e(*final(self)) == sn_e(*old(self)),
            // refused exactly when the digits of the addend would overlap the digits already present
            r == (old(number).significand@.len() == 0 || old(self).significand@.len() == 0
                  || max0(sn_e(*old(self))) >= old(number).significand@.len() + sn_e(*old(number))),
            // frame: sizes and the place of the decimal point
            final(self).scale <= old(self).scale || final(self).scale <= old(number).scale,
            final(self).significand@.len() <= old(self).significand@.len() + old(self).scale + old(number).significand@.len(),
            final(self).significand@.len() >= old(self).significand@.len(),
            final(number).scale <= old(number).scale,
            old(self).point != 0 ==> final(self).point != 0,
            final(number).point != 0,
            final(number).significand@.len() == 0 ==> final(number).point == old(number).point,
//@  atstart
        let ghost me0 = *self;
        let ghost nu0 = *number;
//@  before return true; #1
            proof { assert(dval(number.significand@) == 0); lemma_add_zero_right(sn_m(me0), sn_e(me0), sn_e(nu0)); }
//@  before return true; #2
            proof {
                assert(Seq::<char>::empty() + number.significand@ =~= number.significand@);
                assert(me0.significand@ =~= Seq::<char>::empty());
                assert(sn_m(me0) == 0);
                lemma_add_zero_left(sn_m(nu0), sn_e(nu0), sn_e(me0));
            }
//@  before self.fill_zero(
            let ghost me1 = *self;
            let ghost nu1 = *number;
            let ghost z = (self.scale - length) as nat;
//@  before return true; #3
            proof {
                let d1 = me1.significand@; let dn = nu1.significand@;
                lemma_zeros(z);
                assert(self.significand@ == (d1 + zeros(z)) + dn);
                lemma_dval_concat(d1 + zeros(z), dn);
                assert(me1.point < 0);
                assert(sn_e(*self) == sn_e(nu1));
                lemma_add_main(sn_m(me0), sn_e(me1), dn.len(), sn_m(nu0), sn_e(nu0), z, sn_m(*self));
            }
//@end
//@extract sudachi/src/plugin/path_rewrite/join_numeric/numeric_parser/string_number.rs :: impl StringNumber :: fn to_string
//@  rw R13 1 custom
//@  | return "0"\.to_owned\(\);
//@  > return zero_string();
//@  rw R13 2 custom
//@  | self\.significand\.insert\(([^;]+?), '(.)'\);
//@  > string_insert(&mut self.significand, \1, '\2');
//@  rw R13 1 custom
//@  | self\s*\.significand\s*\.chars\(\)\s*\.rev\(\)\s*\.take_while\(\|c\| \*c == '0'\)\s*\.count\(\)
//@  > count_trailing_zeros(&self.significand)
//@  rw R13 2 custom
//@  | self\.significand\s*\.truncate\(self\.significand\.len\(\) - ([^;]+?)\);
//@  > string_truncate_by(&mut self.significand, \1);
//@  rw R13 1 custom
//@  | self\.significand\.chars\(\)\.last\(\)\.unwrap\(\)
//@  > last_char(&self.significand)
//@  rw R13 1 custom
//@  | self\.significand\.clone\(\)
//@  > string_clone(&self.significand)
//@  ret r
//@  spec
        requires sn_wf(*old(self)), old(self).scale <= 0x3fff_ffff, old(self).significand@.len() <= 0x3fff_ffff,
            // a numeral never starts with the decimal point
            old(self).point != 0 || old(self).significand@.len() == 0,
        ensures
            // C15: the result is the decimal rendering of the value (0 for the empty number)
            renders(r@, sn_m(*old(self)), if old(self).significand@.len() == 0 { 0 } else { sn_e(*old(self)) }),
//@  atstart
        let ghost d = self.significand@;
//@  before return zero_string();
            proof {
                let z = seq!['0'];
                assert(is_rendering(z, z, Seq::<char>::empty()));
                assert(z + Seq::<char>::empty() =~= z);
                assert(z.drop_last() =~= Seq::<char>::empty());
                assert(z.last() == '0');
                assert(dig('0') == 0);
                assert(dval(z.drop_last()) == 0);
                assert(dval(z) == 0);
                assert(d =~= Seq::<char>::empty());
                lemma_pow10_one();
                assert(val_same(0, 0, 0, 0));
            }
//@  before if self.scale > 0 {
        let ghost pt = self.point as int;
        let ghost sc = self.scale as nat;
        proof {
            if sc > 0 { lemma_render_int(d, sc); }
            else if pt >= 0 {
                lemma_rp_struct(d, pt);
                let ip = d.subrange(0, pt);
                let f = d.subrange(pt, d.len() as int);
                lemma_rp_value(ip, rp_f1(d, pt), tz(f));
            }
            else { lemma_render_int(d, 0); assert(d + zeros(0) =~= d); }
        }
//@  atend
        proof {
            let e0 = sn_e(*old(self));
            if sc > 0 {
                assert(self.significand@ == d + zeros(sc));
                assert(e0 == sc);
            } else if pt >= 0 {
                assert(pt >= 1);
                let ip = d.subrange(0, pt);
                let f = d.subrange(pt, d.len() as int);
                let f1 = rp_f1(d, pt);
                assert(self.significand@ == (if f1.len() == 0 { ip } else { ip.push('.') + f1 })) by {
                    let y = ip.push('.') + f1;
                    if f1.len() == 0 { assert(y =~= ip.push('.')); assert(y.subrange(0, y.len() - 1) =~= ip); }
                    else { assert(y.last() == f1.last()); }
                }
                assert(ip + (f1 + zeros(tz(f))) == d);
                assert(e0 == -((f1.len() + tz(f)) as int));
            } else {
                assert(self.significand@ == d);
                assert(e0 == 0);
            }
        }
//@end

}
//@extract sudachi/src/plugin/path_rewrite/join_numeric/numeric_parser/mod.rs :: enum Error
//@  derive PartialEq, Eq, Structural
//@end
//@extract sudachi/src/plugin/path_rewrite/join_numeric/numeric_parser/mod.rs :: struct NumericParser
//@  derive
//@end
//@include specs/nparse_specs.rs.inc

impl NumericParser {
//@extract sudachi/src/plugin/path_rewrite/join_numeric/numeric_parser/mod.rs :: impl NumericParser :: fn is_small_unit
//@  ret r
//@  spec
        ensures r == (-3 <= n && n < 0)
//@end
//@extract sudachi/src/plugin/path_rewrite/join_numeric/numeric_parser/mod.rs :: impl NumericParser :: fn is_large_unit
//@  ret r
//@  spec
        ensures r == (n < -3)
//@end
//@extract sudachi/src/plugin/path_rewrite/join_numeric/numeric_parser/mod.rs :: impl NumericParser :: fn new
//@  ret r
//@  spec
        ensures np_wf(r), np_zero(r), np_size(r) == 0,
//@end
//@extract sudachi/src/plugin/path_rewrite/join_numeric/numeric_parser/mod.rs :: impl NumericParser :: fn clear
//@  spec
        ensures np_wf(*final(self)), np_zero(*final(self)), np_size(*final(self)) == 0,
//@end
//@extract sudachi/src/plugin/path_rewrite/join_numeric/numeric_parser/mod.rs :: impl NumericParser :: fn check_comma
//@  ret r
//@  spec
        requires sn_wf(self.tmp),
        // C15 (F22): a thousands separator is acceptable only inside an open digit run WITHOUT a decimal point
        ensures r ==> !self.is_first_digit && self.tmp.point < 0,
//@end
//@extract sudachi/src/plugin/path_rewrite/join_numeric/numeric_parser/mod.rs :: impl NumericParser :: fn append
//@  rw R14 1 custom
//@  | CHAR_TO_NUM\.get\(c\)
//@  > char_to_num(c)
//@  ret r
//@  spec
        requires np_wf(*old(self)), np_size(*old(self)) <= 0x1000_0000,
        ensures
            // a refused character leaves the parser in an error state: the caller clears it before the next numeral
            r ==> np_wf(*final(self)) && np_size(*final(self)) <= np_size(*old(self)) + 40,
            // C15: an accepted character updates the three accumulators exactly as the numeral system prescribes
            r ==> np_step(*old(self), *c, *final(self)),
            // C15 (F22): an accepted thousands separator never follows the decimal point of the current digit run, and starts a new group
            r && *c == ',' ==> old(self).tmp.point < 0 && !old(self).is_first_digit && final(self).has_comma && final(self).digit_length == 0,
            // a refused separator or point is reported as such
            !r && *c == ',' ==> final(self).error_state == Error::COMMA,
//@end
//@extract sudachi/src/plugin/path_rewrite/join_numeric/numeric_parser/mod.rs :: impl NumericParser :: fn done
//@  ret r
//@  spec
        requires np_wf(*old(self)), np_size(*old(self)) <= 0x1000_0000,
        ensures
            // C15: an accepted numeral: total = total + subtotal + tmp, exactly
            r ==> exists|m1: nat, e1: int| #[trigger] val_sum(sn_m(old(self).subtotal), sn_e(old(self).subtotal), sn_m(old(self).tmp), sn_e(old(self).tmp), m1, e1)
                && val_sum(sn_m(old(self).total), sn_e(old(self).total), m1, e1, sn_m(final(self).total), sn_e(final(self).total)),
            sn_wf(final(self).total), final(self).total.scale <= 0x3fff_ffff, final(self).total.significand@.len() <= 0x3fff_ffff,
//@end
//@extract sudachi/src/plugin/path_rewrite/join_numeric/numeric_parser/mod.rs :: impl NumericParser :: fn get_normalized
//@  ret r
//@  spec
        requires sn_wf(old(self).total), old(self).total.scale <= 0x3fff_ffff, old(self).total.significand@.len() <= 0x3fff_ffff,
            old(self).total.point != 0 || old(self).total.significand@.len() == 0,
        ensures
            // the normalised form is the decimal rendering of the accumulated value
            renders(r@, sn_m(old(self).total), if old(self).total.significand@.len() == 0 { 0 } else { sn_e(old(self).total) }),
//@end
}

} // verus!
fn main() {}
