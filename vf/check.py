#!/usr/bin/env python3
"""Driver:  check.py <Cxx> [--tier quick|thorough] [--repo DIR] [--keep]

exit 0  every obligation generated from the current tree was discharged (known findings printed)
exit 1  VIOLATION property=<id> replay=<path>   (an obligation failed)
exit 2  undecided (lost anchor, rewrite mismatch, type error in the generated file, rlimit/timeout,
        vacuous contract) -- never an alarm
"""
import argparse
import concurrent.futures as cf
import hashlib
import json
import os
import re
import shutil
import subprocess
import sys
import tempfile
import time
import traceback

VERIF = os.path.dirname(os.path.dirname(os.path.abspath(__file__)))
sys.path.insert(0, VERIF)
from vf import extract, verus, kani  # noqa: E402
import registry  # noqa: E402


def load_known():
    known, fixed = [], []
    p = os.path.join(VERIF, 'known_findings.txt')
    if os.path.exists(p):
        for line in open(p, encoding='utf-8'):
            line = line.strip()
            if line.startswith('known:'):
                m = re.match(r'known:\s+property=(\S+)\s+obligation=(\S+)\s+(.*)$', line)
                if m:
                    known.append({'property': m.group(1), 'obligation': m.group(2), 'what': m.group(3)})
            elif line.startswith('fixed:'):
                fixed.append(line)
    return known, fixed


def run_unit_pair(unit, repo, workdir, rlimit, seed=None):
    """main run + canary run of one Verus unit"""
    u = registry.UNITS[unit]
    tpl = os.path.join(VERIF, u['tpl'])
    out = {'unit': unit, 'main': None, 'canary': None, 'extract_error': None}
    try:
        out['main'] = verus.verify_unit(unit, tpl, repo, workdir, canary=False, rlimit=rlimit, seed=seed, timeout=u.get('timeout', 900))
    except extract.ExtractError as e:
        out['extract_error'] = str(e)
    except Exception as e:  # scanner problems are undecided as well
        out['extract_error'] = 'internal: %s' % (traceback.format_exc()[-800:])
    return out


def run_canary(unit, repo, workdir, rlimit):
    u = registry.UNITS[unit]
    tpl = os.path.join(VERIF, u['tpl'])
    try:
        return verus.verify_unit(unit, tpl, repo, workdir, canary=True, rlimit=rlimit, timeout=u.get('timeout', 900),
                                 extra=['--verify-root', '--verify-function', '*__canary'])
    except Exception as e:
        return None


def fn_last(path):
    return path.split('::')[-1]


def main():
    ap = argparse.ArgumentParser()
    ap.add_argument('prop')
    ap.add_argument('--tier', default=os.environ.get('VERIF_TIER') or 'quick')
    ap.add_argument('--repo', default='/repo')
    ap.add_argument('--keep', action='store_true')
    ap.add_argument('--no-kani', action='store_true')
    ap.add_argument('--only', default=None, help='debug: only this unit')
    args = ap.parse_args()
    prop = args.prop
    tier = args.tier if args.tier in ('quick', 'thorough') else 'quick'
    seed = int(os.environ.get('VERIF_SEED', '0') or 0)
    if prop not in registry.PROPS:
        print('unknown or unclaimed property %s' % prop)
        return 2
    P = registry.PROPS[prop]
    t_start = time.time()
    os.makedirs(os.path.join(VERIF, 'work'), exist_ok=True)
    workdir = tempfile.mkdtemp(prefix='%s-' % prop, dir=os.path.join(VERIF, 'work'))
    known, fixed = load_known()
    known_here = [k for k in known if k['property'] == prop]

    violations = []     # dicts
    undecided = []      # strings
    known_hits = []     # (known entry, error)
    unit_evidence = []
    obligations = 0
    discharged = 0
    trusted = set()
    rewrites = []
    functions_under_contract = []
    solver_time = {}
    samples = []
    canaries_ok = 0
    seeds_run = []
    selftest = {'mutants': 0, 'killed': 0, 'survivors': []}
    kani_ev = []
    bounded_ev = []
    known_obl = []
    checker_cmds = []

    undecided_units = set()
    units = P.get('verus', [])
    if args.only:
        units = [u for u in units if u == args.only]
    # ---------------------------------------------------------------- Verus units (+ canaries) in parallel
    futs = {}
    with cf.ThreadPoolExecutor(max_workers=8) as ex:
        for u in units:
            rl = registry.UNITS[u].get('rlimit', 30)
            futs[('main', u)] = ex.submit(run_unit_pair, u, args.repo, workdir, rl)
            futs[('canary', u)] = ex.submit(run_canary, u, args.repo, workdir, rl)
        if tier == 'thorough':
            for si in range(3):
                sd = (seed * 7919 + 104729 * (si + 1)) % 1000003
                seeds_run.append(sd)
                for u in units:
                    rl = registry.UNITS[u].get('rlimit', 30)
                    futs[('seed%d' % sd, u)] = ex.submit(run_unit_pair, u, args.repo, workdir, rl * 2, sd)
        results = {k: f.result() for k, f in futs.items()}

    for u in units:
        U = registry.UNITS[u]
        r = results[('main', u)]
        if r['extract_error']:
            undecided.append('%s: %s' % (u, r['extract_error']))
            undecided_units.add(u)
            continue
        ur = r['main']
        checker_cmds.append(ur.cmd)
        full_fns = set(U.get('full', []))
        # a full-strength twin belongs to the properties named for it; elsewhere its (expected) failure is not this property's business
        full_scope = U.get('full_scope', {})
        ignored_twins = set(f for f in full_fns if full_scope.get(f) and prop not in full_scope[f])
        if ur.compile_errors:
            for ce in ur.compile_errors[:3]:
                undecided.append('%s: generated file does not type-check: %s (gen line %s)' % (u, ce['message'][:200], ce['line']))
            undecided_units.add(u)
            continue
        if not ur.fn_results and not ur.summary:
            undecided.append('%s: verus produced no result (rc=%s): %s' % (u, ur.rc, ur.stderr_tail[-300:]))
            continue
        # obligations
        fn_by_name = {}
        for f in ur.fns:
            fn_by_name.setdefault(f.name, []).append(f)
        verified_fns = set()
        for path, fr in ur.fn_results.items():
            nm = fn_last(path)
            solver_time['%s::%s' % (u, nm)] = solver_time.get('%s::%s' % (u, nm), 0) + fr['time_ms'] / 1000.0
            if fr['success']:
                verified_fns.add(nm)
        unit_obl = 0
        for f in ur.fns:
            if f.name in full_fns:
                continue
            unit_obl += f.obligations()
        failed_here = 0
        for e in ur.errors:
            if e['function'] in ignored_twins:
                continue
            if e['function'] in full_fns:
                # full-strength twin of a known finding
                hit = None
                for k in known_here:
                    if k['obligation'] == '%s::%s' % (u, e['function']) or k['obligation'] == e['obligation']:
                        hit = k
                        break
                known_obl.append({'obligation': e['obligation'], 'clause': e['clause'], 'message': e['message'], 'source': e['source'], 'listed': bool(hit)})
                if hit:
                    known_hits.append((hit, e))
                else:
                    violations.append(dict(e, unit=u, why='full-strength obligation fails and is not a listed known finding'))
            else:
                failed_here += 1
                violations.append(dict(e, unit=u))
        for msg in ur.undecided:
            undecided.append('%s: %s' % (u, msg))
        # a function reported unsuccessful without a mapped error and without undecided message
        for path, fr in ur.fn_results.items():
            nm = fn_last(path)
            if not fr['success'] and nm not in full_fns and not any(e['function'] == nm for e in ur.errors) and not ur.undecided:
                undecided.append('%s: function %s not verified but no diagnostic could be mapped' % (u, nm))
        obligations += unit_obl
        discharged += max(0, unit_obl - failed_here)
        trusted.update('%s: %s' % (u, t) for t in ur.trusted)
        for rw in ur.rewrites:
            rewrites.append(dict(rw, unit=u))
        for it in ur.items:
            if it.kind == 'fn' and it.has_body:
                functions_under_contract.append('%s :: %s (unit %s, line %d)' % (it.file, it.selector, u, it.src_start_line))
        for f in ur.fns:
            if f.obligations() > 0 and len(samples) < 12 and f.name not in full_fns:
                samples.append({'obligation': '%s::%s' % (u, f.name), 'mode': f.mode, 'ensures': f.ensures, 'invariant_clauses': f.invariants,
                                'asserts': f.asserts, 'gen_lines': [f.start_line, f.end_line]})
        # canary twins: every extracted fn has a copy NAME__canary with `ensures false` appended, which must FAIL
        cr = results[('canary', u)]
        if cr is None or cr.compile_errors or (not cr.fn_results):
            undecided.append('%s: canary run did not complete%s' % (u, (': ' + cr.compile_errors[0]['message'][:200]) if cr and cr.compile_errors else ''))
        else:
            twins = {}
            for path, fr in cr.fn_results.items():
                nm = fn_last(path)
                if nm.endswith('__canary'):
                    twins.setdefault(nm, []).append(fr['success'])
            expected = [it.gen_name for it in cr.items if it.is_twin and it.gen_name]
            for gname in expected:
                if gname[:-len('__canary')] in U.get('no_canary', []):
                    continue
                if gname not in twins:
                    undecided.append('%s: canary twin %s was not checked' % (u, gname))
                elif any(twins[gname]):
                    undecided.append('%s: VACUOUS contract: %s verifies with `ensures false` (contradictory preconditions/assumptions)' % (u, gname))
                else:
                    canaries_ok += 1
        # seeds (thorough): a failure under another seed is brittleness -> undecided, not a violation
        for sd in seeds_run:
            sr = results.get(('seed%d' % sd, u))
            if sr and sr['main'] is not None:
                bad = [e for e in sr['main'].errors if e['function'] not in full_fns]
                if bad and not [e for e in ur.errors if e['function'] not in full_fns]:
                    undecided.append('%s: proof unstable under smt.random_seed=%d (%s)' % (u, sd, bad[0]['obligation']))
        unit_evidence.append({'unit': u, 'template': U['tpl'], 'verus_functions': len(ur.fn_results), 'verified': ur.summary.get('verified'),
                              'errors': ur.summary.get('errors'), 'wall_s': round(ur.wall_s, 2), 'smt_ms': getattr(ur, 'smt_ms', 0)})

    # ---------------------------------------------------------------- Kani harness sets
    ksets = P.get('kani', [])
    if ksets and not args.no_kani and not args.only:
        scratch = tempfile.mkdtemp(prefix='vf-kani-%s-' % prop)
        try:
            kani.make_scratch(args.repo, scratch)
            parsed = []
            for kn in ksets:
                ks = kani.parse_harness_file(os.path.join(VERIF, 'kani', kn + '.rs'))
                try:
                    kani.inject(scratch, ks)
                    parsed.append(ks)
                except FileNotFoundError as e:
                    undecided.append('kani %s: %s' % (kn, e))
            target_dir = os.path.join(VERIF, 'work', 'kani-target')
            pairs = []
            for ks in parsed:
                for h in ks.harnesses:
                    if h.kind == 'bounded' and tier != 'thorough' and not P.get('bounded_in_quick'):
                        continue
                    pairs.append((ks, h))
            if pairs:
                kani.run_many(scratch, pairs, target_dir, timeout=registry.KANI_TIMEOUT)
            for ks, h in pairs:
                    checker_cmds.append(h.cmd)
                    rec = {'set': ks.name, 'harness': h.name, 'kind': h.kind, 'status': h.status, 'checks': h.checks_total,
                           'failed': h.checks_failed, 'time_s': round(h.time_s, 1), 'unwind': h.unwind, 'target': ks.target}
                    solver_time['kani::%s::%s' % (ks.name, h.name)] = round(h.time_s, 1)
                    full = h.name in P.get('kani_full', [])
                    if h.status == 'FAILED':
                        unw = [fc for fc in h.failed_checks if 'unwinding' in fc['desc']]
                        if unw and len(unw) == len(h.failed_checks):
                            undecided.append('kani %s::%s: loop bound not sufficient (%s)' % (ks.name, h.name, unw[0]['desc']))
                            kani_ev.append(rec)
                            continue
                        oblid = ('kani::%s::%s' if h.kind == 'complete' else 'kani-bounded::%s::%s') % (ks.name, h.name)
                        listed = full and any(k['obligation'] == oblid for k in known_here)
                        if listed and tier == 'quick':
                            # a listed known finding: the quick tier only confirms that the full obligation still fails;
                            # the counterexample is replayed on the real code in the thorough tier
                            test, replayed, pout = '', None, 'replay skipped in quick tier (listed known finding)'
                        else:
                            test, replayed, pout = kani.concrete_playback(scratch, ks, h, target_dir, timeout=registry.KANI_TIMEOUT)
                        e = {'obligation': ('kani::%s::%s' if h.kind == 'complete' else 'kani-bounded::%s::%s') % (ks.name, h.name), 'function': h.name, 'kind': 'kani', 'unit': ks.name,
                             'message': '; '.join(fc['desc'] for fc in h.failed_checks[:4]), 'clause': '', 'source': ks.target,
                             'rendered': h.raw_tail[-2500:], 'playback': test, 'replayed_on_real_code': replayed, 'replay_output': pout}
                        rec['counterexample_replayed_on_real_code'] = replayed
                        if full:
                            hit = None
                            for k in known_here:
                                if k['obligation'] == e['obligation']:
                                    hit = k
                            known_obl.append({'obligation': e['obligation'], 'message': e['message'], 'listed': bool(hit), 'counterexample_replayed_on_real_code': replayed})
                            if hit:
                                known_hits.append((hit, e))
                            else:
                                violations.append(dict(e, why='full-strength harness fails and is not a listed known finding'))
                        else:
                            violations.append(e)
                    elif h.status != 'SUCCESSFUL':
                        undecided.append('kani %s::%s: no verdict (timeout/crash): %s' % (ks.name, h.name, h.raw_tail[-300:].replace('\n', ' | ')))
                    if h.cover_unsat:
                        undecided.append('kani %s::%s: cover not satisfied (vacuous assumption): %s' % (ks.name, h.name, h.cover_unsat[:3]))
                    if h.kind == 'complete':
                        if not full:
                            obligations += max(1, h.checks_total)
                            if h.status in ('SUCCESSFUL', 'FAILED'):
                                discharged += max(0, max(1, h.checks_total) - h.checks_failed)
                        if h.status == 'SUCCESSFUL':
                            functions_under_contract.append('%s (Kani harness %s::%s)' % (ks.target, ks.name, h.name))
                            if len(samples) < 16:
                                samples.append({'obligation': 'kani::%s::%s' % (ks.name, h.name), 'checks': h.checks_total, 'kind': 'complete (loop-free, full domain)'})
                    else:
                        rec['bound_note'] = h.note
                        bounded_ev.append(rec)
                    kani_ev.append(rec)
            trusted.add('kani: CBMC %s bit-precise model of the compiled MIR; stubs: alloc::fmt::format where declared in the harness' % '6.x')
        finally:
            shutil.rmtree(scratch, ignore_errors=True)

    # ---------------------------------------------------------------- self-test mutants (thorough)
    if tier == 'thorough' and not args.only:
        jobs = []
        with cf.ThreadPoolExecutor(max_workers=8) as ex:
            for u in units:
                for mu in registry.UNITS[u].get('mutants', []):
                    jobs.append((u, mu, ex.submit(run_mutant, u, mu, args.repo, workdir)))
            for (u, mu, f) in jobs:
                selftest['mutants'] += 1
                ok, info = f.result()
                if ok:
                    selftest['killed'] += 1
                    selftest.setdefault('killed_by', []).append('%s: %s -> %s' % (u, mu['name'], info))
                else:
                    selftest['survivors'].append('%s: %s (%s)' % (u, mu['name'], info))
        if selftest['survivors']:
            undecided.append('self-test: contract too weak, surviving mutants: %s' % selftest['survivors'])

    # ---------------------------------------------------------------- bounded stand-in for units that could not be brought under contract
    # (the function was restructured so that the overlay no longer applies): the unit's replay oracle - an executable restatement
    # of the same postcondition, run on the real code over a stated finite set of inputs - may still find a concrete failing input.
    def known_classes(orc, info):
        """an oracle may classify failing inputs it finds into named classes (`KNOWN-CLASS <id>: <input>`): a class listed in
        known_findings.txt is a known finding (printed, exit 0); an unlisted class is a violation"""
        seen = {}
        for l in info.split('\n'):
            m = re.search(r'KNOWN-CLASS (\S+): (.*)$', l)
            if m and m.group(1) not in seen:
                seen[m.group(1)] = m.group(2)[:300]
        for cls, sample in seen.items():
            oblid = 'bounded-oracle::%s::%s' % (os.path.basename(orc['file']), cls)
            e = {'obligation': oblid, 'unit': None, 'function': None, 'kind': 'bounded-oracle', 'message': 'bounded oracle found a failing input of class %s on the real code' % cls,
                 'clause': sample, 'source': orc['target'], 'rendered': sample, 'oracle_found': True}
            hit = None
            for k in known_here:
                if k['obligation'] == oblid:
                    hit = k
            known_obl.append({'obligation': oblid, 'message': e['message'], 'listed': bool(hit), 'sample_input': sample})
            if hit:
                known_hits.append((hit, e))
            else:
                violations.append(dict(e, why='failing input of a class that is not a listed known finding'))

    oracle_standins = []
    oracle_units = sorted(undecided_units)
    if tier == 'thorough' and not args.only:
        # thorough: every oracle of the property also runs on the current tree (supplementary, bounded; keeps the oracles honest)
        oracle_units = sorted(set(oracle_units) | set(u for u in units if registry.UNITS[u].get('oracle')))
    elif not args.only:
        # quick: oracles registered as bounded stand-ins for functions outside the verifier's reach (PROPS[..]['quick_oracles'])
        oracle_units = sorted(set(oracle_units) | set(u for u in P.get('quick_oracles', []) if u in units and registry.UNITS[u].get('oracle')))
    for u in oracle_units:
        orc = registry.UNITS[u].get('oracle')
        if not orc:
            continue
        ok, info = run_oracle(orc, args.repo)
        known_classes(orc, info)
        fails = [l for l in info.split('\n') if 'FAILING INPUT' in l][:5]
        ran = re.findall(r'test result: ok\. (\d+) passed', info)
        oracle_standins.append({'unit': u, 'oracle': orc['file'], 'kind': 'bounded', 'role': 'stand-in for an undecided unit' if u in undecided_units else 'supplementary (unit is proved)',
                                'tests_passed': int(ran[0]) if ran else 0, 'failing_input_found': ok, 'failing_inputs': fails})
        if not ok and not ran and u not in undecided_units:
            undecided.append('oracle %s did not run: %s' % (orc['file'], info[-300:].replace('\n', ' | ')))
        if ok:
            violations.append({'obligation': 'bounded-oracle::%s' % u, 'unit': u, 'function': None, 'kind': 'bounded-oracle',
                               'message': ('unit %s could not be extracted (code restructured); its bounded replay oracle found a failing input on the real code' % u) if u in undecided_units else ('bounded replay oracle of unit %s found a failing input on the real code' % u),
                               'clause': (fails[0] if fails else '')[:300], 'source': orc['target'], 'rendered': info[-3000:], 'oracle_found': True})

    # property-level end-to-end oracles (bounded safety net for glue code no unit has under contract)
    for orc in P.get('prop_oracles', []):
        if args.only or (tier != 'thorough' and not orc.get('quick')):
            continue
        ok, info = run_oracle(orc, args.repo)
        known_classes(orc, info)
        fails = [l for l in info.split('\n') if 'FAILING INPUT' in l][:5]
        ran = re.findall(r'test result: ok\. (\d+) passed', info)
        oracle_standins.append({'unit': None, 'oracle': orc['file'], 'kind': 'bounded', 'role': 'end-to-end safety net (glue code not under contract)',
                                'tests_passed': int(ran[0]) if ran else 0, 'failing_input_found': ok, 'failing_inputs': fails})
        if not ok and not ran:
            undecided.append('oracle %s did not run: %s' % (orc['file'], info[-300:].replace('\n', ' | ')))
        if ok:
            violations.append({'obligation': 'bounded-oracle::%s' % os.path.basename(orc['file']), 'unit': None, 'function': None, 'kind': 'bounded-oracle',
                               'message': 'end-to-end bounded oracle found a failing input on the real code',
                               'clause': (fails[0] if fails else '')[:300], 'source': orc['target'], 'rendered': info[-3000:], 'oracle_found': True})

    wall = time.time() - t_start
    # ---------------------------------------------------------------- verdict
    rc = 0
    replay_path = None
    lines_out = []
    seen_known = set()
    for (k, e) in known_hits:
        if k['obligation'] in seen_known:
            continue
        seen_known.add(k['obligation'])
        lines_out.append('KNOWN-FINDING: property=%s %s [%s]' % (prop, k['what'], k['obligation']))
    # listed findings that no longer fail are simply not printed
    if violations:
        rc = 1
        os.makedirs(os.path.join(VERIF, 'replays'), exist_ok=True)
        hsh = hashlib.sha1(json.dumps([v['obligation'] + (v.get('clause') or '') for v in violations]).encode()).hexdigest()[:10]
        replay_path = os.path.join(VERIF, 'replays', '%s-%s.json' % (prop, hsh))
        found_input = False
        rep = {'property': prop, 'failed_obligations': [], 'tier': tier, 'seed': seed, 'repo': args.repo}
        for v in violations:
            entry = {k: v.get(k) for k in ('obligation', 'unit', 'function', 'kind', 'message', 'clause', 'source', 'why')}
            entry['verifier_output'] = v.get('rendered')
            if v.get('oracle_found'):
                found_input = True
            if v.get('playback'):
                entry['counterexample_test'] = v['playback']
                entry['replayed_on_real_code'] = v.get('replayed_on_real_code')
                entry['replay_output'] = v.get('replay_output')
                if v.get('replayed_on_real_code'):
                    found_input = True
            rep['failed_obligations'].append(entry)
        # replay oracles
        oracles_done = set()
        for v in violations:
            orc = registry.UNITS.get(v.get('unit'), {}).get('oracle') if v.get('unit') in registry.UNITS else None
            if orc and v.get('oracle_found'):
                continue
            if orc and orc['file'] in oracles_done:
                continue
            if orc:
                oracles_done.add(orc['file'])
                ok, info = run_oracle(orc, args.repo)
                rep.setdefault('oracle_runs', []).append({'unit': v['unit'], 'oracle': orc, 'found_failing_input': ok, 'output': info[-3000:]})
                if ok:
                    found_input = True
        rep['failing_input_found'] = found_input
        with open(replay_path, 'w') as f:
            json.dump(rep, f, indent=1, ensure_ascii=False)
        for v in violations[:6]:
            lines_out.append('  failed obligation: %s  [%s]  %s  at %s' % (v['obligation'], v.get('message', ''), (v.get('clause') or '')[:120], v.get('source')))
        lines_out.append('VIOLATION property=%s replay=%s%s' % (prop, replay_path, '' if found_input else ' no-failing-input-found'))
    elif undecided:
        rc = 2
        for u in undecided[:12]:
            lines_out.append('UNDECIDED: %s' % u)

    # ---------------------------------------------------------------- evidence
    ev = {
        'property_id': prop, 'tier': tier, 'seed': seed, 'level': 'proof',
        'coverage': {
            'obligations': obligations, 'discharged': discharged,
            'checker_cmd': ' ; '.join(sorted(set(c if len(c) < 300 else c[:300] for c in checker_cmds))[:8]) or 'none',
            'trusted_base': sorted(trusted) + ['rewrite rule %s x%d' % (r, n) for r, n in sorted(_count_rules(rewrites).items())],
            'functions_under_contract': sorted(set(functions_under_contract)),
            'backends': registry.BACKENDS,
            'solver_time_s': {k: round(v, 2) for k, v in sorted(solver_time.items()) if v >= 0.01},
            'units': unit_evidence, 'kani': kani_ev, 'bounded_standins': bounded_ev,
            'rewrites_applied': rewrites[:200],
            'canaries_failed_as_expected': canaries_ok,
            'known_finding_obligations': known_obl,
            'selftest': selftest, 'z3_seeds': seeds_run, 'oracle_standins': oracle_standins,
            'samples': samples or [{'note': 'no obligation generated'}],
            'undecided': undecided,
        },
        'assumptions': P.get('assumptions', []),
        'wall_s': round(wall, 2),
        'violations': len(violations),
    }
    os.makedirs(os.path.join(VERIF, 'evidence'), exist_ok=True)
    with open(os.path.join(VERIF, 'evidence', '%s.json' % prop), 'w') as f:
        json.dump(ev, f, indent=1, ensure_ascii=False)
    for l in lines_out:
        print(l)
    print('%s tier=%s obligations=%d discharged=%d known=%d undecided=%d violations=%d wall=%.1fs' % (
        prop, tier, obligations, discharged, len(seen_known), len(undecided), len(violations), wall))
    if obligations == 0 and rc == 0:
        print('UNDECIDED: zero obligations generated')
        rc = 2
    if not args.keep:
        shutil.rmtree(workdir, ignore_errors=True)
    return rc


def _count_rules(rewrites):
    c = {}
    for r in rewrites:
        c[r['rule']] = c.get(r['rule'], 0) + 1
    return c


def _generated_fn_names(ur):
    """names (after fnname) of extracted fns with bodies in the generated file"""
    names = []
    for it in ur.items:
        if it.kind != 'fn' or not it.has_body:
            continue
        # find the fn inside its generated span
        for f in ur.fns:
            if it.gen_start <= f.start_line <= it.gen_end and f.mode == 'exec':
                names.append(f.name)
                break
    return names


def run_mutant(unit, mu, repo, workdir):
    """apply a textual mutation to a scratch copy of the file's tree, verify the unit, expect a failure"""
    U = registry.UNITS[unit]
    scratch = tempfile.mkdtemp(prefix='mut-', dir=workdir)
    try:
        for top in ('sudachi', 'sudachi-cli', 'plugin'):
            shutil.copytree(os.path.join(repo, top), os.path.join(scratch, top), ignore=shutil.ignore_patterns('target', '*.so'))
        p = os.path.join(scratch, mu['file'])
        s = open(p, encoding='utf-8').read()
        if s.count(mu['find']) != mu.get('count', 1):
            return False, 'mutation site not found %d times' % mu.get('count', 1)
        s = s.replace(mu['find'], mu['replace'])
        for (a, b) in mu.get('also', []):
            if s.count(a) != 1:
                return False, 'secondary mutation site not found'
            s = s.replace(a, b)
        open(p, 'w', encoding='utf-8').write(s)
        try:
            ur = verus.verify_unit(unit, os.path.join(VERIF, U['tpl']), scratch, scratch, rlimit=U.get('rlimit', 30))
        except extract.ExtractError as e:
            return False, 'undecided: %s' % e
        full = set(U.get('full', []))
        errs = [e for e in ur.errors if e['function'] not in full]
        if ur.compile_errors:
            return False, 'mutant does not type-check in the generated file'
        if errs:
            return True, errs[0]['obligation']
        return False, 'survived'
    finally:
        shutil.rmtree(scratch, ignore_errors=True)


def run_oracle(orc, repo):
    """Replay oracle: a #[test] file appended to a scratch copy of a source file; a failing test = failing input."""
    scratch = tempfile.mkdtemp(prefix='vf-oracle-')
    try:
        kani.make_scratch(repo, scratch)
        tgt = os.path.join(scratch, orc['target'])
        body = open(os.path.join(VERIF, orc['file']), encoding='utf-8').read()
        with open(tgt, 'a', encoding='utf-8') as f:
            f.write('\n#[cfg(test)]\nmod verif_oracle {\n    use super::*;\n%s\n}\n' % body)
        env = dict(os.environ)
        env['CARGO_NET_OFFLINE'] = 'true'
        env['CARGO_TARGET_DIR'] = os.path.join(VERIF, 'work', 'oracle-target')
        env['VERIF_SEED'] = os.environ.get('VERIF_SEED', '0')
        for k, v in orc.get('env', {}).items():
            env[k] = v
        p = subprocess.run(['cargo', 'test', '--offline', '-p', orc.get('package', 'sudachi')] + orc.get('cargo_target', ['--lib']) + ['verif_oracle', '--', '--nocapture'],
                           cwd=scratch, env=env, capture_output=True, text=True, timeout=1200)
        out = p.stdout + p.stderr
        failed = 'test result: FAILED' in out or re.search(r'\d+ failed', out) is not None and 'test result: ok' not in out
        # the real code killed the test process (stack overflow / abort / segmentation fault): that IS a failing input - the last input
        # the oracle announced (`TRYING ...`) - not an oracle that "did not run"
        if re.search(r'has overflowed its stack|stack overflow|signal: (6|11),', out):
            last = [l for l in out.split('\n') if l.startswith('TRYING ')]
            out += '\nFAILING INPUT: the process running the real code was killed (%s) while handling: %s\n' % (
                'stack overflow' if 'overflow' in out else 'abort / segmentation fault', last[-1][7:] if last else '<input not announced>')
            failed = True
        return bool(failed), out
    except Exception as e:
        return False, 'oracle error: %s' % e
    finally:
        shutil.rmtree(scratch, ignore_errors=True)


if __name__ == '__main__':
    sys.exit(main())
