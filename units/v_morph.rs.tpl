// UNIT V-MORPH (C01, C08, C12, C19): analysis/morpheme.rs  the public accessors of a morpheme
// Every accessor is a call-through; this unit decides WHICH stored value each one reads and through WHICH conversion:
// begin/end go through the character index of the token (mod char -> orig byte), the surface through its byte range (mod byte -> orig
// byte), and theorem_surface_is_range shows that the two agree for tokens whose byte range matches their character range (bytes_match,
// l_c01), so `original[begin()..end()]` IS the surface.
use vstd::prelude::*;
use vstd::string::*;
use std::ops::Range;
verus! {
global size_of usize == 8;
//@include common/error.rs.inc
//@include common/wordid_stub.rs.inc
//@include common/info_subset.rs.inc
//@include common/node_types.rs.inc
//@extract sudachi/src/analysis/mod.rs :: enum Mode
//@  derive Clone, Copy, PartialEq, Eq, Structural
//@end
impl ResultNode {
//@extract sudachi/src/analysis/node.rs :: impl ResultNode :: fn bytes_range
//@  ret r
//@  spec
        ensures r.start == self.begin_bytes, r.end == self.end_bytes
//@end
}
spec fn acc_form(stored: Seq<char>, surface: Seq<char>) -> Seq<char> { if stored.len() == 0 { surface } else { stored } }
impl WordInfo {
// contracts discharged on the real bodies in unit v_winfo
//@extract sudachi/src/dic/lexicon/word_infos.rs :: impl WordInfo :: fn dictionary_form
//@  stub v_winfo
//@  ret r
//@  spec
        ensures r@ == acc_form(self.data.dictionary_form@, self.data.surface@)
//@end
//@extract sudachi/src/dic/lexicon/word_infos.rs :: impl WordInfo :: fn reading_form
//@  stub v_winfo
//@  ret r
//@  spec
        ensures r@ == acc_form(self.data.reading_form@, self.data.surface@)
//@end
//@extract sudachi/src/dic/lexicon/word_infos.rs :: impl WordInfo :: fn synonym_group_ids
//@  rw R13s 1 custom
//@  | &self\.data\.synonym_group_ids
//@  > self.data.synonym_group_ids.as_slice()
//@  ret r
//@  spec
        ensures r@ == self.data.synonym_group_ids@
//@end
}

// ---- opaque collaborator: the analysed input.  Contracts discharged on the real bodies in unit v_bufro (to_orig_byte_idx,
// to_orig_char_idx, orig_slice) under buf_ro, of which sp_ro and the spec functions below are the abstract reading
#[verifier::external_body] pub struct InputBuffer { _p: () }
impl InputBuffer {
    pub uninterp spec fn sp_ro(&self) -> bool;
    pub uninterp spec fn sp_nch(&self) -> int;                 // characters of the normalised text
    pub uninterp spec fn sp_nb(&self) -> int;                  // bytes of the normalised text
    pub uninterp spec fn sp_c2b(&self, c: int) -> int;         // character index -> byte offset (normalised text)
    pub uninterp spec fn sp_m2o(&self, b: int) -> int;         // byte offset of the normalised text -> byte offset of the original
    pub uninterp spec fn sp_cpi(&self, ob: int) -> int;        // code points of the original text before its byte offset ob
    pub uninterp spec fn sp_boundary(&self, b: int) -> bool;   // b is a character boundary of the normalised text
    pub uninterp spec fn sp_orig(&self) -> Seq<u8>;            // the original text
    #[verifier::external_body]
    fn to_orig_byte_idx(&self, index: usize) -> (r: usize)
        requires self.sp_ro(), index <= self.sp_nch()
        ensures r == self.sp_m2o(self.sp_c2b(index as int))
    { unimplemented!() }
    #[verifier::external_body]
    fn to_orig_char_idx(&self, index: usize) -> (r: usize)
        requires self.sp_ro(), index <= self.sp_nch()
        ensures r == self.sp_cpi(self.sp_m2o(self.sp_c2b(index as int)))
    { unimplemented!() }
}
/// `std::cell::Ref<'a, str>`
#[verifier::external_body] pub struct StrRef<'a> { _p: core::marker::PhantomData<&'a ()> }
impl<'a> StrRef<'a> { pub uninterp spec fn sp_bytes(&self) -> Seq<u8>; }
/// R17: `Ref::map(inp, |i| i.orig_slice(RANGE))` -- the closure is replaced by a call of this wrapper, whose contract is that of
/// the real InputBuffer::orig_slice (v_bufro), applied to the buffer the Ref points to
#[verifier::external_body]
fn ref_map_orig_slice<'a>(inp: InputRef<'a>, range: Range<usize>) -> (r: StrRef<'a>)
    requires
        inp.sp_target().sp_ro(), range.start <= range.end <= inp.sp_target().sp_nb(),
        inp.sp_target().sp_boundary(range.start as int), inp.sp_target().sp_boundary(range.end as int),
    ensures
        r.sp_bytes() == inp.sp_target().sp_orig().subrange(inp.sp_target().sp_m2o(range.start as int), inp.sp_target().sp_m2o(range.end as int)),
{ unimplemented!() }

#[verifier::external_body] pub struct Grammar { _p: () }
pub trait DictionaryAccess { }
//@include common/mlist_types.rs.inc
/// what MorphemeList::split_into does with (mode, index, out) is decided in unit v_node; here only that the morpheme passes them on
pub uninterp spec fn mlist_split<T>(l: MorphemeList<T>, mode: Mode, index: usize, out0: MorphemeList<T>, out1: MorphemeList<T>, r: SudachiResult<bool>) -> bool;
impl<T: DictionaryAccess> MorphemeList<T> {
    #[verifier::external_body]
    pub fn split_into(&self, mode: Mode, index: usize, out: &mut Self) -> (r: SudachiResult<bool>)
        ensures mlist_split(*self, mode, index, *old(out), *final(out), r)
    { unimplemented!() }
}

//@extract sudachi/src/analysis/morpheme.rs :: struct Morpheme
//@end

/// the token a morpheme stands for, and the input of its list
spec fn m_node<T>(m: Morpheme<'_, T>) -> ResultNode { m.list.nodes.data@[m.index as int] }
spec fn m_input<T>(m: Morpheme<'_, T>) -> InputBuffer { m.list.input.sp_input() }
spec fn m_ok<T>(m: Morpheme<'_, T>) -> bool {
    &&& m.index < m.list.nodes.data@.len()
    &&& m_input(m).sp_ro()
    &&& m_node(m).inner.begin <= m_node(m).inner.end && (m_node(m).inner.end as int) <= m_input(m).sp_nch()
}

impl<'a, T: DictionaryAccess> Morpheme<'a, T> {
//@extract sudachi/src/analysis/morpheme.rs :: impl<'a, T: DictionaryAccess> Morpheme<'a, T> :: fn for_list
//@  rw Rself * custom
//@  | -> Self \{
//@  > -> Morpheme<'a, T> {
//@  ret r
//@  spec
        ensures r.list == list, r.index == index
//@end
//@extract sudachi/src/analysis/morpheme.rs :: impl<'a, T: DictionaryAccess> Morpheme<'a, T> :: fn node
//@  ret r
//@  spec
        requires self.index < self.list.nodes.data@.len()
        ensures *r == m_node(*self)
//@end
//@extract sudachi/src/analysis/morpheme.rs :: impl<'a, T: DictionaryAccess> Morpheme<'a, T> :: fn begin
//@  rw R17d * custom
//@  | self\.list\.input\(\)\.to_orig
//@  > self.list.input().deref().to_orig
//@  ret r
//@  spec
        requires m_ok(*self)
        // C01: the original byte offset of the token's FIRST character
        ensures r == m_input(*self).sp_m2o(m_input(*self).sp_c2b(m_node(*self).inner.begin as int))
//@end
//@extract sudachi/src/analysis/morpheme.rs :: impl<'a, T: DictionaryAccess> Morpheme<'a, T> :: fn end
//@  rw R17d * custom
//@  | self\.list\.input\(\)\.to_orig
//@  > self.list.input().deref().to_orig
//@  ret r
//@  spec
        requires m_ok(*self)
        // C01: the original byte offset one past the token's LAST character
        ensures r == m_input(*self).sp_m2o(m_input(*self).sp_c2b(m_node(*self).inner.end as int))
//@end
//@extract sudachi/src/analysis/morpheme.rs :: impl<'a, T: DictionaryAccess> Morpheme<'a, T> :: fn begin_c
//@  rw R17d * custom
//@  | self\.list\.input\(\)\.to_orig
//@  > self.list.input().deref().to_orig
//@  ret r
//@  spec
        requires m_ok(*self)
        // C08: the number of code points of the original text before begin()
        ensures r == m_input(*self).sp_cpi(m_input(*self).sp_m2o(m_input(*self).sp_c2b(m_node(*self).inner.begin as int)))
//@end
//@extract sudachi/src/analysis/morpheme.rs :: impl<'a, T: DictionaryAccess> Morpheme<'a, T> :: fn end_c
//@  rw R17d * custom
//@  | self\.list\.input\(\)\.to_orig
//@  > self.list.input().deref().to_orig
//@  ret r
//@  spec
        requires m_ok(*self)
        ensures r == m_input(*self).sp_cpi(m_input(*self).sp_m2o(m_input(*self).sp_c2b(m_node(*self).inner.end as int)))
//@end
//@extract sudachi/src/analysis/morpheme.rs :: impl<'a, T: DictionaryAccess> Morpheme<'a, T> :: fn surface
//@  rw R17 1 custom
//@  | Ref::map\((\w+), \|(\w+)\| \2\.orig_slice\((.*)\)\)
//@  > ref_map_orig_slice(\1, \3)
//@  rw R17t 1 custom
//@  | -> Ref<str>
//@  > -> StrRef<'_>
//@  ret r
//@  spec
        requires
            m_ok(*self), m_node(*self).begin_bytes <= m_node(*self).end_bytes, (m_node(*self).end_bytes as int) <= m_input(*self).sp_nb(),
            m_input(*self).sp_boundary(m_node(*self).begin_bytes as int), m_input(*self).sp_boundary(m_node(*self).end_bytes as int),
        // C01: exactly the original text between the images of the token's byte range
        ensures r.sp_bytes() == m_input(*self).sp_orig().subrange(m_input(*self).sp_m2o(m_node(*self).begin_bytes as int), m_input(*self).sp_m2o(m_node(*self).end_bytes as int))
//@end
//@extract sudachi/src/analysis/morpheme.rs :: impl<'a, T: DictionaryAccess> Morpheme<'a, T> :: fn part_of_speech_id
//@  ret r
//@  spec
        requires self.index < self.list.nodes.data@.len()
        ensures r == m_node(*self).word_info.data.pos_id
//@end
//@extract sudachi/src/analysis/morpheme.rs :: impl<'a, T: DictionaryAccess> Morpheme<'a, T> :: fn get_word_info
//@  ret r
//@  spec
        requires self.index < self.list.nodes.data@.len()
        ensures *r == m_node(*self).word_info
//@end
//@extract sudachi/src/analysis/morpheme.rs :: impl<'a, T: DictionaryAccess> Morpheme<'a, T> :: fn dictionary_form
//@  rw R17a * custom
//@  | &self\.get_word_info\(\)\.
//@  > self.get_word_info().
//@  ret r
//@  spec
        requires self.index < self.list.nodes.data@.len()
        ensures r@ == acc_form(m_node(*self).word_info.data.dictionary_form@, m_node(*self).word_info.data.surface@)
//@end
//@extract sudachi/src/analysis/morpheme.rs :: impl<'a, T: DictionaryAccess> Morpheme<'a, T> :: fn normalized_form
//@  rw R17a * custom
//@  | &self\.get_word_info\(\)\.
//@  > self.get_word_info().
//@  ret r
//@  spec
        requires self.index < self.list.nodes.data@.len()
        ensures r@ == acc_form(m_node(*self).word_info.data.normalized_form@, m_node(*self).word_info.data.surface@)
//@end
//@extract sudachi/src/analysis/morpheme.rs :: impl<'a, T: DictionaryAccess> Morpheme<'a, T> :: fn reading_form
//@  rw R17a * custom
//@  | &self\.get_word_info\(\)\.
//@  > self.get_word_info().
//@  ret r
//@  spec
        requires self.index < self.list.nodes.data@.len()
        ensures r@ == acc_form(m_node(*self).word_info.data.reading_form@, m_node(*self).word_info.data.surface@)
//@end
//@extract sudachi/src/analysis/morpheme.rs :: impl<'a, T: DictionaryAccess> Morpheme<'a, T> :: fn synonym_group_ids
//@  rw R17a * custom
//@  | &self\.get_word_info\(\)\.
//@  > self.get_word_info().
//@  ret r
//@  spec
        requires self.index < self.list.nodes.data@.len()
        ensures r@ == m_node(*self).word_info.data.synonym_group_ids@
//@end
//@extract sudachi/src/analysis/morpheme.rs :: impl<'a, T: DictionaryAccess> Morpheme<'a, T> :: fn word_id
//@  ret r
//@  spec
        requires self.index < self.list.nodes.data@.len()
        ensures r == m_node(*self).inner.word_id
//@end
//@extract sudachi/src/analysis/morpheme.rs :: impl<'a, T: DictionaryAccess> Morpheme<'a, T> :: fn is_oov
//@  ret r
//@  spec
        requires self.index < self.list.nodes.data@.len()
        ensures r == (wid_dic(m_node(*self).inner.word_id) == 0xf)
//@end
//@extract sudachi/src/analysis/morpheme.rs :: impl<'a, T: DictionaryAccess> Morpheme<'a, T> :: fn dictionary_id
//@  ret r
//@  spec
        requires self.index < self.list.nodes.data@.len()
        // C12: the number of the dictionary that supplied the token; -1 for out-of-vocabulary
        ensures r == (if wid_dic(m_node(*self).inner.word_id) == 0xf { -1int } else { wid_dic(m_node(*self).inner.word_id) as int })
//@end
//@extract sudachi/src/analysis/morpheme.rs :: impl<'a, T: DictionaryAccess> Morpheme<'a, T> :: fn index
//@  ret r
//@  spec
        ensures r == self.index
//@end
//@extract sudachi/src/analysis/morpheme.rs :: impl<'a, T: DictionaryAccess> Morpheme<'a, T> :: fn total_cost
//@  ret r
//@  spec
        requires self.index < self.list.nodes.data@.len()
        ensures r == m_node(*self).total_cost
//@end
//@extract sudachi/src/analysis/morpheme.rs :: impl<'a, T: DictionaryAccess> Morpheme<'a, T> :: fn split_into
//@  ret r
//@  spec
        ensures mlist_split(*self.list, mode, self.index, *old(out), *final(out), r)
//@end
}

/// R8: `v.extend_from_slice(&w[a..b])` (ASSUMED std contract; ResultNode: Clone)
#[verifier::external_body]
fn vec_extend_range(v: &mut Vec<ResultNode>, w: &Vec<ResultNode>, a: usize, b: usize)
    requires a <= b <= w@.len()
    ensures final(v)@ == old(v)@ + w@.subrange(a as int, b as int)
{ v.extend_from_slice(&w[a..b]); }
// ---- the iterator over a result list and MorphemeList::get / len / iter (analysis/mlist.rs)
//@extract sudachi/src/analysis/mlist.rs :: struct MorphemeIter
//@end
impl<T: DictionaryAccess> MorphemeList<T> {
//@extract sudachi/src/analysis/mlist.rs :: impl<T: DictionaryAccess> MorphemeList<T> :: fn len
//@  ret r
//@  spec
        ensures r == self.nodes.data@.len()
//@end
//@extract sudachi/src/analysis/mlist.rs :: impl<T: DictionaryAccess> MorphemeList<T> :: fn is_empty
//@  ret r
//@  spec
        ensures r == (self.nodes.data@.len() == 0)
//@end
//@extract sudachi/src/analysis/mlist.rs :: impl<T: DictionaryAccess> MorphemeList<T> :: fn clear
//@  spec
        // C10: a cleared list holds no morpheme of an earlier analysis; its text and dictionary are untouched
        ensures final(self).nodes.data@.len() == 0, final(self).input == old(self).input, final(self).dict == old(self).dict
//@end
//@extract sudachi/src/analysis/mlist.rs :: impl<T: DictionaryAccess> MorphemeList<T> :: fn copy_slice
//@  rw R8 * custom
//@  | out_data\.extend_from_slice\(&self\.nodes\.data\[([^;]+?)\.\.([^;]+)\]\);
//@  > vec_extend_range(out_data, &self.nodes.data, \1, \2);
//@  spec
        requires start <= end <= self.nodes.data@.len()
        ensures
            // exactly the morphemes start..end are appended, in order (Python: split with add_single)
            final(out).nodes.data@ == old(out).nodes.data@ + self.nodes.data@.subrange(start as int, end as int),
            final(out).input == old(out).input, final(out).dict == old(out).dict,
//@end
//@extract sudachi/src/analysis/mlist.rs :: impl<T: DictionaryAccess> MorphemeList<T> :: fn get_internal_cost
//@  ret r
//@  spec
        requires
            // cumulative path costs stay far inside i32 (C02 / known finding F10)
            forall|k: int| 0 <= k < self.nodes.data@.len() ==> -0x3fff_ffff <= (#[trigger] self.nodes.data@[k]).total_cost <= 0x3fff_ffff,
        ensures
            self.nodes.data@.len() == 0 ==> r == 0,
            self.nodes.data@.len() > 0 ==> r == self.nodes.data@.last().total_cost - self.nodes.data@[0].total_cost,
//@end
//@extract sudachi/src/analysis/mlist.rs :: impl<T: DictionaryAccess> MorphemeList<T> :: fn get
//@  ret r
//@  spec
        ensures r.list == self, r.index == idx
//@end
//@extract sudachi/src/analysis/mlist.rs :: impl<T: DictionaryAccess> MorphemeList<T> :: fn iter
//@  ret r
//@  spec
        ensures r.list == self, r.index == 0
//@end
}
impl<'a, T: DictionaryAccess> MorphemeIter<'a, T> {
// R11: `impl Iterator for MorphemeIter { fn next }` checked as an inherent fn of the same body
//@extract sudachi/src/analysis/mlist.rs :: impl<'a, T: DictionaryAccess> Iterator for MorphemeIter<'a, T> :: fn next
//@  rw R11 1 custom
//@  | Option<Self::Item>
//@  > Option<Morpheme<'a, T>>
//@  ret r
//@  spec
        ensures
            // C19 / C01: iteration yields the morphemes of positions index, index + 1, ... of the list, each once, and stops at its end
            final(self).list == old(self).list,
            old(self).index >= old(self).list.nodes.data@.len() ==> r is None && final(self).index == old(self).index,
            old(self).index < old(self).list.nodes.data@.len() ==> r is Some && r->Some_0.list == old(self).list && r->Some_0.index == old(self).index
                && final(self).index == old(self).index + 1,
//@end
}

/// C01: for a token whose byte range is the byte range of its characters (bytes_match: v_path, v_node, l_c01) the surface is the
/// original text between begin() and end()
proof fn theorem_surface_is_range<T>(m: Morpheme<'_, T>, begin: int, end: int, surface: Seq<u8>)
    requires
        m_node(m).begin_bytes as int == m_input(m).sp_c2b(m_node(m).inner.begin as int),
        m_node(m).end_bytes as int == m_input(m).sp_c2b(m_node(m).inner.end as int),
        begin == m_input(m).sp_m2o(m_input(m).sp_c2b(m_node(m).inner.begin as int)),
        end == m_input(m).sp_m2o(m_input(m).sp_c2b(m_node(m).inner.end as int)),
        surface == m_input(m).sp_orig().subrange(m_input(m).sp_m2o(m_node(m).begin_bytes as int), m_input(m).sp_m2o(m_node(m).end_bytes as int)),
    ensures surface == m_input(m).sp_orig().subrange(begin, end)
{}
} // verus!
fn main() {}
