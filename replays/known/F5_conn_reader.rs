// Demonstration for finding F5 (C06), connection-matrix reader: append to sudachi/src/dic/build/conn.rs and run
// `cargo test -p sudachi --lib verif_f5`.  For ANY text the reader must return a value (Ok or Err), never panic,
// and an accepted line must set exactly the addressed cell.
#[cfg(test)]
mod verif_f5 {
    use super::ConnBuffer;
    fn read(text: &str) -> Result<Result<ConnBuffer, String>, ()> {
        std::panic::catch_unwind(|| {
            let mut p = ConnBuffer::new();
            match p.read(text.as_bytes()) { Ok(()) => Ok(p), Err(e) => Err(format!("{:?}", e)) }
        }).map_err(|_| ())
    }
    #[test]
    fn verif_f5_empty_text_is_an_error_not_a_panic() { assert!(matches!(read(""), Ok(Err(_))), "empty matrix text"); }
    #[test]
    fn verif_f5_blank_text_is_an_error_not_a_panic() { assert!(matches!(read("  \n\n"), Ok(Err(_))), "blank matrix text"); }
    #[test]
    fn verif_f5_right_id_out_of_range_is_an_error() { assert!(matches!(read("2 2\n0 5 1\n"), Ok(Err(_))), "right id 5 in a 2x2 matrix"); }
    #[test]
    fn verif_f5_negative_id_is_an_error() { assert!(matches!(read("2 2\n-1 0 1\n"), Ok(Err(_))), "negative left id"); }
    #[test]
    fn verif_f5_left_id_out_of_range_does_not_write_another_cell() {
        // "3 0 7" addresses no cell of a 2x2 matrix; 0*2+3 = 3 is cell (1,1)
        match read("2 2\n3 0 7\n") {
            Ok(Err(_)) => {}
            Ok(Ok(p)) => { let m = p.matrix(); assert_eq!((m[6], m[7]), (0, 0), "cell (1,1) was written by the line `3 0 7`"); panic!("line accepted"); }
            Err(()) => panic!("panicked"),
        }
    }
}
