"""Which units / harness sets decide which property.  (The property texts are in properties.jsonl.)"""

KANI_TIMEOUT = 1500

BACKENDS = {
    'verus': '0.2026.09.13.671956e (Z3 bundled with Verus, single-file mode, --rlimit per unit)',
    'kani': '0.68.0 (CBMC 6.x, CaDiCaL/kissat SAT back end)',
}

UNITS = {
    'v_edit': {
        'tpl': 'units/v_edit.rs.tpl', 'rlimit': 40,
        'oracle': {'file': 'oracles/edit_oracle.rs', 'target': 'sudachi/src/input_text/buffer/edit.rs'},
        'mutants': [
            {'name': 'first entry not composed with the previous map', 'file': 'sudachi/src/input_text/buffer/edit.rs',
             'find': 'target_mapping.push(source_mapping[what.start]);', 'replace': 'target_mapping.push(what.start);'},
            {'name': 'copied segment one short', 'file': 'sudachi/src/input_text/buffer/edit.rs',
             'find': 'target_mapping.extend(source_mapping[start..edit.what.start].iter());', 'replace': 'target_mapping.extend(source_mapping[start..edit.what.end].iter());'},
            {'name': 'off-by-one replacement length', 'file': 'sudachi/src/input_text/buffer/edit.rs',
             'find': 'for _ in 1..with.len() {', 'replace': 'for _ in 0..with.len() {'},
            {'name': 'drop pinning of entry 0', 'file': 'sudachi/src/input_text/buffer/edit.rs',
             'find': '*v = 0;', 'replace': '*v = *v;'},
            {'name': 'skip tail copy of map', 'file': 'sudachi/src/input_text/buffer/edit.rs',
             'find': 'target_mapping.extend(source_mapping[start..].iter());', 'replace': 'target_mapping.extend(source_mapping[edit_end..].iter());', 'also': [('let mut start: usize = 0;', 'let mut start: usize = 0; let edit_end = source_mapping.len() - 1;')]},
        ],
    },
    'v_buf0': {
        'tpl': 'units/v_buf0.rs.tpl', 'rlimit': 40,
        'mutants': [
            {'name': 'limit off by a factor', 'file': 'sudachi/src/input_text/buffer/mod.rs',
             'find': 'const MAX_LENGTH: usize = u16::MAX as usize / 4 * 3;', 'replace': 'const MAX_LENGTH: usize = u16::MAX as usize / 4 * 4;'},
            {'name': 'commit forgets to swap the map', 'file': 'sudachi/src/input_text/buffer/mod.rs',
             'find': 'std::mem::swap(&mut self.m2o, &mut self.m2o_2);', 'replace': ''},
            {'name': 'commit accepts over-long text', 'file': 'sudachi/src/input_text/buffer/mod.rs',
             'find': 'if sz > REALLY_MAX_LENGTH {', 'replace': 'if sz > REALLY_MAX_LENGTH + 1 {'},
            {'name': 'identity map one short', 'file': 'sudachi/src/input_text/buffer/mod.rs',
             'find': 'self.m2o.extend(0..self.modified.len() + 1);', 'replace': 'self.m2o.extend(0..self.modified.len() + 0);'},
        ],
    },
    'v_conn': {
        'tpl': 'units/v_conn.rs.tpl', 'rlimit': 30,
        'mutants': [
            {'name': 'matrix indexed column-major', 'file': 'sudachi/src/dic/connect.rs',
             'find': 'let index = uright * self.num_left + uleft;', 'replace': 'let index = uleft * self.num_right + uright;'},
            {'name': 'off-by-one cell', 'file': 'sudachi/src/dic/connect.rs',
             'find': 'let index = uright * self.num_left + uleft;', 'replace': 'let index = uright * self.num_left + uleft + 1;'},
        ],
    },
    'v_lattice': {
        'tpl': 'units/v_lattice.rs.tpl', 'rlimit': 60, 'full': ['connect_node__full'], 'no_canary': ['connect_node__full'],
        'mutants': [
            {'name': 'maximise instead of minimise', 'file': 'sudachi/src/analysis/lattice.rs',
             'find': 'if new_cost < min_cost {', 'replace': 'if new_cost > min_cost || min_cost == i32::MAX {'},
            {'name': 'connection cost dropped', 'file': 'sudachi/src/analysis/lattice.rs',
             'find': 'let new_cost = l_node.total_cost() + connect_cost + node_cost;', 'replace': 'let new_cost = l_node.total_cost() + node_cost;'},
            {'name': 'connection ids swapped', 'file': 'sudachi/src/analysis/lattice.rs',
             'find': 'conn.cost(l_node.right_id(), r_node.left_id()) as i32', 'replace': 'conn.cost(r_node.left_id(), l_node.right_id()) as i32'},
            {'name': 'back pointer of the wrong node', 'file': 'sudachi/src/analysis/lattice.rs',
             'find': 'prev_idx = NodeIdx::new(begin as u16, i as u16);', 'replace': 'prev_idx = NodeIdx::new(begin as u16, 0);'},
            {'name': 'reset leaves stale rows', 'file': 'sudachi/src/analysis/lattice.rs',
             'find': 'for v in data.iter_mut() {\n            v.clear();\n        }', 'replace': 'for v in data.iter_mut() {\n            if v.len() > 3 { v.clear(); }\n        }'},
            {'name': 'eos connected from the wrong boundary', 'file': 'sudachi/src/analysis/lattice.rs',
             'find': 'let eos_start = (len - 1) as u16;', 'replace': 'let eos_start = (len - 2) as u16;'},
            {'name': 'path stops one early', 'file': 'sudachi/src/analysis/lattice.rs',
             'find': 'if prev_idx.end() != 0 {', 'replace': 'if prev_idx.end() > 1 {'},
        ],
    },
    'v_cc': {
        'tpl': 'units/v_cc.rs.tpl', 'rlimit': 80,
        'mutants': [
            {'name': 'last elementary interval of a range excluded', 'file': 'sudachi/src/dic/character_category.rs',
             'find': 'if boundaries[i] > range.end {', 'replace': 'if boundaries[i] >= range.end {'},
            {'name': 'range applied from one interval too early', 'file': 'sudachi/src/dic/character_category.rs',
             'find': 'Ok(i) => i + 1,', 'replace': 'Ok(i) => i,'},
            {'name': 'lookup returns the previous interval on an exact boundary hit', 'file': 'sudachi/src/dic/character_category.rs',
             'find': 'Ok(idx) => self.categories[idx + 1],', 'replace': 'Ok(idx) => self.categories[idx],'},
            {'name': 'uncovered gaps keep the empty class', 'file': 'sudachi/src/dic/character_category.rs',
             'find': '*cat = CategoryType::DEFAULT;', 'replace': '*cat = CategoryType::empty();'},
            {'name': 'merge keeps the first boundary of a merged run', 'file': 'sudachi/src/dic/character_category.rs',
             'find': 'if categories[i] == last_category {\n                last_boundary = boundaries[i];', 'replace': 'if categories[i] == last_category {\n                last_boundary = last_boundary;'},
            {'name': 'overlapping ranges overwrite instead of union', 'file': 'sudachi/src/dic/character_category.rs',
             'find': 'categories[i] |= range.categories;', 'replace': 'categories[i] = range.categories;'},
        ],
    },
    'v_wordid': {
        'tpl': 'units/v_wordid.rs.tpl', 'rlimit': 30,
        'mutants': [
            {'name': 'dictionary number shifted by 27', 'file': 'sudachi/src/dic/word_id.rs',
             'find': 'let dic_part = ((dic & 0xf) as u32) << 28;', 'replace': 'let dic_part = ((dic & 0xf) as u32) << 27;'},
            {'name': 'word mask one bit short', 'file': 'sudachi/src/dic/word_id.rs',
             'find': 'const WORD_MASK: u32 = 0x0fff_ffff;', 'replace': 'const WORD_MASK: u32 = 0x07ff_ffff;'},
            {'name': 'oov test on the wrong nibble', 'file': 'sudachi/src/dic/word_id.rs',
             'find': 'self.dic() == 0xf\n', 'replace': 'self.dic() >= 0xe\n'},
        ],
    },
    'v_node': {
        'tpl': 'units/v_node.rs.tpl', 'rlimit': 60,
        'mutants': [
            {'name': 'last unit detected one early', 'file': 'sudachi/src/analysis/node.rs',
             'find': 'let (char_end, byte_end) = if idx + 1 == self.splits.len() {', 'replace': 'let (char_end, byte_end) = if idx + 2 >= self.splits.len() {'},
            {'name': 'iterator does not advance its byte offset', 'file': 'sudachi/src/analysis/node.rs',
             'find': 'self.byte_offset = byte_end;', 'replace': 'self.byte_offset = byte_start;'},
            {'name': 'merged token ends at the first merged token', 'file': 'sudachi/src/analysis/node.rs', 'count': 2,
             'find': '        path[end - 1].end_bytes,\n', 'replace': '        path[begin].end_bytes,\n'},
            {'name': 'merge drops one token too few', 'file': 'sudachi/src/analysis/node.rs', 'count': 2,
             'find': 'path.drain(begin + 1..end);', 'replace': 'path.drain(begin + 1..end - 1);'},
            {'name': 'merged char range starts at the second token', 'file': 'sudachi/src/analysis/node.rs', 'count': 2,
             'find': '        path[begin].begin() as u16,\n', 'replace': '        path[begin + 1].begin() as u16,\n'},
            {'name': 'tokens with two units are not split', 'file': 'sudachi/src/analysis/stateless_tokenizer.rs',
             'find': 'if split_len <= 1 {', 'replace': 'if split_len <= 2 {'},
            {'name': 'split uses B units for mode A', 'file': 'sudachi/src/analysis/node.rs',
             'find': 'Mode::A => &self.word_info.a_unit_split(),', 'replace': 'Mode::A => &self.word_info.b_unit_split(),'},
        ],
    },
    'v_katakana': {
        'tpl': 'units/v_katakana.rs.tpl', 'rlimit': 60,
        'mutants': [
            {'name': 'forward scan runs one past the end', 'file': 'sudachi/src/plugin/path_rewrite/join_katakana_oov/mod.rs',
             'find': 'if end >= path.len() {', 'replace': 'if end > path.len() {'},
            {'name': 'merge range end off by one', 'file': 'sudachi/src/plugin/path_rewrite/join_katakana_oov/mod.rs',
             'find': 'path = concat_oov_nodes(path, begin, end, self.oov_pos_id)?;', 'replace': 'path = concat_oov_nodes(path, begin, end + 1, self.oov_pos_id)?;'},
            {'name': 'bow skip may pass the end', 'file': 'sudachi/src/plugin/path_rewrite/join_katakana_oov/mod.rs',
             'find': 'while begin != end && !self.can_oov_bow_node(text, &path[begin]) {', 'replace': 'while begin != end + 1 && !self.can_oov_bow_node(text, &path[begin]) {'},
        ],
    },
    'v_numeric': {
        'tpl': 'units/v_numeric.rs.tpl', 'rlimit': 80,
        'mutants': [
            {'name': 'look-back index slips by one', 'file': 'sudachi/src/plugin/path_rewrite/join_numeric/mod.rs',
             'find': 'let ss = path[i as usize - 1].word_info().normalized_form();', 'replace': 'let ss = path[i as usize - 2].word_info().normalized_form();'},
            {'name': 'resume index past the path', 'file': 'sudachi/src/plugin/path_rewrite/join_numeric/mod.rs',
             'find': 'i = begin_idx + 2;', 'replace': 'i = begin_idx + 3;'},
            {'name': 'last part merged one past the end', 'file': 'sudachi/src/plugin/path_rewrite/join_numeric/mod.rs',
             'find': 'path = self.concat(path, begin_idx as usize, len, &mut parser)?;', 'replace': 'path = self.concat(path, begin_idx as usize, len + 1, &mut parser)?;'},
            {'name': 'merge drops the normalised numeral check of the part of speech', 'file': 'sudachi/src/plugin/path_rewrite/join_numeric/mod.rs',
             'find': 'i = begin_idx - 1;\n                            } else if', 'replace': 'i = begin_idx - 2;\n                            } else if'},
            {'name': 'concat merges from the second token', 'file': 'sudachi/src/plugin/path_rewrite/join_numeric/mod.rs',
             'find': 'path = concat_nodes(path, begin, end, None)?;', 'replace': 'path = concat_nodes(path, begin + 1, end, None)?;'},
        ],
    },
    'v_eol': {
        'tpl': 'units/v_eol.rs.tpl', 'rlimit': 30,
        'mutants': [
            {'name': 'blank line keeps its terminator (the repaired defect F9)', 'file': 'sudachi-cli/src/main.rs',
             'find': "if len > 0 && bytes[len - 1] == b'\\n' {", 'replace': "if len > 1 && bytes[len - 1] == b'\\n' {"},
            {'name': 'carriage return stripped without a line feed', 'file': 'sudachi-cli/src/main.rs',
             'find': "if len > 0 && bytes[len - 1] == b'\\n' {", 'replace': "if len > 0 && (bytes[len - 1] == b'\\n' || bytes[len - 1] == b'\\r') {"},
            {'name': 'strips two characters for a bare line feed', 'file': 'sudachi-cli/src/main.rs',
             'find': "if len > 0 && bytes[len - 1] == b'\\r' {", 'replace': "if len > 0 {"},
        ],
    },
    'v_sentence': {
        'tpl': 'units/v_sentence.rs.tpl', 'rlimit': 60,
        'mutants': [
            {'name': 'character count of the rest of the input (the repaired defect F8)', 'file': 'sudachi/src/sentence_detector.rs',
             'find': 'if input[i..end_byte].chars().take(2).count() > 1 {', 'replace': 'if input[i..].chars().take(2).count() > 1 {'},
            {'name': 'words ending on the boundary always veto', 'file': 'sudachi/src/sentence_detector.rs',
             'find': 'if input[i..end_byte].chars().take(2).count() > 1 {', 'replace': 'if input[i..end_byte].chars().take(2).count() > 0 {'},
            {'name': 'look-back window starts after the boundary word', 'file': 'sudachi/src/sentence_detector.rs',
             'find': 'for i in lookup_start..eos_byte {', 'replace': 'for i in lookup_start + 3..eos_byte {'},
            {'name': 'sentence end relative to the slice, not the text', 'file': 'sudachi/src/sentence_splitter.rs',
             'find': 'self.position + rv as usize', 'replace': 'rv as usize'},
            {'name': 'negative result swallows nothing (no progress)', 'file': 'sudachi/src/sentence_splitter.rs',
             'find': 'let end = if rv < 0 {\n            self.data.len()', 'replace': 'let end = if rv < 0 {\n            self.position'},
        ],
    },
    'v_cont': {
        'tpl': 'units/v_cont.rs.tpl', 'rlimit': 60,
        'mutants': [
            {'name': 'run keeps the class of the previous character only (not the running intersection)', 'file': 'sudachi/src/input_text/buffer/mod.rs',
             'find': '                cat = common;\n                end += 1;', 'replace': '                cat = self.mod_cat[end];\n                end += 1;'},
            {'name': 'continuity counts from the run start', 'file': 'sudachi/src/input_text/buffer/mod.rs',
             'find': 'self.mod_cat_continuity[i] = end - i;', 'replace': 'self.mod_cat_continuity[i] = end - start;'},
            {'name': 'runs overlap by one character', 'file': 'sudachi/src/input_text/buffer/mod.rs',
             'find': '            start = end;\n', 'replace': '            start = if end - start > 1 { end - 1 } else { end };\n'},
        ],
    },
}

NOT_APPLICABLE = {
    'C18': 'the quantifier is over thread schedules; Kani has no thread support and Verus would need its permission/atomics types written into the code; what makes it true (no interior mutability behind &JapaneseDictionary, Send+Sync bounds) is decided by rustc, not by a contract',
}
for _i in range(1, 21):
    NOT_APPLICABLE.setdefault('C%02d' % _i, 'not yet under contract in this revision of /verif (see DESIGN.md build order)')

PROPS = {
    'C05': {
        'level_text': 'per encode/decode pair: complete Kani proof that Utf16Writer::write_len and string_length_parser are inverse for every usize length (and that lengths above 32767 are rejected, not truncated); Verus proof that ConnectionMatrix::cost reads the row-major cell right*num_left+left (the cell the compiler writes); BOUNDED Kani stand-in for CowArray::from_bytes (aligned and copied branch give the little-endian decoding, <= 4 elements)',
        'level_note': 'NOT yet under contract: write_word_info / WordInfoParser::parse field order, UTF-16 payload, u32 arrays, the CSV reader, split-reference resolution, header, determinism of the whole compile; the bounded stand-in is reported separately and not counted as proved',
        'verus': ['v_conn'],
        'kani': ['k_len', 'k_cow'],
        'assumptions': ['nom le_u8 / cond combinators', 'little-endian host for the aligned CowArray branch (Kani checks the compiled target)'],
    },
    'C04': {
        'level_text': 'complete Kani proof that the four bit-field accessors of the double-array reader (Trie::has_leaf/value/label/offset) equal the dependency\'s own definitions (yada::unit::Unit) for all 2^32 units; Verus proof of the WordId packing (dictionary number / word number round trip, OOV test); BOUNDED Kani stand-in for the unaligned word-id-table reader',
        'level_note': 'NOT yet under contract: TrieEntryIter::next against the abstract double-array semantics, index building (add / build_word_id_table / write_index), the flat_map/rev glue in Lexicon::lookup and LexiconSet::lookup, exact-surface filter; assumed: yada builder output represents the key->offset map',
        'verus': ['v_wordid'],
        'kani': ['k_unit', 'k_widt'],
        'assumptions': ['yada::DoubleArrayBuilder::build yields an array representing exactly the key set', 'valid binary dictionary (da_valid)'],
    },
    'C03': {
        'level_text': 'totality is decided function by function: every index, slice, unwrap, integer cast/overflow and converted debug assertion inside the real functions under contract on the analysis path (resolve_edits/add_replace, start_build/commit, Lattice::*, ConnectionMatrix::index/cost, concat_nodes/concat_oov_nodes, NodeSplitIterator::next, split_path, both path-rewrite plugins, fill_cat_continuity) is a discharged Verus obligation under the stated preconditions; the input limits are postconditions (start_build: error iff more than 49,149 bytes; commit: error only if a prefix of the edit batch exceeds 65,535 bytes; no truncation); CreatedWords is proved over its full domain by Kani',
        'level_note': 'known finding F10 (i32 path-cost overflow at cost extremes) is reported, not proved away; assumed: valid binary dictionary (trie array, id tables, word parameters inside the matrix), plugins built on regex engines, the preconditions that chain the units (edits_ok, path_ok, left-to-right insertion) are established by code not yet under contract (LatticeBuilder, plugin glue); Morpheme accessors and the trie/word-id-table readers are not yet under contract',
        'verus': ['v_edit', 'v_buf0', 'v_conn', 'v_lattice', 'v_wordid', 'v_node', 'v_katakana', 'v_numeric', 'v_cont'],
        'kani': ['k_created'],
        'assumptions': ['valid binary dictionary', 'edits_ok / path_ok / left-to-right insertion hold at the call sites', 'strict_no_overflow (finding F10)'],
    },
    'C13': {
        'level_text': 'Verus proves on the real InputBuffer::fill_cat_continuity, for every sequence of class sets, that the stored continuity of every position is the distance to the end of its class run, where runs are cut left to right from the start of the text and a run is the maximal stretch whose characters keep a class in common (cont_ok / is_run / is_start), and that it never points past the text',
        'level_note': 'so far only the class-run clause; the word-begin state machine (can_bow), MeCab/simple/regex OOV providers and CreatedWords are being brought under contract separately; character classes themselves are C17',
        'verus': ['v_cont'],
        'kani': [],
        'assumptions': ['bitflags ops are u32 bit ops (R16)'],
    },
    'C16': {
        'level_text': 'Verus proves (a) on the real SentenceIter::next, for every text and every answer of get_eos inside its envelope, that sentences are non-empty contiguous ranges on character boundaries equal to the text in their range, that the position strictly increases (termination) and that iteration ends exactly at the end of the text - the verified client all_sentences states the partition theorem; (b) on the real NonBreakChecker::has_non_break_word that a break candidate is vetoed iff some dictionary word starting in the 30-byte look-back window ends after it, or ends on it and has more than one character',
        'level_note': 'assumed: SentenceDetector::get_eos returns a negative value or an offset 0 < rv <= len on a character boundary (its body - which strings are terminators, brackets, quoting particles, itemisation headers - is built on fancy_regex and is NOT verified); dictionary lookup yields entries on character boundaries (valid UTF-8 keys); the converse clause "every unbracketed terminator ends a sentence" is decided only for the dictionary-veto part',
        'verus': ['v_sentence'],
        'kani': [],
        'assumptions': ['get_eos envelope (regex engine)', 'dictionary keys are valid UTF-8', 'str slicing / chars().take(2).count() std contracts'],
    },
    'C19': {
        'level_text': 'ONE clause of C19 is decided: Verus proves on the real strip_eol (sudachi-cli/src/main.rs), for every line, that the analysed text is the line without one trailing "\\n" or "\\r\\n" and that the unsafe from_utf8_unchecked is applied to valid UTF-8 - so a blank line is analysed as the empty string',
        'level_note': 'everything else in C19 (PyO3 objects and GIL handling, per-call mode override, output list reuse, column format of the CLI, interpreter crashes) is outside any contract within reach of the installed verifiers and is NOT checked: a change there is not detected by this check',
        'verus': ['v_eol'],
        'kani': [],
        'assumptions': ['std::str::from_utf8_unchecked contract (valid UTF-8 in, same bytes out)', 'vstd::utf8 lemmas'],
    },
    'C14': {
        'level_text': 'Verus proves on the real concat_nodes / concat_oov_nodes (merged_at: the run old[b..e) becomes one token with exactly the union of the byte and code-point ranges, all other tokens unchanged and in order) and on the real JoinKatakanaOovPlugin::rewrite_gen (every index in range, the scan terminates, and the output is a coarsening of the input path: predicate is_coarsening) and JoinNumericPlugin::rewrite_gen / concat (every index and i32/usize conversion in range, output is a coarsening) for every path and every text',
        'level_note': 'assumed: character-class queries (InputTextIndex) are pure functions of the text; nodes of the incoming path are non-empty, contiguous, inside the text and have head_word_length <= byte span (path_ok; established by the lattice/tokenizer, not yet chained); JoinNumericPlugin::rewrite_gen/concat: same coarsening result and index safety, but its termination (restarting scan) is NOT proved (exec_allows_no_decreases_clause), the NumericParser is an opaque collaborator here (C15), and a lone numeral may be re-issued with a new normalised form',
        'verus': ['v_wordid', 'v_node', 'v_katakana', 'v_numeric'],
        'kani': [],
        'assumptions': ['path_ok of the path handed to the plugins', 'InputTextIndex methods are pure'],
    },
    'C09': {
        'level_text': 'Verus proves on the real NodeSplitIterator::next / ResultNode::split / num_splits / split_path: in mode C the path is returned unchanged; otherwise the result is the input path with every token declaring two or more units replaced in place by sub-tokens whose word ids are exactly the declared units in order and whose byte and code-point ranges chain from the parent start to the parent end (predicate is_expansion), tokens declaring fewer units are unchanged - hence C boundaries are a subset of A/B boundaries',
        'level_note': 'hypothesis units_fit = C09\'s "declared units concatenate to the key" (intermediate ends stay inside the parent); assumed: LexiconSet::get_word_info_subset succeeds and is a pure function of (id, subset); InputBuffer::ch_idx contract; Vec::extend(iterator) = repeated next() (written out and verified as extend_from_split); MorphemeList::split_into / Python split not yet under contract',
        'verus': ['v_wordid', 'v_node'],
        'kani': [],
        'assumptions': ['units_fit (dictionary split units concatenate to the word key)', 'get_word_info_subset total on split references (valid dictionary)'],
    },
    'C17': {
        'level_text': 'Verus proves for the real CharacterCategory::compile and get_category_types, for every list of definition ranges and every u32 code point: the reported class set equals the union of the classes of all ranges containing the code point, or DEFAULT when none does (postcondition `forall c: spec_get(c).bits == expected(ranges, c)` + lookup == spec_get), independent of order, overlap and adjacency',
        'level_note': 'assumed: collect_boundaries (BTreeSet) returns the sorted, duplicate-free list of all range endpoints; <[u32]>::binary_search contract; bitflags ops are u32 bit ops (R16); ranges have begin < end (checked by the reader, which itself - text/hex parsing in read_character_definition - is not under contract)',
        'verus': ['v_cc'],
        'kani': [],
        'assumptions': ['BTreeSet iteration is sorted and duplicate-free', 'binary_search std contract', 'definition-file text parsing (read_character_definition) not verified'],
    },
    'C20': {
        'level_text': 'complete (loop-free, full i64 / full dimension domain) Kani proofs on the compiled crate that check_left_id / check_right_id / check_cost accept exactly the values that index an existing matrix line / fit i16 and return them unchanged',
        'level_note': 'so far only util/check_params.rs; unk.def parsing, inhibit_connection pairs and user POS handling are not yet under contract',
        'verus': [],
        'kani': ['k_chk'],
        'kani_full': ['check_left_id_uses_lattice_dimension', 'check_left_id_strict', 'check_right_id_strict'],
        'assumptions': ['matrix dimensions <= 32767 (they are read from i16 header fields)'],
    },
    'C02': {
        'level_text': 'Verus proves on the real connect_node/insert/connect_eos/fill_top_path (with the real accessor traits) that every stored cumulative cost is a minimum over connected predecessors (is_best) and that insert keeps the lattice invariant lat_wf; the proof fns theorem_viterbi / theorem_prefix_costs derive from lat_wf alone, for every lattice and matrix, that the EOS cost equals the cost of the emitted back-pointer path and is <= the cost of every other covering path, and that each stored cumulative cost equals the cost recomputed along the path; ConnectionMatrix::cost is proved to read the row-major cell right*num_left+left',
        'level_note': 'precondition strict_no_overflow (no candidate i32 sum overflows or equals i32::MAX) is NOT established by callers at cost extremes: recorded as finding F10 under C03; assumed: nodes are inserted left to right (established by LatticeBuilder, not yet under contract), ids of dictionary words lie inside the matrix (C06/C20), rows hold <= 65535 nodes; CowArray viewed as Vec (R5); word parameters fetched from the lexicon are taken as given',
        'verus': ['v_conn', 'v_lattice'],
        'kani': [],
        'assumptions': [
            'strict_no_overflow: every candidate sum total+connection+word cost lies in [i32::MIN, i32::MAX) (finding F10)',
            'LatticeBuilder inserts nodes in order of their begin offset; word ids/costs passed to insert are the dictionary parameters',
            'every right id < num_left and left id < num_right for dictionary words (valid dictionary, C06) and plugin nodes (C20)',
        ],
    },
    'C08': {
        'level_text': 'Verus discharges, for every text, map and edit batch, the postcondition `resolved` of the real resolve_edits/add_replace: rewritten text = specification, new offset map has one entry per byte, is non-decreasing, start->start, end->end, unreplaced positions keep their image',
        'level_note': 'assumed: plugins emit ordered non-overlapping edits on char boundaries; std contracts of str slicing, push_str, Vec::extend/drain, char::encode_utf8 (trusted wrappers R8/R9/R13); 64-bit usize; code-point offset tables (fill_orig_b2c) and Python begin()/end() not yet under contract',
        'verus': ['v_edit', 'v_buf0'],
        'kani': [],
        'assumptions': [
            'input-text plugins emit edit batches that are ordered, non-overlapping, in range and on UTF-8 character boundaries (edits_ok); they come from regex / aho-corasick match iterators',
        ],
    },
}
