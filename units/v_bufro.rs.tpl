// UNIT V-BUFRO (C01, C03, C08, C13): input_text/buffer/mod.rs  build / fill_orig_b2c and the read-only accessors
use vstd::prelude::*;
use vstd::utf8::*;
use vstd::string::*;
use std::ops::Range;
verus! {
//@include common/str_prelude.rs.inc
//@include common/vec_prelude.rs.inc
//@include common/error.rs.inc
//@include common/category_type.rs.inc
//@extract sudachi/src/input_text/buffer/edit.rs :: struct ReplaceOp
//@end
//@extract sudachi/src/input_text/buffer/edit.rs :: enum ReplaceTgt
//@end
//@extract sudachi/src/input_text/buffer/mod.rs :: enum BufferState
//@  derive Clone, PartialEq, Eq, Structural
//@end
//@extract sudachi/src/input_text/buffer/mod.rs :: struct InputBuffer
//@  rw R1p 1 custom
//@  | edit::ReplaceOp
//@  > ReplaceOp
//@end
/// R13v: `&v[0..n]`
#[verifier::external_body] fn vec_prefix(v: &Vec<usize>, n: usize) -> (r: &[usize]) requires n <= v@.len() ensures r@ == v@.subrange(0, n as int) { &v[0..n] }
fn usize_min(a: usize, b: usize) -> (r: usize) ensures r == (if a <= b { a } else { b }) { if a <= b { a } else { b } }
/// opaque collaborators: grammar with its character-class table (C17 decides get_category_types)
#[verifier::external_body] pub struct CharacterCategory { _p: () }
impl CharacterCategory {
    uninterp spec fn sp_cat(&self, c: char) -> CategoryType;
    #[verifier::external_body] fn get_category_types(&self, c: char) -> (r: CategoryType) ensures r == self.sp_cat(c) { unimplemented!() }
}
pub struct Grammar<'a> { pub character_category: CharacterCategory, _p: core::marker::PhantomData<&'a ()> }
//@include specs/cont_specs.rs.inc
//@include specs/m2o_ok.rs.inc
//@include specs/bufro_specs.rs.inc

impl InputBuffer {
// contract discharged on the real body in unit v_cont
//@extract sudachi/src/input_text/buffer/mod.rs :: impl InputBuffer :: fn fill_cat_continuity
//@  stub v_cont
//@  specfile specs/fill_cat_continuity.contract
//@end

//@extract sudachi/src/input_text/buffer/mod.rs :: impl InputBuffer :: fn fill_orig_b2c
//@  rw R13 1 custom
//@  | for \(ch_idx, \(b_idx, _\)\) in self\.original\.char_indices\(\)\.enumerate\(\) \{
//@  > let __ci = str_char_indices(self.original.as_str()); let mut __it: usize = 0; while __it < __ci.len() { let ch_idx = __it; let (b_idx, _) = __ci[__it]; __it += 1;
//@  spec
        ensures
            final(self).original@ == old(self).original@, final(self).modified@ == old(self).modified@, final(self).m2o@ == old(self).m2o@,
            final(self).mod_chars@ == old(self).mod_chars@, final(self).mod_c2b@ == old(self).mod_c2b@, final(self).mod_b2c@ == old(self).mod_b2c@,
            final(self).mod_bow@ == old(self).mod_bow@, final(self).mod_cat@ == old(self).mod_cat@, final(self).mod_cat_continuity@ == old(self).mod_cat_continuity@,
            final(self).state == old(self).state,
            // C08: entry b of the table is the number of code points of the original text before byte b, for every character boundary b
            final(self).m2o_2@.len() == sbytes(final(self).original).len() + 1,
            forall|k: int| 0 <= k < final(self).original@.len() ==> #[trigger] final(self).m2o_2@[char_off(final(self).original@, k)] == k,
            final(self).original@.len() > 0 ==> final(self).m2o_2@[sbytes(final(self).original).len() as int] == final(self).original@.len(),
            cp_table_ok(final(self).original, final(self).m2o_2@),
//@  atstart
        broadcast use axiom_str_len_fits;
        let ghost o = self.original@;
        let ghost nb = sbytes(self.original).len() as int;
//@  loop 1
            invariant
                self.original@ == o, nb == sbytes(self.original).len(), self.m2o_2@.len() == nb + 1, __it <= __ci@.len(), __ci@.len() == o.len(),
                self.modified@ == old(self).modified@, self.m2o@ == old(self).m2o@, self.mod_chars@ == old(self).mod_chars@, self.mod_c2b@ == old(self).mod_c2b@,
                self.mod_b2c@ == old(self).mod_b2c@, self.mod_bow@ == old(self).mod_bow@, self.mod_cat@ == old(self).mod_cat@,
                self.mod_cat_continuity@ == old(self).mod_cat_continuity@, self.state == old(self).state,
                forall|k: int| 0 <= k < __ci@.len() ==> (#[trigger] __ci@[k]).0 == char_off(o, k) && __ci@[k].0 < nb,
                forall|k: int, l: int| 0 <= k < l < __ci@.len() ==> __ci@[k].0 < __ci@[l].0,
                forall|bb: int| 0 <= bb < nb && is_char_boundary(sbytes(self.original), bb) ==> exists|k: int| 0 <= k < __ci@.len() && #[trigger] __ci@[k].0 == bb,
                forall|k: int| 0 <= k < __it ==> #[trigger] self.m2o_2@[char_off(o, k)] == k,
                #[if_ident(max)] max == (if __it > 0 { __it - 1 } else { 0int }),
            decreases __ci@.len() - __it
//@  after self.m2o_2[b_idx] = 
            proof {
                assert forall|k: int| 0 <= k < __it implies #[trigger] self.m2o_2@[char_off(o, k)] == k by {
                    if k < __it - 1 { assert(__ci@[k].0 < __ci@[__it - 1].0); }
                }
            }
//@  atexit
        proof {
            assert forall|k: int| 0 <= k < o.len() implies #[trigger] self.m2o_2@[char_off(o, k)] == k by { assert(__ci@[k].0 < nb); }
            assert forall|bb: int| 0 <= bb < nb && is_char_boundary(sbytes(self.original), bb) implies (#[trigger] self.m2o_2@[bb]) < o.len() && char_off(o, self.m2o_2@[bb] as int) == bb by {
                let k = choose|k: int| 0 <= k < __ci@.len() && #[trigger] __ci@[k].0 == bb;
                assert(self.m2o_2@[char_off(o, k)] == k);
            }
        }
//@end

//@extract sudachi/src/input_text/buffer/mod.rs :: impl InputBuffer :: fn build
//@  rw R3 1
//@  rw R16 1 custom
//@  | CategoryType::ALPHA \| CategoryType::GREEK \| CategoryType::CYRILLIC
//@  > CategoryType::ALPHA.union(CategoryType::GREEK).union(CategoryType::CYRILLIC)
//@  rw R13 1 custom
//@  | for \(chidx, \(bidx, ch\)\) in self\.modified\.char_indices\(\)\.enumerate\(\) \{
//@  > let __ci = str_char_indices(self.modified.as_str()); let mut __it: usize = 0; while __it < __ci.len() { let chidx = __it; let (bidx, ch) = __ci[__it]; __it += 1;
//@  rw R8 2 custom
//@  | self\.mod_b2c\s*\.extend\(std::iter::repeat\((\w+)\)\.take\(([^;]+?)\)\);
//@  > vec_extend_repeat(&mut self.mod_b2c, \1, \2);
//@  ret r
//@  spec
        requires
            old(self).state == BufferState::RW, m2o_ok(*old(self)),
            old(self).mod_c2b@.len() == 0, old(self).mod_b2c@.len() == 0, old(self).mod_cat@.len() == 0,
            old(self).mod_bow@.len() == 0, old(self).mod_cat_continuity@.len() == 0,
        ensures
            r is Ok, ro_wf(*final(self)), buf_ro(*final(self)),
            final(self).original@ == old(self).original@, final(self).modified@ == old(self).modified@, final(self).m2o@ == old(self).m2o@,
            // character classes come from the grammar's table, one per character
            forall|k: int| 0 <= k < final(self).mod_chars@.len() ==> (#[trigger] final(self).mod_cat@[k]) == grammar.character_category.sp_cat(final(self).mod_chars@[k]),
            // C13: word-begin marks follow the rule list; bytes inside a character never begin a word
            forall|k: int| 0 <= k < final(self).mod_chars@.len() ==> #[trigger] final(self).mod_bow@[final(self).mod_c2b@[k] as int] == bow_rule(final(self).mod_cat@, k),
            // C13: class runs; C08: code-point table of the original text
            forall|j: int| 0 <= j < final(self).mod_cat@.len() ==> #[trigger] cont_ok(final(self).mod_cat@, final(self).mod_cat_continuity@, j),
            forall|j: int| 0 <= j < final(self).mod_cat@.len() ==> 1 <= #[trigger] final(self).mod_cat_continuity@[j] <= final(self).mod_cat@.len() - j,
            final(self).m2o_2@.len() == sbytes(final(self).original).len() + 1,
            forall|k: int| 0 <= k < final(self).original@.len() ==> #[trigger] final(self).m2o_2@[char_off(final(self).original@, k)] == k,
            cp_table_ok(final(self).original, final(self).m2o_2@),
//@  atstart
        broadcast use axiom_str_len_fits;
        let ghost md = self.modified@;
        let ghost nb = sbytes(self.modified).len() as int;
//@  loop 1
            invariant
                self.modified@ == md, nb == sbytes(self.modified).len(), self.original@ == old(self).original@, self.m2o@ == old(self).m2o@,
                self.state == BufferState::RO, self.mod_cat_continuity@.len() == 0,
                __ci@.len() == md.len(), __it <= __ci@.len(),
                forall|k: int| 0 <= k < __ci@.len() ==> (#[trigger] __ci@[k]).1 == md[k] && __ci@[k].0 == char_off(md, k) && __ci@[k].0 < nb
                    && is_char_boundary(sbytes(self.modified), __ci@[k].0 as int),
                forall|k: int, l: int| 0 <= k < l < __ci@.len() ==> __ci@[k].0 < __ci@[l].0,
                forall|x: int| 0 <= x < nb && is_char_boundary(sbytes(self.modified), x) ==> exists|k: int| 0 <= k < __ci@.len() && #[trigger] __ci@[k].0 == x,
                __ci@.len() > 0 ==> __ci@[0].0 == 0,
                self.mod_chars@.len() == __it, self.mod_cat@.len() == __it, self.mod_c2b@.len() == __it, self.mod_bow@.len() == nb,
                forall|k: int| 0 <= k < __it ==> (#[trigger] self.mod_chars@[k]) == md[k],
                forall|k: int| 0 <= k < __it ==> (#[trigger] self.mod_c2b@[k]) == __ci@[k].0,
                forall|k: int| 0 <= k < __it ==> (#[trigger] self.mod_cat@[k]) == cats.sp_cat(md[k]),
                last_offset == (if __it > 0 { __ci@[__it - 1].0 as int } else { 0int }), last_chidx == (if __it > 0 { __it - 1 } else { 0int }),
                self.mod_b2c@.len() == last_offset,
                forall|x: int| 0 <= x < last_offset ==> (#[trigger] self.mod_b2c@[x]) + 1 < __it
                    && __ci@[self.mod_b2c@[x] as int].0 <= x < __ci@[self.mod_b2c@[x] + 1].0,
                // word-begin state machine
                non_starting.bits == NONSTART(), next_bow == bow_flag(self.mod_cat@, __it as int),
                prev_cat.bits == (if __it > 0 { self.mod_cat@[__it - 1].bits } else { 0u32 }),
                forall|k: int| 0 <= k < __it ==> #[trigger] self.mod_bow@[__ci@[k].0 as int] == bow_rule(self.mod_cat@, k),
            decreases __ci@.len() - __it
//@  before self.mod_chars.push(ch);
            let ghost cat0 = self.mod_cat@;
            let ghost b2c0 = self.mod_b2c@;
            let ghost bow0 = self.mod_bow@;
            proof { if chidx > 0 { assert(__ci@[chidx - 1].0 < __ci@[chidx as int].0); } }
//@  before self.mod_bow[bidx] = can_bow;
            proof {
                let c1 = self.mod_cat@;
                assert(c1 == cat0.push(cat));
                lemma_bow_prefix(cat0, c1, chidx as int);
                assert(can_bow == bow_rule(c1, chidx as int)) by {
                    assert(non_starting.bits == NONSTART());
                    assert(prev_cat.bits == (if chidx > 0 { c1[chidx - 1].bits } else { 0u32 }));
                }
            }
//@  after prev_cat = cat;
            proof {
                let c1 = self.mod_cat@;
                assert forall|k: int| 0 <= k < __it implies #[trigger] self.mod_bow@[__ci@[k].0 as int] == bow_rule(c1, k) by {
                    if k < chidx { assert(__ci@[k].0 < __ci@[chidx as int].0); lemma_bow_prefix(cat0, c1, k); assert(bow_rule(cat0, k) == bow_rule(c1, k)); }
                }
                assert forall|x: int| 0 <= x < last_offset implies (#[trigger] self.mod_b2c@[x]) + 1 < __it
                    && __ci@[self.mod_b2c@[x] as int].0 <= x < __ci@[self.mod_b2c@[x] + 1].0 by {
                    if x < b2c0.len() { assert(self.mod_b2c@[x] == b2c0[x]); }
                }
                lemma_bow_flag_next(c1, chidx as int);
            }
//@  afterloop 1
        let ghost nch = self.mod_chars@.len() as int;
        proof {
            if nb > 0 { assert(nch > 0); }
        }
//@  before self.fill_cat_continuity();
        proof {
            assert(self.mod_chars@ =~= md);
            let c2b = self.mod_c2b@; let b2c = self.mod_b2c@;
            // the two sentinels (stated first: a wrong sentinel is then a cheap ground failure, not a divergent quantifier search)
            assert(c2b.len() == nch + 1 && c2b[nch] == nb);
            assert(b2c.len() == nb + 1 && b2c[nb] == (if nch > 0 { nch } else { 1int }));
            assert forall|k: int, l: int| 0 <= k < l <= nch implies c2b[k] < c2b[l] by { if l < nch { assert(__ci@[k].0 < __ci@[l].0); } }
            assert forall|x: int| 0 <= x < nb implies (#[trigger] b2c[x]) < nch && c2b[b2c[x] as int] <= x < c2b[b2c[x] + 1] by { }
            assert forall|x: int| 0 <= x < nb && is_char_boundary(sbytes(self.modified), x) implies c2b[#[trigger] b2c[x] as int] == x by {
                let k = choose|k: int| 0 <= k < __ci@.len() && #[trigger] __ci@[k].0 == x;
                let j = b2c[x] as int;
                assert(c2b[k] == x);
                if k < j { assert(c2b[k] < c2b[j]); } else if k > j { assert(c2b[j + 1] <= c2b[k]) by { if j + 1 < k { assert(c2b[j + 1] < c2b[k]); } } }
            }
        }
//@end

//@extract sudachi/src/input_text/buffer/mod.rs :: impl InputBuffer :: fn to_orig_byte_idx
//@  rw R3 1
//@  ret r
//@  spec
        requires buf_ro(*self), index <= self.mod_chars@.len(),
        ensures r == self.m2o@[self.mod_c2b@[index as int] as int], r <= sbytes(self.original).len(),
            is_char_boundary(sbytes(self.original), r as int),
//@  atstart
        proof {
            let nb = sbytes(self.modified).len() as int;
            encode_utf8_valid_utf8(self.modified@); is_char_boundary_start_end_of_seq(sbytes(self.modified));
            if index < self.mod_chars@.len() { assert(self.mod_c2b@[index as int] < nb); }
        }
//@end
//@extract sudachi/src/input_text/buffer/mod.rs :: impl InputBuffer :: fn to_orig_char_idx
//@  rw R3 1
//@  ret r
//@  spec
        requires buf_ro(*self), index <= self.mod_chars@.len(), self.original@.len() > 0,
        ensures
            // C08: the reported code-point offset is the number of code points of the original text before the byte offset
            r <= self.original@.len(),
            r < self.original@.len() ==> char_off(self.original@, r as int) == self.m2o@[self.mod_c2b@[index as int] as int],
            r == self.original@.len() ==> self.m2o@[self.mod_c2b@[index as int] as int] == sbytes(self.original).len(),
//@  atstart
        broadcast use axiom_str_len_fits;
//@end
//@extract sudachi/src/input_text/buffer/mod.rs :: impl InputTextIndex for InputBuffer :: fn to_orig
//@  twin
//@  rw R3 1
//@  ret r
//@  spec
        requires buf_ro(*self), range.start <= sbytes(self.modified).len(), range.end <= sbytes(self.modified).len(),
        ensures r.start == self.m2o@[range.start as int], r.end == self.m2o@[range.end as int],
//@end
//@extract sudachi/src/input_text/buffer/mod.rs :: impl InputTextIndex for InputBuffer :: fn orig_slice
//@  twin
//@  rw R3d 3
//@  rw R13 1 custom
//@  | &self\.original\[self\.to_orig\(range\)\]
//@  > { let __r = self.to_orig(range); str_slice(self.original.as_str(), __r.start, __r.end) }
//@  ret r
//@  spec
        requires
            buf_ro(*self), range.start <= range.end <= sbytes(self.modified).len(),
            // (the two dropped debug assertions) the range lies on character boundaries of the rewritten text
            is_char_boundary(sbytes(self.modified), range.start as int), is_char_boundary(sbytes(self.modified), range.end as int),
        ensures
            // C01: the slice of the ORIGINAL text between the images of the two offsets under the offset map
            self.m2o@[range.start as int] <= self.m2o@[range.end as int] <= sbytes(self.original).len(),
            r.spec_bytes() == sbytes(self.original).subrange(self.m2o@[range.start as int] as int, self.m2o@[range.end as int] as int),
//@end
//@extract sudachi/src/input_text/buffer/mod.rs :: impl InputBuffer :: fn orig_slice_c
//@  rw R3 1
//@  rw R13 1 custom
//@  | &self\.original\[start\.\.end\]
//@  > str_slice(self.original.as_str(), start, end)
//@  ret r
//@  spec
        requires buf_ro(*self), data.start <= data.end <= self.mod_chars@.len(),
        ensures
            self.m2o@[self.mod_c2b@[data.start as int] as int] <= self.m2o@[self.mod_c2b@[data.end as int] as int],
            r.spec_bytes() == sbytes(self.original).subrange(self.m2o@[self.mod_c2b@[data.start as int] as int] as int, self.m2o@[self.mod_c2b@[data.end as int] as int] as int),
//@end
//@extract sudachi/src/input_text/buffer/mod.rs :: impl InputBuffer :: fn curr_slice_c
//@  rw R3 1
//@  rw R13 1 custom
//@  | &self\.modified\[start\.\.end\]
//@  > str_slice(self.modified.as_str(), start, end)
//@  ret r
//@  spec
        requires buf_ro(*self), data.start <= data.end <= self.mod_chars@.len(),
        ensures
            // C13: the text of the characters data.start..data.end of the normalised text
            r.spec_bytes() == sbytes(self.modified).subrange(self.mod_c2b@[data.start as int] as int, self.mod_c2b@[data.end as int] as int),
//@  atstart
        proof {
            encode_utf8_valid_utf8(self.modified@); is_char_boundary_start_end_of_seq(sbytes(self.modified));
            if data.start < data.end { assert(self.mod_c2b@[data.start as int] < self.mod_c2b@[data.end as int]); }
        }
//@end
//@extract sudachi/src/input_text/buffer/mod.rs :: impl InputBuffer :: fn get_original_index
//@  rw R3d 1
//@  ret r
//@  spec
        requires buf_ro(*self), index <= sbytes(self.modified).len(),
        ensures r == self.m2o@[index as int], r <= sbytes(self.original).len(),
//@end
//@extract sudachi/src/input_text/buffer/mod.rs :: impl InputBuffer :: fn curr_byte_offsets
//@  rw R3 1
//@  rw R13v * custom
//@  | &self\.mod_c2b\[0\.\.([^\]]+)\]
//@  > vec_prefix(&self.mod_c2b, \1)
//@  ret r
//@  spec
        requires buf_ro(*self),
        // C13: one byte offset per character of the normalised text (the sentinel is not handed out)
        ensures r@ == self.mod_c2b@.subrange(0, self.mod_chars@.len() as int),
//@end
//@extract sudachi/src/input_text/buffer/mod.rs :: impl InputTextIndex for InputBuffer :: fn cat_at_char
//@  twin
//@  rw R3 1
//@  ret r
//@  spec
        requires buf_ro(*self), offset < self.mod_chars@.len(),
        ensures r == self.mod_cat@[offset as int],
//@end
//@extract sudachi/src/input_text/buffer/mod.rs :: impl InputTextIndex for InputBuffer :: fn cat_continuous_len
//@  twin
//@  rw R3 1
//@  ret r
//@  spec
        requires buf_ro(*self), offset < self.mod_chars@.len(),
        ensures r == self.mod_cat_continuity@[offset as int],
//@end
//@extract sudachi/src/input_text/buffer/mod.rs :: impl InputTextIndex for InputBuffer :: fn char_distance
//@  twin
//@  rw R3 1
//@  rw R13m * custom
//@  | \(cpt \+ offset\)\.min\(self\.mod_chars\.len\(\)\)
//@  > usize_min(cpt + offset, self.mod_chars.len())
//@  ret r
//@  spec
        requires buf_ro(*self), cpt <= self.mod_chars@.len(), cpt + offset <= usize::MAX,
        // C13: `offset` characters further, clipped at the end of the text
        ensures r == (if cpt + offset <= self.mod_chars@.len() { offset as int } else { self.mod_chars@.len() - cpt }),
//@end
//@extract sudachi/src/input_text/buffer/mod.rs :: impl InputBuffer :: fn to_curr_byte_idx
//@  rw R3 1
//@  ret r
//@  spec
        requires buf_ro(*self), index <= self.mod_chars@.len(),
        ensures r == self.mod_c2b@[index as int], r <= sbytes(self.modified).len(),
//@end
//@extract sudachi/src/input_text/buffer/mod.rs :: impl InputBuffer :: fn ch_idx
//@  rw R3 1
//@  ret r
//@  spec
        requires buf_ro(*self), idx <= sbytes(self.modified).len(),
        ensures r == self.mod_b2c@[idx as int], r <= (if self.mod_chars@.len() > 0 { self.mod_chars@.len() as int } else { 1int }),
//@end
//@extract sudachi/src/input_text/buffer/mod.rs :: impl InputBuffer :: fn can_bow
//@  rw R3 1
//@  ret r
//@  spec
        requires buf_ro(*self), offset < sbytes(self.modified).len(),
        ensures r == self.mod_bow@[offset as int],
//@end
//@extract sudachi/src/input_text/buffer/mod.rs :: impl InputBuffer :: fn get_word_candidate_length
//@  rw R3 1
//@  rw R7 1
//@  ret r
//@  spec
        requires buf_ro(*self), char_idx < self.mod_chars@.len(),
        ensures
            // C13 (fallback provider): the distance to the next character that may begin a word, or to the end of the text
            1 <= r <= self.mod_chars@.len() - char_idx,
            forall|i: int| char_idx < i < char_idx + r ==> !#[trigger] self.mod_bow@[self.mod_c2b@[i] as int],
            char_idx + r < self.mod_chars@.len() ==> self.mod_bow@[self.mod_c2b@[char_idx + r] as int],
//@  loop 1
            invariant
                buf_ro(*self), char_len == self.mod_chars@.len(), __end_i == char_len, char_idx < __it_i <= char_len,
                forall|i: int| char_idx < i < __it_i ==> !#[trigger] self.mod_bow@[self.mod_c2b@[i] as int],
            decreases char_len - __it_i
//@end
}

/// LINK to unit v_build: the facts about the tables of a built text that v_build assumes of its opaque InputBuffer (buf_facts:
/// sp_c2b = mod_c2b, sp_chidx = mod_b2c) follow from the postcondition ro_wf of the real InputBuffer::build
proof fn lemma_buf_facts_for_v_build(b: InputBuffer)
    requires ro_wf(b)
    ensures
        forall|k: int| 0 <= k < b.mod_chars@.len() ==> 0 <= #[trigger] b.mod_c2b@[k] < sbytes(b.modified).len(),
        forall|p: int, x: int| 0 <= p < b.mod_chars@.len() && #[trigger] b.mod_c2b@[p] < x <= sbytes(b.modified).len() && is_char_boundary(sbytes(b.modified), x)
            ==> p < #[trigger] b.mod_b2c@[x] <= b.mod_chars@.len(),
{
    let n = b.mod_chars@.len() as int;
    let nb = sbytes(b.modified).len() as int;
    assert forall|p: int, x: int| 0 <= p < n && #[trigger] b.mod_c2b@[p] < x <= nb && is_char_boundary(sbytes(b.modified), x)
        implies p < #[trigger] b.mod_b2c@[x] <= n by {
        if x < nb {
            let c = b.mod_b2c@[x] as int;
            assert(b.mod_c2b@[c] == x);
            if c <= p { if c < p { assert(b.mod_c2b@[c] < b.mod_c2b@[p]); } }
        }
    }
}
} // verus!
fn main() {}
