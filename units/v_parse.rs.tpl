// UNIT V-PARSE (C06, C05): dic/build/parse.rs -- the field parsers of the lexicon CSV:
//   check_str_len, parse_i16, parse_u32, parse_wordid_raw, parse_wordid, parse_dic_form, parse_slash_list, parse_wordid_list,
//   parse_u32_list, unescape, unescape_cow (Cow<str> as a two-variant value with a text), unescape_slow
// ASSUMED (wrappers below): u32::from_str / i16::from_str / u32::from_str_radix are total functions of the text (a value or an error),
// str == / starts_with / split("/") / to_owned, char::from_u32, String::push; the regex crate as a model (captures_iter yields ordered,
// non-overlapping matches of  \\u{H{1,6}} | \\uHHHH  on character boundaries, group 1 or 2 = the hexadecimal digits inside the match).
// Decided: a word-id literal is accepted only if the number fits the 28 word bits, `U<n>` names word n of dictionary 1, a bare number
// word n of dictionary 0 (the hypothesis `dictionary number 0 or 1` of validate_wid, v_valid); "*" as dictionary form is INVALID;
// a slash list holds one parsed item per part, in order, at most 127 items; a string longer than 32,767 bytes is refused and the
// unescaped string is never longer than the escaped one; every literal is replaced by exactly the scalar value its digits denote, the
// text between literals is copied, a literal that denotes no scalar value is refused.
use vstd::prelude::*;
use vstd::utf8::*;
use vstd::string::*;
verus! {
//@include common/str_prelude.rs.inc
//@include common/error.rs.inc
//@include common/build_prelude.rs.inc
//@include common/wordid_stub.rs.inc
#[verifier::external_body] fn err_string() -> String { String::new() }   // R12: message texts are not verified

//@extract sudachi/src/dic/build/mod.rs :: const MAX_POS_IDS
//@end
//@extract sudachi/src/dic/build/mod.rs :: const MAX_DIC_STRING_LEN
//@end
//@extract sudachi/src/dic/build/mod.rs :: const MAX_ARRAY_LEN
//@end

// ---- R14p: number parsing of std (ASSUMED total; the denotation is an uninterpreted function of the text)
uninterp spec fn sp_u32(s: Seq<char>) -> Option<u32>;
uninterp spec fn sp_i16(s: Seq<char>) -> Option<i16>;
uninterp spec fn sp_hex(s: Seq<u8>) -> Option<u32>;
#[verifier::external_body] fn u32_from_str(s: &str) -> (r: Result<u32, ()>) ensures r is Ok <==> sp_u32(s@) is Some, r is Ok ==> Some(r->Ok_0) == sp_u32(s@) { unimplemented!() }
#[verifier::external_body] fn i16_from_str(s: &str) -> (r: Result<i16, ()>) ensures r is Ok <==> sp_i16(s@) is Some, r is Ok ==> Some(r->Ok_0) == sp_i16(s@) { unimplemented!() }
#[verifier::external_body] fn u32_from_str_radix16(s: &str) -> (r: Result<u32, ()>) ensures r is Ok <==> sp_hex(s.spec_bytes()) is Some, r is Ok ==> Some(r->Ok_0) == sp_hex(s.spec_bytes()) { unimplemented!() }
spec fn is_star(s: Seq<char>) -> bool { s.len() == 1 && s[0] == '*' }
spec fn sb(s: String) -> Seq<u8> { encode_utf8(s@) }
// ---- R13: str helpers (ASSUMED std contracts)
#[verifier::external_body] fn str_eq(a: &str, b: &str) -> (r: bool) ensures r == (a@ == b@) { a == b }
#[verifier::external_body] fn str_starts_with_u(a: &str) -> (r: bool) ensures r == (a@.len() > 0 && a@[0] == 'U') { a.starts_with("U") }
#[verifier::external_body] fn str_skip1(a: &str) -> (r: &str) requires a@.len() > 0, a@[0] == 'U' ensures r@ == a@.subrange(1, a@.len() as int) { &a[1..] }
#[verifier::external_body] fn str_to_owned(a: &str) -> (r: String) ensures r@ == a@, sb(r) == a.spec_bytes() { a.to_owned() }
uninterp spec fn sp_slash_parts(s: Seq<char>) -> Seq<Seq<char>>;
/// `data.split("/")` collected (ASSUMED: std split; at least one part)
#[verifier::external_body] fn str_split_slash(s: &str) -> (r: Vec<&str>)
    ensures r@.len() >= 1, r@.len() == sp_slash_parts(s@).len(), forall|i: int| 0 <= i < r@.len() ==> (#[trigger] r@[i])@ == sp_slash_parts(s@)[i] { s.split("/").collect() }
/// String::push / push_str over the UTF-8 bytes (ASSUMED std contracts; a character takes at most 4 bytes)
#[verifier::external_body] fn string_push(s: &mut String, c: char) ensures sb(*final(s)) == sb(*old(s)) + encode_utf8(seq![c]), encode_utf8(seq![c]).len() <= 4 { s.push(c) }
#[verifier::external_body] fn string_push_str(s: &mut String, t: &str) ensures sb(*final(s)) == sb(*old(s)) + t.spec_bytes() { s.push_str(t) }
#[verifier::external_body] fn string_with_capacity(n: usize) -> (r: String) ensures sb(r).len() == 0 { String::with_capacity(n) }
/// `char::from_u32` (ASSUMED: Some exactly for the Unicode scalar values)
spec fn is_scalar(v: u32) -> bool { v <= 0xD7FF || (0xE000 <= v && v <= 0x10FFFF) }
uninterp spec fn char_of(v: u32) -> char;
#[verifier::external_body] fn char_from_u32(v: u32) -> (r: Option<char>) ensures r is Some <==> is_scalar(v), r is Some ==> r->Some_0 == char_of(v) { char::from_u32(v) }

// ---- R14: regex model of UNICODE_LITERAL =  \\u(?:\{([0-9a-fA-F]{1,6})\}|([0-9a-fA-F]{4}))
pub struct RMatch { pub s: usize, pub e: usize }
impl RMatch {
    fn start(&self) -> (r: usize) ensures r == self.s { self.s }
    fn end(&self) -> (r: usize) ensures r == self.e { self.e }
}
pub struct Cap { pub whole: RMatch, pub grp: RMatch }
/// ordered, non-overlapping, inside the text, on character boundaries; the digits lie inside the literal, which has at least 5 bytes
/// (`\u` + 4 digits, or `\u{` + 1..6 digits + `}`) and at most 6 digits
spec fn caps_ok(cs: Seq<Cap>, hay: Seq<u8>) -> bool {
    &&& forall|k: int| 0 <= k < cs.len() ==> {
            let c = #[trigger] cs[k];
            &&& c.whole.s <= c.grp.s <= c.grp.e <= c.whole.e <= hay.len()
            &&& c.whole.s + 5 <= c.whole.e
            &&& is_char_boundary(hay, c.whole.s as int) && is_char_boundary(hay, c.whole.e as int)
            &&& is_char_boundary(hay, c.grp.s as int) && is_char_boundary(hay, c.grp.e as int)
        }
    &&& forall|k: int, l: int| 0 <= k < l < cs.len() ==> (#[trigger] cs[k]).whole.e <= (#[trigger] cs[l]).whole.s
}
uninterp spec fn sp_caps(hay: Seq<u8>) -> Seq<Cap>;
#[verifier::external_body] fn unicode_literal_captures(hay: &str) -> (r: Vec<Cap>) ensures r@ == sp_caps(hay.spec_bytes()), caps_ok(r@, hay.spec_bytes()) { unimplemented!() }
#[verifier::external_body] fn unicode_literal_is_match(hay: &str) -> (r: bool) ensures r == (sp_caps(hay.spec_bytes()).len() > 0) { unimplemented!() }
/// the text of a capture group (`Match::as_str`)
#[verifier::external_body] fn match_str<'a>(hay: &'a str, m: &RMatch) -> (r: &'a str)
    requires m.s <= m.e <= hay.spec_bytes().len(), is_char_boundary(hay.spec_bytes(), m.s as int), is_char_boundary(hay.spec_bytes(), m.e as int)
    ensures r.spec_bytes() == hay.spec_bytes().subrange(m.s as int, m.e as int) { &hay[m.s..m.e] }

// ---- the specification of unescaping, over bytes: walk the literals from the left
/// the scalar value a literal denotes (its digits read as a hexadecimal number), None if the digits denote no scalar value
spec fn lit_char(hay: Seq<u8>, c: Cap) -> Option<char> {
    match sp_hex(hay.subrange(c.grp.s as int, c.grp.e as int)) {
        Some(v) => if is_scalar(v) { Some(char_of(v)) } else { None },
        None => None,
    }
}
/// once a literal is refused the whole string is
proof fn lemma_unesc_none_mono(hay: Seq<u8>, cs: Seq<Cap>, n: int, m: int)
    requires 0 <= n <= m
    ensures unesc_upto(hay, cs, n) is None ==> unesc_upto(hay, cs, m) is None
    decreases m - n
{ if n < m { lemma_unesc_none_mono(hay, cs, n, m - 1); } }
/// result of unescaping the first n literals: text before the first literal, then per literal its character and the text up to the next
spec fn unesc_upto(hay: Seq<u8>, cs: Seq<Cap>, n: int) -> Option<Seq<u8>>
    decreases n
{
    if n <= 0 { Some(Seq::<u8>::empty()) } else {
        match (unesc_upto(hay, cs, n - 1), lit_char(hay, cs[n - 1])) {
            (Some(p), Some(ch)) => Some(p + hay.subrange(if n == 1 { 0 } else { cs[n - 2].whole.e as int }, cs[n - 1].whole.s as int) + encode_utf8(seq![ch])),
            _ => None,
        }
    }
}
spec fn unescaped(hay: Seq<u8>) -> Option<Seq<u8>> {
    let cs = sp_caps(hay);
    match unesc_upto(hay, cs, cs.len() as int) {
        Some(p) => Some(p + hay.subrange(if cs.len() == 0 { 0 } else { cs[cs.len() - 1].whole.e as int }, hay.len() as int)),
        None => None,
    }
}

//@extract sudachi/src/dic/build/parse.rs :: fn check_str_len
//@  ret r
//@  spec
        ensures r is Ok <==> data.spec_bytes().len() <= 32767
//@  atstart
        broadcast use axiom_str_len_fits;
//@end

//@extract sudachi/src/dic/build/parse.rs :: fn parse_i16
//@  rw R14p 1 custom
//@  | i16::from_str\(data\)
//@  > i16_from_str(data)
//@  rw R12 * custom
//@  | BuildFailure::(\w+)\(data\.to_owned\(\)\)
//@  > BuildFailure::\1(err_string())
//@  ret r
//@  spec
        ensures r is Ok <==> sp_i16(data@) is Some, r is Ok ==> Some(r->Ok_0) == sp_i16(data@)
//@end

//@extract sudachi/src/dic/build/parse.rs :: fn parse_u32
//@  rw R14p 1 custom
//@  | u32::from_str\(data\)
//@  > u32_from_str(data)
//@  rw R12 * custom
//@  | BuildFailure::(\w+)\(data\.to_owned\(\)\)
//@  > BuildFailure::\1(err_string())
//@  ret r
//@  spec
        ensures r is Ok <==> sp_u32(data@) is Some, r is Ok ==> Some(r->Ok_0) == sp_u32(data@)
//@end

/// C06: what a word-id literal denotes: `U<n>` word n of dictionary 1, `<n>` word n of dictionary 0; n must fit the 28 word bits
spec fn lit_wordid(s: Seq<char>) -> Option<(u8, u32)> {
    if s.len() > 0 && s[0] == 'U' {
        match sp_u32(s.subrange(1, s.len() as int)) { Some(v) => if v <= 0x0fff_ffff { Some((1u8, v)) } else { None }, None => None }
    } else {
        match sp_u32(s) { Some(v) => if v <= 0x0fff_ffff { Some((0u8, v)) } else { None }, None => None }
    }
}
spec fn wid_is(w: WordId, p: (u8, u32)) -> bool { wid_dic(w) == p.0 && wid_word(w) == p.1 }

//@extract sudachi/src/dic/build/parse.rs :: fn parse_wordid_raw
//@  rw R14p 1 custom
//@  | u32::from_str\(data\)
//@  > u32_from_str(data)
//@  rw R12 * custom
//@  | BuildFailure::(\w+)\(data\.to_owned\(\)\)
//@  > BuildFailure::\1(err_string())
//@  ret r
//@  spec
        ensures
            r is Ok <==> sp_u32(data@) is Some && sp_u32(data@)->Some_0 <= 0x0fff_ffff,
            r is Ok ==> wid_dic(r->Ok_0) == 0 && Some(wid_word(r->Ok_0)) == sp_u32(data@),
//@end

//@extract sudachi/src/dic/build/parse.rs :: fn parse_wordid
//@  rw R13 1 custom
//@  | data\.starts_with\("U"\)
//@  > str_starts_with_u(data)
//@  rw R13 1 custom
//@  | &data\[1\.\.\]
//@  > str_skip1(data)
//@  rw Rmap 1 custom
//@  | wid\.map\(\|w\| ((?:[^()]|\((?:[^()]|\([^()]*\))*\))*)\)
//@  > match wid { Ok(w) => Ok(\1), Err(e) => Err(e) }
//@  ret r
//@  spec
        ensures
            r is Ok <==> lit_wordid(data@) is Some,
            r is Ok ==> lit_wordid(data@) is Some && wid_is(r->Ok_0, lit_wordid(data@)->Some_0),
            // the hypothesis of validate_wid (v_valid): a parsed reference names dictionary 0 or 1 and fits the word bits
            r is Ok ==> wid_dic(r->Ok_0) <= 1 && wid_word(r->Ok_0) <= 0x0fff_ffff,
//@end

//@extract sudachi/src/dic/build/parse.rs :: fn parse_dic_form
//@  rw R13 1 custom
//@  | data == "\*"
//@  > str_eq(data, "*")
//@  ret r
//@  spec
        ensures
            is_star(data@) ==> r is Ok && r->Ok_0 == WordId::INVALID,
            !is_star(data@) ==> (r is Ok <==> lit_wordid(data@) is Some) && (r is Ok ==> wid_is(r->Ok_0, lit_wordid(data@)->Some_0)),
//@  atstart
        proof { reveal_strlit("*"); assert(is_star(data@) ==> data@ =~= "*"@); }
//@end

/// x is what `f` returns for a text p
spec fn item_of<T, F: FnMut(&str) -> DicWriteResult<T>>(f: F, p: Seq<char>, x: T) -> bool {
    exists|s: &str| #[trigger] f.ensures((s,), Ok::<T, BuildFailure>(x)) && s@ == p
}
/// the items of a slash list: item i is what `f` returns for part i
spec fn list_of<T, F: FnMut(&str) -> DicWriteResult<T>>(f: F, parts: Seq<Seq<char>>, out: Seq<T>) -> bool {
    &&& out.len() == parts.len()
    &&& forall|i: int| 0 <= i < out.len() ==> item_of(f, parts[i], #[trigger] out[i])
}

//@extract sudachi/src/dic/build/parse.rs :: fn parse_slash_list
//@  rw R6s 1 custom
//@  | for part in data\.split\("/"\) \{
//@  > let __parts = str_split_slash(data); let mut __ip: usize = 0; while __ip < __parts.len() { let part = __parts[__ip]; __ip += 1;
//@  ret r
//@  spec
        requires forall|s: &str| f.requires((s,)),
        ensures
            // C06: arrays respect the format limit
            r is Ok ==> r->Ok_0@.len() <= 127 && list_of(f, sp_slash_parts(data@), r->Ok_0@),
            // an error of any part, or more than 127 parts, is an error of the list
            r is Ok ==> sp_slash_parts(data@).len() <= 127,
//@  atstart
        let ghost f0 = f;
//@  loop 1
            invariant
                f == f0, forall|s: &str| f.requires((s,)), __ip <= __parts@.len(), result@.len() == __ip,
                __parts@.len() == sp_slash_parts(data@).len(),
                forall|i: int| 0 <= i < __parts@.len() ==> (#[trigger] __parts@[i])@ == sp_slash_parts(data@)[i],
                forall|k: int| 0 <= k < result@.len() ==> f.ensures((__parts@[k],), Ok::<T, BuildFailure>(#[trigger] result@[k])),
            decreases __parts@.len() - __ip
//@  atend
        proof {
            assert forall|i: int| 0 <= i < result@.len() implies item_of(f, sp_slash_parts(data@)[i], #[trigger] result@[i]) by {
                let s = __parts@[i];
                assert(f.ensures((s,), Ok::<T, BuildFailure>(result@[i])) && s@ == sp_slash_parts(data@)[i]);
            }
        }
//@end

//@extract sudachi/src/dic/build/parse.rs :: fn parse_wordid_list
//@  rw R13 1 custom
//@  | data == "\*"
//@  > str_eq(data, "*")
//@  ret r
//@  spec
        ensures
            data@.len() == 0 || is_star(data@) ==> r is Ok && r->Ok_0@.len() == 0,
            // C06: every reference of an accepted list names dictionary 0 or 1, a word number inside the 28 bits, and is what its part denotes
            !(data@.len() == 0 || is_star(data@)) && r is Ok ==> r->Ok_0@.len() == sp_slash_parts(data@).len() && r->Ok_0@.len() <= 127
                && forall|i: int| 0 <= i < r->Ok_0@.len() ==> item_of(parse_wordid, sp_slash_parts(data@)[i], r->Ok_0@[i]) && lit_wordid(sp_slash_parts(data@)[i]) is Some
                    && wid_is(#[trigger] r->Ok_0@[i], lit_wordid(sp_slash_parts(data@)[i])->Some_0) && wid_dic(r->Ok_0@[i]) <= 1,
//@  atstart
        proof { reveal_strlit("*"); assert(is_star(data@) ==> data@ =~= "*"@); }
//@end

//@extract sudachi/src/dic/build/parse.rs :: fn parse_u32_list
//@  rw R13 1 custom
//@  | data == "\*"
//@  > str_eq(data, "*")
//@  ret r
//@  spec
        ensures
            data@.len() == 0 || is_star(data@) ==> r is Ok && r->Ok_0@.len() == 0,
            !(data@.len() == 0 || is_star(data@)) && r is Ok ==> r->Ok_0@.len() == sp_slash_parts(data@).len() && r->Ok_0@.len() <= 127
                && forall|i: int| 0 <= i < r->Ok_0@.len() ==> sp_u32(sp_slash_parts(data@)[i]) == Some(#[trigger] r->Ok_0@[i]),
//@  atstart
        proof { reveal_strlit("*"); assert(is_star(data@) ==> data@ =~= "*"@); }
//@end

//@extract sudachi/src/dic/build/parse.rs :: fn unescape_slow
//@  rw R13 1 custom
//@  | String::with_capacity\(original\.len\(\)\)
//@  > string_with_capacity(original.len())
//@  rw R9r 1 custom
//@  | for c in UNICODE_LITERAL\.captures_iter\(original\) \{
//@  > let __cs = unicode_literal_captures(original); let mut __ic: usize = 0; while __ic < __cs.len() { let c = &__cs[__ic]; __ic += 1;
//@  rw R14 1 custom
//@  | let whole = c\.get\(0\)\.unwrap\(\);
//@  > let whole = &c.whole;
//@  rw R14 1 custom
//@  | let braces = c\.get\(1\)\.or_else\(\|\| c\.get\(2\)\)\.unwrap\(\);
//@  > let braces = &c.grp;
//@  rw R13s 1 custom
//@  | result\.push_str\(&original\[start\.\.whole\.start\(\)\]\);
//@  > string_push_str(&mut result, str_slice(original, start, whole.start()));
//@  rw R13s 1 custom
//@  | result\.push_str\(&original\[start\.\.\]\);
//@  > string_push_str(&mut result, str_slice(original, start, original.len()));
//@  rw R14p 1 custom
//@  | u32::from_str_radix\(braces\.as_str\(\), 16\)
//@  > u32_from_str_radix16(match_str(original, braces))
//@  rw R14p 1 custom
//@  | char::from_u32\(c\)
//@  > char_from_u32(c)
//@  rw R13 1 custom
//@  | result\.push\(cx\)
//@  > string_push(&mut result, cx)
//@  rw R12 * custom
//@  | BuildFailure::(\w+)\(braces\.as_str\(\)\.to_owned\(\)\)
//@  > BuildFailure::\1(err_string())
//@  ret r
//@  spec
        ensures
            // every literal becomes the scalar value its digits denote, the text between literals is copied; a literal that denotes
            // no scalar value is refused
            r is Ok <==> unescaped(original.spec_bytes()) is Some,
            r is Ok ==> sb(r->Ok_0) == unescaped(original.spec_bytes())->Some_0,
            // C06 (strings respect the format limit): unescaping never lengthens
            r is Ok ==> sb(r->Ok_0).len() <= original.spec_bytes().len(),
//@  atstart
        let ghost hay = original.spec_bytes();
        broadcast use axiom_str_len_fits;
        proof { encode_utf8_valid_utf8(original@); is_char_boundary_start_end_of_seq(hay); }
//@  loop 1
            invariant
                hay == original.spec_bytes(), __cs@ == sp_caps(hay), caps_ok(__cs@, hay), __ic <= __cs@.len(),
                start <= hay.len(), is_char_boundary(hay, start as int), is_char_boundary(hay, hay.len() as int),
                start == (if __ic == 0 { 0 } else { __cs@[__ic - 1].whole.e as int }),
                unesc_upto(hay, __cs@, __ic as int) == Some(sb(result)),
                sb(result).len() <= start,
            decreases __cs@.len() - __ic
//@  before string_push_str(&mut result, str_slice(original, start, whole.start()));
            proof {
                let cc = __cs@[__ic - 1];
                assert(cc.whole.s <= cc.grp.s <= cc.grp.e <= cc.whole.e <= hay.len());
                if __ic >= 2 { assert(__cs@[__ic - 2].whole.e <= __cs@[__ic - 1].whole.s); }
                lemma_unesc_none_mono(hay, __cs@, __ic as int, __cs@.len() as int);
                assert(lit_char(hay, cc) is None ==> unesc_upto(hay, __cs@, __ic as int) is None);
            }
            let ghost r0 = sb(result);
//@  before start = #last
            proof {
                let g = hay.subrange(braces.s as int, braces.e as int);
                let v = sp_hex(g)->Some_0;
                assert(sp_hex(g) is Some && is_scalar(v));
                assert(sb(result) == r0 + hay.subrange(start as int, whole.s as int) + encode_utf8(seq![char_of(v)]));
                assert(lit_char(hay, __cs@[__ic - 1]) == Some(char_of(v)));
                assert(unesc_upto(hay, __cs@, __ic as int) == Some(sb(result)));
            }
//@  atend
        proof {
            assert(__ic == __cs@.len());
            assert(unescaped(hay) == Some(sb(result)));
        }
//@end

//@extract sudachi/src/dic/build/parse.rs :: fn unescape
//@  rw R14 1 custom
//@  | !UNICODE_LITERAL\.is_match\(data\)
//@  > !unicode_literal_is_match(data)
//@  rw R13 1 custom
//@  | data\.to_owned\(\)
//@  > str_to_owned(data)
//@  ret r
//@  spec
        ensures
            // C06: a string above the format limit is refused; an accepted one is the unescaped text and fits the limit
            r is Ok ==> data.spec_bytes().len() <= 32767 && sb(r->Ok_0).len() <= 32767,
            r is Ok <==> data.spec_bytes().len() <= 32767 && unescaped(data.spec_bytes()) is Some,
            r is Ok ==> sb(r->Ok_0) == unescaped(data.spec_bytes())->Some_0,
//@end

/// R14w: `Cow<str>` as a two-variant value with a text (std::borrow::Cow; ASSUMED: Borrowed / Owned carry the text they are made from)
pub enum CowS<'a> { Borrowed(&'a str), Owned(String) }
spec fn cow_bytes(c: CowS) -> Seq<u8> { match c { CowS::Borrowed(s) => s.spec_bytes(), CowS::Owned(s) => sb(s) } }
//@extract sudachi/src/dic/build/parse.rs :: fn unescape_cow
//@  rw R14w 1 custom
//@  | DicWriteResult<Cow<str>>
//@  > DicWriteResult<CowS<'_>>
//@  rw R14 1 custom
//@  | !UNICODE_LITERAL\.is_match\(data\)
//@  > !unicode_literal_is_match(data)
//@  rw R14w 1 custom
//@  | Cow::Borrowed\(data\)
//@  > CowS::Borrowed(data)
//@  rw Rmap 1 custom
//@  | unescape_slow\(data\)\.map\(\|s\| Cow::Owned\(s\)\)
//@  > match unescape_slow(data) { Ok(s) => Ok(CowS::Owned(s)), Err(e) => Err(e) }
//@  ret r
//@  spec
        ensures
            // the borrowing variant of unescape: same acceptance, same text
            r is Ok <==> data.spec_bytes().len() <= 32767 && unescaped(data.spec_bytes()) is Some,
            r is Ok ==> cow_bytes(r->Ok_0) == unescaped(data.spec_bytes())->Some_0 && cow_bytes(r->Ok_0).len() <= 32767,
//@end
} // verus!
fn main() {}
