//@kani target=sudachi/src/util/cow_array.rs
//@kani harness=from_bytes_is_le_decoding kind=bounded unwind=6 note=at-most-4-i16-elements,offsets-0..3,aligned-and-copied-branch
// K-COW (C05) BOUNDED stand-in: CowArray::<i16>::from_bytes yields, in the aligned and in the copied branch alike, the
// little-endian decoding of the bytes ("the result does not depend on the memory alignment of the loaded bytes").
    #[kani::proof]
    #[kani::unwind(6)]
    fn from_bytes_is_le_decoding() {
        let data: [u8; 12] = kani::any();
        let offset: usize = kani::any();
        let size: usize = kani::any();
        kani::assume(offset <= 3 && size <= 4 && offset + 2 * size <= 12);
        let arr = CowArray::<i16>::from_bytes(&data, offset, size);
        assert!(arr.len() == size);
        let mut k = 0usize;
        while k < size {
            let p = offset + 2 * k;
            assert!(arr[k] == i16::from_le_bytes([data[p], data[p + 1]]));
            k += 1;
        }
        kani::cover!(arr.storage.is_some());
        kani::cover!(arr.storage.is_none());
    }
