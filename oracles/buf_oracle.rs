    // Replay oracle for V-BUF0 (C10, C03, C08): an executable restatement of "a refused input leaves nothing behind" and of the offset
    // map anchoring, at the level of the public InputBuffer operations (reset / start_build / with_editor), so that it does not
    // depend on the signatures of the private helpers.  BOUNDED: the histories enumerated below.
    fn run(buf: &mut InputBuffer, text: &str, edits: &[(usize, usize, String)]) -> Result<String, String> {
        buf.reset().push_str(text);
        buf.start_build().map_err(|e| format!("{:?}", e))?;
        let eds: Vec<(usize, usize, String)> = edits.to_vec();
        buf.with_editor(move |_, mut ed| { for (a, b, w) in eds { ed.replace_own(a..b, w); } Ok(ed) }).map_err(|e| format!("{:?}", e))?;
        Ok(buf.current().to_string())
    }
    fn expected(text: &str, edits: &[(usize, usize, String)]) -> String {
        let mut out = String::new(); let mut prev = 0;
        for (a, b, w) in edits { out.push_str(&text[prev..*a]); out.push_str(w); prev = *b; }
        out.push_str(&text[prev..]); out
    }
    #[test]
    fn verif_oracle_buffer_history_independence() {
        let big = "x".repeat(40000);
        let too_long: Vec<(usize, usize, String)> = vec![(0, 1, big.clone()), (1, 2, big.clone())];
        let probes: Vec<(&str, Vec<(usize, usize, String)>)> = vec![
            ("京都", vec![]), ("ab", vec![(0, 1, "Z".to_string())]), ("", vec![]), ("東京都に行く", vec![(3, 6, "".to_string())]), ("abcdef", vec![(1, 2, "xyz".to_string()), (4, 6, "q".to_string())]),
        ];
        let mut failures = Vec::new();
        let mut cases = 0usize;
        for history in 0..4usize {
            for (text, edits) in probes.iter() {
                cases += 1;
                let mut buf = InputBuffer::new();
                // what happened before on the same buffer
                match history {
                    0 => {}
                    1 => { let _ = run(&mut buf, "ab", &too_long); }                       // refused: rewritten text too long
                    2 => { let _ = run(&mut buf, "長い長いテキスト", &[(0, 3, "短".to_string())]); }
                    _ => { let _ = run(&mut buf, "ab", &too_long); let _ = run(&mut buf, "ab", &too_long); }
                }
                let got = std::panic::catch_unwind(std::panic::AssertUnwindSafe(|| run(&mut buf, text, edits)));
                let want = Ok(expected(text, edits));
                let fresh = run(&mut InputBuffer::new(), text, edits);
                let desc = ["nothing", "one input refused as too long after rewriting", "one accepted input", "two refused inputs"][history];
                match got {
                    Err(_) => failures.push(format!("after {} the text {:?} with edits {:?} panics", desc, text, edits)),
                    Ok(g) => if g != want || g != fresh { failures.push(format!("after {} the text {:?} with edits {:?} gives {:?}, a fresh buffer gives {:?}, the edits specify {:?}", desc, text, edits, g, fresh, want)); }
                }
            }
        }
        println!("verif_oracle_buffer_history_independence: {} cases, {} failures", cases, failures.len());
        for f in failures.iter().take(5) { println!("FAILING INPUT: {}", f); }
        assert!(failures.is_empty());
    }
