// UNIT V-LSET (C12, C03): dic/lexicon_set.rs  LexiconSet::new / append / is_full / get_word_info_subset / update_dict_id / get_word_param
use vstd::prelude::*;
use vstd::string::*;
verus! {
global size_of usize == 8;
//@include common/error.rs.inc
//@include common/wordid_stub.rs.inc
//@include common/info_subset.rs.inc
//@extract sudachi/src/dic/lexicon/word_infos.rs :: struct WordInfoData
//@  derive
//@end
//@extract sudachi/src/dic/lexicon/word_infos.rs :: struct WordInfo
//@  derive
//@end
impl WordInfo {
//@extract sudachi/src/dic/lexicon/word_infos.rs :: impl From<WordInfoData> for WordInfo :: fn from
//@  twin
//@  ret r
//@  spec
        ensures r.data == data
//@end
}
impl WordInfoData {
// R11: From<WordInfo> for WordInfoData as an inherent fn
//@extract sudachi/src/dic/lexicon/word_infos.rs :: impl From<WordInfo> for WordInfoData :: fn from
//@  twin
//@  ret r
//@  spec
        ensures r == info.data
//@end
}
//@extract sudachi/src/dic/lexicon/mod.rs :: const MAX_DICTIONARIES
//@end
impl From<LexiconSetError> for SudachiError { #[verifier::external_body] fn from(e: LexiconSetError) -> SudachiError { SudachiError::LexiconSetError(e) } }

/// opaque collaborator: one lexicon (trie + word-id table + word infos + parameters); only its number and the record lookup matter here
#[verifier::external_body] pub struct AbstractRest { _p: () }
pub struct Lexicon<'a> { lex_id: u8, _rest: AbstractRest, _p: core::marker::PhantomData<&'a ()> }
impl<'a> Lexicon<'a> {
    /// word info of this lexicon as stored (dictionary-local part-of-speech numbers and references)
    uninterp spec fn sp_info(&self, word_id: u32, subset: InfoSubset) -> WordInfo;
    // real body: `assert!(id < MAX_DICTIONARIES as u8); self.lex_id = id` -- the assert is the precondition
    #[verifier::external_body]
    fn set_dic_id(&mut self, id: u8)
        requires id < 15
        ensures final(self).lex_id == id, forall|w: u32, s: InfoSubset| final(self).sp_info(w, s) == old(self).sp_info(w, s)
    { unimplemented!() }
    #[verifier::external_body]
    fn get_word_info(&self, word_id: u32, subset: InfoSubset) -> (r: SudachiResult<WordInfo>)
        ensures r is Ok ==> r->Ok_0 == self.sp_info(word_id, subset)
    { unimplemented!() }
    #[verifier::external_body]
    fn get_word_param(&self, word_id: u32) -> (i16, i16, i16) { unimplemented!() }
}

//@extract sudachi/src/dic/lexicon_set.rs :: struct LexiconSet
//@end
//@include specs/lset_specs.rs.inc

impl<'a> LexiconSet<'a> {
//@extract sudachi/src/dic/lexicon_set.rs :: impl<'a> LexiconSet<'a> :: fn new
//@  rw R1p 1 custom
//@  | mut system_lexicon: Lexicon, num_system_pos: usize\) -> LexiconSet
//@  > mut system_lexicon: Lexicon<'a>, num_system_pos: usize) -> LexiconSet<'a>
//@  ret r
//@  spec
        ensures r.lexicons@.len() == 1, r.lexicons@[0].lex_id == 0, r.pos_offsets@ == seq![0usize], r.num_system_pos == num_system_pos, ids_ok(r),
//@end
//@extract sudachi/src/dic/lexicon_set.rs :: impl<'a> LexiconSet<'a> :: fn is_full
//@  ret r
//@  spec
        ensures r == (self.lexicons@.len() >= 15)
//@end
//@extract sudachi/src/dic/lexicon_set.rs :: impl<'a> LexiconSet<'a> :: fn append
//@  ret r
//@  specfile specs/lset_append.contract
//@  atend
        proof {
            assert(self.lexicons@.subrange(0, old(self).lexicons@.len() as int) =~= old(self).lexicons@);
            assert forall|k: int| 0 <= k < self.lexicons@.len() implies (#[trigger] self.lexicons@[k]).lex_id == k by {
                if k < old(self).lexicons@.len() { assert(self.lexicons@[k] == old(self).lexicons@[k]); }
            }
        }
//@end
}

impl LexiconSet<'_> {
//@extract sudachi/src/dic/lexicon_set.rs :: impl LexiconSet<'_> :: fn update_dict_id
//@  rw R6m 1
//@  ret r
//@  spec
        requires dict_id <= 0xf,
        ensures
            r is Ok ==> restamped(old(split)@, final(split)@, dict_id),
//@  atstart
        let ghost s0 = split@;
//@  loop 1
            invariant
                dict_id <= 0xf, split@.len() == s0.len(), __im_id <= s0.len(),
                forall|k: int| 0 <= k < __im_id ==> restamped_one(s0[k], #[trigger] split@[k], dict_id),
                forall|k: int| __im_id <= k < s0.len() ==> split@[k] == s0[k],
            decreases s0.len() - __im_id
//@end

//@extract sudachi/src/dic/lexicon_set.rs :: impl LexiconSet<'_> :: fn get_word_info_subset
//@  rw R11 1 custom
//@  | let mut word_info: WordInfoData = self\.lexicons\[dict_id as usize\]\s*\.get_word_info\(id\.word\(\), subset\)\?\s*\.into\(\);
//@  > let mut word_info: WordInfoData = WordInfoData::from(self.lexicons[dict_id as usize].get_word_info(id.word(), subset)?);
//@  rw R11 1 custom
//@  | Ok\(word_info\.into\(\)\)
//@  > Ok(WordInfo::from(word_info))
//@  ret r
//@  spec
        requires
            ids_ok(*self), (wid_dic(id) as int) < self.lexicons@.len(),
            // the rebased part-of-speech number fits u16 (the grammar never holds more than 65535 parts of speech)
            pos_fits(*self, wid_dic(id), self.lexicons@[wid_dic(id) as int].sp_info(wid_word(id), subset).data.pos_id),
        ensures
            r is Ok ==> lset_info_ok(*self, id, subset, r->Ok_0.data),
//@  before word_info.pos_id = (pos_id as usize
                proof { assert(pos_id - self.num_system_pos + self.pos_offsets@[dict_id as int] <= u16::MAX); }
//@end

//@extract sudachi/src/dic/lexicon_set.rs :: impl LexiconSet<'_> :: fn get_word_param
//@  ret r
//@  spec
        requires (wid_dic(id) as int) < self.lexicons@.len(),
//@end
}
} // verus!
fn main() {}
