#!/usr/bin/env python3
"""setup: one trivial Verus run (warms its caches) and a tool presence check"""
import os, subprocess, tempfile, shutil, sys
d = tempfile.mkdtemp(prefix='vf-warm-')
try:
    open(os.path.join(d, 'w.rs'), 'w').write('use vstd::prelude::*;\nverus!{ fn f(x: u8) -> (r: u8) requires x < 10 ensures r == x + 1 { x + 1 } }\nfn main(){}\n')
    p = subprocess.run(['verus', 'w.rs'], cwd=d, capture_output=True, text=True)
    ok = '1 verified, 0 errors' in p.stdout
    print('verus warm-up:', 'ok' if ok else 'FAILED ' + p.stderr[-300:])
    sys.exit(0 if ok else 1)
finally:
    shutil.rmtree(d, ignore_errors=True)
