    // BOUNDED replay oracle for the patterns of the yomigana plugin (C07: "yomigana removal rewrites exactly the spans its definition
    // describes"): a bracketed reading is removed exactly when the character before the bracket is of class KANJI and every character of
    // the reading is of class HIRAGANA or KATAKANA.  The code points probed are the edges of every range of the character-class table
    // (first, last, the one before and the one after), which is where a hand-built regular-expression class can be off by one.
    fn plugin() -> (IgnoreYomiganaPlugin, CharacterCategory) {
        let cc = CharacterCategory::from_file(&std::path::PathBuf::from("tests/resources/char.def")).expect("char.def");
        let mut grammar = crate::test::zero_grammar();
        grammar.set_character_category(cc.clone());
        let settings: serde_json::Value = serde_json::from_str(r#"{"leftBrackets": ["(", "（"], "rightBrackets": [")", "）"], "maxYomiganaLength": 4}"#).unwrap();
        let mut p = IgnoreYomiganaPlugin::default();
        p.set_up(&settings, &Config::default(), &grammar).expect("set_up");
        (p, cc)
    }
    fn edges(cc: &CharacterCategory) -> Vec<char> {
        let mut v = Vec::new();
        for (r, _) in cc.iter() {
            for x in [(r.start as u32).wrapping_sub(1), r.start as u32, (r.end as u32).wrapping_sub(1), r.end as u32, r.end as u32 + 1] {
                if let Some(c) = char::from_u32(x) { if c != '\0' && !"()（）".contains(c) { v.push(c); } }
            }
        }
        v.sort(); v.dedup(); v
    }
    #[test]
    fn verif_oracle_yomigana_class_edges() {
        let (p, cc) = plugin();
        let kana = CategoryType::HIRAGANA | CategoryType::KATAKANA;
        let mut failures = Vec::new();
        let mut cases = 0;
        for c in edges(&cc) {
            // c before the bracket
            let t1 = format!("{}（よみ）に", c);
            let e1 = if cc.get_category_types(c).intersects(CategoryType::KANJI) { format!("{}に", c) } else { t1.clone() };
            // c inside the reading, after a kanji
            let t2 = format!("漢（よ{}）に", c);
            let e2 = if cc.get_category_types(c).intersects(kana) { "漢に".to_string() } else { t2.clone() };
            for (t, e) in [(t1, e1), (t2, e2)] {
                cases += 1;
                let mut text = InputBuffer::from(t.as_str());
                match p.rewrite(&mut text) {
                    Ok(_) => if text.current() != e && failures.len() < 20 { failures.push(format!("{:?} (U+{:X} has classes {:?}) is rewritten to {:?}, the definition gives {:?}", t, c as u32, cc.get_category_types(c), text.current(), e)); },
                    Err(x) => if failures.len() < 20 { failures.push(format!("{:?} fails: {:?}", t, x)); },
                }
            }
        }
        println!("verif_oracle_yomigana_class_edges: {} texts, {} failures", cases, failures.len());
        for f in failures.iter().take(5) { println!("FAILING INPUT: {}", f); }
        assert!(failures.is_empty());
    }
