#!/usr/bin/env python3
"""Refresh the 'As built' section of DESIGN.md from design/as_built.md (between the AS-BUILT markers)."""
import os, re
V = os.path.dirname(os.path.dirname(os.path.abspath(__file__)))
d = open(os.path.join(V, 'DESIGN.md'), encoding='utf-8').read()
a = open(os.path.join(V, 'design', 'as_built.md'), encoding='utf-8').read().rstrip('\n')
blk = '<!-- AS-BUILT-BEGIN (source: design/as_built.md, refreshed by vf/mkdesign.py) -->\n' + a + '\n<!-- AS-BUILT-END -->\n\n'
if 'AS-BUILT-BEGIN' in d:
    d = re.sub(r'<!-- AS-BUILT-BEGIN.*?<!-- AS-BUILT-END -->\n\n', lambda m: blk, d, flags=re.S)
else:
    d = d.replace('## Appendix A', blk + '## Appendix A', 1)
open(os.path.join(V, 'DESIGN.md'), 'w', encoding='utf-8').write(d)
