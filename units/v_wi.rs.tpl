// UNIT V-WI (C11, C05): dic/read/word_info.rs  the real `parse_field!` macro and WordInfoParser::parse, for ALL field subsets symbolically
use vstd::prelude::*;
verus! {
//@include common/error.rs.inc
//@include common/wordid_stub.rs.inc
//@include common/info_subset.rs.inc
//@extract sudachi/src/dic/lexicon/word_infos.rs :: struct WordInfoData
//@  derive
//@end
#[verifier::external_body] fn wordinfodata_default() -> (r: WordInfoData) { unimplemented!() }

//@include specs/wi_format.rs.inc
// R14: reader primitives with their assumed contracts; the skip_* variants must leave the cursor where the parser would
#[verifier::external_body]
fn utf16_string_parser(input: &[u8]) -> (r: SudachiResult<(&[u8], String)>)
    ensures dec_str(input@) is Some ==> r is Ok && r->Ok_0.0@ == dec_str(input@)->Some_0.0 && r->Ok_0.1@ == dec_str(input@)->Some_0.1,
            dec_str(input@) is None ==> r is Err
{ unimplemented!() }
#[verifier::external_body]
fn skip_u16_string(input: &[u8]) -> (r: SudachiResult<(&[u8], String)>)
    ensures dec_str(input@) is Some ==> r is Ok && r->Ok_0.0@ == dec_str(input@)->Some_0.0,
{ unimplemented!() }
#[verifier::external_body]
fn string_length_parser(input: &[u8]) -> (r: SudachiResult<(&[u8], u16)>)
    ensures dec_len(input@) is Some ==> r is Ok && r->Ok_0.0@ == dec_len(input@)->Some_0.0 && r->Ok_0.1 == dec_len(input@)->Some_0.1,
            dec_len(input@) is None ==> r is Err
{ unimplemented!() }
#[verifier::external_body]
fn le_u16(input: &[u8]) -> (r: SudachiResult<(&[u8], u16)>)
    ensures dec_u16(input@) is Some ==> r is Ok && r->Ok_0.0@ == dec_u16(input@)->Some_0.0 && r->Ok_0.1 == dec_u16(input@)->Some_0.1,
            dec_u16(input@) is None ==> r is Err
{ unimplemented!() }
#[verifier::external_body]
fn le_i32(input: &[u8]) -> (r: SudachiResult<(&[u8], i32)>)
    ensures dec_i32(input@) is Some ==> r is Ok && r->Ok_0.0@ == dec_i32(input@)->Some_0.0 && r->Ok_0.1 == dec_i32(input@)->Some_0.1,
            dec_i32(input@) is None ==> r is Err
{ unimplemented!() }
#[verifier::external_body]
fn u32_wid_array_parser(input: &[u8]) -> (r: SudachiResult<(&[u8], Vec<WordId>)>)
    ensures dec_wids(input@) is Some ==> r is Ok && r->Ok_0.0@ == dec_wids(input@)->Some_0.0 && r->Ok_0.1@ == dec_wids(input@)->Some_0.1,
            dec_wids(input@) is None ==> r is Err
{ unimplemented!() }
#[verifier::external_body]
fn skip_wid_array(input: &[u8]) -> (r: SudachiResult<(&[u8], Vec<WordId>)>)
    ensures dec_wids(input@) is Some ==> r is Ok && r->Ok_0.0@ == dec_wids(input@)->Some_0.0,
{ unimplemented!() }
#[verifier::external_body]
fn u32_array_parser(input: &[u8]) -> (r: SudachiResult<(&[u8], Vec<u32>)>)
    ensures dec_u32s(input@) is Some ==> r is Ok && r->Ok_0.0@ == dec_u32s(input@)->Some_0.0 && r->Ok_0.1@ == dec_u32s(input@)->Some_0.1,
            dec_u32s(input@) is None ==> r is Err
{ unimplemented!() }
#[verifier::external_body]
fn skip_u32_array(input: &[u8]) -> (r: SudachiResult<(&[u8], Vec<u32>)>)
    ensures dec_u32s(input@) is Some ==> r is Ok && r->Ok_0.0@ == dec_u32s(input@)->Some_0.0,
{ unimplemented!() }

//@extract sudachi/src/dic/read/word_info.rs :: struct WordInfoParser
//@end
//@extract sudachi/src/dic/read/word_info.rs :: macro parse_field
//@  rw R16 2 custom
//@  | \$root\.flds -= \$field;
//@  > $root.flds = $root.flds.difference($field);
//@end

impl WordInfoParser {
//@extract sudachi/src/dic/read/word_info.rs :: impl WordInfoParser :: fn subset
//@  rw Rd 1 custom
//@  | Default::default\(\)
//@  > wordinfodata_default()
//@  ret r
//@  spec
        ensures r.flds == flds
//@end
//@extract sudachi/src/dic/read/word_info.rs :: impl WordInfoParser :: fn parse
//@  rw R10 1 custom
//@  | \(mut self, data
//@  > (self, data
//@  rw R10 10 custom
//@  | parse_field!\(\s*self,
//@  > parse_field!(__self,
//@  rw R10 1 custom
//@  | Ok\(self\.info\)
//@  > Ok(__self.info)
//@  ret r
//@  specfile specs/wi_parse.contract
//@  atstart
        let mut __self = self;   // R10: `mut self` receiver
        let ghost s0 = self.flds.bits;
        proof { assert(s0 & !0u32 == s0) by (bit_vector); }
//@  before parse_field!( #1
        proof {
            assert(__self.flds.bits == s0 & !0u32);
            assert(s0 & !0u32 == 0 ==> s0 & !1u32 == 0) by (bit_vector);
            assert(s0 & !0u32 == 0 ==> s0 & !3u32 == 0) by (bit_vector);
            assert(s0 & !0u32 == 0 ==> s0 & !15u32 == 0) by (bit_vector);
            assert(s0 & !0u32 == 0 ==> (s0 & 1u32 != 1u32 && s0 & 2u32 != 2u32 && s0 & 4u32 != 4u32 && s0 & 8u32 != 8u32 && s0 & 16u32 != 16u32 && s0 & 32u32 != 32u32 && s0 & 64u32 != 64u32 && s0 & 128u32 != 128u32 && s0 & 256u32 != 256u32 && s0 & 512u32 != 512u32)) by (bit_vector) requires s0 < 1024u32;
            assert((s0 & !0u32) & 1u32 == 1u32 <==> s0 & 1u32 == 1u32) by (bit_vector);
            assert((s0 & !0u32) & !1u32 == s0 & !1u32) by (bit_vector);
            assert(s0 & 1u32 != 1u32 ==> s0 & !0u32 == s0 & !1u32) by (bit_vector);
        }
//@  before parse_field!( #2
        proof {
            assert(__self.flds.bits == s0 & !1u32);
            assert(s0 & !1u32 == 0 ==> s0 & !1u32 == 0) by (bit_vector);
            assert(s0 & !1u32 == 0 ==> s0 & !3u32 == 0) by (bit_vector);
            assert(s0 & !1u32 == 0 ==> s0 & !15u32 == 0) by (bit_vector);
            assert(s0 & !1u32 == 0 ==> (s0 & 2u32 != 2u32 && s0 & 4u32 != 4u32 && s0 & 8u32 != 8u32 && s0 & 16u32 != 16u32 && s0 & 32u32 != 32u32 && s0 & 64u32 != 64u32 && s0 & 128u32 != 128u32 && s0 & 256u32 != 256u32 && s0 & 512u32 != 512u32)) by (bit_vector) requires s0 < 1024u32;
            assert((s0 & !1u32) & 2u32 == 2u32 <==> s0 & 2u32 == 2u32) by (bit_vector);
            assert((s0 & !1u32) & !2u32 == s0 & !3u32) by (bit_vector);
            assert(s0 & 2u32 != 2u32 ==> s0 & !1u32 == s0 & !3u32) by (bit_vector);
        }
//@  before parse_field!( #3
        proof {
            assert(__self.flds.bits == s0 & !3u32);
            assert(s0 & !3u32 == 0 ==> s0 & !3u32 == 0) by (bit_vector);
            assert(s0 & !3u32 == 0 ==> s0 & !15u32 == 0) by (bit_vector);
            assert(s0 & !3u32 == 0 ==> (s0 & 4u32 != 4u32 && s0 & 8u32 != 8u32 && s0 & 16u32 != 16u32 && s0 & 32u32 != 32u32 && s0 & 64u32 != 64u32 && s0 & 128u32 != 128u32 && s0 & 256u32 != 256u32 && s0 & 512u32 != 512u32)) by (bit_vector) requires s0 < 1024u32;
            assert((s0 & !3u32) & 4u32 == 4u32 <==> s0 & 4u32 == 4u32) by (bit_vector);
            assert((s0 & !3u32) & !4u32 == s0 & !7u32) by (bit_vector);
            assert(s0 & 4u32 != 4u32 ==> s0 & !3u32 == s0 & !7u32) by (bit_vector);
        }
//@  before parse_field!( #4
        proof {
            assert(__self.flds.bits == s0 & !7u32);
            assert(s0 & !7u32 == 0 ==> s0 & !15u32 == 0) by (bit_vector);
            assert(s0 & !7u32 == 0 ==> (s0 & 8u32 != 8u32 && s0 & 16u32 != 16u32 && s0 & 32u32 != 32u32 && s0 & 64u32 != 64u32 && s0 & 128u32 != 128u32 && s0 & 256u32 != 256u32 && s0 & 512u32 != 512u32)) by (bit_vector) requires s0 < 1024u32;
            assert((s0 & !7u32) & 8u32 == 8u32 <==> s0 & 8u32 == 8u32) by (bit_vector);
            assert((s0 & !7u32) & !8u32 == s0 & !15u32) by (bit_vector);
            assert(s0 & 8u32 != 8u32 ==> s0 & !7u32 == s0 & !15u32) by (bit_vector);
        }
//@  before parse_field!( #5
        proof {
            assert(__self.flds.bits == s0 & !15u32);
            assert(s0 & !15u32 == 0 ==> s0 & !15u32 == 0) by (bit_vector);
            assert(s0 & !15u32 == 0 ==> (s0 & 16u32 != 16u32 && s0 & 32u32 != 32u32 && s0 & 64u32 != 64u32 && s0 & 128u32 != 128u32 && s0 & 256u32 != 256u32 && s0 & 512u32 != 512u32)) by (bit_vector) requires s0 < 1024u32;
            assert((s0 & !15u32) & 16u32 == 16u32 <==> s0 & 16u32 == 16u32) by (bit_vector);
            assert((s0 & !15u32) & !16u32 == s0 & !31u32) by (bit_vector);
            assert(s0 & 16u32 != 16u32 ==> s0 & !15u32 == s0 & !31u32) by (bit_vector);
        }
//@  before parse_field!( #6
        proof {
            assert(__self.flds.bits == s0 & !31u32);
            assert(s0 & !31u32 == 0 ==> (s0 & 32u32 != 32u32 && s0 & 64u32 != 64u32 && s0 & 128u32 != 128u32 && s0 & 256u32 != 256u32 && s0 & 512u32 != 512u32)) by (bit_vector) requires s0 < 1024u32;
            assert((s0 & !31u32) & 32u32 == 32u32 <==> s0 & 32u32 == 32u32) by (bit_vector);
            assert((s0 & !31u32) & !32u32 == s0 & !63u32) by (bit_vector);
            assert(s0 & 32u32 != 32u32 ==> s0 & !31u32 == s0 & !63u32) by (bit_vector);
        }
//@  before parse_field!( #7
        proof {
            assert(__self.flds.bits == s0 & !63u32);
            assert(s0 & !63u32 == 0 ==> (s0 & 64u32 != 64u32 && s0 & 128u32 != 128u32 && s0 & 256u32 != 256u32 && s0 & 512u32 != 512u32)) by (bit_vector) requires s0 < 1024u32;
            assert((s0 & !63u32) & 64u32 == 64u32 <==> s0 & 64u32 == 64u32) by (bit_vector);
            assert((s0 & !63u32) & !64u32 == s0 & !127u32) by (bit_vector);
            assert(s0 & 64u32 != 64u32 ==> s0 & !63u32 == s0 & !127u32) by (bit_vector);
        }
//@  before parse_field!( #8
        proof {
            assert(__self.flds.bits == s0 & !127u32);
            assert(s0 & !127u32 == 0 ==> (s0 & 128u32 != 128u32 && s0 & 256u32 != 256u32 && s0 & 512u32 != 512u32)) by (bit_vector) requires s0 < 1024u32;
            assert((s0 & !127u32) & 128u32 == 128u32 <==> s0 & 128u32 == 128u32) by (bit_vector);
            assert((s0 & !127u32) & !128u32 == s0 & !255u32) by (bit_vector);
            assert(s0 & 128u32 != 128u32 ==> s0 & !127u32 == s0 & !255u32) by (bit_vector);
        }
//@  before parse_field!( #9
        proof {
            assert(__self.flds.bits == s0 & !255u32);
            assert(s0 & !255u32 == 0 ==> (s0 & 256u32 != 256u32 && s0 & 512u32 != 512u32)) by (bit_vector) requires s0 < 1024u32;
            assert((s0 & !255u32) & 256u32 == 256u32 <==> s0 & 256u32 == 256u32) by (bit_vector);
            assert((s0 & !255u32) & !256u32 == s0 & !511u32) by (bit_vector);
            assert(s0 & 256u32 != 256u32 ==> s0 & !255u32 == s0 & !511u32) by (bit_vector);
        }
//@  before parse_field!( #10
        proof {
            assert(__self.flds.bits == s0 & !511u32);
            assert(s0 & !511u32 == 0 ==> (s0 & 512u32 != 512u32)) by (bit_vector) requires s0 < 1024u32;
            assert((s0 & !511u32) & 512u32 == 512u32 <==> s0 & 512u32 == 512u32) by (bit_vector);
            assert((s0 & !511u32) & !512u32 == s0 & !1023u32) by (bit_vector);
            assert(s0 & 512u32 != 512u32 ==> s0 & !511u32 == s0 & !1023u32) by (bit_vector);
        }
//@  atend
        proof { assert(__self.flds.bits == s0 & !1023u32); }
//@end
}
} // verus!
fn main() {}
