// UNIT V-MECAB (C13, C03): plugin/oov/mecab_oov/mod.rs  MeCabOovPlugin::provide_oov_gen / get_oov_node
use vstd::prelude::*;
verus! {
global size_of usize == 8;
//@include common/error.rs.inc
//@include common/wordid_stub.rs.inc
//@include common/category_type.rs.inc

//@extract sudachi/src/analysis/inner.rs :: struct Node
//@  derive Clone
//@end
impl Node {
//@extract sudachi/src/analysis/inner.rs :: impl Node :: fn new
//@  ret r
//@  spec
        ensures r.begin == begin, r.end == end, r.left_id == left_id, r.right_id == right_id, r.cost == cost, r.word_id == word_id
//@end
}

/// trusted: a Vec never holds more than usize::MAX elements
proof fn axiom_vec_len_fits<T>(v: &Vec<T>)
    ensures v@.len() <= usize::MAX
{ admit(); }

/// character-class tables of the built text (the production instance is InputBuffer: units v_bufro / v_cont decide these tables)
trait InputTextIndex {
    spec fn sp_nch(&self) -> int;
    spec fn sp_cat_at(&self, i: int) -> CategoryType;
    spec fn sp_cont(&self, i: int) -> int;
    fn cat_at_char(&self, offset: usize) -> (r: CategoryType)
        requires offset < self.sp_nch()
        ensures r == self.sp_cat_at(offset as int);
    fn cat_continuous_len(&self, offset: usize) -> (r: usize)
        requires offset < self.sp_nch()
        ensures r == self.sp_cont(offset as int);
    /// the classes common to every character of a range (InputBuffer::cat_of_range: v_bufro); not used by the provider today - declared
    /// so that a provider that consults it is still checked against the contract instead of leaving the unit undecided
    spec fn sp_cat_range(&self, a: int, b: int) -> CategoryType;
    fn cat_of_range(&self, range: core::ops::Range<usize>) -> (r: CategoryType)
        requires range.start <= range.end <= self.sp_nch()
        ensures r == self.sp_cat_range(range.start as int, range.end as int);
    /// InputBuffer::char_distance: `(cpt + offset).min(chars) - cpt`
    fn char_distance(&self, cpt: usize, offset: usize) -> (r: usize)
        requires cpt <= self.sp_nch(), cpt + offset <= usize::MAX
        ensures r == dist(self.sp_nch(), cpt as int, offset as int);
}
spec fn dist(nch: int, cpt: int, k: int) -> int { (if cpt + k <= nch { cpt + k } else { nch }) - cpt }

/// what the analysis already produced at this position (analysis/created.rs, Kani set k_created)
#[verifier::external_body] pub struct CreatedWords { _p: () }
impl CreatedWords {
    uninterp spec fn sp_nonempty(&self) -> bool;
    #[verifier::external_body] fn not_empty(&self) -> (r: bool) ensures r == self.sp_nonempty() { unimplemented!() }
}

/// R16/R14: `set.iter()` of the bitflags type: the declared single-class flags contained in the set (ASSUMED: bitflags 2 `iter`)
pub uninterp spec fn is_class(c: CategoryType) -> bool;
impl CategoryType {
    #[verifier::external_body]
    fn iter_vec(&self) -> (r: Vec<CategoryType>)
        ensures forall|c: CategoryType| #[trigger] r@.contains(c) <==> is_class(c) && (self.bits & c.bits) == c.bits
    { unimplemented!() }
}
/// R14: HashMap<CategoryType, V, RoMu> seen as a finite map (ASSUMED: std HashMap::get)
#[verifier::external_body]
#[verifier::accept_recursive_types(V)]
pub struct CatMap<V> { m: std::collections::HashMap<u32, V> }
impl<V> CatMap<V> {
    pub uninterp spec fn m(&self) -> Map<CategoryType, V>;
    #[verifier::external_body]
    fn get(&self, k: &CategoryType) -> (r: Option<&V>)
        ensures r is Some <==> self.m().contains_key(*k), r is Some ==> *r->Some_0 == self.m()[*k]
    { unimplemented!() }
}

//@extract sudachi/src/plugin/oov/mecab_oov/mod.rs :: struct CategoryInfo
//@  derive
//@end
//@extract sudachi/src/plugin/oov/mecab_oov/mod.rs :: struct OOV
//@  derive
//@end
//@extract sudachi/src/plugin/oov/mecab_oov/mod.rs :: struct MeCabOovPlugin
//@  derive
//@  rw R14 1 custom
//@  | HashMap<CategoryType, CategoryInfo, RoMu>
//@  > CatMap<CategoryInfo>
//@  rw R14 1 custom
//@  | HashMap<CategoryType, Vec<OOV>, RoMu>
//@  > CatMap<Vec<OOV>>
//@end

// ===== C13: the candidates the definition files prescribe at one position =====
/// a candidate node carries the ids, cost and part of speech of its unknown-word definition and is marked out-of-vocabulary
spec fn node_ok(n: Node, o: OOV, b: int, e: int) -> bool {
    &&& n.begin as int == b && n.end as int == e
    &&& n.left_id == o.left_id as u16 && n.right_id == o.right_id as u16 && n.cost == o.cost
    &&& wid_dic(n.word_id) == 0xf && wid_word(n.word_id) == o.pos_id as u32
}
/// class c of the character takes part: it has a char.def entry that is always invoked or nothing exists yet, and unk.def entries
spec fn eligible(p: MeCabOovPlugin, c: CategoryType, others: bool) -> bool {
    &&& p.categories.m().contains_key(c)
    &&& (p.categories.m()[c].is_invoke || !others)
    &&& p.oov_list.m().contains_key(p.categories.m()[c].category_type)
}
spec fn oovs_of(p: MeCabOovPlugin, c: CategoryType) -> Seq<OOV> { p.oov_list.m()[p.categories.m()[c].category_type]@ }
/// longest per-length candidate of class c: the run, minus one when the grouped candidate already covers the whole run
spec fn llen(p: MeCabOovPlugin, c: CategoryType, run: int) -> int { if p.categories.m()[c].is_group { run - 1 } else { run } }
/// k is one of the prescribed lengths 1..n of class c (clipped at the end of the text) that stays within the run
spec fn len_w(p: MeCabOovPlugin, nch: int, offset: int, run: int, c: CategoryType, k: int, e: int) -> bool {
    1 <= k <= p.categories.m()[c].length && dist(nch, offset, k) <= llen(p, c, run) && e == offset + dist(nch, offset, k)
}
/// (class c, definition j, end e) is a prescribed candidate
spec fn wanted(p: MeCabOovPlugin, nch: int, offset: int, run: int, others: bool, c: CategoryType, j: int, e: int) -> bool {
    &&& run >= 1 && eligible(p, c, others) && 0 <= j < oovs_of(p, c).len()
    &&& ((p.categories.m()[c].is_group && e == offset + run) || exists|k: int| #[trigger] len_w(p, nch, offset, run, c, k, e))
}
spec fn just_w(p: MeCabOovPlugin, nch: int, offset: int, run: int, others: bool, cats: CategoryType, n: Node, c: CategoryType, j: int, e: int) -> bool {
    is_class(c) && (cats.bits & c.bits) == c.bits && wanted(p, nch, offset, run, others, c, j, e) && node_ok(n, oovs_of(p, c)[j], offset, e)
}
/// soundness: node n is a prescribed candidate of some class of the character
spec fn justified(p: MeCabOovPlugin, nch: int, offset: int, run: int, others: bool, cats: CategoryType, n: Node) -> bool {
    exists|c: CategoryType, j: int, e: int| #[trigger] just_w(p, nch, offset, run, others, cats, n, c, j, e)
}
spec fn prod_w(added: Seq<Node>, o: OOV, b: int, e: int, t: int) -> bool { 0 <= t < added.len() && node_ok(added[t], o, b, e) }
/// completeness: a candidate for definition o spanning b..e was produced
spec fn produced(added: Seq<Node>, o: OOV, b: int, e: int) -> bool { exists|t: int| #[trigger] prod_w(added, o, b, e, t) }
proof fn lemma_push_keeps(a: Seq<Node>, n: Node)
    ensures forall|o: OOV, b: int, e: int| produced(a, o, b, e) ==> #[trigger] produced(a.push(n), o, b, e)
{
    assert forall|o: OOV, b: int, e: int| produced(a, o, b, e) implies #[trigger] produced(a.push(n), o, b, e) by {
        let t = choose|t: int| prod_w(a, o, b, e, t);
        assert(prod_w(a.push(n), o, b, e, t));
    }
}
proof fn lemma_pushed(a: Seq<Node>, n: Node, o: OOV, b: int, e: int)
    requires node_ok(n, o, b, e)
    ensures produced(a.push(n), o, b, e)
{
    assert(prod_w(a.push(n), o, b, e, a.len() as int));
}
/// everything class c prescribes has been produced
spec fn class_done(p: MeCabOovPlugin, nch: int, offset: int, run: int, others: bool, c: CategoryType, added: Seq<Node>) -> bool {
    forall|j: int, e: int| #[trigger] wanted(p, nch, offset, run, others, c, j, e) ==> produced(added, oovs_of(p, c)[j], offset, e)
}
spec fn added_of(old_nodes: Seq<Node>, nodes: Seq<Node>) -> Seq<Node> { nodes.subrange(old_nodes.len() as int, nodes.len() as int) }

/// C13 for the MeCab provider: the nodes appended at `offset` are exactly the prescribed candidates
spec fn mecab_ok(p: MeCabOovPlugin, nch: int, offset: int, run: int, others: bool, cats: CategoryType, old_nodes: Seq<Node>, nodes: Seq<Node>, count: int) -> bool {
    let added = added_of(old_nodes, nodes);
    &&& old_nodes.len() <= nodes.len() && nodes.subrange(0, old_nodes.len() as int) == old_nodes && count == added.len()
    // only prescribed candidates ...
    &&& forall|t: int| 0 <= t < added.len() ==> justified(p, nch, offset, run, others, cats, #[trigger] added[t])
    // ... and all of them, for every class of the character
    &&& forall|c: CategoryType| is_class(c) && (cats.bits & c.bits) == c.bits ==> #[trigger] class_done(p, nch, offset, run, others, c, added)
}

// ----- proof scaffolding -----
/// what is known about the output vector at any point of the enumeration
spec fn inv_base(p: MeCabOovPlugin, nch: int, off: int, run: int, oth: bool, cats: CategoryType, n0: Seq<Node>, nodes: Seq<Node>, num: int) -> bool {
    &&& n0.len() <= nodes.len() && nodes.subrange(0, n0.len() as int) == n0 && num == nodes.len() - n0.len()
    &&& forall|t: int| 0 <= t < added_of(n0, nodes).len() ==> justified(p, nch, off, run, oth, cats, #[trigger] added_of(n0, nodes)[t])
}
/// all definitions of class c have a candidate ending at e
spec fn all_prod(p: MeCabOovPlugin, c: CategoryType, added: Seq<Node>, off: int, e: int, upto: int) -> bool {
    forall|j: int| 0 <= j < upto ==> produced(added, #[trigger] oovs_of(p, c)[j], off, e)
}
/// the classes before position q of the flag list are complete
spec fn classes_done(p: MeCabOovPlugin, nch: int, off: int, run: int, oth: bool, flags: Seq<CategoryType>, q: int, added: Seq<Node>) -> bool {
    forall|i: int| 0 <= i < q ==> class_done(p, nch, off, run, oth, #[trigger] flags[i], added)
}
spec fn len_prod(p: MeCabOovPlugin, nch: int, off: int, c: CategoryType, added: Seq<Node>, k: int) -> bool {
    all_prod(p, c, added, off, off + dist(nch, off, k), oovs_of(p, c).len() as int)
}
spec fn len_ok(p: MeCabOovPlugin, nch: int, off: int, run: int, c: CategoryType, added: Seq<Node>, k: int) -> bool {
    dist(nch, off, k) <= llen(p, c, run) && len_prod(p, nch, off, c, added, k)
}
/// lengths 1..k (exclusive) of class c are complete and within the run
spec fn lens_done(p: MeCabOovPlugin, nch: int, off: int, run: int, c: CategoryType, added: Seq<Node>, upto: int) -> bool {
    forall|k: int| 1 <= k < upto ==> #[trigger] len_ok(p, nch, off, run, c, added, k)
}
/// every prescribed length of class c is complete
spec fn lens_all(p: MeCabOovPlugin, nch: int, off: int, run: int, c: CategoryType, added: Seq<Node>) -> bool {
    forall|k: int| 1 <= k <= p.categories.m()[c].length && dist(nch, off, k) <= llen(p, c, run) ==> #[trigger] len_ok(p, nch, off, run, c, added, k)
}
proof fn lemma_step(p: MeCabOovPlugin, nch: int, off: int, run: int, oth: bool, cats: CategoryType, n0: Seq<Node>, pre: Seq<Node>, num: int,
                    n: Node, c: CategoryType, j: int, e: int)
    requires
        inv_base(p, nch, off, run, oth, cats, n0, pre, num),
        is_class(c), (cats.bits & c.bits) == c.bits, wanted(p, nch, off, run, oth, c, j, e), node_ok(n, oovs_of(p, c)[j], off, e),
    ensures
        inv_base(p, nch, off, run, oth, cats, n0, pre.push(n), num + 1),
        added_of(n0, pre.push(n)) == added_of(n0, pre).push(n),
        produced(added_of(n0, pre.push(n)), oovs_of(p, c)[j], off, e),
        forall|o: OOV, b: int, e2: int| produced(added_of(n0, pre), o, b, e2) ==> #[trigger] produced(added_of(n0, pre.push(n)), o, b, e2),
{
    let a0 = added_of(n0, pre);
    let a1 = added_of(n0, pre.push(n));
    assert(a1 =~= a0.push(n));
    assert(pre.push(n).subrange(0, n0.len() as int) =~= pre.subrange(0, n0.len() as int));
    assert(just_w(p, nch, off, run, oth, cats, n, c, j, e));
    assert forall|t: int| 0 <= t < a1.len() implies justified(p, nch, off, run, oth, cats, #[trigger] a1[t]) by {
        if t < a0.len() { assert(a1[t] == a0[t]); }
    }
    lemma_push_keeps(a0, n);
    lemma_pushed(a0, n, oovs_of(p, c)[j], off, e);
}
/// monotonicity of the derived predicates in the produced set
proof fn lemma_mono(p: MeCabOovPlugin, nch: int, off: int, run: int, oth: bool, a0: Seq<Node>, a1: Seq<Node>)
    requires forall|o: OOV, b: int, e2: int| produced(a0, o, b, e2) ==> #[trigger] produced(a1, o, b, e2)
    ensures
        forall|c: CategoryType| class_done(p, nch, off, run, oth, c, a0) ==> #[trigger] class_done(p, nch, off, run, oth, c, a1),
        forall|flags: Seq<CategoryType>, q: int| classes_done(p, nch, off, run, oth, flags, q, a0) ==> #[trigger] classes_done(p, nch, off, run, oth, flags, q, a1),
        forall|c: CategoryType, e: int, upto: int| all_prod(p, c, a0, off, e, upto) ==> #[trigger] all_prod(p, c, a1, off, e, upto),
        forall|c: CategoryType, upto: int| lens_done(p, nch, off, run, c, a0, upto) ==> #[trigger] lens_done(p, nch, off, run, c, a1, upto),
{
    assert forall|c: CategoryType| class_done(p, nch, off, run, oth, c, a0) implies #[trigger] class_done(p, nch, off, run, oth, c, a1) by {
        assert forall|j: int, e: int| #[trigger] wanted(p, nch, off, run, oth, c, j, e) implies produced(a1, oovs_of(p, c)[j], off, e) by {
            assert(produced(a0, oovs_of(p, c)[j], off, e));
        }
    }
    assert forall|flags: Seq<CategoryType>, q: int| classes_done(p, nch, off, run, oth, flags, q, a0) implies #[trigger] classes_done(p, nch, off, run, oth, flags, q, a1) by {
        assert forall|i: int| 0 <= i < q implies class_done(p, nch, off, run, oth, #[trigger] flags[i], a1) by {
            assert(class_done(p, nch, off, run, oth, flags[i], a0));
        }
    }
    assert forall|c: CategoryType, e: int, upto: int| all_prod(p, c, a0, off, e, upto) implies #[trigger] all_prod(p, c, a1, off, e, upto) by {
        assert forall|j: int| 0 <= j < upto implies produced(a1, #[trigger] oovs_of(p, c)[j], off, e) by {
            assert(produced(a0, oovs_of(p, c)[j], off, e));
        }
    }
    assert forall|c: CategoryType, upto: int| lens_done(p, nch, off, run, c, a0, upto) implies #[trigger] lens_done(p, nch, off, run, c, a1, upto) by {
        assert forall|k: int| 1 <= k < upto implies #[trigger] len_ok(p, nch, off, run, c, a1, k) by {
            assert(len_ok(p, nch, off, run, c, a0, k));
        }
    }
}
/// a class without char.def entry, not invoked here, or without unk.def entries prescribes nothing
proof fn lemma_skip(p: MeCabOovPlugin, nch: int, off: int, run: int, oth: bool, c: CategoryType, added: Seq<Node>)
    requires !eligible(p, c, oth)
    ensures class_done(p, nch, off, run, oth, c, added)
{
}
/// the grouped candidates and all prescribed lengths together are everything class c prescribes
proof fn lemma_class_done(p: MeCabOovPlugin, nch: int, off: int, run: int, oth: bool, c: CategoryType, added: Seq<Node>)
    requires
        eligible(p, c, oth),
        p.categories.m()[c].is_group ==> all_prod(p, c, added, off, off + run, oovs_of(p, c).len() as int),
        lens_all(p, nch, off, run, c, added),
    ensures class_done(p, nch, off, run, oth, c, added)
{
    assert forall|j: int, e: int| #[trigger] wanted(p, nch, off, run, oth, c, j, e) implies produced(added, oovs_of(p, c)[j], off, e) by {
        if p.categories.m()[c].is_group && e == off + run {
            assert(all_prod(p, c, added, off, off + run, oovs_of(p, c).len() as int));
        } else {
            let k = choose|k: int| len_w(p, nch, off, run, c, k, e);
            assert(len_ok(p, nch, off, run, c, added, k));
        }
    }
}
proof fn lemma_finish(p: MeCabOovPlugin, nch: int, off: int, run: int, oth: bool, cats: CategoryType, flags: Seq<CategoryType>, n0: Seq<Node>, nodes: Seq<Node>, num: int)
    requires
        inv_base(p, nch, off, run, oth, cats, n0, nodes, num),
        forall|c: CategoryType| #[trigger] flags.contains(c) <==> is_class(c) && (cats.bits & c.bits) == c.bits,
        classes_done(p, nch, off, run, oth, flags, flags.len() as int, added_of(n0, nodes)),
    ensures mecab_ok(p, nch, off, run, oth, cats, n0, nodes, num)
{
    let added = added_of(n0, nodes);
    assert forall|c: CategoryType| is_class(c) && (cats.bits & c.bits) == c.bits implies #[trigger] class_done(p, nch, off, run, oth, c, added) by {
        assert(flags.contains(c));
        let i = choose|i: int| 0 <= i < flags.len() && flags[i] == c;
        assert(class_done(p, nch, off, run, oth, flags[i], added));
    }
}

impl MeCabOovPlugin {
//@extract sudachi/src/plugin/oov/mecab_oov/mod.rs :: impl MeCabOovPlugin :: fn get_oov_node
//@  ret r
//@  spec
        requires start <= 65535, end <= 65535,
        ensures node_ok(r, *oov, start as int, end as int),
//@end

//@extract sudachi/src/plugin/oov/mecab_oov/mod.rs :: impl MeCabOovPlugin :: fn provide_oov_gen
//@  rw R6v 1 custom
//@  | for ctype in (\w+(?:\.\w+\([^()]*\))?)\.iter\(\) \{
//@  > let __flags = \1.iter_vec(); let mut __ic: usize = 0; while __ic < __flags.len() { let ctype = __flags[__ic]; __ic += 1;
//@  rw R6v 2 custom
//@  | for oov in oovs \{
//@  > let mut __io: usize = 0; while __io < oovs.len() { let oov = &oovs[__io]; __io += 1;
//@  rw R6 1 custom
//@  | for i in (\w+)\.\.=cinfo\.length \{
//@  > let mut __i: u64 = \1; while __i <= cinfo.length as u64 { let i = __i as u32; __i += 1;
//@  ret res
//@  spec
        requires
            offset < input.sp_nch(), input.sp_nch() <= 65535,
            // the run never points past the text (postcondition of fill_cat_continuity, unit v_cont)
            0 <= input.sp_cont(offset as int) <= input.sp_nch() - offset,
        ensures
            res is Ok,
            mecab_ok(*self, input.sp_nch(), offset as int, input.sp_cont(offset as int), other_words.sp_nonempty(),
                     input.sp_cat_at(offset as int), old(nodes)@, final(nodes)@, res->Ok_0 as int),
//@  atstart
        let ghost n0 = nodes@;
        let ghost nch = input.sp_nch();
        let ghost off = offset as int;
        let ghost run = input.sp_cont(offset as int);
        let ghost oth = other_words.sp_nonempty();
        let ghost cats = input.sp_cat_at(offset as int);
        proof {
            assert(nodes@.subrange(0, n0.len() as int) =~= n0);
            assert(added_of(n0, n0) =~= Seq::<Node>::empty());
        }
//@  before let mut num_created = 0;
        proof {
            // an empty run: nothing is prescribed (lengths start at 1, the grouped candidate would be empty) -- early exit above
            assert(inv_base(*self, nch, off, run, oth, cats, n0, nodes@, 0));
        }
//@  loop 1
            invariant
                offset < input.sp_nch(), nch == input.sp_nch(), nch <= 65535, off == offset as int, run == char_len as int, 1 <= run <= nch - off,
                oth == other_words.sp_nonempty(), cats == input.sp_cat_at(offset as int),
                forall|c: CategoryType| #[trigger] __flags@.contains(c) <==> is_class(c) && (cats.bits & c.bits) == c.bits,
                __ic <= __flags@.len(),
                inv_base(*self, nch, off, run, oth, cats, n0, nodes@, num_created as int),
                classes_done(*self, nch, off, run, oth, __flags@, __ic as int, added_of(n0, nodes@)),
            decreases __flags@.len() - __ic
//@  loopstart 1
            let ghost a_in = added_of(n0, nodes@);
//@  before continue; #1
                proof { lemma_skip(*self, nch, off, run, oth, __flags@[__ic - 1], added_of(n0, nodes@)); }
//@  before if cinfo.is_group {
            proof {
                assert(__flags@.contains(ctype));
                assert(eligible(*self, ctype, oth));
                assert(oovs@ == oovs_of(*self, ctype));
            }
//@  loop 2
                invariant
                    offset < input.sp_nch(), nch == input.sp_nch(), nch <= 65535, off == offset as int, run == char_len as int, 1 <= run <= nch - off,
                    is_class(ctype), (cats.bits & ctype.bits) == ctype.bits, eligible(*self, ctype, oth), *cinfo == self.categories.m()[ctype],
                    oovs@ == oovs_of(*self, ctype), cinfo.is_group, 1 <= __ic <= __flags@.len(), ctype == __flags@[__ic - 1],
                    inv_base(*self, nch, off, run, oth, cats, n0, nodes@, num_created as int),
                    classes_done(*self, nch, off, run, oth, __flags@, __ic - 1, added_of(n0, nodes@)),
                    __io <= oovs@.len(),
                    all_prod(*self, ctype, added_of(n0, nodes@), off, off + run, __io as int),
                decreases oovs@.len() - __io
//@  loopstart 2
                    let ghost __pre = nodes@;
//@  before num_created += 1; #1
                    proof {
                        let n = nodes@.last();
                        assert(nodes@ =~= __pre.push(n));
                        lemma_step(*self, nch, off, run, oth, cats, n0, __pre, num_created as int, n, ctype, __io - 1, off + run);
                        lemma_mono(*self, nch, off, run, oth, added_of(n0, __pre), added_of(n0, nodes@));
                        axiom_vec_len_fits(nodes);
                    }
//@  loop 3
                invariant_except_break
                    lens_done(*self, nch, off, run, ctype, added_of(n0, nodes@), __i as int),
                invariant
                    offset < input.sp_nch(), nch == input.sp_nch(), nch <= 65535, off == offset as int, run == char_len as int, 1 <= run <= nch - off,
                    is_class(ctype), (cats.bits & ctype.bits) == ctype.bits, eligible(*self, ctype, oth), *cinfo == self.categories.m()[ctype],
                    oovs@ == oovs_of(*self, ctype), 1 <= __ic <= __flags@.len(), ctype == __flags@[__ic - 1],
                    inv_base(*self, nch, off, run, oth, cats, n0, nodes@, num_created as int),
                    classes_done(*self, nch, off, run, oth, __flags@, __ic - 1, added_of(n0, nodes@)),
                    cinfo.is_group ==> all_prod(*self, ctype, added_of(n0, nodes@), off, off + run, oovs@.len() as int),
                    llength as int == llen(*self, ctype, run),
                    1 <= __i <= cinfo.length as u64 + 1,
                ensures
                    lens_all(*self, nch, off, run, ctype, added_of(n0, nodes@)),
                decreases cinfo.length as u64 + 1 - __i
//@  before break;
                    proof {
                        // lengths only grow with k: once one exceeds the bound, all later ones do
                        assert forall|k: int| 1 <= k <= cinfo.length && dist(nch, off, k) <= llen(*self, ctype, run)
                            implies #[trigger] len_ok(*self, nch, off, run, ctype, added_of(n0, nodes@), k) by {
                            if k >= i as int { assert(dist(nch, off, k) >= dist(nch, off, i as int)); }
                            else { assert(len_ok(*self, nch, off, run, ctype, added_of(n0, nodes@), k)); }
                        }
                    }
//@  loop 4
                    invariant
                        offset < input.sp_nch(), nch == input.sp_nch(), nch <= 65535, off == offset as int, run == char_len as int, 1 <= run <= nch - off,
                        is_class(ctype), (cats.bits & ctype.bits) == ctype.bits, eligible(*self, ctype, oth), *cinfo == self.categories.m()[ctype],
                        oovs@ == oovs_of(*self, ctype), 1 <= __ic <= __flags@.len(), ctype == __flags@[__ic - 1],
                        inv_base(*self, nch, off, run, oth, cats, n0, nodes@, num_created as int),
                        classes_done(*self, nch, off, run, oth, __flags@, __ic - 1, added_of(n0, nodes@)),
                        cinfo.is_group ==> all_prod(*self, ctype, added_of(n0, nodes@), off, off + run, oovs@.len() as int),
                        llength as int == llen(*self, ctype, run),
                        1 <= i <= cinfo.length, __i == i as u64 + 1, sublength as int == dist(nch, off, i as int), sublength <= llength,
                        lens_done(*self, nch, off, run, ctype, added_of(n0, nodes@), i as int),
                        __io <= oovs@.len(),
                        all_prod(*self, ctype, added_of(n0, nodes@), off, off + sublength, __io as int),
                    decreases oovs@.len() - __io
//@  loopstart 4
                    let ghost __pre = nodes@;
//@  before num_created += 1; #2
                    proof {
                        let n = nodes@.last();
                        assert(nodes@ =~= __pre.push(n));
                        assert(len_w(*self, nch, off, run, ctype, i as int, off + sublength));
                        lemma_step(*self, nch, off, run, oth, cats, n0, __pre, num_created as int, n, ctype, __io - 1, off + sublength);
                        lemma_mono(*self, nch, off, run, oth, added_of(n0, __pre), added_of(n0, nodes@));
                        axiom_vec_len_fits(nodes);
                    }
//@  afterloop 3
            proof {
                lemma_class_done(*self, nch, off, run, oth, ctype, added_of(n0, nodes@));
            }
//@  atend
        proof { lemma_finish(*self, nch, off, run, oth, cats, __flags@, n0, nodes@, num_created as int); }
//@end
}
} // verus!
fn main() {}
