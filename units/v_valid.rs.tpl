// UNIT V-VALID (C06): dic/build/lexicon.rs  LexiconReader::validate_entries / validate_wid
use vstd::prelude::*;
verus! {
global size_of usize == 8;
//@include common/error.rs.inc
//@include common/build_prelude.rs.inc
//@include common/wordid_stub.rs.inc

//@extract sudachi/src/analysis/mod.rs :: enum Mode
//@  derive Clone, Copy, PartialEq, Eq, Structural
//@end
#[verifier::external_body] pub struct DicCompilationCtx { _p: () }
impl DicCompilationCtx {
    #[verifier::external_body] fn default() -> DicCompilationCtx { unimplemented!() }
    #[verifier::external_body] fn set_filename(&mut self, new_name: String) -> String { unimplemented!() }
    #[verifier::external_body] fn set_line(&mut self, line: usize) -> usize { unimplemented!() }
    #[verifier::external_body] fn add_line(&mut self, offset: usize) { unimplemented!() }
    #[verifier::external_body] fn transform<T>(&self, result: DicWriteResult<T>) -> (r: SudachiResult<T>)
        ensures result is Ok ==> r is Ok && r->Ok_0 == result->Ok_0, result is Err ==> r is Err { unimplemented!() }
    #[verifier::external_body] fn err<T>(&self, reason: BuildFailure) -> (r: SudachiResult<T>) ensures r is Err { unimplemented!() }
}
#[verifier::external_body] fn err_string() -> String { String::new() }   // R12: message texts are not verified
fn vpanic() requires false { }
#[verifier::external_body] pub struct PosTable { _p: () }   // R14: IndexMap<StrPosEntry, u16>, not used here

//@extract sudachi/src/dic/build/lexicon.rs :: enum SplitUnit
//@  derive
//@end
//@extract sudachi/src/dic/build/lexicon.rs :: struct RawLexiconEntry
//@end
//@extract sudachi/src/dic/build/lexicon.rs :: struct LexiconReader
//@  rw R14 1 custom
//@  | IndexMap<StrPosEntry, u16>
//@  > PosTable
//@end

// ----- C06: "whenever it reports success the dictionary is valid" -----
/// a word reference names an existing entry of the dictionary it points into
spec fn ref_ok(w: WordId, max0: int, max1: int) -> bool {
    (wid_dic(w) == 0 ==> (wid_word(w) as int) < max0 && max0 <= u32::MAX) && (wid_dic(w) == 1 ==> (wid_word(w) as int) < max1 && max1 <= u32::MAX) && wid_dic(w) <= 1
}
spec fn unit_ref(s: SplitUnit) -> WordId { match s { SplitUnit::Ref(w) => w, _ => WordId::INVALID } }
/// what validation must guarantee for one entry
spec fn entry_valid(e: RawLexiconEntry, max_left: i16, max_right: i16, max0: int, max1: int) -> bool {
    // an indexed entry's connection ids lie inside the matrix
    &&& (e.left_id >= 0 ==> e.left_id < max_left && 0 <= e.right_id < max_right)
    // every word reference points to an existing entry
    &&& (e.dic_form != WordId::INVALID ==> ref_ok(e.dic_form, max0, max1))
    &&& forall|i: int| 0 <= i < e.splits_a@.len() ==> ref_ok(unit_ref(#[trigger] e.splits_a@[i]), max0, max1)
    &&& forall|i: int| 0 <= i < e.splits_b@.len() ==> ref_ok(unit_ref(#[trigger] e.splits_b@[i]), max0, max1)
    &&& forall|i: int| 0 <= i < e.word_structure@.len() ==> ref_ok(#[trigger] e.word_structure@[i], max0, max1)
}
/// what the earlier stages must have established (checked by check_if_resolved / parse_wordid, not under contract here)
spec fn refs_wellformed(e: RawLexiconEntry) -> bool {
    &&& (e.dic_form != WordId::INVALID ==> wid_dic(e.dic_form) <= 1)
    &&& forall|i: int| 0 <= i < e.splits_a@.len() ==> (#[trigger] e.splits_a@[i]) is Ref && wid_dic(unit_ref(e.splits_a@[i])) <= 1
    &&& forall|i: int| 0 <= i < e.splits_b@.len() ==> (#[trigger] e.splits_b@[i]) is Ref && wid_dic(unit_ref(e.splits_b@[i])) <= 1
    &&& forall|i: int| 0 <= i < e.word_structure@.len() ==> wid_dic(#[trigger] e.word_structure@[i]) <= 1
}
spec fn max0_of(r: LexiconReader) -> int { if r.num_system == usize::MAX { r.entries@.len() as int } else { r.num_system as int } }
spec fn max1_of(r: LexiconReader) -> int { if r.num_system == usize::MAX { 0 } else { r.entries@.len() as int } }

impl RawLexiconEntry {
//@extract sudachi/src/dic/build/lexicon.rs :: impl RawLexiconEntry :: fn should_index
//@  ret r
//@  spec
        ensures r == (self.left_id >= 0),
//@end
}
impl LexiconReader {
//@extract sudachi/src/dic/build/lexicon.rs :: impl LexiconReader :: fn validate_wid
//@  rw R12 1 custom
//@  | x => panic!\("invalid dictionary ID=\{\}, should not happen", x\),
//@  > _ => { vpanic(); 0 }
//@  ret r
//@  spec
        requires wid_dic(wid) <= 1, dic0_max <= u32::MAX, dic1_max <= u32::MAX,
        ensures r is Ok <==> ref_ok(wid, dic0_max as int, dic1_max as int),
//@end

//@extract sudachi/src/dic/build/lexicon.rs :: impl LexiconReader :: fn validate_entries
//@  rw R12 1 custom
//@  | "<entry id>"\.to_owned\(\)
//@  > err_string()
//@  rw R6v 1 custom
//@  | for e in self\.entries\.iter\(\) \{
//@  > let mut __ie: usize = 0; while __ie < self.entries.len() { let e = &self.entries[__ie]; __ie += 1;
//@  rw R6v 2 custom
//@  | for s in e\.(splits_a|splits_b)\.iter\(\) \{
//@  > let mut __is: usize = 0; while __is < e.\1.len() { let s = &e.\1[__is]; __is += 1;
//@  rw R6v 1 custom
//@  | for wid in e\.word_structure\.iter\(\) \{
//@  > let mut __iw: usize = 0; while __iw < e.word_structure.len() { let wid = &e.word_structure[__iw]; __iw += 1;
//@  rw R12 2 custom
//@  | _ => panic!\("at this point there must not be unresolved splits"\),
//@  > _ => { vpanic(); }
//@  ret r
//@  spec
        requires
            self.entries@.len() <= u32::MAX as int, self.num_system == usize::MAX || self.num_system <= u32::MAX as int,
            forall|k: int| 0 <= k < self.entries@.len() ==> refs_wellformed(#[trigger] self.entries@[k]),
        ensures
            // success only for a valid lexicon
            r is Ok ==> forall|k: int| 0 <= k < self.entries@.len() ==>
                entry_valid(#[trigger] self.entries@[k], self.max_left, self.max_right, max0_of(*self), max1_of(*self)),
//@  loop 1
            invariant
                __ie <= self.entries@.len(), max_0 == max0_of(*self), max_1 == max1_of(*self), max_0 <= u32::MAX, max_1 <= u32::MAX,
                forall|k: int| 0 <= k < self.entries@.len() ==> refs_wellformed(#[trigger] self.entries@[k]),
                forall|k: int| 0 <= k < __ie ==> entry_valid(#[trigger] self.entries@[k], self.max_left, self.max_right, max_0 as int, max_1 as int),
            decreases self.entries@.len() - __ie
//@  loop 2
                invariant
                    __is <= e.splits_a@.len(), refs_wellformed(*e), max_0 <= u32::MAX, max_1 <= u32::MAX,
                    forall|i: int| 0 <= i < __is ==> ref_ok(unit_ref(#[trigger] e.splits_a@[i]), max_0 as int, max_1 as int),
                decreases e.splits_a@.len() - __is
//@  loop 3
                invariant
                    __is <= e.splits_b@.len(), refs_wellformed(*e), max_0 <= u32::MAX, max_1 <= u32::MAX,
                    forall|i: int| 0 <= i < __is ==> ref_ok(unit_ref(#[trigger] e.splits_b@[i]), max_0 as int, max_1 as int),
                decreases e.splits_b@.len() - __is
//@  loop 4
                invariant
                    __iw <= e.word_structure@.len(), refs_wellformed(*e), max_0 <= u32::MAX, max_1 <= u32::MAX,
                    forall|i: int| 0 <= i < __iw ==> ref_ok(#[trigger] e.word_structure@[i], max_0 as int, max_1 as int),
                decreases e.word_structure@.len() - __iw
//@  before if e.left_id >
            proof { assert(*e == self.entries@[__ie - 1]); assert(refs_wellformed(*e)); }
//@  before ctx.add_line(1); #last
            proof { assert(entry_valid(*e, self.max_left, self.max_right, max_0 as int, max_1 as int)); }
//@end
}
} // verus!
fn main() {}
