    // Replay oracle for V-NODE (C14, C01, C09): executable restatement of merged_at (concat_nodes / concat_oov_nodes: the run becomes
    // one token with exactly the union of the byte and code-point ranges, everything else unchanged, in order).
    // BOUNDED: paths of up to 4 tokens whose dictionary surfaces are shorter, equal or longer than the text they cover.
    use crate::dic::lexicon::word_infos::WordInfoData;

    fn mk(begin: usize, end: usize, bb: usize, be: usize, surface: &str, wid: WordId, pos: u16) -> ResultNode {
        let wi: WordInfo = WordInfoData {
            surface: surface.to_string(), head_word_length: (be - bb) as u16, pos_id: pos,
            normalized_form: surface.to_string(), dictionary_form: surface.to_string(), reading_form: surface.to_string(),
            dictionary_form_word_id: -1, ..Default::default()
        }.into();
        ResultNode::new(Node::new(begin as u16, end as u16, 1, 1, 10, wid), 100 + end as i32, bb as u16, be as u16, wi)
    }
    /// every token covers 1..=2 characters of 3 bytes; its dictionary surface has `slen` characters (may differ: normalisation)
    fn paths() -> Vec<Vec<ResultNode>> {
        let surf = ["㌔", "キロ", "キロメ"]; // 1, 2, 3 characters
        let mut out = Vec::new();
        for n in 1..=4usize {
            let combos = (2usize * 3).pow(n as u32);
            for code in 0..combos {
                let mut c = code;
                let mut path = Vec::new();
                let (mut ch, mut by) = (0usize, 0usize);
                for k in 0..n {
                    let w = 1 + c % 2; c /= 2;
                    let s = surf[c % 3]; c /= 3;
                    let wid = if k % 2 == 0 { WordId::new(0, k as u32) } else { WordId::oov(3) };
                    path.push(mk(ch, ch + w, by, by + 3 * w, s, wid, k as u16));
                    ch += w; by += 3 * w;
                }
                out.push(path);
            }
        }
        out
    }
    fn check(kind: &str, before: &[ResultNode], after: &[ResultNode], b: usize, e: usize, failures: &mut Vec<String>) {
        let desc = |p: &[ResultNode]| p.iter().map(|n| format!("[{}..{} bytes {}..{} {:?}]", n.begin(), n.end(), n.begin_bytes(), n.end_bytes(), n.word_info().surface())).collect::<Vec<_>>().join(" ");
        let ctx = format!("{} of tokens {}..{} in path {} gave {}", kind, b, e, desc(before), desc(after));
        if after.len() != before.len() - (e - b) + 1 { failures.push(format!("token count: {}", ctx)); return; }
        let m = &after[b];
        if m.begin() != before[b].begin() || m.end() != before[e - 1].end() || m.begin_bytes() != before[b].begin_bytes() || m.end_bytes() != before[e - 1].end_bytes() {
            failures.push(format!("merged token does not cover exactly the union of the merged ranges: {}", ctx));
        }
        for k in 0..b { if after[k].begin() != before[k].begin() || after[k].end() != before[k].end() || after[k].begin_bytes() != before[k].begin_bytes() || after[k].end_bytes() != before[k].end_bytes() { failures.push(format!("token {} before the run changed: {}", k, ctx)); } }
        for k in e..before.len() { let a = &after[k - (e - b) + 1]; if a.begin() != before[k].begin() || a.end() != before[k].end() || a.begin_bytes() != before[k].begin_bytes() || a.end_bytes() != before[k].end_bytes() { failures.push(format!("token {} after the run changed: {}", k, ctx)); } }
        let want: String = before[b..e].iter().map(|n| n.word_info().surface().to_string()).collect();
        if m.word_info().surface() != want { failures.push(format!("merged surface is not the concatenation: {}", ctx)); }
    }

    #[test]
    fn verif_oracle_merges_cover_union() {
        let mut failures = Vec::new();
        let mut cases = 0usize;
        for p in paths() {
            for b in 0..p.len() { for e in b + 1..=p.len() {
                cases += 2;
                match concat_nodes(p.clone(), b, e, None) { Ok(a) => check("concat_nodes", &p, &a, b, e, &mut failures), Err(x) => failures.push(format!("concat_nodes failed: {:?}", x)) }
                match concat_oov_nodes(p.clone(), b, e, 7) {
                    Ok(a) => { check("concat_oov_nodes", &p, &a, b, e, &mut failures); if a[b].word_info().pos_id() != 7 { failures.push("concat_oov_nodes: part of speech not set".to_string()); } }
                    Err(x) => failures.push(format!("concat_oov_nodes failed: {:?}", x)),
                }
            }}
        }
        println!("verif_oracle_merges_cover_union: {} cases, {} failures", cases, failures.len());
        for f in failures.iter().take(5) { println!("FAILING INPUT: {}", f); }
        assert!(failures.is_empty());
    }
