// UNIT V-LEXRD (C05, C04): dic/lexicon/mod.rs  Lexicon::parse / trie_array_parser / set_dic_id / word_id / get_word_param / size, with the real
// constructors and size functions of the four sections: Trie::new / total_size, WordIdTable::new / storage_size,
// WordParams::new / storage_size / size, WordInfos::new.
// Decided: WHERE the reader looks for the sections of a lexicon - trie length, trie, word-id-table length, table, word count, word
// parameters (three 16-bit values per word), word-info offsets - which is the order and the sizes the compiler writes them with
// (v_idx: trie size, trie, table length, table; v_lexw: entry count, parameters, offset table, records): theorem_reader_finds_sections.
// ASSUMED: the nom wrapper u32_parser_offset (little-endian u32 at the offset, error when the buffer is shorter), CowArray::from_bytes as
// a view of `size` elements starting at `offset` (bounded Kani set k_cow), slicing of &[u8]; a VALID dictionary: the sections lie inside
// the buffer (lex_fits) - the reader does not check the table and parameter sections against the buffer length (trusted binary
// dictionary, docs/errors_and_security.md), only the trie.
use vstd::prelude::*;
verus! {
global size_of usize == 8;
//@include common/error.rs.inc
//@include common/wordid_stub.rs.inc

/// R5: CowArray<'a, u32> / CowArray<'a, i16> as a view of `len` elements of `src` starting at byte `off` (ASSUMED; k_cow is the bounded
/// check of from_bytes).  The real from_bytes slices `data[offset..offset + size * size_of::<T>()]` and panics when that is out of range.
#[verifier::external_body] pub struct CowArrayU32<'a> { _p: core::marker::PhantomData<&'a ()> }
impl<'a> CowArrayU32<'a> {
    pub uninterp spec fn sp_src(&self) -> Seq<u8>;
    pub uninterp spec fn sp_off(&self) -> int;
    pub uninterp spec fn sp_len(&self) -> int;
    #[verifier::external_body]
    fn from_bytes(data: &'a [u8], offset: usize, size: usize) -> (r: Self)
        requires offset + size * 4 <= data@.len()
        ensures r.sp_src() == data@, r.sp_off() == offset, r.sp_len() == size
    { unimplemented!() }
    #[verifier::external_body] fn len(&self) -> (r: usize) ensures r == self.sp_len() { unimplemented!() }
}
#[verifier::external_body] pub struct CowArrayI16<'a> { _p: core::marker::PhantomData<&'a ()> }
impl<'a> CowArrayI16<'a> {
    pub uninterp spec fn sp_src(&self) -> Seq<u8>;
    pub uninterp spec fn sp_off(&self) -> int;
    pub uninterp spec fn sp_len(&self) -> int;
    #[verifier::external_body]
    fn from_bytes(data: &'a [u8], offset: usize, size: usize) -> (r: Self)
        requires offset + size * 2 <= data@.len()
        ensures r.sp_src() == data@, r.sp_off() == offset, r.sp_len() == size
    { unimplemented!() }
}
/// little-endian u32 at a byte offset (what nom's le_u32 denotes)
pub open spec fn le32_at(b: Seq<u8>, off: int) -> u32 {
    (b[off] as u32) | ((b[off + 1] as u32) << 8) | ((b[off + 2] as u32) << 16) | ((b[off + 3] as u32) << 24)
}
/// dic/read/mod.rs::u32_parser = nom le_u32 (ASSUMED)
#[verifier::external_body]
fn u32_parser(input: &[u8]) -> (r: SudachiResult<(&[u8], u32)>)
    ensures r is Ok <==> 4 <= input@.len(), r is Ok ==> r->Ok_0.1 == le32_at(input@, 0)
{ unimplemented!() }
#[verifier::external_body]
fn slice_from<'a>(s: &'a [u8], a: usize) -> (r: &'a [u8]) requires a <= s@.len() ensures r@ == s@.subrange(a as int, s@.len() as int) { &s[a..] }
/// dic/lexicon/mod.rs::u32_parser_offset = nom preceded(take(offset), le_u32) (ASSUMED)
#[verifier::external_body]
fn u32_parser_offset(input: &[u8], offset: usize) -> (r: SudachiResult<(&[u8], u32)>)
    ensures
        r is Ok <==> offset + 4 <= input@.len(),
        r is Ok ==> r->Ok_0.1 == le32_at(input@, offset as int),
{ unimplemented!() }
#[verifier::external_body]
fn slice_range<'a>(s: &'a [u8], a: usize, b: usize) -> (r: &'a [u8]) requires a <= b <= s@.len() ensures r@ == s@.subrange(a as int, b as int) { &s[a..b] }

//@extract sudachi/src/dic/lexicon/trie.rs :: struct Trie
//@  rw R5 1 custom
//@  | CowArray<'a, u32>
//@  > CowArrayU32<'a>
//@end
//@extract sudachi/src/dic/lexicon/word_id_table.rs :: struct WordIdTable
//@end
//@extract sudachi/src/dic/lexicon/word_params.rs :: struct WordParams
//@  rw R5 1 custom
//@  | CowArray<'a, i16>
//@  > CowArrayI16<'a>
//@end
//@extract sudachi/src/dic/lexicon/word_infos.rs :: struct WordInfos
//@end
//@extract sudachi/src/dic/lexicon/mod.rs :: struct Lexicon
//@end
//@extract sudachi/src/dic/lexicon/mod.rs :: const MAX_DICTIONARIES
//@end

impl<'a> Trie<'a> {
//@extract sudachi/src/dic/lexicon/trie.rs :: impl<'a> Trie<'a> :: fn new
//@  rw R5 1 custom
//@  | CowArray::from_bytes\(
//@  > CowArrayU32::from_bytes(
//@  ret r
//@  spec
        requires size * 4 <= data@.len()
        ensures r.array.sp_src() == data@, r.array.sp_off() == 0, r.array.sp_len() == size
//@end
//@extract sudachi/src/dic/lexicon/trie.rs :: impl<'a> Trie<'a> :: fn total_size
//@  ret r
//@  spec
        requires self.array.sp_len() <= 0xffff_ffff
        ensures r == 4 * self.array.sp_len()
//@end
}
impl<'a> WordIdTable<'a> {
//@extract sudachi/src/dic/lexicon/word_id_table.rs :: impl<'a> WordIdTable<'a> :: fn new
//@  rw Rl 1 custom
//@  | -> WordIdTable \{
//@  > -> WordIdTable<'a> {
//@  ret r
//@  spec
        ensures r.bytes@ == bytes@, r.size == size, r.offset == offset
//@end
//@extract sudachi/src/dic/lexicon/word_id_table.rs :: impl<'a> WordIdTable<'a> :: fn storage_size
//@  ret r
//@  spec
        ensures r == 4 + self.size
//@end
}
// Rc: the associated consts extracted as free consts (an associated const of a lifetime-generic impl crashes the installed Verus)
//@extract sudachi/src/dic/lexicon/word_params.rs :: impl<'a> WordParams<'a> :: const PARAM_SIZE
//@end
//@extract sudachi/src/dic/lexicon/word_params.rs :: impl<'a> WordParams<'a> :: const ELEMENT_SIZE
//@  rw Rc * custom
//@  | Self::PARAM_SIZE
//@  > PARAM_SIZE
//@end
impl<'a> WordParams<'a> {
//@extract sudachi/src/dic/lexicon/word_params.rs :: impl<'a> WordParams<'a> :: fn new
//@  rw Rl 1 custom
//@  | -> WordParams \{
//@  > -> WordParams<'a> {
//@  rw R5 1 custom
//@  | CowArray::from_bytes\(
//@  > CowArrayI16::from_bytes(
//@  rw Rc * custom
//@  | Self::PARAM_SIZE
//@  > PARAM_SIZE
//@  ret r
//@  spec
        requires offset + 6 * size <= bytes@.len()
        // three 16-bit values per word, starting at the offset
        ensures r.size == size, r.data.sp_src() == bytes@, r.data.sp_off() == offset, r.data.sp_len() == 3 * size
//@end
//@extract sudachi/src/dic/lexicon/word_params.rs :: impl<'a> WordParams<'a> :: fn storage_size
//@  rw Rc * custom
//@  | WordParams::ELEMENT_SIZE
//@  > ELEMENT_SIZE
//@  ret r
//@  spec
        ensures r == 4 + 6 * self.size
//@end
//@extract sudachi/src/dic/lexicon/word_params.rs :: impl<'a> WordParams<'a> :: fn size
//@  ret r
//@  spec
        ensures r == self.size
//@end
}
impl<'a> WordInfos<'a> {
//@extract sudachi/src/dic/lexicon/word_infos.rs :: impl<'a> WordInfos<'a> :: fn new
//@  rw Rl 1 custom
//@  | \) -> WordInfos \{
//@  > ) -> WordInfos<'a> {
//@  ret r
//@  spec
        ensures r.bytes@ == bytes@, r.offset == offset, r._word_size == _word_size, r.has_synonym_group_ids == has_synonym_group_ids
//@end
//@extract sudachi/src/dic/lexicon/word_infos.rs :: impl<'a> WordInfos<'a> :: fn word_id_to_offset
//@  rw R13 1 custom
//@  | &self\.bytes\[(self\.offset \+ \(\d+ \* word_id as usize\))\.\.\]
//@  > slice_from(self.bytes, \1)
//@  ret r
//@  spec
        // a VALID dictionary: the offset table (four bytes per word, from `offset`) lies inside the buffer - the slice panics otherwise
        requires self.offset + 4 * word_id + 4 <= self.bytes@.len(), self.bytes@.len() <= 0x7fff_ffff_ffff_ffff
        // C05 / C11: the record of word i is looked for at the i-th little-endian entry of the offset table, which is where
        // LexiconWriter::write recorded the absolute position of that record (v_lexw: theorem_offset_points_at_record)
        ensures r is Ok && r->Ok_0 == le32_at(self.bytes@, self.offset + 4 * word_id)
//@end
}

// ---- the layout of a lexicon inside a dictionary, as the reader walks it
spec fn trie_units(b: Seq<u8>, o: int) -> int { le32_at(b, o) as int }
spec fn off_table(b: Seq<u8>, o: int) -> int { o + 4 + 4 * trie_units(b, o) }
spec fn table_len(b: Seq<u8>, o: int) -> int { le32_at(b, off_table(b, o)) as int }
spec fn off_params(b: Seq<u8>, o: int) -> int { off_table(b, o) + 4 + table_len(b, o) }
spec fn n_words(b: Seq<u8>, o: int) -> int { le32_at(b, off_params(b, o)) as int }
spec fn off_infos(b: Seq<u8>, o: int) -> int { off_params(b, o) + 4 + 6 * n_words(b, o) }
/// a valid dictionary: the four sections lie inside the buffer
spec fn lex_fits(b: Seq<u8>, o: int) -> bool {
    &&& 0 <= o && o + 4 <= b.len() && off_table(b, o) + 4 <= b.len()
    &&& off_params(b, o) + 4 <= b.len() && off_infos(b, o) <= b.len()
}
/// what Lexicon::parse returns: every section is a view of the buffer at its place
spec fn lex_is(l: Lexicon, b: Seq<u8>, o: int, syn: bool) -> bool {
    &&& l.trie.array.sp_src() == b.subrange(o + 4, off_table(b, o)) && l.trie.array.sp_off() == 0 && l.trie.array.sp_len() == trie_units(b, o)
    &&& l.word_id_table.bytes@ == b && l.word_id_table.offset == off_table(b, o) + 4 && l.word_id_table.size == table_len(b, o)
    &&& l.word_params.data.sp_src() == b && l.word_params.data.sp_off() == off_params(b, o) + 4 && l.word_params.size == n_words(b, o)
        && l.word_params.data.sp_len() == 3 * n_words(b, o)
    &&& l.word_infos.bytes@ == b && l.word_infos.offset == off_infos(b, o) && l.word_infos._word_size == n_words(b, o) && l.word_infos.has_synonym_group_ids == syn
    &&& l.lex_id == 255
}

//@extract sudachi/src/dic/lexicon/mod.rs :: fn trie_array_parser
//@  rw Rc 1 custom
//@  | size_of::<u32>\(\)
//@  > 4
//@  rw R13 1 custom
//@  | &input\[trie_start\.\.trie_end\]
//@  > slice_range(input, trie_start, trie_end)
//@  ret r
//@  spec
        requires offset <= 0x7fff_ffff_ffff_ffff
        ensures
            r is Ok <==> offset + 4 * trie_size <= input@.len(),
            r is Ok ==> r->Ok_0@ == input@.subrange(offset as int, offset + 4 * trie_size),
//@end

impl<'a> Lexicon<'a> {
//@extract sudachi/src/dic/lexicon/mod.rs :: impl<'a> Lexicon<'a> :: fn parse
//@  rw Rl 1 custom
//@  | \) -> SudachiResult<Lexicon> \{
//@  > ) -> SudachiResult<Lexicon<'a>> where 'a: 'a {
//@  rw Rl 1 custom
//@  | buf: &\[u8\],
//@  > buf: &'a [u8],
//@  ret r
//@  spec
        requires lex_fits(buf@, original_offset as int), buf@.len() <= 0x7fff_ffff_ffff_ffff
        ensures r is Ok && lex_is(r->Ok_0, buf@, original_offset as int, has_synonym_group_ids)
//@end

//@extract sudachi/src/dic/lexicon/mod.rs :: impl<'a> Lexicon<'a> :: fn set_dic_id
//@  rw R12 1 custom
//@  | assert!\(id < MAX_DICTIONARIES as u8\);
//@  > if !(id < MAX_DICTIONARIES as u8) { vpanic(); }
//@  spec
        requires id < 15
        ensures final(self).lex_id == id, final(self).trie == old(self).trie, final(self).word_id_table == old(self).word_id_table,
            final(self).word_params == old(self).word_params, final(self).word_infos == old(self).word_infos
//@end

//@extract sudachi/src/dic/lexicon/mod.rs :: impl<'a> Lexicon<'a> :: fn word_id
//@  ret r
//@  spec
        // C04 / C12: a looked-up word carries the number of the dictionary it was found in and its word number
        requires self.lex_id <= 0xf, raw_id <= 0x0fff_ffff
        ensures wid_dic(r) == self.lex_id && wid_word(r) == raw_id
//@end

//@extract sudachi/src/dic/lexicon/mod.rs :: impl<'a> Lexicon<'a> :: fn size
//@  ret r
//@  spec
        ensures r == self.word_params.size
//@end
}
#[verifier::external_body] fn vpanic() requires false { unimplemented!() }

/// C05: given a buffer that holds, from position o, what the compiler writes for a lexicon - the index section (trie length in units,
/// the trie, the table length in bytes, the table: v_idx) followed by the word section (entry count, 6 bytes of parameters per entry,
/// then the offset table: v_lexw) - the reader finds every section where it was written.
proof fn theorem_reader_finds_sections(b: Seq<u8>, o: int, units: int, tbl: int, n: int, l: Lexicon, syn: bool)
    requires
        0 <= o, 0 <= units, 0 <= tbl, 0 <= n,
        // the writer's layout
        le32_at(b, o) as int == units,
        le32_at(b, o + 4 + 4 * units) as int == tbl,
        le32_at(b, o + 4 + 4 * units + 4 + tbl) as int == n,
        o + 4 + 4 * units + 4 + tbl + 4 + 6 * n + 4 * n <= b.len(),
        lex_is(l, b, o, syn),
    ensures
        lex_fits(b, o),
        // the trie is the `units` units written after the length
        l.trie.array.sp_src() == b.subrange(o + 4, o + 4 + 4 * units) && l.trie.array.sp_len() == units,
        // the table is the `tbl` bytes written after its length
        l.word_id_table.offset == o + 4 + 4 * units + 4 && l.word_id_table.size == tbl,
        // the parameters are the 3 n values after the entry count, the offset table follows them
        l.word_params.data.sp_off() == o + 4 + 4 * units + 4 + tbl + 4 && l.word_params.data.sp_len() == 3 * n,
        l.word_infos.offset == o + 4 + 4 * units + 4 + tbl + 4 + 6 * n,
{
}
} // verus!
fn main() {}
