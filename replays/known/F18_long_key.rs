// F18 (C06): demonstration against the real code.  Append to sudachi/src/dic/build/test/with_analysis.rs in a scratch copy of /repo
// and run   KEYLEN=5000 cargo test --offline -p sudachi --lib verif_long_key -- --nocapture   (debug)   or
//           KEYLEN=32767 cargo test --release --offline -p sudachi --lib verif_long_key -- --nocapture
// Before the fix: "thread ... has overflowed its stack / fatal runtime error: stack overflow, aborting" inside DictBuilder::compile
// (yada::builder::DoubleArrayBuilder::build_recursive, one frame per key byte).  The row is within the format limits (a string field may
// hold 32,767 bytes).  After the fix: compiled: true.
#[cfg(test)]
mod verif_long_key {
    use super::*;
    #[test]
    fn long_key() {
        let n: usize = std::env::var("KEYLEN").ok().and_then(|s| s.parse().ok()).unwrap_or(32767);
        let lex = format!("{},6,6,5293,京,名詞,固有名詞,地名,一般,*,*,キョウ,京,*,A,*,*,*,*\n", "a".repeat(n));
        let mut dic = DictBuilder::new_system();
        dic.read_conn(super::super::MATRIX_10_10).unwrap();
        dic.read_lexicon(lex.as_bytes()).unwrap();
        dic.resolve().unwrap();
        let mut out: Vec<u8> = Vec::new();
        let r = dic.compile(&mut out);
        eprintln!("compiled: {:?} {} bytes", r.is_ok(), out.len());
        assert!(r.is_ok());
    }
}
