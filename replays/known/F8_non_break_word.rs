// Demonstration for finding F8 (C16): append to sudachi/src/dic/build/test/with_analysis.rs and run
// `cargo test -p sudachi --lib verif_f8`.
#[cfg(test)]
mod verif_f8 {
    use super::*;
    use crate::analysis::stateless_tokenizer::DictionaryAccess;
    use crate::sentence_detector::{NonBreakChecker, SentenceDetector};

    fn dict(lex: &str) -> (ConfigTestSupport, JapaneseDictionary) {
        let mut cfgb = ConfigTestSupport::new();
        let mut dic = DictBuilder::new_system();
        dic.read_conn(super::super::MATRIX_10_10).unwrap();
        let mut all = SYSTEM_LEX.to_vec();
        all.extend_from_slice(b"\n");
        all.extend_from_slice(lex.as_bytes());
        dic.read_lexicon(all.as_slice()).unwrap();
        dic.resolve().unwrap();
        dic.compile(&mut cfgb.make_system()).unwrap();
        let jd = JapaneseDictionary::from_cfg(&cfgb.config()).unwrap();
        (cfgb, jd)
    }

    /// the terminator being itself a one-character dictionary entry never suppresses the break
    #[test]
    fn verif_f8_one_char_terminator_entry_does_not_suppress_break() {
        let lex = "。,1,1,100,。,補助記号,句点,*,*,*,*,。,。,*,A,*,*,*,*\nあ,1,1,100,あ,感動詞,*,*,*,*,*,ア,あ,*,A,*,*,*,*\n";
        let (_c, jd) = dict(lex);
        let checker = NonBreakChecker::new(jd.lexicon());
        let sd = SentenceDetector::new();
        assert_eq!(sd.get_eos("あ。い", Some(&checker)).unwrap(), 6, "「あ。い」 must break after 。");
    }

    /// no break is placed inside a multi-character dictionary word that contains the terminator,
    /// also when the terminator alone is a dictionary word too
    #[test]
    fn verif_f8_longer_word_still_vetoes() {
        let lex = "。,1,1,100,。,補助記号,句点,*,*,*,*,。,。,*,A,*,*,*,*\n。ん,1,1,100,。ん,名詞,普通名詞,一般,*,*,*,ン,。ん,*,A,*,*,*,*\n";
        let (_c, jd) = dict(lex);
        let checker = NonBreakChecker::new(jd.lexicon());
        let sd = SentenceDetector::new();
        assert!(sd.get_eos("あ。んい", Some(&checker)).unwrap() < 0, "no break inside the word 。ん");
    }
}
