#!/usr/bin/env python3
"""Regenerate MANIFEST.json from registry.py (claims) and registry.NOT_APPLICABLE."""
import json, os, sys
VERIF = os.path.dirname(os.path.dirname(os.path.abspath(__file__)))
sys.path.insert(0, VERIF)
import registry

BASE_OFF = ("cd /repo && cargo nextest run --workspace --no-fail-fast --offline --test-threads 8 "
            "|| cargo test --workspace --no-fail-fast --offline")

m = {
    "version": 1,
    "setup_cmd": "cd /verif && python3 -m compileall -q vf registry.py && python3 vf/warm.py",
    "hooks": {
        "guard": "kani",
        "enable": "no hook is committed to /repo: Kani harnesses are injected as `#[cfg(kani)] mod verif_kani_*` into a scratch copy of the working tree on every run; Verus units are re-extracted from the working tree on every run",
        "baseline_off_cmd": BASE_OFF,
        "source_commits": [],
        "add_only": True,
    },
    "engines": [
        {"name": "verus-extract", "path": "vf/extract.py vf/verus.py units/", "serves_properties": sorted(p for p, v in registry.PROPS.items() if v.get('verus')),
         "kind_free_text": "mechanical extraction of real functions + contract overlay, Verus/Z3 deductive verification, unbounded"},
        {"name": "kani-inject", "path": "vf/kani.py kani/", "serves_properties": sorted(p for p, v in registry.PROPS.items() if v.get('kani')),
         "kind_free_text": "loop-free full-domain Kani harnesses on the compiled crate (complete) and bounded stand-ins (labelled)"},
    ],
    "checks": [],
    "not_applicable": [{"property_id": k, "reason": v} for k, v in sorted(registry.NOT_APPLICABLE.items()) if k not in registry.PROPS],
    "notes": "contract-based deductive verification; see DESIGN.md. exit 2 of a check = undecided (lost anchor / unsupported construct / rlimit), never an alarm.",
}
for pid in sorted(registry.PROPS):
    P = registry.PROPS[pid]
    m["checks"].append({
        "property_id": pid,
        "quick_cmd": "./check %s quick" % pid,
        "thorough_cmd": "./check %s thorough" % pid,
        "evidence_file": "/verif/evidence/%s.json" % pid,
        "replay_cmd_template": "cat {path}",
        "engine": "verus-extract" + ("+kani-inject" if P.get('kani') else ""),
        "level_claimed": {"category": "proof", "text": P['level_text'], "design_ref": P.get('design_ref', 'DESIGN.md §3 ' + pid)},
        "level_note": P['level_note'],
        "technique": P.get('technique', 'contract-based deductive verification (Verus requires/ensures/invariants on mechanically extracted real functions' + ('; complete Kani harnesses' if P.get('kani') else '') + ')'),
    })
json.dump(m, open(os.path.join(VERIF, 'MANIFEST.json'), 'w'), indent=1)
print("MANIFEST.json: %d checks, %d not applicable" % (len(m['checks']), len(m['not_applicable'])))
