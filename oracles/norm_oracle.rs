    // Replay oracle for V-NORM (C07).  (1) COMPLETE enumeration of all Unicode scalar values for the three axioms unit v_norm admits
    // about std / unicode-normalization (AX1, AX2) and for the per-character rule; (2) BOUNDED comparison of the real plugin
    // against an executable restatement of norm_edits: texts of up to 4 characters over a 9-letter alphabet, 3 rewrite tables.
    use crate::input_text::InputBuffer;

    fn lower(ch: char) -> Vec<char> { ch.to_lowercase().collect() }
    fn nfkc(s: &[char]) -> Vec<char> { s.iter().cloned().nfkc().collect() }
    fn quick_yes(ch: char) -> bool { matches!(is_nfkc_quick(std::iter::once(ch)), IsNormalized::Yes) }

    #[test]
    fn verif_oracle_unicode_axioms_all_scalars() {
        let mut failures = Vec::new();
        let mut n = 0u32;
        for cp in 0..=0x10FFFFu32 { if let Some(ch) = char::from_u32(cp) {
            n += 1;
            let l = lower(ch); let n1 = nfkc(&[ch]); let n2 = nfkc(&l);
            for (name, v) in [("to_lowercase", &l), ("nfkc", &n1), ("nfkc(to_lowercase)", &n2)] {
                if v.is_empty() || (v[0] == ch && v.len() != 1) { failures.push(format!("AX1 fails for U+{:04X}: {} = {:?}", cp, name, v)); }
            }
            if quick_yes(ch) && n2 != l { failures.push(format!("AX2 fails for U+{:04X}: quick check Yes but nfkc(lower) {:?} != lower {:?}", cp, n2, l)); }
            // needs_lowercase is "lower-casing changes the character"
            if needs_lowercase(ch) != (l != vec![ch]) { failures.push(format!("needs_lowercase(U+{:04X}) = {} but to_lowercase = {:?}", cp, needs_lowercase(ch), l)); }
        }}
        println!("verif_oracle_unicode_axioms_all_scalars: {} scalar values, {} failures", n, failures.len());
        for f in failures.iter().take(5) { println!("FAILING INPUT: {}", f); }
        assert!(failures.is_empty());
    }

    /// executable restatement of norm_edits applied to the text (C07 statement)
    fn reference(text: &str, table: &[(&str, &str)], ignore: &[char]) -> String {
        let mut out = String::new();
        let mut i = 0;
        while i < text.len() {
            let rest = &text[i..];
            let mut best: Option<(&str, &str)> = None;
            for (k, v) in table { if rest.starts_with(k) && best.map(|b| k.len() > b.0.len()).unwrap_or(true) { best = Some((k, v)); } }
            if let Some((k, v)) = best { out.push_str(v); i += k.len(); continue; }
            let ch = rest.chars().next().unwrap();
            let l = lower(ch);
            let nf = if ignore.contains(&ch) { l } else { nfkc(&l) };
            out.extend(nf.iter());
            i += ch.len_utf8();
        }
        out
    }

    #[test]
    fn verif_oracle_rewrite_equals_specification() {
        let tables: [&[(&str, &str)]; 6] = [&[], &[("a", "x"), ("ab", "y"), ("c", "")], &[("あい", "z"), ("ｶ", "カ"), ("b", "bb")], &[("aあ", "か"), ("a", "q"), ("bあい", "w")],
            // keys of different length sharing their first (multi-byte) character, the shorter listed first and listed last
            &[("い", "1"), ("いあ", "2"), ("いあい", "3")], &[("いあい", "3"), ("いあ", "2"), ("い", "1")]];
        let ignores: [&[char]; 2] = [&[], &['Ａ', 'ｶ']];
        let alphabet = ["a", "b", "c", "A", "Ａ", "ǅ", "あ", "い", "ｶ"];
        let mut texts: Vec<String> = vec![String::new()];
        let mut frontier = vec![String::new()];
        for _ in 0..4 {
            let mut nf = Vec::new();
            for t in &frontier { for c in alphabet.iter() { let mut s = t.clone(); s.push_str(c); nf.push(s); } }
            texts.extend(nf.iter().cloned());
            frontier = nf;
        }
        let mut failures = Vec::new();
        let mut cases = 0usize;
        for table in tables.iter() { for ignore in ignores.iter() {
            let mut def = String::new();
            for c in ignore.iter() { def.push(*c); def.push('\n'); }
            for (k, v) in table.iter() { def.push_str(&format!("{} {}\n", k, if v.is_empty() { "\u{3000}".trim() } else { v })); }
            // an empty replacement cannot be written in the definition syntax: drop such rows from both sides
            let table: Vec<(&str, &str)> = table.iter().cloned().filter(|(_, v)| !v.is_empty()).collect();
            let mut def = String::new();
            for c in ignore.iter() { def.push(*c); def.push('\n'); }
            for (k, v) in table.iter() { def.push_str(&format!("{} {}\n", k, v)); }
            let mut plugin = DefaultInputTextPlugin::default();
            plugin.read_rewrite_lists(std::io::Cursor::new(def.as_bytes())).expect("rewrite table");
            for t in &texts {
                cases += 1;
                let mut buf = InputBuffer::from(t.as_str());
                plugin.rewrite(&mut buf).expect("rewrite");
                let want = reference(t, &table, ignore);
                if buf.current() != want {
                    failures.push(format!("text {:?} with table {:?} and exempt characters {:?}: normalised to {:?}, specification gives {:?}", t, table, ignore, buf.current(), want));
                }
            }
        }}
        println!("verif_oracle_rewrite_equals_specification: {} cases, {} failures", cases, failures.len());
        for f in failures.iter().take(5) { println!("FAILING INPUT: {}", f); }
        assert!(failures.is_empty());
    }

    /// COMPLETE over single characters: every Unicode scalar value, alone (optimised path first) and after a character that forces the
    /// general path, through the real plugin with an empty table and with a table that exempts a few characters, against the
    /// per-character rule of the statement.
    #[test]
    fn verif_oracle_every_scalar_value_through_the_plugin() {
        let mut failures = Vec::new();
        let mut cases = 0usize;
        for (ignore, table) in [(&[][..], &[][..]), (&['Ａ', 'ｶ', '゛', 'ヿ', '㍿'][..], &[("ｳﾞ", "ヴ"), ("か゛", "が")][..])] {
            let mut def = String::new();
            for c in ignore.iter() { def.push(*c); def.push('\n'); }
            for (k, v) in table.iter() { def.push_str(&format!("{} {}\n", k, v)); }
            let mut plugin = DefaultInputTextPlugin::default();
            plugin.read_rewrite_lists(std::io::Cursor::new(def.as_bytes())).expect("rewrite table");
            for cp in 0..=0x10FFFFu32 { if let Some(ch) = char::from_u32(cp) {
                if cp == 0 { continue; }
                for prefix in ["", "ǅ"] {
                    cases += 1;
                    let t = format!("{}{}", prefix, ch);
                    let mut buf = InputBuffer::from(t.as_str());
                    if plugin.rewrite(&mut buf).is_err() { failures.push(format!("text {:?}: rewrite fails", t)); continue; }
                    let want = reference(&t, table, ignore);
                    if buf.current() != want && failures.len() < 50 {
                        failures.push(format!("text {:?} (U+{:04X}) with table {:?} and exempt characters {:?}: normalised to {:?}, specification gives {:?}", t, cp, table, ignore, buf.current(), want));
                    }
                }
            }}
        }
        println!("verif_oracle_every_scalar_value_through_the_plugin: {} cases, {} failures", cases, failures.len());
        for f in failures.iter().take(5) { println!("FAILING INPUT: {}", f); }
        assert!(failures.is_empty());
    }
