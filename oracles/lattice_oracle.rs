    // Replay oracle for V-LAT: executable restatement of lat_fresh (Lattice::reset) and of theorem_viterbi (insert / connect_eos /
    // fill_top_path), enumerated over small lattices on the real code.  BOUNDED: texts of up to 4 code points, 2x2 matrix.
    use crate::dic::connect::ConnectionMatrix;
    use crate::dic::word_id::WordId;

    fn matrix(vals: [i16; 4]) -> Vec<u8> { vals.iter().flat_map(|v| v.to_le_bytes()).collect() }

    fn fill(l: &mut Lattice, len: usize, conn: &ConnectionMatrix, cost: i16) {
        for b in 0..len { for e in b + 1..=len {
            l.insert(Node::new(b as u16, e as u16, (b % 2) as u16, (e % 2) as u16, cost, WordId::new(0, (b * 8 + e) as u32)), conn);
        }}
    }

    #[test]
    fn verif_oracle_reset_leaves_nothing_behind() {
        let bytes = matrix([0, 1, 2, 3]);
        let conn = ConnectionMatrix::from_offset_size(&bytes, 0, 2, 2).unwrap();
        let mut failures = Vec::new();
        let mut cases = 0;
        for l1 in 0..5usize { for l2 in 0..5usize { for l3 in 0..5usize {
            cases += 1;
            let mut lat = Lattice::default();
            lat.reset(l1); fill(&mut lat, l1, &conn, -7); let _ = lat.connect_eos(&conn);
            lat.reset(l2); fill(&mut lat, l2, &conn, -5); let _ = lat.connect_eos(&conn);
            lat.reset(l3);
            let mut bad = Vec::new();
            if lat.size != l3 + 1 { bad.push(format!("size {}", lat.size)); }
            if lat.eos.is_some() { bad.push("eos kept".to_string()); }
            for i in 0..=l3 {
                let want = if i == 0 { 1 } else { 0 };
                if lat.ends[i].len() != want { bad.push(format!("ends[{}] has {} nodes", i, lat.ends[i].len())); }
                if !lat.ends_full[i].is_empty() { bad.push(format!("ends_full[{}] has {} nodes", i, lat.ends_full[i].len())); }
                if !lat.indices[i].is_empty() { bad.push(format!("indices[{}] has {} entries", i, lat.indices[i].len())); }
            }
            if !bad.is_empty() { failures.push(format!("one Lattice reused for texts of {} then {} then {} code points: after the third reset {}", l1, l2, l3, bad.join(", "))); }
        }}}
        println!("verif_oracle_reset_leaves_nothing_behind: {} cases, {} failures", cases, failures.len());
        for f in failures.iter().take(5) { println!("FAILING INPUT: {}", f); }
        assert!(failures.is_empty());
    }

    /// all candidate sets over a text of `len` code points: every span is absent or present with one of two costs
    fn best_by_brute_force(len: usize, nodes: &[(usize, usize, u16, u16, i16)], conn: &ConnectionMatrix) -> Option<i32> {
        // exhaustive search over all node sequences tiling 0..len
        fn go(pos: usize, len: usize, right: u16, acc: i32, nodes: &[(usize, usize, u16, u16, i16)], conn: &ConnectionMatrix, best: &mut Option<i32>) {
            if pos == len {
                let total = acc + conn.cost(right, 0) as i32;
                if best.map(|b| total < b).unwrap_or(true) { *best = Some(total); }
                return;
            }
            for n in nodes.iter().filter(|n| n.0 == pos) {
                go(n.1, len, n.3, acc + conn.cost(right, n.2) as i32 + n.4 as i32, nodes, conn, best);
            }
        }
        let mut best = None;
        go(0, len, 0, 0, nodes, conn, &mut best);
        best
    }

    #[test]
    fn verif_oracle_viterbi_minimal() {
        let mut failures = Vec::new();
        let mut cases = 0usize;
        // small costs, and costs / connection costs at the ends of the i16 range (an edge cost then exceeds i16; sums stay far below i32)
        let mats = [[0i16, 0, 0, 0], [0, 5, -3, 2], [4, -6, 7, 1], [32767, 5000, -32768, -5000]];
        for (mi, m) in mats.iter().enumerate() {
            let big = mi == 3;
            let bytes = matrix(*m);
            let conn = ConnectionMatrix::from_offset_size(&bytes, 0, 2, 2).unwrap();
            for len in 1..=3usize {
                let spans: Vec<(usize, usize)> = (0..len).flat_map(|b| (b + 1..=len).map(move |e| (b, e))).collect();
                let choices = 3usize.pow(spans.len() as u32);
                for code in 0..choices {
                    let mut c = code;
                    let mut nodes = Vec::new();
                    for (k, (b, e)) in spans.iter().enumerate() {
                        let pick = c % 3; c /= 3;
                        if pick == 0 { continue; }
                        let cost: i16 = if big { if pick == 1 { 30000 } else { -30000 + k as i16 } } else if pick == 1 { 3 } else { -4 + k as i16 };
                        nodes.push((*b, *e, ((b + k) % 2) as u16, ((e + k) % 2) as u16, cost));
                    }
                    cases += 1;
                    let mut lat = Lattice::default();
                    lat.reset(len);
                    // insertion in the order of LatticeBuilder: by begin
                    for n in nodes.iter() { lat.insert(Node::new(n.0 as u16, n.1 as u16, n.2, n.3, n.4, WordId::new(0, 1)), &conn); }
                    let r = lat.connect_eos(&conn);
                    let want = best_by_brute_force(len, &nodes, &conn);
                    let ctx = format!("text of {} code points, matrix {:?}, candidates (begin,end,left,right,cost) {:?}", len, m, nodes);
                    match (r, want) {
                        (Err(_), None) => {}
                        (Err(_), Some(w)) => failures.push(format!("{}: no path reported, but a path of cost {} exists", ctx, w)),
                        (Ok(()), None) => failures.push(format!("{}: a path was reported although none exists", ctx)),
                        (Ok(()), Some(w)) => {
                            let got = lat.eos.unwrap().1;
                            if got != w { failures.push(format!("{}: best path cost {} reported, minimum is {}", ctx, got, w)); continue; }
                            // the returned path is connected, tiles the text and its recomputed cost is the reported one
                            let mut path = Vec::new();
                            lat.fill_top_path(&mut path);
                            let mut pos = len; let mut total = 0i32; let mut right_of_next: u16 = 0; // EOS left id 0
                            let mut ok = true;
                            for idx in path.iter() {
                                let (n, _) = lat.node(*idx);
                                if n.end() != pos { ok = false; break; }
                                total += conn.cost(n.right_id(), right_of_next) as i32 + n.cost() as i32;
                                right_of_next = n.left_id();
                                pos = n.begin();
                            }
                            total += conn.cost(0, right_of_next) as i32;
                            if !ok || pos != 0 || total != got { failures.push(format!("{}: returned path does not tile the text or its cost {} differs from the reported {}", ctx, total, got)); }
                        }
                    }
                }
            }
        }
        println!("verif_oracle_viterbi_minimal: {} cases, {} failures", cases, failures.len());
        for f in failures.iter().take(5) { println!("FAILING INPUT: {}", f); }
        assert!(failures.is_empty());
    }
