// UNIT V-CONN (C02, C03, C05, C20): dic/connect.rs ConnectionMatrix::index / cost / update / num_left / num_right
use vstd::prelude::*;
verus! {
global size_of usize == 8;

//@extract sudachi/src/dic/connect.rs :: struct ConnectionMatrix
//@  rw R5 1 custom
//@  | CowArray<'a, i16>
//@  > Vec<i16>, _lt: core::marker::PhantomData<&'a ()>
//@end

//@include specs/conn_specs.rs.inc
proof fn axiom_vec_len_fits<T>(v: &Vec<T>)
    ensures v@.len() <= usize::MAX
{ admit(); }

impl<'a> ConnectionMatrix<'a> {
//@extract sudachi/src/dic/connect.rs :: impl<'a> ConnectionMatrix<'a> :: fn index
//@  rw R3 3
//@  ret r
//@  specfile specs/conn_index.contract
//@  before let index = 
        proof { lemma_cell_in_range(self.num_left as int, self.num_right as int, uleft as int, uright as int);
                assert(uright * self.num_left <= self.num_right * self.num_left) by (nonlinear_arith) requires uright <= self.num_right;
                assert(self.num_right * self.num_left == self.num_left * self.num_right) by (nonlinear_arith);
                axiom_vec_len_fits(&self.data); }
//@end

//@extract sudachi/src/dic/connect.rs :: impl<'a> ConnectionMatrix<'a> :: fn cost
//@  rw R4 1
//@  ret c
//@  specfile specs/conn_cost.contract
//@end

//@extract sudachi/src/dic/connect.rs :: impl<'a> ConnectionMatrix<'a> :: fn update
//@  rw R5 1 custom
//@  | self\.data\.set\(index, value\)
//@  > self.data.set(index, value)
//@  specfile specs/conn_update.contract
//@end

//@extract sudachi/src/dic/connect.rs :: impl<'a> ConnectionMatrix<'a> :: fn num_left
//@  ret r
//@  spec
        ensures r == self.num_left
//@end
//@extract sudachi/src/dic/connect.rs :: impl<'a> ConnectionMatrix<'a> :: fn num_right
//@  ret r
//@  spec
        ensures r == self.num_right
//@end
}

} // verus!
fn main() {}
