#!/bin/bash
# usage: seed_check.sh <patch file> <Cxx> [<Cyy> ...]   -- applies the patch to /repo, runs the quick checks, undoes it.
# The evidence files of the checked properties are saved and restored: committed evidence must come from the unchanged tree.
P=$1; shift
git -C /repo apply "$P" || { echo "patch does not apply to /repo"; exit 2; }
mkdir -p /tmp/seed/evbak
for c in "$@"; do cp /verif/evidence/$c.json /tmp/seed/evbak/$c.json 2>/dev/null; done
for c in "$@"; do (cd /verif && ./check $c quick; echo "rc=$?"); done
for c in "$@"; do cp /tmp/seed/evbak/$c.json /verif/evidence/$c.json 2>/dev/null; done
git -C /repo checkout -- . ; git -C /repo status --short
