// LEMMA UNIT L-C01: the property statement of C01 (and the code-point clause of C08) derived from the unit contracts.
// Pure proof functions; every hypothesis is a postcondition of a unit under contract or a named assumption.
use vstd::prelude::*;
use vstd::utf8::*;
use vstd::string::*;
use std::ops::Range;
verus! {
global size_of usize == 8;
//@include common/error.rs.inc
//@include common/wordid_stub.rs.inc
//@include common/category_type.rs.inc
//@include common/node_types.rs.inc
//@extract sudachi/src/input_text/buffer/edit.rs :: struct ReplaceOp
//@end
//@extract sudachi/src/input_text/buffer/edit.rs :: enum ReplaceTgt
//@end
//@extract sudachi/src/input_text/buffer/mod.rs :: enum BufferState
//@  derive Clone, PartialEq, Eq, Structural
//@end
//@extract sudachi/src/input_text/buffer/mod.rs :: struct InputBuffer
//@  rw R1p 1 custom
//@  | edit::ReplaceOp
//@  > ReplaceOp
//@end
spec fn char_off(s: Seq<char>, k: int) -> int { encode_utf8(s.subrange(0, k)).len() as int }
//@include specs/cont_specs.rs.inc
//@include specs/m2o_ok.rs.inc
//@include specs/bufro_specs.rs.inc
//@include specs/node_specs.rs.inc
//@include specs/coarsen_specs.rs.inc

/// tokens cover the normalised text: first begins at character 0, each begins where the previous ended, last ends at nch
/// (v_lattice: back_path is a valid_path ending at size-1 = nch; v_node / v_katakana / v_numeric / split_path preserve it)
spec fn covers(p: Seq<ResultNode>, nch: int) -> bool {
    &&& p.len() > 0 && p[0].inner.begin == 0 && p.last().inner.end == nch
    &&& forall|i: int| 0 <= i < p.len() ==> (#[trigger] p[i]).inner.begin <= p[i].inner.end <= nch
    &&& forall|i: int| 0 <= i < p.len() - 1 ==> (#[trigger] p[i]).inner.end == p[i + 1].inner.begin
}
/// byte offsets of a token are the byte offsets of its first and one-past-last character (v_path: token_ok; v_node: merged_at
/// copies them from the merged tokens; for split sub-tokens this needs the units to end on character boundaries)
spec fn bytes_match(p: Seq<ResultNode>, b: InputBuffer) -> bool {
    forall|i: int| 0 <= i < p.len() ==> (#[trigger] p[i]).begin_bytes == b.mod_c2b@[p[i].inner.begin as int] && p[i].end_bytes == b.mod_c2b@[p[i].inner.end as int]
}
/// the byte range of token i in the ORIGINAL text, as Morpheme::begin/end/surface compute it
spec fn orig_begin(p: Seq<ResultNode>, b: InputBuffer, i: int) -> int { b.m2o@[p[i].begin_bytes as int] as int }
spec fn orig_end(p: Seq<ResultNode>, b: InputBuffer, i: int) -> int { b.m2o@[p[i].end_bytes as int] as int }

/// C01: the morphemes' byte ranges partition the original input, in text order, on UTF-8 character boundaries
proof fn theorem_c01_partition(b: InputBuffer, p: Seq<ResultNode>)
    requires buf_ro(b), b.mod_chars@.len() > 0, covers(p, b.mod_chars@.len() as int), bytes_match(p, b),
    ensures
        orig_begin(p, b, 0) == 0,
        forall|i: int| 0 <= i < p.len() - 1 ==> #[trigger] orig_end(p, b, i) == orig_begin(p, b, i + 1),
        orig_end(p, b, p.len() - 1) == sbytes(b.original).len(),
        forall|i: int| 0 <= i < p.len() ==> 0 <= #[trigger] orig_begin(p, b, i) <= orig_end(p, b, i) <= sbytes(b.original).len(),
        forall|i: int| 0 <= i < p.len() ==> is_char_boundary(sbytes(b.original), #[trigger] orig_begin(p, b, i)) && is_char_boundary(sbytes(b.original), orig_end(p, b, i)),
{
    let n = b.mod_chars@.len() as int;
    let nb = sbytes(b.modified).len() as int;
    let c2b = b.mod_c2b@;
    assert(c2b[0] == char_off(b.modified@, 0)) by { assert(0 < n); }
    assert(b.modified@.subrange(0, 0) =~= Seq::<char>::empty());
    lemma_enc_empty();
    assert(c2b[0] == 0);
    encode_utf8_valid_utf8(b.modified@);
    is_char_boundary_start_end_of_seq(sbytes(b.modified));
    assert forall|i: int| 0 <= i < p.len() implies 0 <= #[trigger] orig_begin(p, b, i) <= orig_end(p, b, i) <= sbytes(b.original).len()
        && is_char_boundary(sbytes(b.original), orig_begin(p, b, i)) && is_char_boundary(sbytes(b.original), orig_end(p, b, i)) by {
        let bg = p[i].inner.begin as int; let en = p[i].inner.end as int;
        if bg < en { assert(c2b[bg] < c2b[en]); }
        assert(c2b[bg] <= c2b[en] <= nb) by { if en < n { assert(c2b[en] < c2b[n]); } }
        if bg < n { assert(is_char_boundary(sbytes(b.modified), c2b[bg] as int)); }
        if en < n { assert(is_char_boundary(sbytes(b.modified), c2b[en] as int)); }
    }
}
proof fn lemma_enc_empty()
    ensures encode_utf8(Seq::<char>::empty()) == Seq::<u8>::empty()
{ reveal_with_fuel(encode_utf8, 2); }

/// merging adjacent tokens (path-rewrite plugins, C14) keeps the cover and the byte/character agreement
proof fn lemma_coarsening_keeps_cover(old: Seq<ResultNode>, new: Seq<ResultNode>, b: InputBuffer, renorm: bool)
    requires covers(old, b.mod_chars@.len() as int), bytes_match(old, b), is_coarsening(old, new, renorm), new.len() > 0,
    ensures covers(new, b.mod_chars@.len() as int), bytes_match(new, b),
{
    let nch = b.mod_chars@.len() as int;
    let cuts = choose|cuts: Seq<int>| #[trigger] coarsens(old, new, cuts, renorm);
    assert forall|k: int| 0 <= k < new.len() implies
        (#[trigger] new[k]).inner.begin == old[cuts[k]].inner.begin && new[k].inner.end == old[cuts[k + 1] - 1].inner.end
        && new[k].begin_bytes == old[cuts[k]].begin_bytes && new[k].end_bytes == old[cuts[k + 1] - 1].end_bytes
        && 0 <= cuts[k] < cuts[k + 1] <= old.len() by { assert(grp_ok(old, new, cuts, renorm, k)); }
    assert forall|i: int| 0 <= i < new.len() implies (#[trigger] new[i]).inner.begin <= new[i].inner.end <= nch by {
        assert(grp_ok(old, new, cuts, renorm, i));
        lemma_cover_chain(old, nch, cuts[i], cuts[i + 1] - 1);
    }
    assert forall|i: int| 0 <= i < new.len() - 1 implies (#[trigger] new[i]).inner.end == new[i + 1].inner.begin by {
        assert(grp_ok(old, new, cuts, renorm, i)); assert(grp_ok(old, new, cuts, renorm, i + 1));
    }
    assert(grp_ok(old, new, cuts, renorm, 0));
    assert(grp_ok(old, new, cuts, renorm, new.len() - 1));
}
proof fn lemma_cover_chain(p: Seq<ResultNode>, nch: int, a: int, b: int)
    requires covers(p, nch), 0 <= a <= b < p.len()
    ensures p[a].inner.begin <= p[b].inner.end
    decreases b - a
{
    if a < b { lemma_cover_chain(p, nch, a, b - 1); }
}
} // verus!
fn main() {}
