"""Kani route: inject harness modules into a scratch copy of /repo, run cargo kani, parse results.

Harness file format (kani/<name>.rs):
    //@kani target=sudachi/src/analysis/created.rs
    //@kani harness=<fn name> kind=complete|bounded [unwind=N] [note=...]
    <rust code that becomes the body of  #[cfg(kani)] mod verif_kani_<name> { use super::*; ... }>
"""
import os
import re
import shutil
import subprocess
import time

COPY_TOP = ['Cargo.toml', 'Cargo.lock', 'sudachi', 'sudachi-cli', 'sudachi-fuzz', 'plugin', 'python', 'resources']


class Harness:
    def __init__(self, name, kind, unwind=None, note=''):
        self.name, self.kind, self.unwind, self.note = name, kind, unwind, note
        self.status = None        # SUCCESSFUL / FAILED / UNDECIDED
        self.checks_total = 0
        self.checks_failed = 0
        self.failed_checks = []
        self.time_s = 0.0
        self.cover_unsat = []
        self.playback = ''
        self.raw_tail = ''


class KaniSet:
    def __init__(self, name, path):
        self.name, self.path = name, path
        self.target = None
        self.harnesses = []
        self.body = ''
        self.package = 'sudachi'
        self.stub_fmt = True


def parse_harness_file(path):
    name = os.path.splitext(os.path.basename(path))[0]
    ks = KaniSet(name, path)
    body = []
    with open(path, encoding='utf-8') as f:
        for line in f:
            st = line.strip()
            if st.startswith('//@kani '):
                kv = dict(p.split('=', 1) for p in st[len('//@kani '):].split() if '=' in p)
                if 'target' in kv:
                    ks.target = kv['target']
                if 'package' in kv:
                    ks.package = kv['package']
                if 'harness' in kv:
                    ks.harnesses.append(Harness(kv['harness'], kv.get('kind', 'complete'), kv.get('unwind'), kv.get('note', '')))
            else:
                body.append(line)
    ks.body = ''.join(body)
    return ks


def make_scratch(repo_root, scratch):
    os.makedirs(scratch, exist_ok=True)
    for t in COPY_TOP:
        src = os.path.join(repo_root, t)
        dst = os.path.join(scratch, t)
        if os.path.isdir(src):
            shutil.copytree(src, dst, ignore=shutil.ignore_patterns('target', '.git', '__pycache__', '*.so'))
        elif os.path.exists(src):
            shutil.copy2(src, dst)
    os.makedirs(os.path.join(scratch, '.cargo'), exist_ok=True)
    with open(os.path.join(scratch, '.cargo', 'config.toml'), 'w') as f:
        f.write('[net]\noffline = true\n')


def inject(scratch, ks: KaniSet):
    tgt = os.path.join(scratch, ks.target)
    if not os.path.exists(tgt):
        raise FileNotFoundError('lost anchor: %s' % ks.target)
    with open(tgt, 'a', encoding='utf-8') as f:
        f.write('\n#[cfg(kani)]\n#[allow(unused, non_snake_case, dead_code)]\nmod verif_kani_%s {\n    use super::*;\n%s\n}\n' % (ks.name, ks.body))


def run_harness(scratch, ks: KaniSet, h: Harness, target_dir, timeout=1200, default_unwind=2):
    env = dict(os.environ)
    env['CARGO_NET_OFFLINE'] = 'true'
    env['CARGO_TARGET_DIR'] = target_dir
    cmd = ['cargo', 'kani', '-p', ks.package, '-Z', 'stubbing', '-Z', 'function-contracts',
           '--harness', 'verif_kani_%s::%s' % (ks.name, h.name), '--exact',
           '--default-unwind', str(h.unwind or default_unwind), '--output-format', 'regular']
    t0 = time.time()
    try:
        p = subprocess.run(cmd, cwd=scratch, env=env, capture_output=True, text=True, timeout=timeout)
        out = p.stdout + '\n' + p.stderr
        rc = p.returncode
    except subprocess.TimeoutExpired as e:
        out = ((e.stdout or b'').decode('utf-8', 'replace') if isinstance(e.stdout, bytes) else (e.stdout or '')) + '\nTIMEOUT'
        rc = 124
        # make sure no cbmc is left behind
        subprocess.run(['pkill', '-9', '-x', 'cbmc'], capture_output=True)
    h.time_s = time.time() - t0
    h.raw_tail = out[-6000:]
    h.cmd = ' '.join(cmd)
    m = re.search(r'\*\* (\d+) of (\d+) failed', out)
    if m:
        h.checks_failed, h.checks_total = int(m.group(1)), int(m.group(2))
    if 'VERIFICATION:- SUCCESSFUL' in out:
        h.status = 'SUCCESSFUL'
    elif 'VERIFICATION:- FAILED' in out:
        h.status = 'FAILED'
        # failed checks
        for fm in re.finditer(r'Failed Checks: (.*)\n\s*File: "([^"]+)", line (\d+), in (\S+)', out):
            h.failed_checks.append({'desc': fm.group(1).strip(), 'file': fm.group(2), 'line': int(fm.group(3)), 'fn': fm.group(4)})
        # unwinding assertion failures on a complete harness mean "not loop free" -> undecided
    else:
        h.status = 'UNDECIDED'
    # cover results
    for cm in re.finditer(r'Check \d+: (\S+)\.cover\.\d+\s*\n\s*- Status: (\w+)\s*\n\s*- Description: "([^"]*)"', out):
        if cm.group(2) != 'SATISFIED':
            h.cover_unsat.append(cm.group(3))
    return h


def concrete_playback(scratch, ks: KaniSet, h: Harness, target_dir, timeout=1200, default_unwind=2):
    """Ask Kani for a concrete counterexample of a failed harness (printed as a unit test)."""
    env = dict(os.environ)
    env['CARGO_NET_OFFLINE'] = 'true'
    env['CARGO_TARGET_DIR'] = target_dir
    cmd = ['cargo', 'kani', '-p', ks.package, '-Z', 'stubbing', '-Z', 'function-contracts', '-Z', 'concrete-playback',
           '--concrete-playback=print',
           '--harness', 'verif_kani_%s::%s' % (ks.name, h.name), '--exact',
           '--default-unwind', str(h.unwind or default_unwind)]
    try:
        p = subprocess.run(cmd, cwd=scratch, env=env, capture_output=True, text=True, timeout=timeout)
        out = p.stdout + '\n' + p.stderr
    except subprocess.TimeoutExpired:
        return ''
    m = re.search(r'```\s*\n(.*?)```', out, re.S)
    h.playback = m.group(1) if m else ''
    return h.playback
