// F21 (C06, known finding, not repaired): demonstration against the real code.  Append to
// sudachi/src/dic/build/test/with_analysis.rs in a scratch copy of /repo and run
//   cargo test --offline -p sudachi --lib verif_user_dic_form -- --nocapture
// A user dictionary whose row names a dictionary form (column 13) - the existing system word `4`, or the existing user words `U0` /
// `U1` - compiles: validate_entries checks the reference like a split reference (bare number: system dictionary, `U<n>`: user
// dictionary).  The reader (WordInfos::get_word_info) resolves the stored number inside the lexicon that holds the word, so looking
// the word up panics ("range start index ... out of range", word_infos.rs word_id_to_offset / parse_word_info): for `4` the user
// lexicon has no fifth word, for `U0` the stored value is 0x10000000.  With `0` the lookup silently takes the user word 0 (すだち),
// not the system word 0 (京).
#[cfg(test)]
mod verif_user_dic_form {
    use super::*;
    #[test]
    fn user_dic_form() {
        let sys = "京,6,6,5293,京,名詞,固有名詞,地名,一般,*,*,キョウ,京,*,A,*,*,*,*\n都,8,8,2914,都,名詞,普通名詞,一般,*,*,*,ト,都,*,A,*,*,*,*\n京都,6,8,5320,京都,名詞,固有名詞,地名,一般,*,*,キョウト,京都,*,B,0/1,*,0/1,1/5\nに,2,2,11406,に,助詞,接続助詞,*,*,*,*,ニ,に,*,A,*,*,*,*\n五,9,9,2478,五,名詞,数詞,*,*,*,*,ゴ,五,*,A,*,*,*,*\n";
        for form in ["0", "4", "U0", "U1"] {
            let mut cfgb = ConfigTestSupport::new();
            let mut dic = DictBuilder::new_system();
            dic.read_conn(super::super::MATRIX_10_10).unwrap();
            dic.read_lexicon(sys.as_bytes()).unwrap();
            dic.resolve().unwrap();
            dic.compile(&mut cfgb.make_system()).unwrap();
            let jd = JapaneseDictionary::from_cfg(&cfgb.config()).unwrap();
            let user = format!("すだち,6,6,100,すだち,名詞,固有名詞,地名,一般,*,*,スダチ,すだち,*,A,*,*,*,*\n京都に,6,2,100,京都に,名詞,固有名詞,地名,一般,*,*,キョウトニ,京都に,{},C,*,*,*,*\n", form);
            let mut dic2 = DictBuilder::new_user(&jd);
            dic2.read_lexicon(user.as_bytes()).unwrap();
            dic2.resolve().unwrap();
            dic2.compile(&mut cfgb.add_user()).unwrap();           // accepted
            let jd2 = JapaneseDictionary::from_cfg(&cfgb.config()).unwrap();
            let r = std::panic::catch_unwind(std::panic::AssertUnwindSafe(|| {
                let mut ms = MorphemeList::empty(&jd2);
                ms.lookup("京都に", InfoSubset::all()).unwrap();
                ms.iter().map(|m| m.dictionary_form().to_string()).collect::<Vec<_>>()
            }));
            eprintln!("dictionary form column {:?}: {:?}", form, r.map_err(|_| "PANIC"));
        }
    }
}
