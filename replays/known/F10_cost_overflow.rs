// Demonstration for finding F10 (C03/C02): append to sudachi/src/dic/build/test/with_analysis.rs and run
// `cargo test -p sudachi --lib verif_f10`  (debug profile: overflow checks on -> "attempt to add with overflow";
// release profile: the i32 path cost silently wraps and the chosen path is no longer a minimum-cost path).
#[cfg(test)]
mod verif_f10 {
    use super::*;

    #[test]
    fn verif_f10_path_cost_fits_i32() {
        let mut cfgb = ConfigTestSupport::new();
        let mut dic = DictBuilder::new_system();
        // every connection between id 1 and id 1 costs 32767, as does the word itself
        let mut matrix = String::from("10 10\n");
        for l in 0..10 { for r in 0..10 { matrix.push_str(&format!("{} {} {}\n", l, r, if l == 1 && r == 1 { 32767 } else { 0 })); } }
        dic.read_conn(matrix.as_bytes()).unwrap();
        // the only words: the digit 1 (word cost 32767) and one noun that supplies the POS the test configuration needs
        let lex = "1,1,1,32767,1,名詞,数詞,*,*,*,*,イチ,1,*,A,*,*,*,*\nん,2,2,100,ん,名詞,普通名詞,一般,*,*,*,ン,ん,*,A,*,*,*,*\n";
        dic.read_lexicon(lex.as_bytes()).unwrap();
        dic.resolve().unwrap();
        dic.compile(&mut cfgb.make_system()).unwrap();
        let jd = JapaneseDictionary::from_cfg(&cfgb.config()).unwrap();
        let tok = StatelessTokenizer::new(&jd);
        // 40,000 bytes: inside the documented input limit of 49,149 bytes
        let text = "1".repeat(40_000);
        let result = std::panic::catch_unwind(std::panic::AssertUnwindSafe(|| tok.tokenize(&text, Mode::C, false).map(|l| l.len())));
        assert!(result.is_ok(), "tokenization panicked (i32 path cost overflow)");
    }
}
