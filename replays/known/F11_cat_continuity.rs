// Demonstration for finding F11 (C13): append to sudachi/src/input_text/buffer/mod.rs and run
// `cargo test -p sudachi --lib verif_f11`.
// A base character must not be separated from a following combining mark merely because of what follows the mark.
#[cfg(test)]
mod verif_f11 {
    use super::*;
    use crate::dic::character_category::CharacterCategory;
    use crate::test::zero_grammar;

    #[test]
    fn verif_f11_run_is_determined_left_to_right() {
        // a: ALPHA;  U+0301 (combining acute): ALPHA and KANJI;  漢: KANJI
        let def = "0x0061 ALPHA\n0x0301 ALPHA KANJI\n0x6F22 KANJI\n";
        let cc = CharacterCategory::from_reader(def.as_bytes()).expect("char.def");
        let mut grammar = zero_grammar();
        grammar.set_character_category(cc);
        let mut input = InputBuffer::from("a\u{0301}漢");
        input.build(&grammar).expect("build");
        // left to right: a and the mark share ALPHA -> run of 2; 漢 shares nothing with {ALPHA} -> new run
        assert_eq!(2, input.cat_continuous_len(0), "a + combining mark form one run");
        assert_eq!(1, input.cat_continuous_len(1));
        assert_eq!(1, input.cat_continuous_len(2));
    }
}
