// UNIT V-LOADER (C05, C12): dic/mod.rs  DictionaryLoader::read_any_dictionary / read_system_dictionary / read_user_dictionary / to_loaded --
// how a binary dictionary is taken apart: header from the first 272 bytes, the grammar section right behind it when the version has one,
// the lexicon right behind the grammar (or behind the header), synonym-id decoding switched by the version.
// The three readers are seen through their contracts, discharged on the real bodies in their own units: Header::parse / has_grammar /
// has_synonym_group_ids (v_header), Grammar::parse (v_gramrd: the size it reports is what write_grammar wrote), Lexicon::parse / set_dic_id
// (v_lexrd).  Here the section types are abstract values "the section parsed from these bytes at this offset".
// ASSUMED: a VALID dictionary (valid_dict: at least a header, the sections inside the buffer - the preconditions of the section readers);
// `&bytes[..272]` panics for a shorter buffer before Header::parse could report it (trusted input; observation, no listed property).
use vstd::prelude::*;
use vstd::string::*;
verus! {
global size_of usize == 8;
//@extract sudachi/src/dic/header.rs :: enum HeaderError
//@  derive
//@  rw R2 * custom
//@  | #\[error\((?:[^()]|\([^()]*\))*\)\]
//@  >
//@end
/// E1: the error variants this code constructs
enum SudachiError { InvalidHeader(HeaderError), InvalidDictionaryGrammar, Other }
type SudachiResult<T> = Result<T, SudachiError>;
impl From<HeaderError> for SudachiError { #[verifier::external_body] fn from(e: HeaderError) -> SudachiError { SudachiError::InvalidHeader(e) } }
//@extract sudachi/src/dic/header.rs :: enum HeaderVersion
//@  derive PartialEq, Eq, Structural
//@end
//@extract sudachi/src/dic/header.rs :: enum SystemDictVersion
//@  derive PartialEq, Eq, Structural
//@end
//@extract sudachi/src/dic/header.rs :: enum UserDictVersion
//@  derive PartialEq, Eq, Structural
//@end
//@extract sudachi/src/dic/header.rs :: struct Header
//@  derive
//@end
/// the header the first 272 bytes denote (v_header decides version and time; the description is assumed)
pub uninterp spec fn sp_header(b: Seq<u8>) -> Option<Header>;
spec fn has_grammar_v(v: HeaderVersion) -> bool { v is SystemDict || v == HeaderVersion::UserDict(UserDictVersion::Version2) || v == HeaderVersion::UserDict(UserDictVersion::Version3) }
spec fn has_syn_v(v: HeaderVersion) -> bool { v == HeaderVersion::SystemDict(SystemDictVersion::Version2) || v == HeaderVersion::UserDict(UserDictVersion::Version3) }
impl Header {
    // Rc: the associated consts as in dic/header.rs (DESCRIPTION_SIZE 256; STORAGE_SIZE = 8 + 8 + 256)
//@extract sudachi/src/dic/header.rs :: impl Header :: const DESCRIPTION_SIZE
//@end
//@extract sudachi/src/dic/header.rs :: impl Header :: const STORAGE_SIZE
//@end
    // contracts discharged on the real bodies in unit v_header
    #[verifier::external_body]
    fn parse(bytes: &[u8]) -> (r: Result<Header, HeaderError>)
        ensures r is Ok <==> sp_header(bytes@) is Some, r is Ok ==> Some(r->Ok_0) == sp_header(bytes@)
    { unimplemented!() }
    #[verifier::external_body] fn has_grammar(&self) -> (r: bool) ensures r == has_grammar_v(self.version) { unimplemented!() }
    #[verifier::external_body] fn has_synonym_group_ids(&self) -> (r: bool) ensures r == has_syn_v(self.version) { unimplemented!() }
}
/// the grammar section parsed at an offset; `storage_size` is the real field the loader reads (v_gramrd: table + dimensions + matrix)
#[verifier::external_body] pub struct GrammarBody<'a> { _p: core::marker::PhantomData<&'a ()> }
pub struct Grammar<'a> { pub storage_size: usize, pub pos_list: Vec<Vec<String>>, pub body: GrammarBody<'a> }
pub uninterp spec fn sp_grammar_size(b: Seq<u8>, off: int) -> int;
pub uninterp spec fn sp_grammar_ok(b: Seq<u8>, off: int) -> bool;       // gram_fits of v_gramrd
impl<'a> Grammar<'a> {
    pub uninterp spec fn sp_parsed_from(&self) -> (Seq<u8>, int);
    #[verifier::external_body]
    fn parse(buf: &'a [u8], offset: usize) -> (r: SudachiResult<Grammar<'a>>)
        requires sp_grammar_ok(buf@, offset as int)
        ensures r is Ok ==> r->Ok_0.sp_parsed_from() == (buf@, offset as int) && r->Ok_0.storage_size == sp_grammar_size(buf@, offset as int)
    { unimplemented!() }
}
/// the lexicon parsed at an offset (v_lexrd)
#[verifier::external_body] pub struct LexBody<'a> { _p: core::marker::PhantomData<&'a ()> }
pub struct Lexicon<'a> { pub lex_id: u8, pub body: LexBody<'a> }
pub uninterp spec fn sp_lex_ok(b: Seq<u8>, off: int) -> bool;           // lex_fits of v_lexrd
impl<'a> Lexicon<'a> {
    pub uninterp spec fn sp_parsed_from(&self) -> (Seq<u8>, int, bool);
    #[verifier::external_body]
    fn parse(buf: &'a [u8], original_offset: usize, has_synonym_group_ids: bool) -> (r: SudachiResult<Lexicon<'a>>)
        requires sp_lex_ok(buf@, original_offset as int)
        ensures r is Ok && r->Ok_0.sp_parsed_from() == (buf@, original_offset as int, has_synonym_group_ids) && r->Ok_0.lex_id == 255
    { unimplemented!() }
    #[verifier::external_body]
    fn set_dic_id(&mut self, id: u8)
        requires id < 15
        ensures final(self).lex_id == id, final(self).sp_parsed_from() == old(self).sp_parsed_from()
    { unimplemented!() }
}
/// LexiconSet::new (v_lset: one lexicon with number 0, system part-of-speech count recorded)
#[verifier::external_body] pub struct LexiconSet<'a> { _p: core::marker::PhantomData<&'a ()> }
impl<'a> LexiconSet<'a> {
    pub uninterp spec fn sp_system(&self) -> Lexicon<'a>;
    pub uninterp spec fn sp_num_system_pos(&self) -> usize;
    #[verifier::external_body]
    fn new(mut system_lexicon: Lexicon<'a>, num_system_pos: usize) -> (r: LexiconSet<'a>)
        ensures r.sp_system().sp_parsed_from() == system_lexicon.sp_parsed_from(), r.sp_num_system_pos() == num_system_pos
    { unimplemented!() }
}
#[verifier::external_body]
fn slice_to<'a>(s: &'a [u8], b: usize) -> (r: &'a [u8]) requires b <= s@.len() ensures r@ == s@.subrange(0, b as int) { &s[..b] }

//@extract sudachi/src/dic/mod.rs :: struct LoadedDictionary
//@end
//@extract sudachi/src/dic/mod.rs :: struct DictionaryLoader
//@end

/// where the lexicon of a dictionary starts: behind the header, and behind the grammar section when the version has one
spec fn lex_offset(b: Seq<u8>, h: Header) -> int { if has_grammar_v(h.version) { 272 + sp_grammar_size(b, 272) } else { 272 } }
/// a VALID dictionary (the preconditions of the section readers)
spec fn valid_dict(b: Seq<u8>) -> bool {
    &&& b.len() >= 272 && b.len() <= 0x7fff_ffff_ffff_ffff
    &&& sp_header(b.subrange(0, 272)) is Some ==> {
            let h = sp_header(b.subrange(0, 272))->Some_0;
            &&& (has_grammar_v(h.version) ==> sp_grammar_ok(b, 272) && 0 <= sp_grammar_size(b, 272) && 272 + sp_grammar_size(b, 272) <= b.len())
            &&& sp_lex_ok(b, lex_offset(b, h))
        }
}
/// what the loader returns for a buffer
spec fn loaded_from(d: DictionaryLoader, b: Seq<u8>) -> bool {
    let h = sp_header(b.subrange(0, 272))->Some_0;
    &&& d.header == h
    &&& (d.grammar is Some <==> has_grammar_v(h.version))
    &&& (d.grammar is Some ==> d.grammar->Some_0.sp_parsed_from() == (b, 272int))
    &&& d.lexicon.sp_parsed_from() == (b, lex_offset(b, h), has_syn_v(h.version))
}

impl<'a> DictionaryLoader<'a> {
//@extract sudachi/src/dic/mod.rs :: impl<'a> DictionaryLoader<'a> :: fn read_any_dictionary
//@  rw Ru 1 custom
//@  | (?:pub )?unsafe fn read_any_dictionary\(dictionary_bytes: &\[u8\]\) -> SudachiResult<DictionaryLoader> \{
//@  > fn read_any_dictionary(dictionary_bytes: &'a [u8]) -> SudachiResult<DictionaryLoader<'a>> {
//@  rw R13 1 custom
//@  | &dictionary_bytes\[\.\.Header::STORAGE_SIZE\]
//@  > slice_to(dictionary_bytes, Header::STORAGE_SIZE)
//@  ret r
//@  spec
        requires valid_dict(dictionary_bytes@)
        ensures
            // C05: header, grammar and lexicon are read from consecutive places: the order and sizes the compiler writes them with
            r is Ok ==> sp_header(dictionary_bytes@.subrange(0, 272)) is Some,
            r is Ok ==> loaded_from(r->Ok_0, dictionary_bytes@),
//@end
//@extract sudachi/src/dic/mod.rs :: impl<'a> DictionaryLoader<'a> :: fn read_system_dictionary
//@  rw Ru 1 custom
//@  | (?:pub )?fn read_system_dictionary\(dictionary_bytes: &\[u8\]\) -> SudachiResult<DictionaryLoader> \{
//@  > fn read_system_dictionary(dictionary_bytes: &'a [u8]) -> SudachiResult<DictionaryLoader<'a>> {
//@  rw Ru 1 custom
//@  | unsafe \{ Self::read_any_dictionary\(dictionary_bytes\) \}\?
//@  > Self::read_any_dictionary(dictionary_bytes)?
//@  rw R1p * custom
//@  | header::Header
//@  > Header
//@  ret r
//@  spec
        requires valid_dict(dictionary_bytes@)
        ensures
            r is Ok ==> loaded_from(r->Ok_0, dictionary_bytes@) && r->Ok_0.header.version is SystemDict,
            // a user dictionary is never accepted where a system dictionary is asked for
            sp_header(dictionary_bytes@.subrange(0, 272)) is Some && !(sp_header(dictionary_bytes@.subrange(0, 272))->Some_0.version is SystemDict) ==> r is Err,
//@end
//@extract sudachi/src/dic/mod.rs :: impl<'a> DictionaryLoader<'a> :: fn read_user_dictionary
//@  rw Ru 1 custom
//@  | (?:pub )?fn read_user_dictionary\(dictionary_bytes: &\[u8\]\) -> SudachiResult<DictionaryLoader> \{
//@  > fn read_user_dictionary(dictionary_bytes: &'a [u8]) -> SudachiResult<DictionaryLoader<'a>> {
//@  rw Ru 1 custom
//@  | unsafe \{ Self::read_any_dictionary\(dictionary_bytes\) \}\?
//@  > Self::read_any_dictionary(dictionary_bytes)?
//@  rw R1p * custom
//@  | header::Header
//@  > Header
//@  ret r
//@  spec
        requires valid_dict(dictionary_bytes@)
        ensures
            r is Ok ==> loaded_from(r->Ok_0, dictionary_bytes@) && r->Ok_0.header.version is UserDict,
            sp_header(dictionary_bytes@.subrange(0, 272)) is Some && !(sp_header(dictionary_bytes@.subrange(0, 272))->Some_0.version is UserDict) ==> r is Err,
//@end
//@extract sudachi/src/dic/mod.rs :: impl<'a> DictionaryLoader<'a> :: fn to_loaded
//@  ret r
//@  spec
        ensures
            r is Some <==> self.grammar is Some,
            // C12: the system dictionary gets number 0 and the count of ITS parts of speech is recorded (user ones are rebased behind it)
            r is Some ==> r->Some_0.grammar == self.grammar->Some_0 && r->Some_0.lexicon_set.sp_system().sp_parsed_from() == self.lexicon.sp_parsed_from()
                && r->Some_0.lexicon_set.sp_num_system_pos() == self.grammar->Some_0.pos_list@.len(),
//@end
}
} // verus!
fn main() {}
