    // BOUNDED end-to-end oracle for C20 (stand-in for what no unit has under contract: the serde layer of the plugin settings and the
    // set_up glue between JSON, the check functions and the grammar).  Small dictionaries with a 3x3, a 2x4 and a 4x2 connection matrix
    // whose every cell holds a distinct cost are loaded with plugin settings whose ids and costs sweep the boundaries (negative, 0,
    // the last line, the dimension, the other dimension, the i16 / u16 limits and beyond):
    //  * SimpleOovPlugin / RegexOovProvider: the configuration loads only if the ids name lines of the matrix and the cost is an i16;
    //    when it loads, analysing an out-of-vocabulary text does not panic and the path cost reported for the OOV morpheme is
    //    matrix(sentence start -> leftId) + cost as read from the matrix TEXT;
    //  * InhibitConnectionPlugin: the configuration loads only if both ids name lines; when it loads exactly that cell is inhibited
    //    and every other cell keeps the cost of the matrix text.
    // Non-square matrices are the listed known finding F4 (ids are checked against the other dimension): reported as a known class.
    fn matrix_text(l: usize, r: usize) -> String {
        let mut s = format!("{} {}\n", l, r);
        for i in 0..l { for j in 0..r { s.push_str(&format!("{} {} {}\n", i, j, 100 * i + 10 * j + 1)); } }
        s
    }
    fn cell(i: usize, j: usize) -> i32 { (100 * i + 10 * j + 1) as i32 }
    const LEX: &str = "あ,0,0,100,あ,名詞,普通名詞,一般,*,*,*,ア,あ,*,A,*,*,*,*\nい,1,1,200,い,名詞,普通名詞,一般,*,*,*,イ,い,*,A,*,*,*,*\n";
    fn base(l: usize, r: usize) -> ConfigTestSupport {
        let mut cfgb = ConfigTestSupport::new();
        let mut dic = DictBuilder::new_system();
        dic.read_conn(matrix_text(l, r).as_bytes()).unwrap();
        dic.read_lexicon(LEX.as_bytes()).unwrap();
        dic.resolve().unwrap();
        dic.compile(&mut cfgb.make_system()).unwrap();
        cfgb
    }
    fn ids(l: usize, r: usize) -> Vec<i64> {
        let mut v: Vec<i64> = vec![-32769, -32768, -1, 0, 1, l as i64 - 1, l as i64, r as i64 - 1, r as i64, l.max(r) as i64, 32767, 32768, 65535, 65536, 4294967296];
        v.sort(); v.dedup(); v
    }

    #[test]
    fn verif_oracle_plugin_ids_and_costs() {
        let mut failures: Vec<String> = Vec::new();
        let (mut cases, mut loaded, mut known_f4) = (0usize, 0usize, 0usize);
        for (l, r) in [(3usize, 3usize), (2, 4), (4, 2)] {
            let cfgb = base(l, r);
            // the matrix is read back as written (orientation of this oracle: a text line "i j c" is cost(i, j))
            {
                let mut cfg = cfgb.config(); cfg.path_rewrite_plugins.clear();
                cfg.oov_provider_plugins = vec![serde_json::json!({"class": "com.worksap.nlp.sudachi.SimpleOovPlugin", "oovPOS": ["名詞", "普通名詞", "一般", "*", "*", "*"], "leftId": 0, "rightId": 0, "cost": 30000})];
                let jd = JapaneseDictionary::from_cfg(&cfg).expect("base configuration");
                let m = jd.grammar().conn_matrix();
                assert_eq!((m.num_left(), m.num_right()), (l, r));
                for i in 0..l { for j in 0..r { assert_eq!(m.cost(i as u16, j as u16) as i32, cell(i, j)); } }
            }
            for class in ["SimpleOovPlugin", "RegexOovProvider"] {
                for &x in ids(l, r).iter() { for &y in ids(l, r).iter() { for &c in [-32769i64, -32768, 0, 500, 32767, 32768].iter() {
                    if c != 500 && !(x == 0 && y == 0) && !(x == 1 && y == 1) { continue; }          // costs are swept for two id pairs only
                    cases += 1;
                    let mut cfg = cfgb.config(); cfg.path_rewrite_plugins.clear();
                    let mut plugin = serde_json::json!({"class": format!("com.worksap.nlp.sudachi.{}", class), "oovPOS": ["名詞", "普通名詞", "一般", "*", "*", "*"], "leftId": x, "rightId": y, "cost": c});
                    if class == "RegexOovProvider" { plugin["regex"] = serde_json::json!("[a-z]+"); }
                    let fallback = serde_json::json!({"class": "com.worksap.nlp.sudachi.SimpleOovPlugin", "oovPOS": ["名詞", "普通名詞", "一般", "*", "*", "*"], "leftId": 0, "rightId": 0, "cost": 30000});
                    cfg.oov_provider_plugins = if class == "RegexOovProvider" { vec![plugin, fallback] } else { vec![plugin] };
                    eprintln!("TRYING {}x{} matrix, {} leftId {} rightId {} cost {}", l, r, class, x, y, c);
                    let what = format!("{}x{} matrix, {} with leftId {} rightId {} cost {}", l, r, class, x, y, c);
                    let r0 = std::panic::catch_unwind(std::panic::AssertUnwindSafe(|| JapaneseDictionary::from_cfg(&cfg)));
                    let jd = match r0 {
                        Err(_) => { if failures.len() < 30 { failures.push(format!("{}: loading the configuration panics", what)); } continue; }
                        Ok(Err(_)) => continue,
                        Ok(Ok(jd)) => jd,
                    };
                    loaded += 1;
                    let in_range = x >= 0 && y >= 0 && (x as usize) < l.min(r) && (y as usize) < l.min(r) && c >= -32768 && c <= 32767;
                    let names_a_line = x >= 0 && y >= 0 && (x as usize) < l.max(r) && (y as usize) < l.max(r) && c >= -32768 && c <= 32767;
                    if !names_a_line { if failures.len() < 30 { failures.push(format!("{}: the configuration loads although an id names no line of the matrix or the cost is no i16", what)); } continue; }
                    let text = if class == "RegexOovProvider" { "abc" } else { "ん" };
                    let r1 = std::panic::catch_unwind(std::panic::AssertUnwindSafe(|| -> Result<(i32, bool), String> {
                        let mut tok = StatefulTokenizer::new(&jd, Mode::C);
                        tok.reset().push_str(text);
                        tok.do_tokenize().map_err(|e| format!("{:?}", e))?;
                        let mut ms = MorphemeList::empty(&jd);
                        ms.collect_results(&mut tok).map_err(|e| format!("{:?}", e))?;
                        if ms.len() != 1 { return Err(format!("{} morphemes", ms.len())); }
                        let m = ms.get(0);
                        let _ = (m.surface().len(), m.part_of_speech().len(), m.normalized_form().len());
                        Ok((m.total_cost(), m.is_oov()))
                    }));
                    let verdict: Result<(), String> = match r1 {
                        Err(_) => Err("analysing an out-of-vocabulary text panics".to_string()),
                        Ok(Err(e)) => Err(format!("analysing an out-of-vocabulary text fails: {}", e)),
                        Ok(Ok((total, oov))) => {
                            // sentence start has right id 0: the connection read is the text line "0 x"
                            let want = if (x as usize) < r { Some(cell(0, x as usize) + c as i32) } else { None };
                            if !oov { Err("the morpheme is not reported as out of vocabulary".to_string()) }
                            else if want != Some(total) { Err(format!("path cost of the OOV morpheme is {}, matrix text gives {:?}", total, want)) } else { Ok(()) }
                        }
                    };
                    if let Err(e) = verdict {
                        if l != r && !in_range { known_f4 += 1; if known_f4 == 1 { println!("KNOWN-CLASS non-square-matrix-ids: {}: the configuration loads, but {}", what, e); } }
                        else if failures.len() < 30 { failures.push(format!("{}: the configuration loads, but {}", what, e)); }
                    }
                }}}
            }
            // inhibited connection pairs
            for &a in ids(l, r).iter() { for &b in ids(l, r).iter() {
                cases += 1;
                let mut cfg = cfgb.config(); cfg.path_rewrite_plugins.clear();
                cfg.oov_provider_plugins = vec![serde_json::json!({"class": "com.worksap.nlp.sudachi.SimpleOovPlugin", "oovPOS": ["名詞", "普通名詞", "一般", "*", "*", "*"], "leftId": 0, "rightId": 0, "cost": 30000})];
                cfg.connection_cost_plugins = vec![serde_json::json!({"class": "com.worksap.nlp.sudachi.InhibitConnectionPlugin", "inhibitPair": [[a, b]]})];
                eprintln!("TRYING {}x{} matrix, inhibitPair [{}, {}]", l, r, a, b);
                let what = format!("{}x{} matrix, InhibitConnectionPlugin with the pair [{}, {}]", l, r, a, b);
                let r0 = std::panic::catch_unwind(std::panic::AssertUnwindSafe(|| JapaneseDictionary::from_cfg(&cfg)));
                let jd = match r0 {
                    Err(_) => { if failures.len() < 30 { failures.push(format!("{}: loading the configuration panics", what)); } continue; }
                    Ok(Err(_)) => continue,
                    Ok(Ok(jd)) => jd,
                };
                loaded += 1;
                if !(a >= 0 && b >= 0 && (a as usize) < l && (b as usize) < r) { if failures.len() < 30 { failures.push(format!("{}: the configuration loads although the pair names no cell of the matrix", what)); } continue; }
                let m = jd.grammar().conn_matrix();
                for i in 0..l { for j in 0..r {
                    let got = m.cost(i as u16, j as u16) as i32;
                    let want = if (i, j) == (a as usize, b as usize) { 32767 } else { cell(i, j) };
                    if got != want && failures.len() < 30 { failures.push(format!("{}: cell ({}, {}) holds {} afterwards, expected {}", what, i, j, got, want)); }
                }}
            }}
        }
        println!("verif_oracle_plugin_ids_and_costs: {} configurations ({} loaded, {} of them with ids beyond the smaller dimension of a non-square matrix and a failing analysis), {} failures", cases, loaded, known_f4, failures.len());
        for f in failures.iter().take(8) { println!("FAILING INPUT: {}", f); }
        assert!(failures.is_empty());
    }
