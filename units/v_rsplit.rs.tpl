// UNIT V-RSPLIT (C05, C06): dic/build/lexicon.rs  LexiconReader::resolve_splits / resolve_split and SplitUnitResolver::resolve --
// the driver that replaces the inline split references of a lexicon by word ids.
// The resolver is a trait with a specification function (what an inline reference resolves to: RawDictResolver::resolve_inline is under
// contract in v_resolve, BinDictResolver reads the system dictionary and is ASSUMED to be a function of the reference).
// Decided: on success EVERY split unit of EVERY entry (A and B lists) is a word-id reference; units that were references are unchanged,
// every inline reference became the id its resolver names; the count returned is the number of inline references replaced; nothing
// else of an entry changes and no entry is added or dropped; failure is reported exactly when some inline reference has no target,
// and then the line number returned is the first entry holding one.
// Dropped / rewritten: the error text (`s.format(self)` behind an `unsafe transmute` that only re-borrows for the message, R12).
use vstd::prelude::*;
use vstd::string::*;
verus! {
global size_of usize == 8;
//@include common/error.rs.inc
//@include common/build_prelude.rs.inc
//@include common/wordid_stub.rs.inc
//@extract sudachi/src/analysis/mod.rs :: enum Mode
//@  derive Clone, Copy, PartialEq, Eq, Structural
//@end
#[verifier::external_body] fn err_string() -> String { String::new() }   // R12: message texts are not verified
#[verifier::external_body] fn opt_as_deref(o: &Option<String>) -> (r: Option<&str>)
    ensures r is Some <==> o is Some, r is Some ==> r->Some_0@ == o->Some_0@ { o.as_deref() }
#[verifier::external_body] fn string_as_str(s: &String) -> (r: &str) ensures r@ == s@ { s.as_str() }

//@extract sudachi/src/dic/build/lexicon.rs :: enum SplitUnit
//@  derive
//@end
//@extract sudachi/src/dic/build/lexicon.rs :: struct RawLexiconEntry
//@end
#[verifier::external_body] pub struct PosTable { _p: () }
#[verifier::external_body] pub struct DicCompilationCtx { _p: () }
//@extract sudachi/src/dic/build/lexicon.rs :: struct LexiconReader
//@  rw R14 1 custom
//@  | IndexMap<StrPosEntry, u16>
//@  > PosTable
//@end

/// what an inline reference (headword, part of speech, optional reading) names, per resolver
spec fn opt_text(o: Option<String>) -> Option<Seq<char>> { match o { Some(s) => Some(s@), None => None } }
spec fn unit_target<R: SplitUnitResolver>(r: &R, u: SplitUnit) -> Option<WordId> {
    match u {
        SplitUnit::Ref(w) => Some(w),
        SplitUnit::Inline { surface, pos, reading } => r.sp_inline(surface@, pos, opt_text(reading)),
    }
}
trait SplitUnitResolver {
    spec fn sp_inline(&self, surface: Seq<char>, pos: u16, reading: Option<Seq<char>>) -> Option<WordId>;
    fn resolve_inline(&self, surface: &str, pos: u16, reading: Option<&str>) -> (r: Option<WordId>)
        ensures r == self.sp_inline(surface@, pos, match reading { Some(s) => Some(s@), None => None });
}
// R11t: the default method `SplitUnitResolver::resolve` is checked as a free generic function of the same body
//@extract sudachi/src/dic/build/lexicon.rs :: trait SplitUnitResolver :: fn resolve
//@  rw R11t 1 custom
//@  | fn resolve\(&self, unit: &SplitUnit\)
//@  > fn resolver_resolve<R: SplitUnitResolver>(__self: &R, unit: &SplitUnit)
//@  rw R11t 1 custom
//@  | self\.resolve_inline\(&surface, \*pos, reading\.as_deref\(\)\)
//@  > __self.resolve_inline(string_as_str(surface), *pos, opt_as_deref(reading))
//@  ret r
//@  spec
        ensures r == unit_target(__self, *unit)
//@end

/// a list after resolution: same length, references kept, inline references replaced by their target
spec fn units_resolved<R: SplitUnitResolver>(r: &R, old_l: Seq<SplitUnit>, new_l: Seq<SplitUnit>) -> bool {
    &&& new_l.len() == old_l.len()
    &&& forall|k: int| 0 <= k < new_l.len() ==> unit_target(r, old_l[k]) is Some && #[trigger] new_l[k] == SplitUnit::Ref(unit_target(r, old_l[k])->Some_0)
}
spec fn n_inline(l: Seq<SplitUnit>) -> int decreases l.len() {
    if l.len() == 0 { 0 } else { n_inline(l.drop_last()) + (if l.last() is Inline { 1int } else { 0int }) }
}
/// everything of an entry but its split lists
spec fn same_but_splits(a: RawLexiconEntry, b: RawLexiconEntry) -> bool {
    &&& a.left_id == b.left_id && a.right_id == b.right_id && a.cost == b.cost && a.surface == b.surface && a.headword == b.headword
    &&& a.dic_form == b.dic_form && a.norm_form == b.norm_form && a.pos == b.pos && a.reading == b.reading && a.splitting == b.splitting
    &&& a.word_structure == b.word_structure && a.synonym_groups == b.synonym_groups
}
spec fn entry_resolved<R: SplitUnitResolver>(r: &R, a: RawLexiconEntry, b: RawLexiconEntry) -> bool {
    same_but_splits(a, b) && units_resolved(r, a.splits_a@, b.splits_a@) && units_resolved(r, a.splits_b@, b.splits_b@)
}
spec fn entry_inline(e: RawLexiconEntry) -> int { n_inline(e.splits_a@) + n_inline(e.splits_b@) }
spec fn total_inline(es: Seq<RawLexiconEntry>) -> int decreases es.len() {
    if es.len() == 0 { 0 } else { total_inline(es.drop_last()) + entry_inline(es.last()) }
}
/// some unit of the list has no target
spec fn has_dangling<R: SplitUnitResolver>(r: &R, l: Seq<SplitUnit>) -> bool { exists|k: int| 0 <= k < l.len() && unit_target(r, #[trigger] l[k]) is None }

impl LexiconReader {
//@extract sudachi/src/dic/build/lexicon.rs :: impl LexiconReader :: fn resolve_split
//@  rw Rq 1 custom
//@  | let wid = resolver\.resolve\(&\*unit\)\?;
//@  > let wid = match resolver_resolve(resolver, &*unit) { Some(w) => w, None => return None };
//@  ret r
//@  spec
        ensures
            unit_target(resolver, *old(unit)) is None ==> r is None && *final(unit) == *old(unit),
            unit_target(resolver, *old(unit)) is Some ==> r is Some && *final(unit) == SplitUnit::Ref(unit_target(resolver, *old(unit))->Some_0)
                && r->Some_0 == (if *old(unit) is Inline { 1usize } else { 0usize }),
//@end

//@extract sudachi/src/dic/build/lexicon.rs :: impl LexiconReader :: fn resolve_splits
//@  attr #[verifier::loop_isolation(false)]
//@  rw R6m 3
//@  rw R12 2 custom
//@  | let s: &SplitUnit = unsafe \{ std::mem::transmute\(&\*s\) \};\s*let split_info = s\.format\(self\);
//@  > let split_info = err_string();
//@  ret r
//@  spec
        requires
            // at most 127 units per list (parse_slash_list, v_parse) and fewer than 2^28 entries (word numbers have 28 bits)
            old(self).entries@.len() <= 0x1000_0000,
            forall|i: int| 0 <= i < old(self).entries@.len() ==> (#[trigger] old(self).entries@[i]).splits_a@.len() <= 127 && old(self).entries@[i].splits_b@.len() <= 127,
        ensures
            r is Ok ==> final(self).entries@.len() == old(self).entries@.len(),
            // C05 / C06: on success every unit of every entry is a word-id reference: references kept, inline references replaced by
            // the word their resolver names; nothing else of an entry changes
            r is Ok ==> forall|i: int| 0 <= i < final(self).entries@.len() ==> entry_resolved(resolver, old(self).entries@[i], #[trigger] final(self).entries@[i]),
            // failure only for a reference that names no word; the line reported is the first entry holding one
            r is Err ==> r->Err_0.1 < old(self).entries@.len()
                && (has_dangling(resolver, old(self).entries@[r->Err_0.1 as int].splits_a@) || has_dangling(resolver, old(self).entries@[r->Err_0.1 as int].splits_b@))
                && forall|i: int| 0 <= i < r->Err_0.1 ==> !has_dangling(resolver, (#[trigger] old(self).entries@[i]).splits_a@) && !has_dangling(resolver, old(self).entries@[i].splits_b@),
//@  atstart
        let ghost es0 = self.entries@;
//@  loop 1
            invariant
                self.entries@.len() == es0.len(), es0 == old(self).entries@, __im_e <= es0.len(), line == __im_e, es0.len() <= 0x1000_0000,
                total <= 254 * __im_e,
                forall|i: int| 0 <= i < es0.len() ==> (#[trigger] es0[i]).splits_a@.len() <= 127 && es0[i].splits_b@.len() <= 127,
                forall|i: int| 0 <= i < __im_e ==> entry_resolved(resolver, es0[i], #[trigger] self.entries@[i]),
                forall|i: int| __im_e <= i < es0.len() ==> #[trigger] self.entries@[i] == es0[i],
                forall|i: int| 0 <= i < __im_e ==> !has_dangling(resolver, (#[trigger] es0[i]).splits_a@) && !has_dangling(resolver, es0[i].splits_b@),
            decreases es0.len() - __im_e
//@  after let e = &mut self.entries
            let ghost e0 = es0[__im_e - 1];
            let ghost t0 = total;
            proof { assert(*e == e0); }
//@  before line += 
            proof {
                assert forall|k: int| 0 <= k < e0.splits_a@.len() implies unit_target(resolver, #[trigger] e0.splits_a@[k]) is Some by { let x = e.splits_a@[k]; }
                assert forall|k: int| 0 <= k < e0.splits_b@.len() implies unit_target(resolver, #[trigger] e0.splits_b@[k]) is Some by { let x = e.splits_b@[k]; }
            }
//@  loop 2
                invariant
                    __im_s <= e.splits_a@.len(), e.splits_a@.len() == e0.splits_a@.len(), e0.splits_a@.len() <= 127, same_but_splits(e0, *e), e.splits_b == e0.splits_b,
                    t0 <= 254 * 0x1000_0000, t0 <= total <= t0 + __im_s,
                    forall|k: int| 0 <= k < __im_s ==> unit_target(resolver, e0.splits_a@[k]) is Some && #[trigger] e.splits_a@[k] == SplitUnit::Ref(unit_target(resolver, e0.splits_a@[k])->Some_0),
                    forall|k: int| __im_s <= k < e.splits_a@.len() ==> #[trigger] e.splits_a@[k] == e0.splits_a@[k],
                decreases e.splits_a@.len() - __im_s
//@  loop 3
                invariant
                    __im_s <= e.splits_b@.len(), e.splits_b@.len() == e0.splits_b@.len(), e0.splits_b@.len() <= 127, same_but_splits(e0, *e),
                    units_resolved(resolver, e0.splits_a@, e.splits_a@),
                    t0 <= 254 * 0x1000_0000, t0 <= total <= t0 + 127 + __im_s,
                    forall|k: int| 0 <= k < __im_s ==> unit_target(resolver, e0.splits_b@[k]) is Some && #[trigger] e.splits_b@[k] == SplitUnit::Ref(unit_target(resolver, e0.splits_b@[k])->Some_0),
                    forall|k: int| __im_s <= k < e.splits_b@.len() ==> #[trigger] e.splits_b@[k] == e0.splits_b@[k],
                decreases e.splits_b@.len() - __im_s
//@end

}
} // verus!
fn main() {}
