// UNIT V-LEXW (C05, C06): dic/build/lexicon.rs  LexiconWriter::write -- the word section of the binary dictionary:
// entry count, the connection parameters of every entry, the table of word-info offsets, then the word-info records.
// The record of one entry (write_word_info) and its parameters (write_params) are under contract in unit v_wiw; here they are opaque byte
// strings and this unit decides the LAYOUT: every offset in the table is the absolute position at which that entry's record starts.
use vstd::prelude::*;
use vstd::string::*;
verus! {
global size_of usize == 8;
//@include common/error.rs.inc
//@include common/build_prelude.rs.inc
//@include common/wordid_stub.rs.inc
impl From<IoErr> for SudachiError { #[verifier::external_body] fn from(e: IoErr) -> SudachiError { SudachiError::Other } }
#[verifier::external_body] fn err_string() -> String { String::new() }   // R12: message texts are not verified
//@include specs/codec_wr32.rs.inc
//@extract sudachi/src/analysis/mod.rs :: enum Mode
//@  derive Clone, Copy, PartialEq, Eq, Structural
//@end
#[verifier::external_body] pub struct Reporter { _p: () }
#[verifier::external_body] pub struct ReportBuilder { _p: () }
impl ReportBuilder { #[verifier::external_body] fn new(desc: &str) -> ReportBuilder { unimplemented!() } }
impl Reporter { #[verifier::external_body] fn collect(&mut self, end: usize, report: ReportBuilder) { unimplemented!() } }
#[verifier::external_body] pub struct DicCompilationCtx { _p: () }
impl DicCompilationCtx {
    #[verifier::external_body] fn memory() -> DicCompilationCtx { unimplemented!() }
    #[verifier::external_body] fn set_filename(&mut self, new_name: String) -> String { unimplemented!() }
    #[verifier::external_body] fn set_line(&mut self, line: usize) -> usize { unimplemented!() }
    #[verifier::external_body] fn add_line(&mut self, offset: usize) { unimplemented!() }
    #[verifier::external_body] fn transform<T>(&self, result: DicWriteResult<T>) -> (r: SudachiResult<T>)
        ensures result is Ok ==> r is Ok && r->Ok_0 == result->Ok_0, result is Err ==> r is Err { unimplemented!() }
}
pub struct Utf16Writer { _p: () }
/// the in-memory sink: a Vec<u8> grows by exactly the bytes written (std io::Write for Vec<u8>)
impl VWrite for Vec<u8> {
    open spec fn sink(&self) -> Seq<u8> { self@ }
    #[verifier::external_body]
    fn write_all(&mut self, buf: &[u8]) -> (r: Result<(), IoErr>) { self.extend_from_slice(buf); Ok(()) }
    #[verifier::external_body]
    fn write(&mut self, buf: &[u8]) -> (r: Result<usize, IoErr>) { self.extend_from_slice(buf); Ok(buf.len()) }
}
//@extract sudachi/src/dic/build/lexicon.rs :: enum SplitUnit
//@  derive
//@end
//@extract sudachi/src/dic/build/lexicon.rs :: struct RawLexiconEntry
//@end
/// the six parameter bytes and the word-info record of an entry (unit v_wiw: le16(left) le16(right) le16(cost); wi_bytes)
pub uninterp spec fn params_rec(e: RawLexiconEntry) -> Seq<u8>;
pub uninterp spec fn wi_rec(e: RawLexiconEntry) -> Seq<u8>;
impl RawLexiconEntry {
// contracts discharged on the real bodies in unit v_wiw
//@extract sudachi/src/dic/build/lexicon.rs :: impl RawLexiconEntry :: fn write_params
//@  stub v_wiw
//@  rw R15 1 custom
//@  | <W: Write>
//@  > <W: VWrite>
//@  ret r
//@  spec
        ensures r is Ok ==> final(w).sink() == old(w).sink() + params_rec(*self) && r->Ok_0 == 6 && params_rec(*self).len() == 6,
//@end
//@extract sudachi/src/dic/build/lexicon.rs :: impl RawLexiconEntry :: fn write_word_info
//@  stub v_wiw
//@  rw R15 1 custom
//@  | <W: Write>
//@  > <W: VWrite>
//@  ret r
//@  spec
        ensures r is Ok ==> final(w).sink() == old(w).sink() + wi_rec(*self) && r->Ok_0 == wi_rec(*self).len(),
//@end
}
//@extract sudachi/src/dic/build/lexicon.rs :: struct LexiconWriter
//@end

/// parameters of the first k entries / records of the first k entries / their total length
spec fn params_all(es: Seq<RawLexiconEntry>, k: int) -> Seq<u8> decreases k { if k <= 0 { Seq::empty() } else { params_all(es, k - 1) + params_rec(es[k - 1]) } }
spec fn recs_all(es: Seq<RawLexiconEntry>, k: int) -> Seq<u8> decreases k { if k <= 0 { Seq::empty() } else { recs_all(es, k - 1) + wi_rec(es[k - 1]) } }
spec fn recs_len(es: Seq<RawLexiconEntry>, k: int) -> int decreases k { if k <= 0 { 0 } else { recs_len(es, k - 1) + wi_rec(es[k - 1]).len() } }
/// where the records start, as an absolute position: section start + count + 6 parameter bytes and 4 offset bytes per entry
spec fn rec_base(section: int, n: int) -> int { section + 4 + 10 * n }
/// C05: the offset table: entry i points at the absolute position of ITS record
spec fn offsets_all(es: Seq<RawLexiconEntry>, section: int, k: int) -> Seq<u8> decreases k
{ if k <= 0 { Seq::empty() } else { offsets_all(es, section, k - 1) + le32((rec_base(section, es.len() as int) + recs_len(es, k - 1)) as u32) } }
proof fn lemma_recs_len(es: Seq<RawLexiconEntry>, k: int)
    requires 0 <= k ensures recs_all(es, k).len() == recs_len(es, k) && recs_len(es, k) >= 0 decreases k
{ if k > 0 { lemma_recs_len(es, k - 1); } }
proof fn lemma_recs_mono(es: Seq<RawLexiconEntry>, a: int, b: int)
    requires 0 <= a <= b ensures recs_len(es, a) <= recs_len(es, b) decreases b - a
{ if a < b { lemma_recs_mono(es, a, b - 1); } }
proof fn lemma_params_len(es: Seq<RawLexiconEntry>, k: int)
    requires 0 <= k, forall|i: int| 0 <= i < k ==> (#[trigger] params_rec(es[i])).len() == 6
    ensures params_all(es, k).len() == 6 * k decreases k
{ if k > 0 { lemma_params_len(es, k - 1); } }
proof fn lemma_offsets_len(es: Seq<RawLexiconEntry>, section: int, k: int)
    requires 0 <= k ensures offsets_all(es, section, k).len() == 4 * k decreases k
{ if k > 0 { lemma_offsets_len(es, section, k - 1); lemma_le32_len((rec_base(section, es.len() as int) + recs_len(es, k - 1)) as u32); } }

impl<'a> LexiconWriter<'a> {
//@extract sudachi/src/dic/build/lexicon.rs :: impl<'a> LexiconWriter<'a> :: fn write
//@  rw R15 1 custom
//@  | <W: Write>
//@  > <W: VWrite>
//@  rw R12 1 custom
//@  | ctx\.set_filename\("<write entries>"\.to_owned\(\)\);
//@  > ctx.set_filename(err_string());
//@  rw R13b * custom
//@  | w\.write_all\(&(\w+)\.to_le_bytes\(\)\)\?;
//@  > w.write_all(u32_to_le_bytes(\1).as_slice())?;
//@  rw R6v 2 custom
//@  | for e in self\.entries \{
//@  > let mut __ie: usize = 0; while __ie < self.entries.len() { let e = &self.entries[__ie]; __ie += 1;
//@  rw R15 1 custom
//@  | w\.(write_all|write)\(&self\.buffer\)
//@  > w.\1(self.buffer.as_slice())
//@  ret r
//@  spec
        requires
            old(self).buffer@.len() == 0,
            // the whole dictionary stays below 4 GiB (offsets are stored as u32; NOT checked by the code: assumption, see level_note)
            old(self).offset + 4 + 10 * old(self).entries@.len() + recs_len(old(self).entries@, old(self).entries@.len() as int) <= u32::MAX,
        ensures
            r is Ok ==> ({
                let es = old(self).entries@; let n = es.len() as int; let section = old(self).offset as int;
                // C05 / C06: count, parameters, offset table, records - nothing else, and a sink failure is never a success
                &&& final(w).sink() == old(w).sink() + le32(n as u32) + params_all(es, n) + offsets_all(es, section, n) + recs_all(es, n)
                &&& r->Ok_0 == 4 + 10 * n + recs_len(es, n)
            }),
//@  atstart
        let ghost s0 = w.sink();
        let ghost es = self.entries@;
        let ghost n = es.len() as int;
        let ghost section = self.offset as int;
        proof { lemma_recs_len(es, n); }
//@  loop 1
            invariant
                self.entries@ == es, n == es.len(), self.offset == section, self.buffer@.len() == 0, __ie <= n, num_entries == n as u32,
                section + 4 + 10 * n + recs_len(es, n) <= u32::MAX, recs_len(es, n) >= 0,
                total == 4 + 6 * __ie,
                forall|i: int| 0 <= i < __ie ==> (#[trigger] params_rec(es[i])).len() == 6,
                w.sink() == s0 + le32(n as u32) + params_all(es, __ie as int),
            decreases n - __ie
//@  before let rep = ReportBuilder::new("word_params");
        proof { assert(w.sink() + params_all(es, 0) =~= w.sink()); }
//@  after total += ctx.transform(e.write_params(w))?;
            proof { assert(w.sink() =~= s0 + le32(n as u32) + params_all(es, __ie as int)); }
//@  loop 2
            invariant
                self.entries@ == es, n == es.len(), self.offset == section, __ie <= n, start == 4 + 6 * n,
                section + 4 + 10 * n + recs_len(es, n) <= u32::MAX, recs_len(es, n) >= 0,
                offset_base == rec_base(section, n), word_offset == recs_len(es, __ie as int), total == 4 + 6 * n + 4 * __ie,
                self.buffer@ == recs_all(es, __ie as int),
                w.sink() == s0 + le32(n as u32) + params_all(es, n) + offsets_all(es, section, __ie as int),
            decreases n - __ie
//@  before let rep = ReportBuilder::new("wordinfo_offsets");
        proof { assert(w.sink() + offsets_all(es, section, 0) =~= w.sink()); assert(self.buffer@ =~= recs_all(es, 0)); }
//@  before let u32_offset =
            proof { lemma_recs_mono(es, __ie as int - 1, n); lemma_recs_mono(es, __ie as int, n); }
//@  before total += 4;
            proof {
                assert(w.sink() =~= s0 + le32(n as u32) + params_all(es, n) + offsets_all(es, section, __ie as int));
                assert(self.buffer@ =~= recs_all(es, __ie as int));
            }
//@  atend
        proof { lemma_recs_len(es, n); }
//@end
}
/// C05: the i-th slot of the offset table holds the position, counted from the start of the file, at which the record of entry i
/// begins - provided the writer was given the position of its section (DictBuilder::write_lexicon passes header + grammar + index size)
proof fn theorem_offset_points_at_record(es: Seq<RawLexiconEntry>, section: int, i: int)
    requires 0 <= i < es.len(), forall|k: int| 0 <= k < es.len() ==> (#[trigger] params_rec(es[k])).len() == 6
    ensures ({
        let n = es.len() as int;
        let body = le32(n as u32) + params_all(es, n) + offsets_all(es, section, n) + recs_all(es, n);
        let pos = 4 + 6 * n + 4 * n + recs_len(es, i);       // where record i starts inside the section
        &&& section + pos == rec_base(section, n) + recs_len(es, i)
        &&& 0 <= pos && pos + wi_rec(es[i]).len() <= body.len()
        &&& body.subrange(pos, pos + wi_rec(es[i]).len()) == wi_rec(es[i])
    })
{
    let n = es.len() as int;
    lemma_params_len(es, n); lemma_offsets_len(es, section, n); lemma_recs_len(es, n); lemma_recs_len(es, i); lemma_le32_len(n as u32);
    lemma_rec_at(es, i, n);
    let head = le32(n as u32) + params_all(es, n) + offsets_all(es, section, n);
    let body = head + recs_all(es, n);
    assert(head.len() == 4 + 6 * n + 4 * n);
    let pos = head.len() + recs_len(es, i);
    assert(body.subrange(pos, pos + wi_rec(es[i]).len()) =~= recs_all(es, n).subrange(recs_len(es, i), recs_len(es, i) + wi_rec(es[i]).len()));
}
proof fn lemma_rec_at(es: Seq<RawLexiconEntry>, i: int, k: int)
    requires 0 <= i < k
    ensures recs_len(es, i) >= 0, recs_len(es, i) + wi_rec(es[i]).len() <= recs_all(es, k).len(),
        recs_all(es, k).subrange(recs_len(es, i), recs_len(es, i) + wi_rec(es[i]).len()) == wi_rec(es[i])
    decreases k
{
    lemma_recs_len(es, i); lemma_recs_len(es, k); lemma_recs_len(es, k - 1);
    if i == k - 1 {
        assert(recs_all(es, k).subrange(recs_len(es, i), recs_len(es, i) + wi_rec(es[i]).len()) =~= wi_rec(es[i]));
    } else {
        lemma_rec_at(es, i, k - 1);
        assert(recs_all(es, k).subrange(recs_len(es, i), recs_len(es, i) + wi_rec(es[i]).len())
            =~= recs_all(es, k - 1).subrange(recs_len(es, i), recs_len(es, i) + wi_rec(es[i]).len()));
    }
}
} // verus!
fn main() {}
