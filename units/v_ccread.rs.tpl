// UNIT V-CCREAD (C17): dic/character_category.rs  CharacterCategory::read_character_definition -- the reader of the character-class
// definition file: which lines define a range, which range and which classes a line defines.
// Text handling is ASSUMED (wrappers: lines, trim, starts_with, split_whitespace, split(".."), hexadecimal number parsing, class names);
// this unit decides the STRUCTURE: comment / blank / non-`0x` lines define nothing; a definition line `0xA[..0xB] C1 C2 ... [# comment]`
// defines exactly ONE range from A to B inclusive (end stored exclusive) - or the single code point A - with the UNION of the classes
// named before the first `#` column; ranges are reported in line order, one per defining line, nothing merged, dropped or reordered -
// the hypothesis under which v_cc proves that lookup = union of the covering definitions; a line without classes column, with an empty
// or inverted range, with an end point that is no scalar value, or with an unknown class name makes the whole file fail.
// PRECONDITION kept (observation, outside the listed properties: a malformed definition file is a configuration error): the code adds 1
// to the parsed end point in u32, so `0xFFFFFFFF` as an end point overflows (panic with overflow checks) instead of being refused.
use vstd::prelude::*;
use vstd::string::*;
verus! {
global size_of usize == 8;
//@include common/error.rs.inc
//@include common/category_type.rs.inc
#[verifier::external_body] fn err_string() -> String { String::new() }   // R12: message texts are not verified
//@extract sudachi/src/dic/character_category.rs :: struct CatRange
//@  derive
//@end
/// the error values of this reader (payloads dropped, R12)
pub enum Error { InvalidFormat(usize), InvalidCategoryType(usize, String), InvalidChar(u32, usize) }
fn cc_err<T>(e: Error) -> (r: SudachiResult<T>) ensures r is Err { Err(SudachiError::Other) }

// ---- the text of a line as the reader sees it (ASSUMED std contracts; uninterpreted functions of the line)
uninterp spec fn ln_trim(l: Seq<char>) -> Seq<char>;
uninterp spec fn ln_cols(l: Seq<char>) -> Seq<Seq<char>>;          // split_whitespace of the trimmed line
uninterp spec fn col_parts(c: Seq<char>) -> Seq<Seq<char>>;        // split("..") of the first column
uninterp spec fn hexv(p: Seq<char>) -> Option<u32>;                // the part without its `0x` prefix read as a hexadecimal number
uninterp spec fn cat_named(c: Seq<char>) -> Option<CategoryType>;  // the class a name denotes
spec fn starts_hash(l: Seq<char>) -> bool { l.len() > 0 && l[0] == '#' }
uninterp spec fn starts_0x(l: Seq<char>) -> bool;
#[verifier::external_body] pub struct Reader { _p: () }
impl Reader { pub uninterp spec fn sp_lines(&self) -> Seq<Seq<char>>; pub uninterp spec fn sp_readable(&self) -> bool; }
#[verifier::external_body] fn reader_lines(reader: Reader) -> (r: SudachiResult<Vec<String>>)
    ensures r is Ok <==> reader.sp_readable(), r is Ok ==> r->Ok_0@.len() == reader.sp_lines().len() && forall|i: int| 0 <= i < r->Ok_0@.len() ==> (#[trigger] r->Ok_0@[i])@ == reader.sp_lines()[i] { unimplemented!() }
#[verifier::external_body] fn str_trim(s: &str) -> (r: &str) ensures r@ == ln_trim(s@) { s.trim() }
#[verifier::external_body] fn str_is_empty(s: &str) -> (r: bool) ensures r == (s@.len() == 0) { s.is_empty() }
#[verifier::external_body] fn str_starts_hash(s: &str) -> (r: bool) ensures r == starts_hash(s@) { s.starts_with('#') }
#[verifier::external_body] fn str_starts_0x(s: &str) -> (r: bool) ensures r == starts_0x(s@) { s.starts_with("0x") }
#[verifier::external_body] fn str_split_ws<'a>(s: &'a str) -> (r: Vec<&'a str>)
    ensures r@.len() == ln_cols(s@).len(), forall|i: int| 0 <= i < r@.len() ==> (#[trigger] r@[i])@ == ln_cols(s@)[i] && r@[i]@.len() > 0 { s.split_whitespace().collect() }
#[verifier::external_body] fn str_split_dots<'a>(s: &'a str) -> (r: Vec<&'a str>)
    ensures r@.len() >= 1, r@.len() == col_parts(s@).len(), forall|i: int| 0 <= i < r@.len() ==> (#[trigger] r@[i])@ == col_parts(s@)[i] { s.split("..").collect() }
#[verifier::external_body] fn hex_of(s: &str) -> (r: SudachiResult<u32>) ensures r is Ok <==> hexv(s@) is Some, r is Ok ==> Some(r->Ok_0) == hexv(s@)
    { unimplemented!() }
#[verifier::external_body] fn parse_category(s: &str) -> (r: Result<CategoryType, ()>) ensures r is Ok <==> cat_named(s@) is Some, r is Ok ==> Some(r->Ok_0) == cat_named(s@) { unimplemented!() }
#[verifier::external_body] fn str_first_char(s: &str) -> (r: char) requires s@.len() > 0 ensures r == s@[0] { s.chars().next().unwrap() }
spec fn is_scalar(v: u32) -> bool { v <= 0xD7FF || (0xE000 <= v && v <= 0x10FFFF) }
#[verifier::external_body] fn char_from_u32_is_none(v: u32) -> (r: bool) ensures r == !is_scalar(v) { char::from_u32(v).is_none() }

// ---- what a definition file denotes
/// a line that defines nothing: blank, comment, or not starting with `0x`
spec fn ln_skipped(l: Seq<char>) -> bool { let t = ln_trim(l); t.len() == 0 || starts_hash(t) || !starts_0x(t) }
/// number of class columns: the columns after the first up to (excluding) the first one that starts with `#`
spec fn n_classes(cols: Seq<Seq<char>>, k: int) -> int
    decreases cols.len() - k
{
    if k >= cols.len() || k < 1 { 0 } else if starts_hash(cols[k]) { 0 } else { 1 + n_classes(cols, k + 1) }
}
proof fn lemma_ncls_nonneg(cols: Seq<Seq<char>>, k: int)
    ensures n_classes(cols, k) >= 0
    decreases cols.len() - k
{ if !(k >= cols.len() || k < 1) && !starts_hash(cols[k]) { lemma_ncls_nonneg(cols, k + 1); } }
/// union of the classes named by columns 1 .. 1+n
spec fn classes_of(cols: Seq<Seq<char>>, n: int) -> u32
    decreases n
{
    if n <= 0 { 0 } else { classes_of(cols, n - 1) | cat_named(cols[n])->Some_0.bits }
}
/// the range a defining line denotes (None: the line makes the file fail)
spec fn ln_range(l: Seq<char>) -> Option<CatRange> {
    let cols = ln_cols(ln_trim(l));
    if cols.len() < 2 { None } else {
        let parts = col_parts(cols[0]);
        match hexv(parts[0]) {
            None => None,
            Some(b) => {
                let e: Option<int> = if parts.len() > 1 { match hexv(parts[1]) { Some(x) => Some(x as int + 1), None => None } } else { Some(b as int + 1) };
                match e {
                    None => None,
                    Some(e) => {
                        let n = n_classes(cols, 1);
                        if !(b < e) || e > 0xffff_ffff || !is_scalar(b) || !is_scalar(e as u32) || exists|k: int| 1 <= k <= n && cat_named(#[trigger] cols[k]) is None { None }
                        else { Some(CatRange { begin: b, end: e as u32, categories: CategoryType { bits: classes_of(cols, n) } }) }
                    }
                }
            }
        }
    }
}
/// the ranges of the first n lines, in line order
spec fn file_ranges(lines: Seq<Seq<char>>, n: int) -> Seq<CatRange>
    decreases n
{
    if n <= 0 { Seq::empty() } else if ln_skipped(lines[n - 1]) { file_ranges(lines, n - 1) } else { file_ranges(lines, n - 1).push(ln_range(lines[n - 1])->Some_0) }
}
spec fn file_ok(lines: Seq<Seq<char>>, n: int) -> bool { forall|i: int| 0 <= i < n ==> ln_skipped(#[trigger] lines[i]) || ln_range(lines[i]) is Some }
/// PRECONDITION (see the header): no end point is 0xFFFFFFFF
spec fn no_max_endpoint(lines: Seq<Seq<char>>) -> bool {
    forall|i: int| 0 <= i < lines.len() ==> {
        let cols = ln_cols(ln_trim(#[trigger] lines[i]));
        cols.len() >= 1 ==> forall|j: int| 0 <= j < col_parts(cols[0]).len() ==> hexv(#[trigger] col_parts(cols[0])[j]) != Some(0xffff_ffffu32)
    }
}

//@extract sudachi/src/dic/character_category.rs :: impl CharacterCategory :: fn read_character_definition
//@  attr #[verifier::loop_isolation(false)]
//@  rw R14t 1 custom
//@  | fn read_character_definition<T: BufRead>\(reader: T\)
//@  > fn read_character_definition(reader: Reader)
//@  rw R14r 1 custom
//@  | for \(i, line\) in reader\.lines\(\)\.enumerate\(\) \{\s*let line = line\?;\s*let line = line\.trim\(\);
//@  > let __ls = reader_lines(reader)?; let mut __il: usize = 0; while __il < __ls.len() { let i = __il; __il += 1; let line = str_trim(__ls[i].as_str());
//@  rw R13 1 custom
//@  | line\.is_empty\(\) \|\| line\.starts_with\('#'\) \|\| !line\.starts_with\("0x"\)
//@  > str_is_empty(line) || str_starts_hash(line) || !str_starts_0x(line)
//@  rw R13 1 custom
//@  | let cols: Vec<_> = line\.split_whitespace\(\)\.collect\(\);
//@  > let cols: Vec<&str> = str_split_ws(line);
//@  rw R13 1 custom
//@  | let r: Vec<_> = cols\[0\]\.split\("\.\."\)\.collect\(\);
//@  > let r: Vec<&str> = str_split_dots(cols[0]);
//@  rw R14p 2 custom
//@  | u32::from_str_radix\(String::from\(r\[(\d)\]\)\.trim_start_matches\("0x"\), 16\)\?
//@  > hex_of(r[\1])?
//@  rw R12 * custom
//@  | return Err\(SudachiError::InvalidCharacterCategory\(\s*(Error::\w+\((?:[^()]|\([^()]*\))*\)),?\s*\)\)
//@  > return cc_err(\1)
//@  rw R12 1 custom
//@  | elem\.to_string\(\)
//@  > err_string()
//@  rw R14p * custom
//@  | char::from_u32\((\w+)\)\.is_none\(\)
//@  > char_from_u32_is_none(\1)
//@  rw R6t 1 custom
//@  | for elem in cols\[1\.\.\]\s*\.iter\(\)\s*\.take_while\(\|elem\| elem\.chars\(\)\.next\(\)\.unwrap\(\) != '#'\)\s*\{
//@  > let mut __ie: usize = 1; while __ie < cols.len() && str_first_char(cols[__ie]) != '#' { let elem = &cols[__ie]; __ie += 1;
//@  rw R16 1 custom
//@  | categories\.insert\(match elem\.parse\(\) \{
//@  > categories = categories.union(match parse_category(elem) {
//@  ret r
//@  spec
        requires no_max_endpoint(reader.sp_lines())
        ensures
            // C17: the definitions handed to `compile` are exactly the lines of the file, one range per defining line, in order
            r is Ok <==> reader.sp_readable() && file_ok(reader.sp_lines(), reader.sp_lines().len() as int),
            r is Ok ==> r->Ok_0@ == file_ranges(reader.sp_lines(), reader.sp_lines().len() as int),
//@  atstart
        let ghost lines = reader.sp_lines();
//@  loop 1
            invariant
                __il <= __ls@.len(), __ls@.len() == lines.len(), forall|k: int| 0 <= k < __ls@.len() ==> (#[trigger] __ls@[k])@ == lines[k],
                file_ok(lines, __il as int), ranges@ == file_ranges(lines, __il as int),
            decreases __ls@.len() - __il
//@  after let cols: Vec<&str> = str_split_ws(line);
            let ghost lc = ln_cols(ln_trim(lines[i as int]));
            proof { assert(!ln_skipped(lines[i as int])); assert(cols@.len() == lc.len()); }
//@  after let r: Vec<&str> = str_split_dots(cols[0]);
            proof {
                let cc = ln_cols(ln_trim(lines[i as int]));
                assert(cc.len() >= 1);
                assert(forall|j: int| 0 <= j < col_parts(cc[0]).len() ==> hexv(#[trigger] col_parts(cc[0])[j]) != Some(0xffff_ffffu32));
                assert(r@[0]@ == col_parts(lc[0])[0]);
                if r@.len() > 1 { assert(r@[1]@ == col_parts(lc[0])[1]); }
            }
//@  loop 2
                invariant
                    1 <= __ie <= cols@.len(),
                    forall|k: int| 1 <= k < __ie ==> !starts_hash(#[trigger] lc[k]) && cat_named(lc[k]) is Some,
                    categories.bits == classes_of(lc, __ie - 1),
                    n_classes(lc, 1) == (__ie - 1) + n_classes(lc, __ie as int),
                decreases cols@.len() - __ie
//@  before categories = categories.union(
                proof {
                    let e = __ie - 1;
                    assert(!starts_hash(lc[e]));
                    assert(n_classes(lc, e) == 1 + n_classes(lc, e + 1));
                    lemma_ncls_nonneg(lc, e + 1);
                    assert(1 <= e <= n_classes(lc, 1));
                    if cat_named(lc[e]) is None { assert(ln_range(lines[i as int]) is None); }
                }
//@  before ranges.push(
            proof {
                let n = n_classes(lc, 1);
                assert(n == __ie - 1);
                assert(forall|k: int| 1 <= k <= n ==> cat_named(#[trigger] lc[k]) is Some);
                assert(ln_range(lines[i as int]) == Some(CatRange { begin, end, categories }));
                assert(file_ranges(lines, __il as int) == file_ranges(lines, __il - 1).push(CatRange { begin, end, categories }));
            }
//@end
} // verus!
fn main() {}
