// UNIT V-LOOKUP (C04): analysis/mlist.rs  MorphemeList::lookup -- the public exact-surface lookup
// Decides: of the entries the dictionary lookup reports for the query at offset 0, EXACTLY those that end at the end of the query are
// appended (in the order reported, each once) as morphemes spanning the whole query with that entry's word id and the word info of the
// requested fields; the count returned is the number appended; earlier morphemes of the list are kept.  With the contract of the
// dictionary lookup (C04: the entries reported are the indexed entries whose key is a prefix of the text at the offset, `end` = offset
// + key length) "ends at the end of the query" is "key equals the query" (theorem_exact_lookup).
use vstd::prelude::*;
use vstd::string::*;
use std::ops::Range;
verus! {
global size_of usize == 8;
//@include common/error.rs.inc
//@include common/wordid_stub.rs.inc
//@include common/info_subset.rs.inc
//@include common/node_types.rs.inc
//@extract sudachi/src/dic/lexicon/mod.rs :: struct LexiconEntry
//@  derive
//@end

/// ASSUMED std: `str::as_bytes` / `str::len` are the UTF-8 bytes and their number
#[verifier::external_body] fn str_as_bytes(s: &str) -> (r: &[u8]) ensures r@ == s.spec_bytes() { s.as_bytes() }
#[verifier::external_body] fn str_len(s: &str) -> (r: usize) ensures r == s.spec_bytes().len() { s.len() }

// ---- opaque collaborators (contracts discharged elsewhere: InputBuffer in v_buf0 / v_bufro, LexiconSet::get_word_info_subset in v_lset)
#[verifier::external_body] pub struct Grammar<'a> { _p: core::marker::PhantomData<&'a ()> }
#[verifier::external_body] pub struct InputBuffer { _p: () }
impl InputBuffer {
    /// the text the buffer was last given
    pub uninterp spec fn sp_text(&self) -> Seq<u8>;
    /// built for reading (character index available)
    pub uninterp spec fn sp_built(&self) -> bool;
    /// characters before byte offset b of the text (no input-text plugin runs in lookup: normalised text == given text)
    pub uninterp spec fn sp_ch_idx(&self, b: int) -> int;
    /// R17: `input.reset().push_str(query)` - reset() hands out the emptied original text, to which the query is appended (v_buf0: reset)
    #[verifier::external_body]
    fn reset_push_str(&mut self, query: &str)
        ensures final(self).sp_text() == query.spec_bytes(), !final(self).sp_built()
    { unimplemented!() }
    #[verifier::external_body]
    fn start_build(&mut self) -> (r: SudachiResult<()>)
        ensures final(self).sp_text() == old(self).sp_text(), !final(self).sp_built()
    { unimplemented!() }
    #[verifier::external_body]
    fn build(&mut self, grammar: &Grammar) -> (r: SudachiResult<()>)
        ensures final(self).sp_text() == old(self).sp_text(), r is Ok ==> final(self).sp_built()
    { unimplemented!() }
    #[verifier::external_body]
    fn ch_idx(&self, idx: usize) -> (r: usize)
        requires self.sp_built(), idx <= self.sp_text().len()
        ensures r == self.sp_ch_idx(idx as int), r <= idx
    { unimplemented!() }
}
#[verifier::external_body] pub struct LexiconSet<'a> { _p: core::marker::PhantomData<&'a ()> }
impl<'a> LexiconSet<'a> {
    /// what the dictionary lookup reports for `input` at `offset`, in order (C04; decided in v_trie / v_idx / k_widt and the e2e C04 oracle)
    pub uninterp spec fn sp_lookup(&self, input: Seq<u8>, offset: int) -> Seq<LexiconEntry>;
    pub uninterp spec fn sp_word_info(&self, id: WordId, subset: InfoSubset) -> WordInfo;
    /// R14: `for entry in lex.lookup(bytes, 0)` iterates over exactly these entries
    #[verifier::external_body]
    fn lookup_vec(&self, input: &[u8], offset: usize) -> (r: Vec<LexiconEntry>)
        ensures r@ == self.sp_lookup(input@, offset as int)
    { unimplemented!() }
    #[verifier::external_body]
    fn get_word_info_subset(&self, id: WordId, subset: InfoSubset) -> (r: SudachiResult<WordInfo>)
        ensures r is Ok ==> r->Ok_0 == self.sp_word_info(id, subset)
    { unimplemented!() }
}
pub trait DictionaryAccess {
    spec fn sp_lexicon(&self) -> LexiconSet<'_>;
    fn grammar(&self) -> (r: &Grammar<'_>);
    fn lexicon(&self) -> (r: &LexiconSet<'_>) ensures *r == self.sp_lexicon();
}
/// `Rc<RefCell<InputPart>>` of the result list; `borrow_mut()` is ASSUMED to succeed (no other borrow is live while `&mut self` is held
/// and no Ref escaped - a live `Morpheme::surface()` Ref makes the real call panic, which is outside this contract)
#[verifier::external_body] pub struct InputCell { _p: () }
impl InputCell {
    pub uninterp spec fn sp_input(&self) -> InputBuffer;
    pub uninterp spec fn sp_id(&self) -> int;
    /// R17: `&mut self.input.borrow_mut().input`
    #[verifier::external_body]
    fn borrow_input_mut(&mut self) -> (r: &mut InputBuffer)
        ensures *r == old(self).sp_input(), *final(r) == final(self).sp_input(), final(self).sp_id() == old(self).sp_id()
    { unimplemented!() }
}
//@extract sudachi/src/analysis/mlist.rs :: struct Nodes
//@  derive
//@end
//@extract sudachi/src/analysis/mlist.rs :: struct MorphemeList
//@  rw R14 1 custom
//@  | Rc<RefCell<InputPart>>
//@  > InputCell
//@end

/// the morpheme appended for an entry
spec fn hit_node(e: LexiconEntry, nch: int, nb: int, info: WordInfo) -> ResultNode {
    ResultNode { inner: Node { begin: 0, end: nch as u16, left_id: 0, right_id: 0, cost: 0, word_id: e.word_id }, total_cost: 0, begin_bytes: 0, end_bytes: nb as u16, word_info: info }
}
/// the morphemes for the first k reported entries: those ending at nb, in order
spec fn hits(es: Seq<LexiconEntry>, k: int, lex: LexiconSet, subset: InfoSubset, nch: int, nb: int) -> Seq<ResultNode>
    decreases k
{
    if k <= 0 { Seq::empty() }
    else if es[k - 1].end == nb { hits(es, k - 1, lex, subset, nch, nb).push(hit_node(es[k - 1], nch, nb, lex.sp_word_info(es[k - 1].word_id, subset))) }
    else { hits(es, k - 1, lex, subset, nch, nb) }
}

impl<T: DictionaryAccess> MorphemeList<T> {
//@extract sudachi/src/analysis/mlist.rs :: impl<T: DictionaryAccess> MorphemeList<T> :: fn lookup
//@  rw R17 1 custom
//@  | &mut self\.input\.borrow_mut\(\)\.input
//@  > self.input.borrow_input_mut()
//@  rw R17 1 custom
//@  | input\.reset\(\)\.push_str\(query\);
//@  > input.reset_push_str(query);
//@  rw R13 * custom
//@  | query\.len\(\)
//@  > str_len(query)
//@  rw R13 * custom
//@  | query\.as_bytes\(\)
//@  > str_as_bytes(query)
//@  rw R14 1 custom
//@  | for entry in lex\.lookup\(([^;{}]*?), 0\) \{
//@  > let __es = lex.lookup_vec(\1, 0); let mut __k: usize = 0; while __k < __es.len() { let entry = &__es[__k]; __k += 1;
//@  ret r
//@  spec
        requires
            // the format limits of a query (C03): it fits the 16-bit offsets of a result node
            query.spec_bytes().len() <= 0xffff,
        ensures
            final(self).dict == old(self).dict, final(self).input.sp_id() == old(self).input.sp_id(),
            final(self).input.sp_input().sp_text() == query.spec_bytes(),
            r is Ok ==> ({
                let lex = old(self).dict.sp_lexicon();
                let es = lex.sp_lookup(query.spec_bytes(), 0);
                let nb = query.spec_bytes().len() as int;
                let found = hits(es, es.len() as int, lex, subset, final(self).input.sp_input().sp_ch_idx(nb), nb);
                // exactly the reported entries that end at the end of the query, in order, after what the list held
                &&& final(self).nodes.data@ == old(self).nodes.data@ + found
                &&& r->Ok_0 == found.len()
            }),
//@  loop 1
            invariant
                __k <= __es@.len(), __es@ == lex.sp_lookup(query.spec_bytes(), 0), *lex == old(self).dict.sp_lexicon(),
                self.dict == old(self).dict, self.input.sp_id() == old(self).input.sp_id(),
                self.input.sp_input().sp_text() == query.spec_bytes(),
                end_chars as int == self.input.sp_input().sp_ch_idx(query.spec_bytes().len() as int), end_chars <= query.spec_bytes().len() <= 0xffff,
                self.nodes.data@ == old(self).nodes.data@ + hits(__es@, __k as int, *lex, subset, end_chars as int, query.spec_bytes().len() as int),
                result == hits(__es@, __k as int, *lex, subset, end_chars as int, query.spec_bytes().len() as int).len(),
                result <= __k,
            decreases __es@.len() - __k
//@end
}

/// C04, exact-surface clause: if the dictionary lookup reports, for a text at offset 0, the indexed entries whose key is a prefix of the
/// text, each with end = key length (the contract decided for the trie and the word-id table), then the entries that end at the end of
/// the query are exactly those whose key EQUALS the query.
pub uninterp spec fn key_of(e: LexiconEntry) -> Seq<u8>;
proof fn theorem_exact_lookup(es: Seq<LexiconEntry>, query: Seq<u8>, k: int)
    requires
        0 <= k < es.len(),
        forall|i: int| 0 <= i < es.len() ==> (#[trigger] es[i]).end == key_of(es[i]).len() && key_of(es[i]).len() <= query.len() && key_of(es[i]) == query.subrange(0, key_of(es[i]).len() as int),
    ensures (es[k].end == query.len()) <==> (key_of(es[k]) == query)
{
    assert(query.subrange(0, query.len() as int) =~= query);
}

} // verus!
fn main() {}
