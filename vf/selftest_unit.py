#!/usr/bin/env python3
"""debug helper: run the registered mutants of ONE unit (each must be refuted) and, with --oracle, its replay oracle on the unchanged tree
usage: selftest_unit.py <unit> [--oracle]"""
import sys, os, tempfile, shutil
sys.path.insert(0, os.path.dirname(os.path.dirname(os.path.abspath(__file__))))
from vf import check
import registry
u = sys.argv[1]
REPO = sys.argv[sys.argv.index('--repo') + 1] if '--repo' in sys.argv else '/repo'
wd = tempfile.mkdtemp(prefix='selftest-')
try:
    for mu in registry.UNITS[u].get('mutants', []):
        print(mu['name'], '->', check.run_mutant(u, mu, REPO, wd))
    if '--oracle' in sys.argv and registry.UNITS[u].get('oracle'):
        failed, out = check.run_oracle(registry.UNITS[u]['oracle'], REPO)
        print('oracle failed =', failed)
        print('\n'.join(l for l in out.split('\n') if 'verif_oracle' in l or 'FAILING' in l or 'error' in l.lower())[:3000])
finally:
    shutil.rmtree(wd, ignore_errors=True)
