// F14 (C16): demonstration against the real code.  Copy to sudachi/tests/verif_f14.rs in a scratch copy of /repo and run
//   cargo test --offline -p sudachi --test verif_f14 -- --nocapture
// Before the fix: [(0..0, ""), (0..0, ""), ...] (empty sentences, no progress).  After: [(0..9, "あ。い")].
use sudachi::sentence_splitter::{SentenceSplitter, SplitSentences};
#[test]
fn limit_zero_makes_progress() {
    let sp = SentenceSplitter::with_limit(0);
    let got: Vec<_> = sp.split("あ。い").take(6).collect();
    println!("{:?}", got);
    assert!(got.iter().all(|(r, s)| !r.is_empty() && !s.is_empty()), "empty sentence returned");
    assert!(got.len() <= 2, "iteration does not terminate");
}
