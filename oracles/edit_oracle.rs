    // Replay oracle for V-EDIT: executable restatement of `resolved` (units/specs/edit_specs.rs.inc),
    // small exhaustive enumeration of texts and edit batches against the real resolve_edits.
    fn boundaries(s: &str) -> Vec<usize> { (0..=s.len()).filter(|&i| s.is_char_boundary(i)).collect() }

    fn check(source: &str, edits: &[(usize, usize, &str)]) -> Result<(), String> {
        let n = source.len();
        let sm: Vec<usize> = (0..=n).map(|i| i * 2).collect(); // any monotone map with sm[0]=0
        let mut ops: Vec<ReplaceOp> = edits.iter().map(|(a, b, w)| ReplaceOp { what: *a..*b, with: ReplaceTgt::Ref(w) }).collect();
        let mut target = String::new();
        let mut tm: Vec<usize> = Vec::new();
        let res = resolve_edits(source, &sm, &mut target, &mut tm, &mut ops);
        // expected text
        let mut exp = String::new();
        let mut prev = 0;
        let mut upos: Vec<(usize, usize)> = Vec::new(); // (target pos, source pos) of unreplaced positions
        for (a, b, w) in edits {
            for j in prev..*a { upos.push((exp.len() + (j - prev), j)); }
            exp.push_str(&source[prev..*a]);
            exp.push_str(w);
            prev = *b;
        }
        for j in prev..=n { upos.push((exp.len() + (j - prev), j)); }
        exp.push_str(&source[prev..]);
        let ctx = format!("source={:?} edits={:?} -> target={:?} map={:?} res={}", source, edits, target, tm, res);
        if !ops.is_empty() { return Err(format!("edits not drained: {}", ctx)); }
        if target != exp { return Err(format!("text differs from specification {:?}: {}", exp, ctx)); }
        if res != target.len() { return Err(format!("returned length wrong: {}", ctx)); }
        if tm.len() != res + 1 { return Err(format!("map length: {}", ctx)); }
        if tm[0] != 0 { return Err(format!("start not mapped to start: {}", ctx)); }
        if tm.windows(2).any(|w| w[0] > w[1]) { return Err(format!("map not monotone: {}", ctx)); }
        if tm.iter().any(|&x| x > sm[n]) { return Err(format!("map out of range: {}", ctx)); }
        if res > 0 && tm[res] != sm[n] { return Err(format!("end not mapped to end: {}", ctx)); }
        for (t, j) in upos { if t > 0 && tm[t] != sm[j] { return Err(format!("unreplaced position {} (source {}) moved: {}", t, j, ctx)); } }
        Ok(())
    }

    #[test]
    fn verif_oracle_resolve_edits() {
        let alphabet = ["a", "é", "漢"];
        let repl = ["", "x", "yz", "漢"];
        let mut texts: Vec<String> = vec![String::new()];
        let mut frontier = vec![String::new()];
        for _ in 0..3 {
            let mut nf = Vec::new();
            for t in &frontier { for c in alphabet.iter() { let mut s = t.clone(); s.push_str(c); nf.push(s); } }
            texts.extend(nf.iter().cloned());
            frontier = nf;
        }
        let mut failures = Vec::new();
        let mut cases = 0usize;
        for t in &texts {
            let bs = boundaries(t);
            // one edit
            for (i, &a) in bs.iter().enumerate() { for &b in &bs[i..] { for w in repl.iter() {
                cases += 1;
                if let Err(e) = check(t, &[(a, b, w)]) { failures.push(e); }
                // two edits
                for (k, &c) in bs.iter().enumerate() { if c < b { continue; } for &d in &bs[k..] { for w2 in repl.iter() {
                    cases += 1;
                    if let Err(e) = check(t, &[(a, b, w), (c, d, w2)]) { failures.push(e); }
                }}}
            }}}
        }
        println!("verif_oracle_resolve_edits: {} cases, {} failures", cases, failures.len());
        for f in failures.iter().take(5) { println!("FAILING INPUT: {}", f); }
        assert!(failures.is_empty());
    }
