// F22 (C15): demonstration against the real code.  Append to sudachi/src/plugin/path_rewrite/join_numeric/numeric_parser/mod.rs in a
// scratch copy of /repo and run   cargo test --offline -p sudachi --lib verif_f22
// Before the fix (f7a1203): "1.2,345" -> Some("1.2345"), "0.5,000" -> Some("0.5") - a thousands separator inside the fraction was accepted
// because check_comma only counted the digits since the last separator; the join_numeric plugin then produced ONE token with that value
// (plugin-level demonstration: path [1 . 2 , 3 4 5 円] was rewritten to ["1.2345", "円"]).
#[cfg(test)]
mod verif_f22 {
    use super::*;
    fn run(text: &str) -> Option<String> {
        let mut p = NumericParser::new();
        for c in text.chars() { if !p.append(&c) { return None; } }
        if p.done() { Some(p.get_normalized()) } else { None }
    }
    #[test]
    fn separator_after_the_decimal_point() {
        for t in ["1.2,345", "1.23,456", "12.3,456", "1.234,567", "1,234.5,678", "0.5,000", "1.0,000", "3万1.5,000"] { assert_eq!(run(t), None, "{}", t); }
        for (t, w) in [("1,234.5", "1234.5"), ("3万2,000", "32000"), ("1.5億2,000", "150002000"), ("2,000,000", "2000000"), ("12,345.678", "12345.678")] { assert_eq!(run(t).as_deref(), Some(w), "{}", t); }
    }
}
