    // BOUNDED replay oracle for unit v_skip (C11 / C05): skipping a field advances the cursor exactly like reading it.
    // Arrays of EVERY length 0..=255 (the format allows 127; the count is one byte) and strings of 0..=40, 126..=130, 254..=258, 300,
    // 32767 UTF-16 units: the rest returned by skip_* is the rest returned by the parser, and it is the tail that was appended.
    #[test]
    fn verif_oracle_skip_is_parse() {
        let mut failures: Vec<String> = Vec::new();
        let mut n = 0usize;
        let tail: Vec<u8> = vec![0xAB, 0xCD, 0xEF, 0x01, 0x23];
        for len in 0usize..=255 {
            let mut bytes = vec![len as u8];
            for k in 0..len { bytes.extend_from_slice(&((k as u32) * 7 + 1).to_le_bytes()); }
            bytes.extend_from_slice(&tail);
            n += 1;
            let r = std::panic::catch_unwind(|| {
                let a = skip_wid_array(&bytes).map(|x| x.0.to_vec()).ok();
                let b = u32_wid_array_parser(&bytes).map(|x| x.0.to_vec()).ok();
                let c = skip_u32_array(&bytes).map(|x| x.0.to_vec()).ok();
                let d = u32_array_parser(&bytes).map(|x| (x.0.to_vec(), x.1)).ok();
                (a, b, c, d)
            });
            match r {
                Err(_) => if failures.len() < 20 { failures.push(format!("array of {} items: skipping or reading panics", len)); },
                Ok((a, b, c, d)) => {
                    let want = Some(tail.clone());
                    if (a != want || b != want || c != want || d.as_ref().map(|x| x.0.clone()) != want) && failures.len() < 20 {
                        failures.push(format!("array of {} items followed by {:?}: skip_wid_array leaves {:?}, u32_wid_array_parser {:?}, skip_u32_array {:?}, u32_array_parser {:?}", len, tail, a, b, c, d.as_ref().map(|x| x.0.clone())));
                    }
                    if let Some((_, items)) = d { if (items.len() != len || items.iter().enumerate().any(|(k, v)| *v != (k as u32) * 7 + 1)) && failures.len() < 20 { failures.push(format!("array of {} items: u32_array_parser reads {:?}", len, items)); } }
                }
            }
        }
        let lens: Vec<usize> = (0..=40).chain(126..=130).chain(254..=258).chain([300usize, 32767]).collect();
        for len in lens {
            let mut bytes: Vec<u8> = Vec::new();
            if len < 128 { bytes.push(len as u8); } else { bytes.push(((len >> 8) as u8) | 0x80); bytes.push((len & 0xff) as u8); }
            for k in 0..len { bytes.extend_from_slice(&((b'a' as u16) + (k % 26) as u16).to_le_bytes()); }
            bytes.extend_from_slice(&tail);
            n += 1;
            let r = std::panic::catch_unwind(|| {
                let a = u16str::skip_u16_string(&bytes).map(|x| x.0.to_vec()).ok();
                let b = u16str::utf16_string_parser(&bytes).map(|x| (x.0.to_vec(), x.1)).ok();
                (a, b)
            });
            match r {
                Err(_) => if failures.len() < 20 { failures.push(format!("string of {} units: skipping or reading panics", len)); },
                Ok((a, b)) => {
                    let want = Some(tail.clone());
                    if (a != want || b.as_ref().map(|x| x.0.clone()) != want) && failures.len() < 20 { failures.push(format!("string of {} units followed by {:?}: skip_u16_string leaves {:?}, utf16_string_parser {:?}", len, tail, a.map(|v| v.len()), b.as_ref().map(|x| x.0.len()))); }
                    if let Some((_, s)) = b { if s.chars().count() != len && failures.len() < 20 { failures.push(format!("string of {} units reads back with {} characters", len, s.chars().count())); } }
                }
            }
        }
        println!("verif_oracle_skip_is_parse: {} fields, {} failures", n, failures.len());
        for f in failures.iter().take(5) { println!("FAILING INPUT: {}", f); }
        assert!(failures.is_empty());
    }
