// UNIT V-CC (C17): dic/character_category.rs  compile / get_category_types (collect_boundaries and binary_search assumed)
use vstd::prelude::*;
verus! {
global size_of usize == 8;

//@include common/category_type.rs.inc

//@extract sudachi/src/dic/character_category.rs :: struct CatRange
//@  derive
//@end
//@extract sudachi/src/dic/character_category.rs :: struct CharacterCategory
//@  derive
//@end

//@include specs/cc_specs.rs.inc
proof fn axiom_vec_len_fits<T>(v: &Vec<T>)
    ensures v@.len() <= usize::MAX
{ admit(); }
//@include specs/cc_lemmas.rs.inc

/// R14: <[u32]>::binary_search on a strictly sorted vector (assumed std contract)
#[verifier::external_body]
fn bsearch_u32(s: &Vec<u32>, x: &u32) -> (r: Result<usize, usize>)
    requires sorted_strict(s@),
    ensures match r {
        Ok(i) => i < s@.len() && s@[i as int] == *x,
        Err(i) => is_insertion(s@, *x, i as int),
    }
{ s.binary_search(x) }

/// R12: panic!/unreachable!: reaching it is an obligation
fn vpanic() requires false { }

impl CharacterCategory {
//@extract sudachi/src/dic/character_category.rs :: impl Default for CharacterCategory :: fn default
//@  ret r
//@  spec
        ensures r.boundaries@.len() == 0, r.categories@.len() == 1, r.categories@[0].bits == 1
//@end

// assumed contract (BTreeSet: sorted, unique, exactly the endpoints)
//@extract sudachi/src/dic/character_category.rs :: impl CharacterCategory :: fn collect_boundaries
//@  stub ASSUMED_BTreeSet
//@  ret b
//@  spec
        ensures is_boundaries(b@, data@)
//@end

//@extract sudachi/src/dic/character_category.rs :: impl CharacterCategory :: fn get_category_types
//@  rw R14 1 custom
//@  | self\.boundaries\.binary_search\(&cint\)
//@  > bsearch_u32(&self.boundaries, &cint)
//@  ret r
//@  specfile specs/cc_get.contract
//@  before match bsearch_u32(&self.boundaries, &cint) {
        proof {
            let bs = self.boundaries@;
            axiom_vec_len_fits(&self.boundaries);
            assert forall|idx: int| 0 <= idx < bs.len() && bs[idx] == cint implies spec_rank(bs, cint) == idx + 1 by {
                assert forall|k: int| 0 <= k < idx + 1 implies bs[k] <= cint by { if k < idx { assert(bs[k] < bs[idx]); } }
                assert forall|k: int| idx + 1 <= k < bs.len() implies bs[k] > cint by { assert(bs[idx] < bs[k]); }
                lemma_rank_is(bs, cint, idx + 1);
            }
            assert forall|idx: int| #[trigger] is_insertion(bs, cint, idx) implies spec_rank(bs, cint) == idx by {
                lemma_rank_is(bs, cint, idx);
            }
        }
//@end

//@extract sudachi/src/dic/character_category.rs :: impl CharacterCategory :: fn compile
//@  rw R6v 1 custom
//@  | for range in ranges \{
//@  > let mut __iv_range: usize = 0; while __iv_range < ranges.len() { let range = &ranges[__iv_range]; __iv_range += 1;
//@  rw R14 1 custom
//@  | boundaries\.binary_search\(&range\.begin\)
//@  > bsearch_u32(&boundaries, &range.begin)
//@  rw R12 1 custom
//@  | panic!\("there can not be not found boundaries"\)
//@  > { vpanic(); 0 }
//@  rw R7 2
//@  rw R16 * custom
//@  | categories\[i\] \|= range\.categories;
//@  > categories[i] = categories[i].union(range.categories);
//@  rw R3 1 custom
//@  | debug_assert_eq!\(categories\[0\], CategoryType::empty\(\)\);
//@  > assert(categories[0].bits == 0);
//@  rw R6m 1
//@  rw Rcap 2 custom
//@  | final_(boundaries|categories)\.shrink_to_fit\(\);
//@  >
//@  ret r
//@  spec
        requires ranges_ok(ranges@),
        ensures
            r.wf(),
            // C17: every code point gets the union of the classes of the lines covering it, or DEFAULT
            forall|c: u32| (#[trigger] r.spec_get(c)).bits == expected(ranges@, c),
//@  before let boundaries = Self::collect_boundaries(ranges);
        proof {
            // (the early return above answers DEFAULT everywhere; with no lines nothing covers any c)
        }
//@  after let mut categories = vec![CategoryType::empty(); boundaries.len()];
        let ghost b = boundaries@;
        proof {
            assert(b.contains(ranges@[0].begin));
            assert(ranges@.subrange(0, 0) =~= Seq::<CatRange>::empty());
        }
//@  loop 1
            invariant
                ranges_ok(ranges@), is_boundaries(b, ranges@), ranges@.len() > 0, b == boundaries@,
                __iv_range <= ranges@.len(),
                categories@.len() == b.len(), b.len() > 0,
                categories@[0].bits == 0,
                forall|j: int| 1 <= j < b.len() ==> (#[trigger] categories@[j]).bits == cover_iv(ranges@.subrange(0, __iv_range as int), b[j - 1], b[j]),
            decreases ranges@.len() - __iv_range
//@  before let start_idx = match
            let ghost pre = categories@;
            let ghost r = __iv_range - 1;
            proof {
                assert(b.contains(ranges@[r].begin));
                let w = choose|w: int| 0 <= w < b.len() && b[w] == ranges@[r].begin;
                assert(b[w] == range.begin);
            }
//@  before let mut __it_i: usize = start_idx;
            let ghost mut stop: int = start_idx as int;
//@  loop 2
                invariant_except_break stop == __it_i,
                invariant
                    start_idx >= 1, __end_i == b.len(), b == boundaries@, start_idx <= stop <= __end_i,
                    b[start_idx - 1] == range.begin, sorted_strict(b),
                    categories@.len() == b.len(), categories@[0].bits == 0,
                    forall|j: int| 1 <= j < start_idx ==> categories@[j] == pre[j],
                    forall|j: int| start_idx <= j < stop ==> #[trigger] b[j] <= range.end,
                    forall|j: int| start_idx <= j < stop ==> (#[trigger] categories@[j]).bits == (pre[j].bits | range.categories.bits),
                    forall|j: int| stop <= j < b.len() ==> categories@[j] == pre[j],
                ensures stop < b.len() ==> b[stop] > range.end,
                decreases __end_i - __it_i
//@  after categories[i] = #1
                proof { stop = stop + 1; }
//@  afterloop 2
            proof { lemma_step(ranges@, b, r, start_idx as int, stop, pre, categories@); }
//@  before // first category is always default
        let ghost acc = categories@;
        proof {
            assert(__iv_range == ranges@.len());
            let full = ranges@.subrange(0, __iv_range as int);
            assert(full == ranges@);
            assert forall|j: int| 1 <= j < b.len() implies (#[trigger] acc[j]).bits == cover_iv(ranges@, b[j - 1], b[j]) by {
                assert(acc[j].bits == cover_iv(full, b[j - 1], b[j]));
            }
        }
//@  after categories[0] = CategoryType::DEFAULT;
        let ghost cats = categories@;
        proof {
            assert(cats =~= acc.update(0, CategoryType { bits: 1 }));
            assert forall|j: int| 1 <= j < b.len() implies (#[trigger] cats[j]).bits == cover_iv(ranges@, b[j - 1], b[j]) by { assert(cats[j] == acc[j]); }
            lemma_merge_init(b, cats);
        }
//@  loop 3
            invariant
                __end_i == cats.len(), 1 <= __it_i <= __end_i, categories@ == cats, boundaries@ == b, sorted_strict(b), b.len() == cats.len(),
                merged_ok(b, cats, __it_i as int, final_boundaries@, final_categories@, last_boundary, last_category),
            decreases __end_i - __it_i
//@  before if categories[i] == last_category {
            proof { lemma_merge_step(b, cats, i as int, final_boundaries@, final_categories@, last_boundary, last_category); }
//@  before // replace empty categories with default
        let ghost fb = final_boundaries@;
        let ghost fc_raw = final_categories@;
//@  loop 4
            invariant
                final_categories@.len() == fc_raw.len(), __im_cat <= fc_raw.len(),
                forall|k: int| 0 <= k < __im_cat ==> (#[trigger] final_categories@[k]).bits == (if fc_raw[k].bits == 0 { 1u32 } else { fc_raw[k].bits }),
                forall|k: int| __im_cat <= k < fc_raw.len() ==> final_categories@[k] == fc_raw[k],
            decreases fc_raw.len() - __im_cat
//@  before CharacterCategory {
        proof {
            let fc = final_categories@;
            assert forall|c: u32| fc[spec_rank(fb, c)].bits == expected(ranges@, c) by {
                lemma_compile_final(ranges@, b, cats, fb, fc_raw, fc, c);
            }
        }
//@end
}

} // verus!
fn main() {}
