// UNIT V-WIW (C05): dic/build/primitives.rs Utf16Writer::write_len / write_empty_if_equal, write_u32_array, ToU32,
//                    dic/build/lexicon.rs RawLexiconEntry::write_word_info / write_params / norm_form  -- the writer side of the record
use vstd::prelude::*;
use vstd::string::*;
use vstd::utf8::*;
verus! {
//@include common/str_prelude.rs.inc
//@include common/error.rs.inc
//@include common/build_prelude.rs.inc
//@include common/wordid_stub.rs.inc
//@extract sudachi/src/analysis/mod.rs :: enum Mode
//@  derive Clone, Copy, PartialEq, Eq, Structural
//@end
//@extract sudachi/src/dic/build/lexicon.rs :: enum SplitUnit
//@  derive
//@end
//@extract sudachi/src/dic/build/lexicon.rs :: struct RawLexiconEntry
//@end
//@extract sudachi/src/dic/lexicon/word_infos.rs :: struct WordInfoData
//@  derive
//@end
use BuildFailure::InvalidSize;
//@include specs/entry_strings.rs.inc
//@include specs/wi_format.rs.inc
//@include specs/wiw_specs.rs.inc

//@extract sudachi/src/dic/build/primitives.rs :: struct Utf16Writer
//@end
impl Utf16Writer {
//@extract sudachi/src/dic/build/primitives.rs :: impl Utf16Writer :: fn write_len
//@  rw R15 1 custom
//@  | <W: Write>
//@  > <W: VWrite>
//@  rw R12 1 custom
//@  | i16::MAX as _,\n            \}\);
//@  > i16::MAX as usize,\n            });
//@  rw R12 1 custom
//@  | if length > i16::MAX as _ \{
//@  > if length > i16::MAX as usize {
//@  rw R15 1 custom
//@  | w\.write_all\(&\[length as u8\]\)\?;
//@  > w.write_all([length as u8].as_slice())?;
//@  rw R15 1 custom
//@  | w\.write_all\(&\[(\w+), (\w+)\]\)\?;
//@  > w.write_all([\1, \2].as_slice())?;
//@  ret r
//@  spec
        ensures
            // a length above 32767 is refused, anything else is written as the documented 1- or 2-byte prefix
            length > 32767 ==> r is Err,
            r is Ok ==> length <= 32767 && final(w).sink() == old(w).sink() + enc_len(length as u16) && r->Ok_0 == enc_len(length as u16).len(),
//@  atstart
        proof {
            if length <= 32767 {
                let l = length as u16;
                assert(((l as u8) & 0xff) == (l & 0xff) as u8) by (bit_vector);
                assert((((l >> 8) as u8) | 0x80) == (((l >> 8) | 0x80) & 0xff) as u8) by (bit_vector) requires l <= 32767;
            }
        }
//@end
// the UTF-16 payload encoder: contract discharged on the real loops in unit v_utf16 (same contract file)
//@extract sudachi/src/dic/build/primitives.rs :: impl Utf16Writer :: fn write
//@  rw R15 1 custom
//@  | <W: Write, T: AsRef<str>>\(&mut self, w: &mut W, data: T\)
//@  > <W: VWrite>(&mut self, w: &mut W, data: &str)
//@  stub v_utf16
//@  ret r
//@  specfile specs/utf16_write.contract
//@end
//@extract sudachi/src/dic/build/primitives.rs :: impl Utf16Writer :: fn write_empty_if_equal
//@  rw R15 1 custom
//@  | <W, T1, T2>\(\s*&mut self,\s*w: &mut W,\s*data: T1,\s*other: T2,\s*\) -> DicWriteResult<usize>\s*where\s*W: Write,\s*T1: AsRef<str> \+ PartialEq<T2>,
//@  > <W: VWrite>(&mut self, w: &mut W, data: &str, other: &str) -> DicWriteResult<usize>
//@  rw R13 * custom
//@  | if data == other \{
//@  > if str_eq(data, other) {
//@  rw R13 * custom
//@  | if data != other \{
//@  > if !str_eq(data, other) {
//@  ret r
//@  spec
        ensures r is Ok ==> final(w).sink() == old(w).sink() + enc_str(empty_if_equal(data@, other@)) && r->Ok_0 == enc_str(empty_if_equal(data@, other@)).len() && r->Ok_0 <= 600000
            && str_fits(empty_if_equal(data@, other@)),
//@  atstart
        proof { reveal_strlit(""); assert(""@ =~= Seq::<char>::empty()); }
//@end
}

//@extract sudachi/src/dic/build/primitives.rs :: fn write_u32_array
//@  rw R15 1 custom
//@  | <W: Write, T: ToU32>\(w: &mut W, data: &\[T\]\)
//@  > <W: VWrite, T: ToU32>(w: &mut W, data: &[T])
//@  rw R15 1 custom
//@  | w\.write_all\(&\[len as u8\]\)\?;
//@  > w.write_all([len as u8].as_slice())?;
//@  rw R6v 1 custom
//@  | for o in data \{
//@  > let mut __io: usize = 0; while __io < data.len() { let o = &data[__io]; __io += 1;
//@  rw R15 1 custom
//@  | w\.write_all\(&i\.to_le_bytes\(\)\)\?;
//@  > w.write_all(u32_to_le_bytes(i).as_slice())?;
//@  ret r
//@  spec
        requires forall|k: int| 0 <= k < data@.len() ==> (#[trigger] data@[k]).sp_ok(),
        ensures
            data@.len() > 127 ==> r is Err,
            r is Ok ==> final(w).sink() == old(w).sink() + enc_u32s(data@.map_values(|t: T| t.sp_u32())) && r->Ok_0 == enc_u32s(data@.map_values(|t: T| t.sp_u32())).len()
                && data@.len() <= 127 && r->Ok_0 <= 509,
//@  atstart
        let ghost vals = data@.map_values(|t: T| t.sp_u32());
        let ghost s0 = w.sink();
//@  loop 1
        invariant
            len == data@.len(), len <= 127, __io <= len, vals == data@.map_values(|t: T| t.sp_u32()),
            forall|k: int| 0 <= k < data@.len() ==> (#[trigger] data@[k]).sp_ok(),
            w.sink() == s0 + seq![len as u8] + le32s(vals, __io as int), written == 1 + 4 * __io,
        decreases len - __io
//@  after written += 4;
        proof {
            assert(le32s(vals, __io as int) == le32s(vals, __io - 1) + le32(vals[__io - 1]));
            assert(s0 + seq![len as u8] + le32s(vals, __io - 1) + le32(vals[__io - 1]) =~= s0 + seq![len as u8] + (le32s(vals, __io - 1) + le32(vals[__io - 1])));
        }
//@  atend
    proof {
        lemma_le32s_len(vals, len as int);
        assert(s0 + seq![len as u8] + le32s(vals, len as int) =~= s0 + (seq![len as u8] + le32s(vals, len as int)));
    }
//@end

impl RawLexiconEntry {
//@extract sudachi/src/dic/build/lexicon.rs :: impl RawLexiconEntry :: fn surface
//@  stub v_resolve
//@  ret r
//@  spec
        ensures r@ == e_surface(*self)
//@end
//@extract sudachi/src/dic/build/lexicon.rs :: impl RawLexiconEntry :: fn headword
//@  stub v_resolve
//@  ret r
//@  spec
        ensures r@ == e_headword(*self)
//@end
//@extract sudachi/src/dic/build/lexicon.rs :: impl RawLexiconEntry :: fn reading
//@  stub v_resolve
//@  ret r
//@  spec
        ensures r@ == e_reading(*self)
//@end
//@extract sudachi/src/dic/build/lexicon.rs :: impl RawLexiconEntry :: fn norm_form
//@  rw R14s 1 custom
//@  | self\.(\w+)\.as_deref\(\)\.unwrap_or_else\(\|\| self\.(\w+)\(\)\)
//@  > opt_str_or(&self.\1, self.\2())
//@  ret r
//@  spec
        ensures r@ == e_norm(*self)
//@end
//@extract sudachi/src/dic/build/lexicon.rs :: impl RawLexiconEntry :: fn write_params
//@  rw R15 1 custom
//@  | <W: Write>
//@  > <W: VWrite>
//@  rw R13b 3 custom
//@  | &self\.(left_id|right_id|cost)\.to_le_bytes\(\)
//@  > i16_to_le_bytes(self.\1).as_slice()
//@  ret r
//@  spec
        ensures r is Ok ==> final(w).sink() == old(w).sink() + le16(self.left_id) + le16(self.right_id) + le16(self.cost) && r->Ok_0 == 6,
//@end
//@extract sudachi/src/dic/build/lexicon.rs :: impl RawLexiconEntry :: fn write_word_info
//@  rw R15 1 custom
//@  | <W: Write>
//@  > <W: VWrite>
//@  rw R13 * custom
//@  | u16w\.write\(w, &self\.headword\(\)\)
//@  > u16w.write(w, self.headword())
//@  rw R13b 1 custom
//@  | w\.write_all\(&self\.pos\.to_le_bytes\(\)\)\?;
//@  > w.write_all(u16_to_le_bytes(self.pos).as_slice())?;
//@  rw R13b 1 custom
//@  | w\.write_all\(&self\.dic_form\.as_raw\(\)\.to_le_bytes\(\)\)\?;
//@  > w.write_all(u32_to_le_bytes(self.dic_form.as_raw()).as_slice())?;
//@  rw R13 * custom
//@  | self\.surface\.len\(\)
//@  > self.surface.as_str().len()
//@  rw R14s 3 custom
//@  | write_u32_array\(w, &self\.(splits_a|splits_b|word_structure)\)
//@  > write_u32_array(w, self.\1.as_slice())
//@  rw R14s 1 custom
//@  | write_u32_array\(w, &self\.synonym_groups\)
//@  > write_u32_array(w, self.synonym_groups.as_slice())
//@  ret r
//@  spec
        requires splits_resolved(*self),
        ensures
            // C05: the bytes appended are the record of this entry, field by field in the order the reader expects
            r is Ok ==> final(w).sink() == old(w).sink() + wi_bytes(*self) && r->Ok_0 == wi_bytes(*self).len(),
            // success means every text fitted its field: the hypotheses of theorem_record_roundtrip
            r is Ok ==> str_fits(e_headword(*self)) && str_fits(empty_if_equal(e_norm(*self), e_headword(*self))) && str_fits(empty_if_equal(e_reading(*self), e_headword(*self))),
//@  atstart
        let ghost s0 = w.sink();
        broadcast use axiom_str_len_fits;
//@  atend
        proof { lemma_wi_bytes_assoc(s0, *self); }
//@end
}
} // verus!
fn main() {}
