    // BOUNDED replay oracle for unit v_wiw (C05 / C09 / C11): the record the real RawLexiconEntry::write_word_info writes for an entry is
    // read back by the real WordInfoParser (all fields) as the declared data:  surface = headword,  head_word_length = BYTE LENGTH OF THE
    // INDEX KEY (the length NodeSplitIterator uses to place the end of a split unit - never that of the headword),  part of speech,
    // normalised form / reading stored empty when equal to the headword,  dictionary-form word id,  units and synonym groups in order.
    // Entries: key, headword, normalised form, reading drawn from strings of different byte widths (1-, 2-, 3-, 4-byte characters, 126 /
    // 127 / 128 code units), 0..3 split units, dictionary form absent / 0 / a number; one writer reused for all records.
    #[test]
    fn verif_oracle_record_roundtrip() {
        use crate::dic::read::word_info::WordInfoParser;
        let long126: String = std::iter::repeat('あ').take(126).collect();
        let long127: String = std::iter::repeat('ｱ').take(127).collect();
        let long128: String = std::iter::repeat('a').take(128).collect();
        let strs: Vec<String> = vec!["a".into(), "Ａ".into(), "é".into(), "あい".into(), "ｱｲ".into(), "𠮟".into(), "abcde".into(), long126, long127, long128];
        let wid_lists: Vec<Vec<u32>> = vec![vec![], vec![0], vec![5, (1u32 << 28) | 3], vec![7, 8, 9]];
        let mut failures: Vec<String> = Vec::new();
        let mut u16w = Utf16Writer::new();
        let mut n = 0usize;
        let short = |s: &str| -> String { if s.chars().count() > 6 { format!("{}x{:?}", s.chars().count(), s.chars().next().unwrap()) } else { s.to_string() } };
        for (ki, key) in strs.iter().enumerate() {
            for (hi, head) in strs.iter().enumerate() {
                for (vi, var) in strs.iter().enumerate() {
                    if (ki + hi + vi) % 3 != 0 && !(ki < 6 && hi < 6 && vi < 6) { continue; }
                    for (li, lst) in wid_lists.iter().enumerate() {
                        let dic_form = match (ki + li) % 3 { 0 => WordId::INVALID, 1 => WordId::from_raw(0), _ => WordId::from_raw(41) };
                        let e = RawLexiconEntry {
                            left_id: 1, right_id: 2, cost: 3,
                            surface: key.clone(), headword: if hi % 2 == 0 && head == key { None } else { Some(head.clone()) }, dic_form,
                            norm_form: if vi % 2 == 0 { Some(var.clone()) } else { None }, pos: (7 + li) as u16,
                            splits_a: lst.iter().map(|r| SplitUnit::Ref(WordId::from_raw(*r))).collect(),
                            splits_b: wid_lists[(li + 1) % 4].iter().map(|r| SplitUnit::Ref(WordId::from_raw(*r))).collect(),
                            reading: if vi % 3 == 0 { None } else { Some(var.clone()) },
                            splitting: Mode::C, word_structure: lst.iter().map(|r| WordId::from_raw(*r)).collect(), synonym_groups: wid_lists[(li + 2) % 4].clone(),
                        };
                        n += 1;
                        let label = format!("key {:?} headword {:?} norm {:?} reading {:?} units {:?}", short(key), e.headword.as_deref().map(short), e.norm_form.as_deref().map(short), e.reading.as_deref().map(short), lst);
                        let mut bytes: Vec<u8> = Vec::new();
                        let written = match e.write_word_info(&mut u16w, &mut bytes) { Ok(x) => x, Err(err) => { if failures.len() < 20 { failures.push(format!("{}: refused: {:?}", label, err)); } continue; } };
                        if written != bytes.len() && failures.len() < 20 { failures.push(format!("{}: reports {} bytes, wrote {}", label, written, bytes.len())); }
                        bytes.extend_from_slice(&[0xEE, 0xEE]);
                        let wi = match WordInfoParser::default().parse(&bytes) { Ok(x) => x, Err(_) => { if failures.len() < 20 { failures.push(format!("{}: the record cannot be read back", label)); } continue; } };
                        let headword: &str = e.headword();
                        let want_norm = if e.norm_form() == headword { "" } else { e.norm_form() };
                        let want_read = if e.reading() == headword { "" } else { e.reading() };
                        let mut bad: Vec<String> = Vec::new();
                        if wi.surface != headword { bad.push(format!("surface {:?}", short(&wi.surface))); }
                        if wi.head_word_length as usize != key.len() { bad.push(format!("head_word_length {} (the index key has {} bytes)", wi.head_word_length, key.len())); }
                        if wi.pos_id != e.pos { bad.push(format!("pos {}", wi.pos_id)); }
                        if wi.normalized_form != want_norm && wi.normalized_form != e.norm_form() { bad.push(format!("normalised form {:?}", short(&wi.normalized_form))); }
                        if wi.reading_form != want_read && wi.reading_form != e.reading() { bad.push(format!("reading {:?}", short(&wi.reading_form))); }
                        if wi.dictionary_form_word_id != e.dic_form.as_raw() as i32 { bad.push(format!("dictionary form id {}", wi.dictionary_form_word_id)); }
                        if wi.a_unit_split.iter().map(|w| w.as_raw()).collect::<Vec<_>>() != *lst { bad.push(format!("A units {:?}", wi.a_unit_split)); }
                        if wi.b_unit_split.iter().map(|w| w.as_raw()).collect::<Vec<_>>() != wid_lists[(li + 1) % 4] { bad.push(format!("B units {:?}", wi.b_unit_split)); }
                        if wi.word_structure.iter().map(|w| w.as_raw()).collect::<Vec<_>>() != *lst { bad.push(format!("word structure {:?}", wi.word_structure)); }
                        if wi.synonym_group_ids != wid_lists[(li + 2) % 4] { bad.push(format!("synonym groups {:?}", wi.synonym_group_ids)); }
                        if !bad.is_empty() && failures.len() < 20 { failures.push(format!("{}: read back with {}", label, bad.join(", "))); }
                    }
                }
            }
        }
        println!("verif_oracle_record_roundtrip: {} records, {} failures", n, failures.len());
        for f in failures.iter().take(5) { println!("FAILING INPUT: {}", f); }
        assert!(failures.is_empty());
    }
