// UNIT V-SKIP (C11, C05): dic/read/u16str.rs string_length_parser / utf16_string_data / utf16_string_parser / skip_u16_string,
//                         dic/read/mod.rs skip_wid_array / skip_u32_array  -- the cursor movement of the reader primitives
use vstd::prelude::*;
use vstd::slice::*;
verus! {
global size_of usize == 8;
//@include common/wordid_stub_min.rs.inc
//@include specs/wi_format_cursor.rs.inc

// ----- R14: nom (dependency) -----
pub enum SudachiNomError { Utf16String, Nom }
pub enum NomErr { Failure(SudachiNomError), Error(SudachiNomError) }
pub type SudachiNomResult<I, O> = Result<(I, O), NomErr>;
/// nom::number::complete::le_u8: the first byte and the rest, an error on empty input (ASSUMED)
#[verifier::external_body]
fn le_u8(input: &[u8]) -> (r: SudachiNomResult<&[u8], u8>)
    ensures
        input@.len() == 0 ==> r is Err,
        input@.len() > 0 ==> r is Ok && r->Ok_0.1 == input@[0] && r->Ok_0.0@ == input@.subrange(1, input@.len() as int),
{ unimplemented!() }
/// nom::combinator::cond(c, le_u8)(input): le_u8 if c, else nothing consumed (ASSUMED)
#[verifier::external_body]
fn cond_le_u8(c: bool, input: &[u8]) -> (r: SudachiNomResult<&[u8], Option<u8>>)
    ensures
        !c ==> r is Ok && r->Ok_0.1 is None && r->Ok_0.0@ == input@,
        c && input@.len() == 0 ==> r is Err,
        c && input@.len() > 0 ==> r is Ok && r->Ok_0.1 == Some(input@[0]) && r->Ok_0.0@ == input@.subrange(1, input@.len() as int),
{ unimplemented!() }
/// `char::decode_utf16(U16CodeUnits::new(data))` collected into a String; an unpaired surrogate is an error (ASSUMED std)
#[verifier::external_body]
fn decode_utf16_le(data: &[u8]) -> (r: Result<String, ()>)
    ensures utf16_text(data@) is Some ==> r is Ok && r->Ok_0@ == utf16_text(data@)->Some_0, utf16_text(data@) is None ==> r is Err
{ unimplemented!() }


#[verifier::external_body] fn string_new() -> (r: String) ensures r@.len() == 0 { String::new() }
#[verifier::external_body] fn empty_bytes<'a>() -> (r: &'a [u8]) ensures r@.len() == 0 { &[] }
#[verifier::external_body] fn slice_split_at<'a>(s: &'a [u8], mid: usize) -> (r: (&'a [u8], &'a [u8]))
    requires mid <= s@.len() ensures r.0@ == s@.subrange(0, mid as int), r.1@ == s@.subrange(mid as int, s@.len() as int) { s.split_at(mid) }
#[verifier::external_body] fn slice_from<'a>(s: &'a [u8], from: usize) -> (r: &'a [u8])
    requires from <= s@.len() ensures r@ == s@.subrange(from as int, s@.len() as int) { &s[from..] }

//@extract sudachi/src/dic/read/u16str.rs :: fn string_length_parser
//@  rw R14 * custom
//@  | nom::Err::Failure\(
//@  > NomErr::Failure(
//@  rw R14s * custom
//@  | &rest\[num_bytes\.\.\]
//@  > slice_from(rest, num_bytes)
//@  rw R13 * custom
//@  | String::new\(\)
//@  > string_new()
//@  rw R14 * custom
//@  | nom::combinator::cond\(([^,]+), le_u8\)\(rest\)\?
//@  > cond_le_u8(\1, rest)?
//@  rw R14s * custom
//@  | rest\.split_at\(num_bytes\)
//@  > slice_split_at(rest, num_bytes)
//@  rw R14s * custom
//@  | &\[\]
//@  > empty_bytes()
//@  ret r
//@  spec
    ensures
        dec_len(input@) is Some ==> r is Ok && r->Ok_0.0@ == dec_len(input@)->Some_0.0 && r->Ok_0.1 == dec_len(input@)->Some_0.1,
        dec_len(input@) is None ==> r is Err,
        r is Ok ==> r->Ok_0.1 <= 32767,
//@  atstart
    proof {
        let d = input@;
        if d.len() >= 2 {
            assert(d.subrange(1, d.len() as int).subrange(1, d.len() - 1) =~= d.subrange(2, d.len() as int));
            let b0 = d[0]; let b1 = d[1];
            assert((((b0 as u16) & 0x7F) << 8) | (b1 as u16) <= 32767) by (bit_vector);
        }
    }
//@end

//@extract sudachi/src/dic/read/u16str.rs :: fn utf16_string_data
//@  rw R14 * custom
//@  | nom::Err::Failure\(
//@  > NomErr::Failure(
//@  rw R14s * custom
//@  | &rest\[num_bytes\.\.\]
//@  > slice_from(rest, num_bytes)
//@  rw R13 * custom
//@  | String::new\(\)
//@  > string_new()
//@  rw R14 * custom
//@  | nom::combinator::cond\(([^,]+), le_u8\)\(rest\)\?
//@  > cond_le_u8(\1, rest)?
//@  rw R14s * custom
//@  | rest\.split_at\(num_bytes\)
//@  > slice_split_at(rest, num_bytes)
//@  rw R14s * custom
//@  | &\[\]
//@  > empty_bytes()
//@  ret r
//@  spec
    ensures
        // the string field occupies the length prefix and 2 bytes per UTF-16 code unit: `data` is that payload, `rest` what follows
        str_span(input@) is Some ==> r is Ok && r->Ok_0.1@ == str_span(input@)->Some_0.0 && r->Ok_0.0@ == str_span(input@)->Some_0.1,
        str_span(input@) is None ==> r is Err,
//@  atstart
    proof {
        let d = input@;
        if dec_len(d) is Some {
            let rl = dec_len(d)->Some_0.0;
            assert(rl.subrange(0, 0) =~= Seq::<u8>::empty());
            assert(rl.subrange(0, rl.len() as int) =~= rl);
        }
    }
//@end

// R14c: `x.map(|(rest, _)| (rest, String::new()))` / `x.and_then(|(rest, data)| {..})` in tail position as a match
//@extract sudachi/src/dic/read/u16str.rs :: fn skip_u16_string
//@  rw R14c * custom
//@  | utf16_string_data\(([^()]+)\)\.map\(\|\(rest, _\)\| \(rest, String::new\(\)\)\)
//@  > match utf16_string_data(\1) { Ok((rest, _)) => Ok((rest, string_new())), Err(e) => Err(e) }
//@  rw R14 * custom
//@  | nom::Err::Failure\(
//@  > NomErr::Failure(
//@  rw R14s * custom
//@  | &rest\[num_bytes\.\.\]
//@  > slice_from(rest, num_bytes)
//@  rw R13 * custom
//@  | String::new\(\)
//@  > string_new()
//@  rw R14 * custom
//@  | nom::combinator::cond\(([^,]+), le_u8\)\(rest\)\?
//@  > cond_le_u8(\1, rest)?
//@  rw R14s * custom
//@  | rest\.split_at\(num_bytes\)
//@  > slice_split_at(rest, num_bytes)
//@  rw R14s * custom
//@  | &\[\]
//@  > empty_bytes()
//@  ret r
//@  spec
    ensures
        // skipping leaves the cursor exactly where parsing would
        dec_str(input@) is Some ==> r is Ok && r->Ok_0.0@ == dec_str(input@)->Some_0.0,
        str_span(input@) is Some ==> r is Ok && r->Ok_0.0@ == str_span(input@)->Some_0.1,
//@end

//@extract sudachi/src/dic/read/u16str.rs :: fn utf16_string_parser
//@  rw R14c 1 custom
//@  | utf16_string_data\(input\)\.and_then\(\|\(rest, data\)\| \{
//@  > match utf16_string_data(input) { Err(e) => Err(e), Ok((rest, data)) => {
//@  rw R14c 1 custom
//@  | \n    \}\)\n
//@  > \n    } }\n
//@  rw R14 1 custom
//@  | let capacity = \(data\.len\(\) \+ 1\) \* 3 / 2;\s*let mut result = String::with_capacity\(capacity\);\s*let iter = U16CodeUnits::new\(data\);\s*for c in char::decode_utf16\(iter\) \{\s*match c \{\s*Err\(_\) => return Err\(nom::Err::Failure\(SudachiNomError::Utf16String\)\),\s*Ok\(c\) => result\.push\(c\),\s*\}\s*\}\s*Ok\(\(rest, result\)\)
//@  > match decode_utf16_le(data) { Err(_) => Err(NomErr::Failure(SudachiNomError::Utf16String)), Ok(result) => Ok((rest, result)) }
//@  rw R14 * custom
//@  | nom::Err::Failure\(
//@  > NomErr::Failure(
//@  rw R14s * custom
//@  | &rest\[num_bytes\.\.\]
//@  > slice_from(rest, num_bytes)
//@  rw R13 * custom
//@  | String::new\(\)
//@  > string_new()
//@  rw R14 * custom
//@  | nom::combinator::cond\(([^,]+), le_u8\)\(rest\)\?
//@  > cond_le_u8(\1, rest)?
//@  rw R14s * custom
//@  | rest\.split_at\(num_bytes\)
//@  > slice_split_at(rest, num_bytes)
//@  rw R14s * custom
//@  | &\[\]
//@  > empty_bytes()
//@  ret r
//@  atstart
    proof {
        lemma_utf16_empty();
        let d = input@;
        if dec_len(d) is Some {
            let rl = dec_len(d)->Some_0.0;
            assert(rl.subrange(0, 0) =~= Seq::<u8>::empty());
        }
    }
//@  spec
    ensures
        dec_str(input@) is Some ==> r is Ok && r->Ok_0.0@ == dec_str(input@)->Some_0.0 && r->Ok_0.1@ == dec_str(input@)->Some_0.1,
        dec_str(input@) is None ==> r is Err,
//@end

//@extract sudachi/src/dic/read/mod.rs :: fn skip_wid_array
//@  rw R14 * custom
//@  | nom::Err::Failure\(
//@  > NomErr::Failure(
//@  rw R14s * custom
//@  | &rest\[num_bytes\.\.\]
//@  > slice_from(rest, num_bytes)
//@  rw R13 * custom
//@  | String::new\(\)
//@  > string_new()
//@  rw R14 * custom
//@  | nom::combinator::cond\(([^,]+), le_u8\)\(rest\)\?
//@  > cond_le_u8(\1, rest)?
//@  rw R14s * custom
//@  | rest\.split_at\(num_bytes\)
//@  > slice_split_at(rest, num_bytes)
//@  rw R14s * custom
//@  | &\[\]
//@  > empty_bytes()
//@  ret r
//@  spec
    // `&rest[num_bytes..]` panics on a truncated record: precondition (valid dictionary, C03)
    requires input@.len() > 0 ==> dec_wids(input@) is Some,
    ensures dec_wids(input@) is Some ==> r is Ok && r->Ok_0.0@ == dec_wids(input@)->Some_0.0,
//@  atstart
    proof { let d = input@; if d.len() > 0 { assert(d.subrange(1, d.len() as int).subrange(4 * (d[0] as int), d.len() - 1) =~= d.subrange(1 + 4 * (d[0] as int), d.len() as int)); } }
//@end
//@extract sudachi/src/dic/read/mod.rs :: fn skip_u32_array
//@  rw R14 * custom
//@  | nom::Err::Failure\(
//@  > NomErr::Failure(
//@  rw R14s * custom
//@  | &rest\[num_bytes\.\.\]
//@  > slice_from(rest, num_bytes)
//@  rw R13 * custom
//@  | String::new\(\)
//@  > string_new()
//@  rw R14 * custom
//@  | nom::combinator::cond\(([^,]+), le_u8\)\(rest\)\?
//@  > cond_le_u8(\1, rest)?
//@  rw R14s * custom
//@  | rest\.split_at\(num_bytes\)
//@  > slice_split_at(rest, num_bytes)
//@  rw R14s * custom
//@  | &\[\]
//@  > empty_bytes()
//@  ret r
//@  spec
    requires input@.len() > 0 ==> dec_u32s(input@) is Some,
    ensures dec_u32s(input@) is Some ==> r is Ok && r->Ok_0.0@ == dec_u32s(input@)->Some_0.0,
//@  atstart
    proof { let d = input@; if d.len() > 0 { assert(d.subrange(1, d.len() as int).subrange(4 * (d[0] as int), d.len() - 1) =~= d.subrange(1 + 4 * (d[0] as int), d.len() as int)); } }
//@end
} // verus!
fn main() {}
