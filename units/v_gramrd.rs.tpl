// UNIT V-GRAMRD (C05, C12): dic/grammar.rs  Grammar::parse and dic/connect.rs ConnectionMatrix::from_offset_size -- the READER of the
// grammar section (part-of-speech table, matrix dimensions, matrix) and the size it reports, which is where the loader looks for the
// lexicon (dic/mod.rs, dictionary.rs: offset += grammar.storage_size).
// ASSUMED: grammar_parser (nom: take(offset), u16 count, count x 6 length-prefixed UTF-16 strings, two little-endian i16) as a function
// of the bytes: it returns the table the bytes denote (sp_pos_table), the two dimensions, and the REST of the buffer, which starts right
// behind the second dimension; CowArray::from_bytes as a view (bounded Kani set k_cow).
// Decided: the matrix is read from the position right behind the dimensions with the dimensions as (left, right) in that order, the size
// reported is the table, the two dimensions and two bytes per matrix cell - what write_grammar emits (v_compile / v_pos / v_connrd) - so the
// lexicon is looked for at the first byte behind the matrix; the part-of-speech list is the parsed table, unchanged and in order (C12: the
// id of a part of speech is its position).
// OBSERVATION (outside the listed properties - dictionaries are trusted input, docs/errors_and_security.md): from_offset_size compares
// `offset + num_left * num_right` (ELEMENTS) with the buffer length although the matrix takes two bytes per element, so a dictionary cut
// inside the second half of its matrix passes the check and CowArray::from_bytes panics (slice out of range) instead of an error value.
// The contract therefore needs the precondition `the matrix lies inside the buffer` (gram_fits).
use vstd::prelude::*;
use vstd::string::*;
verus! {
global size_of usize == 8;
//@include common/error.rs.inc

#[verifier::external_body] pub struct CowArrayI16<'a> { _p: core::marker::PhantomData<&'a ()> }
impl<'a> CowArrayI16<'a> {
    pub uninterp spec fn sp_src(&self) -> Seq<u8>;
    pub uninterp spec fn sp_off(&self) -> int;
    pub uninterp spec fn sp_len(&self) -> int;
    /// the real from_bytes slices `data[offset..offset + size * 2]` and panics when that is out of range
    #[verifier::external_body]
    fn from_bytes(data: &'a [u8], offset: usize, size: usize) -> (r: Self)
        requires offset + size * 2 <= data@.len()
        ensures r.sp_src() == data@, r.sp_off() == offset, r.sp_len() == size
    { unimplemented!() }
}
#[verifier::external_body] pub struct CharacterCategory { _p: () }
impl CharacterCategory {
    pub uninterp spec fn sp_is_default(&self) -> bool;
    #[verifier::external_body] fn default() -> (r: CharacterCategory) ensures r.sp_is_default() { unimplemented!() }
}
//@extract sudachi/src/dic/connect.rs :: struct ConnectionMatrix
//@  rw R5 1 custom
//@  | CowArray<'a, i16>
//@  > CowArrayI16<'a>
//@end
//@extract sudachi/src/dic/grammar.rs :: struct Grammar
//@end

/// what the bytes from `offset` denote: CONCRETE since session 5 - the table `dec_pos_table` reads (specs/pos_table_rd.rs.inc: a u16 count, then
/// count x 6 length-prefixed UTF-16 strings), the same definition v_pos::theorem_pos_table_roundtrip proves the WRITER's bytes decode under.
/// That the nom combinators of grammar_parser compute it stays the ASSUMED contract of grammar_parser_w below.
//@include common/wordid_stub_min.rs.inc
//@include specs/wi_format_cursor.rs.inc
//@include specs/pos_table_rd.rs.inc
#[verifier::opaque]
spec fn sp_pos_table(b: Seq<u8>, offset: int) -> Seq<Seq<Seq<char>>> {
    match dec_pos_table(b.subrange(offset, b.len() as int)) { Some((_, t)) => t, None => Seq::empty() }
}
/// number of bytes of the table (count field and strings)
#[verifier::opaque]
spec fn sp_pos_bytes(b: Seq<u8>, offset: int) -> int {
    match dec_pos_table(b.subrange(offset, b.len() as int)) { Some((r, _)) => b.len() - offset - r.len(), None => 0 }
}
/// the little-endian i16 at a position: CONCRETE since session 5 (the same `i16_of` as on the writer side, common/build_prelude.rs.inc:
/// v_connrd::theorem_dims_roundtrip / theorem_cell_roundtrip)
pub open spec fn i16_of(b0: u8, b1: u8) -> i16 { ((b0 as u16) | ((b1 as u16) << 8)) as i16 }
#[verifier::opaque]
pub open spec fn le_i16_at(b: Seq<u8>, off: int) -> i16 { i16_of(b[off], b[off + 1]) }
spec fn table_of(p: Vec<Vec<String>>) -> Seq<Seq<Seq<char>>> { Seq::new(p@.len(), |i: int| Seq::new(p@[i]@.len(), |k: int| p@[i]@[k]@)) }
/// position of the first matrix byte: behind the table and the two dimensions
spec fn off_matrix(b: Seq<u8>, offset: int) -> int { offset + sp_pos_bytes(b, offset) + 4 }
spec fn dim_left(b: Seq<u8>, offset: int) -> i16 { le_i16_at(b, off_matrix(b, offset) - 4) }
spec fn dim_right(b: Seq<u8>, offset: int) -> i16 { le_i16_at(b, off_matrix(b, offset) - 2) }
#[verifier::external_body]
fn grammar_parser_w<'a>(input: &'a [u8], offset: usize) -> (r: SudachiResult<(&'a [u8], (Vec<Vec<String>>, i16, i16))>)
    ensures
        r is Ok ==> ({
            let (rest, (pos, l, rt)) = r->Ok_0;
            &&& sp_pos_bytes(input@, offset as int) >= 2 && off_matrix(input@, offset as int) <= input@.len()
            &&& rest@ == input@.subrange(off_matrix(input@, offset as int), input@.len() as int)
            &&& table_of(pos) == sp_pos_table(input@, offset as int)
            &&& l == dim_left(input@, offset as int) && rt == dim_right(input@, offset as int)
        }),
{ unimplemented!() }
/// R14c: `x as usize` for an i16 (sign extension: a negative value becomes a huge one)
#[verifier::external_body]
fn i16_as_usize(x: i16) -> (r: usize) ensures r as int == (if x >= 0 { x as int } else { 0x1_0000_0000_0000_0000 + x as int }) { x as usize }

/// a VALID dictionary: non-negative dimensions and the whole matrix (two bytes per cell) inside the buffer
spec fn gram_fits(b: Seq<u8>, offset: int) -> bool {
    &&& dim_left(b, offset) >= 0 && dim_right(b, offset) >= 0
    &&& off_matrix(b, offset) + 2 * (dim_left(b, offset) as int) * (dim_right(b, offset) as int) <= b.len()
}

impl<'a> ConnectionMatrix<'a> {
//@extract sudachi/src/dic/connect.rs :: impl<'a> ConnectionMatrix<'a> :: fn from_offset_size
//@  rw R5 1 custom
//@  | CowArray::from_bytes\(
//@  > CowArrayI16::from_bytes(
//@  rw R12 1 custom
//@  | SudachiError::InvalidDictionaryGrammar\.with_context\("connection matrix"\)
//@  > SudachiError::InvalidDictionaryGrammar
//@  ret r
//@  spec
        requires
            num_left <= 0x7fff, num_right <= 0x7fff, offset <= 0x7fff_ffff_ffff_ffff,
            // valid dictionary: two bytes per cell lie inside the buffer (the function itself compares only offset + cells)
            offset + 2 * num_left * num_right <= data@.len(),
        ensures
            r is Ok,
            r->Ok_0.num_left == num_left && r->Ok_0.num_right == num_right,
            r->Ok_0.data.sp_src() == data@ && r->Ok_0.data.sp_off() == offset && r->Ok_0.data.sp_len() == num_left * num_right,
//@  atstart
        proof {
            assert(num_left * num_right <= 0x7fff * 0x7fff) by (nonlinear_arith) requires num_left <= 0x7fff, num_right <= 0x7fff;
            assert(2 * num_left * num_right == (num_left * num_right) * 2) by (nonlinear_arith);
        }
//@end
}
impl<'a> Grammar<'a> {
//@extract sudachi/src/dic/grammar.rs :: impl<'a> Grammar<'a> :: fn parse
//@  rw Rl 1 custom
//@  | (?:pub )?fn parse\(buf: &\[u8\], offset: usize\) -> SudachiResult<Grammar> \{
//@  > fn parse(buf: &'a [u8], offset: usize) -> SudachiResult<Grammar<'a>> {
//@  rw R14 1 custom
//@  | grammar_parser\(buf, offset\)\s*\.map_err\(\|e\| SudachiError::InvalidDictionaryGrammar\.with_context\(e\.to_string\(\)\)\)\?
//@  > grammar_parser_w(buf, offset)?
//@  rw R14c * custom
//@  | (left_id_size|right_id_size) as usize
//@  > i16_as_usize(\1)
//@  ret r
//@  spec
        requires
            buf@.len() <= 0x7fff_ffff_ffff_ffff, offset <= buf@.len(),
            gram_fits(buf@, offset as int),
        ensures
            r is Ok ==> ({
                let g = r->Ok_0; let b = buf@; let o = offset as int;
                // C12: the part-of-speech list is the table of the binary, in order
                &&& table_of(g.pos_list) == sp_pos_table(b, o)
                // C05: the matrix is read right behind the two dimensions, (left, right) in the order written
                &&& g.connection.num_left == dim_left(b, o) && g.connection.num_right == dim_right(b, o)
                &&& g.connection.data.sp_src() == b && g.connection.data.sp_off() == off_matrix(b, o)
                &&& g.connection.data.sp_len() == (dim_left(b, o) as int) * (dim_right(b, o) as int)
                // the size reported = table + dimensions + two bytes per cell: the lexicon follows the matrix
                &&& g.storage_size == sp_pos_bytes(b, o) + 4 + 2 * (dim_left(b, o) as int) * (dim_right(b, o) as int)
                &&& g.character_category.sp_is_default()
            }),
//@  before let connect_table_offset
        proof {
            let l = dim_left(buf@, offset as int) as int; let rr = dim_right(buf@, offset as int) as int;
            assert(0 <= l * rr <= 0x7fff * 0x7fff) by (nonlinear_arith) requires 0 <= l <= 0x7fff, 0 <= rr <= 0x7fff;
            assert(2 * l * rr == 2 * (l * rr)) by (nonlinear_arith);
        }
//@end
}
} // verus!
fn main() {}
