// UNIT V-SETUP (C20): plugin/oov/simple_oov/mod.rs SimpleOovPlugin::set_up, plugin/oov/regex_oov/mod.rs RegexOovProvider::set_up
// The JSON settings are parsed by serde (ASSUMED: a value of the settings struct or an error).  This unit decides the glue from the parsed
// numbers to the plugin: every id goes through the check for ITS side of the connection matrix, the cost through check_cost, the part
// of speech through handle_user_pos, and what the plugin stores is what was checked.
use vstd::prelude::*;
use vstd::string::*;
verus! {
global size_of usize == 8;
//@include common/error.rs.inc
#[verifier::external_body] fn err_string() -> String { String::new() }   // R12: message texts are not verified
//@extract sudachi/src/util/user_pos.rs :: enum UserPosMode
//@  derive Clone, Copy, PartialEq, Eq, Structural
//@end
#[verifier::external_body] pub struct Value { _p: () }
#[verifier::external_body] pub struct Config { _p: () }
/// opaque collaborator: the grammar.  check_left_id / check_right_id / check_cost: complete Kani proofs (set k_chk) - a value is accepted
/// exactly when it indexes an existing line of the matrix (`max(n, 1)`: the residual F1r) / fits i16, and is returned unchanged;
/// handle_user_pos: unit v_merge
#[verifier::external_body] pub struct Grammar<'a> { _p: core::marker::PhantomData<&'a ()> }
impl<'a> Grammar<'a> {
    pub uninterp spec fn sp_num_left(&self) -> int;
    pub uninterp spec fn sp_num_right(&self) -> int;
    pub uninterp spec fn sp_npos(&self) -> int;
    pub open spec fn left_ok(&self, raw: i64) -> bool { 0 <= raw && (raw as int) < (if self.sp_num_left() >= 1 { self.sp_num_left() } else { 1 }) }
    pub open spec fn right_ok(&self, raw: i64) -> bool { 0 <= raw && (raw as int) < (if self.sp_num_right() >= 1 { self.sp_num_right() } else { 1 }) }
    #[verifier::external_body]
    fn check_left_id(&self, raw: i64) -> (r: SudachiResult<u16>)
        ensures r is Ok <==> self.left_ok(raw), r is Ok ==> r->Ok_0 as int == raw { unimplemented!() }
    #[verifier::external_body]
    fn check_right_id(&self, raw: i64) -> (r: SudachiResult<u16>)
        ensures r is Ok <==> self.right_ok(raw), r is Ok ==> r->Ok_0 as int == raw { unimplemented!() }
    #[verifier::external_body]
    fn check_cost(&self, raw: i64) -> (r: SudachiResult<i16>)
        ensures r is Ok <==> -32768 <= raw <= 32767, r is Ok ==> r->Ok_0 as int == raw { unimplemented!() }
    #[verifier::external_body]
    fn handle_user_pos(&mut self, pos: &Vec<String>, mode: UserPosMode) -> (r: SudachiResult<u16>)
        ensures
            final(self).sp_num_left() == old(self).sp_num_left(), final(self).sp_num_right() == old(self).sp_num_right(),
            final(self).sp_npos() >= old(self).sp_npos(), r is Ok ==> (r->Ok_0 as int) < final(self).sp_npos(),
    { unimplemented!() }
}

// ---- the fallback provider
//@extract sudachi/src/plugin/oov/simple_oov/mod.rs :: struct SimpleOovPlugin
//@  derive
//@end
//@extract sudachi/src/plugin/oov/simple_oov/mod.rs :: struct PluginSettings
//@  derive
//@  attr
//@  rw Rattr * custom
//@  | #\[serde\([^\]]*\)\]\s*
//@  > 
//@end
/// R14: `serde_json::from_value(settings.clone())?`
pub uninterp spec fn simple_parsed(v: Value) -> PluginSettings;
#[verifier::external_body]
fn simple_from_value(settings: &Value) -> (r: SudachiResult<PluginSettings>) ensures r is Ok ==> r->Ok_0 == simple_parsed(*settings) { unimplemented!() }
impl SimpleOovPlugin {
// R11: `impl OovProviderPlugin for SimpleOovPlugin { fn set_up }` checked as an inherent fn of the same body
//@extract sudachi/src/plugin/oov/simple_oov/mod.rs :: impl OovProviderPlugin for SimpleOovPlugin :: fn set_up
//@  twin
//@  rw R14 1 custom
//@  | let settings: PluginSettings = serde_json::from_value\(settings\.clone\(\)\)\?;
//@  > let settings: PluginSettings = simple_from_value(settings)?;
//@  rw R10 1 custom
//@  | mut grammar: &mut Grammar
//@  > grammar: &mut Grammar
//@  ret r
//@  spec
        ensures
            // C20: the configuration is accepted only if both ids index the matrix on THEIR side, the cost fits, the part of speech exists
            r is Ok ==> ({
                let p = simple_parsed(*settings);
                &&& old(grammar).left_ok(p.leftId) && old(grammar).right_ok(p.rightId) && -32768 <= p.cost <= 32767
                &&& final(self).left_id as int == p.leftId && final(self).right_id as int == p.rightId && final(self).cost as int == p.cost
                &&& (final(self).oov_pos_id as int) < final(grammar).sp_npos()
            }),
//@end
}

// ---- the regex provider
//@extract sudachi/src/plugin/oov/regex_oov/mod.rs :: enum BoundaryMode
//@  derive Clone, Copy, PartialEq, Eq, Structural
//@  attr
//@  rw Rattr * custom
//@  | #\[serde\([^\]]*\)\]\s*
//@  > 
//@end
#[verifier::external_body] pub struct Regex { _p: () }
#[verifier::external_body] pub struct RegexErr { _p: () }
/// R14: `RegexBuilder::new(&text).build()` (the regex crate; what the expression matches is not modelled here)
#[verifier::external_body] fn regex_build(text: &String) -> (r: Result<Regex, RegexErr>) { unimplemented!() }
#[verifier::external_body] fn string_starts_with_caret(s: &String) -> (r: bool) { s.starts_with("^") }
#[verifier::external_body] fn string_insert_front(s: &mut String, c: char) ensures final(s)@ == seq![c] + old(s)@ { s.insert(0, c) }
//@extract sudachi/src/plugin/oov/regex_oov/mod.rs :: struct RegexOovProvider
//@  derive
//@end
//@extract sudachi/src/plugin/oov/regex_oov/mod.rs :: struct RegexProviderConfig
//@  derive
//@  attr
//@  rw Rattr * custom
//@  | #\[serde\([^\]]*\)\]\s*
//@  > 
//@end
pub uninterp spec fn regex_parsed(v: Value) -> RegexProviderConfig;
#[verifier::external_body]
fn regex_from_value(settings: &Value) -> (r: SudachiResult<RegexProviderConfig>) ensures r is Ok ==> r->Ok_0 == regex_parsed(*settings) { unimplemented!() }
impl RegexOovProvider {
//@extract sudachi/src/plugin/oov/regex_oov/mod.rs :: impl OovProviderPlugin for RegexOovProvider :: fn set_up
//@  twin
//@  rw R14 1 custom
//@  | let mut parsed: RegexProviderConfig = serde_json::from_value\(settings\.clone\(\)\)\?;
//@  > let mut parsed: RegexProviderConfig = regex_from_value(settings)?;
//@  rw R10 1 custom
//@  | mut grammar: &mut Grammar
//@  > grammar: &mut Grammar
//@  rw R13 1 custom
//@  | !parsed\.regex\.starts_with\("\^"\)
//@  > !string_starts_with_caret(&parsed.regex)
//@  rw R13 1 custom
//@  | parsed\.regex\.insert\(0, '\^'\);
//@  > string_insert_front(&mut parsed.regex, '^');
//@  rw R14 1 custom
//@  | RegexBuilder::new\(&parsed\.regex\)\.build\(\)
//@  > regex_build(&parsed.regex)
//@  rw R12 1 custom
//@  | SudachiError::ConfigError\(ConfigError::InvalidFormat\(\s*format!\((?:[^()]|\([^()]*\))*\),?\s*\)\)
//@  > SudachiError::Other
//@  ret r
//@  spec
        ensures
            r is Ok ==> ({
                let p = regex_parsed(*settings);
                &&& old(grammar).left_ok(p.leftId) && old(grammar).right_ok(p.rightId) && -32768 <= p.cost <= 32767
                &&& final(self).left_id as int == p.leftId && final(self).right_id as int == p.rightId && final(self).cost as int == p.cost
                &&& (final(self).pos as int) < final(grammar).sp_npos()
                &&& final(self).max_length == p.maxLength && final(self).boundaries == p.boundaries && final(self).regex is Some
            }),
//@end
}
} // verus!
fn main() {}
