// UNIT V-SOOV (C13, C03): plugin/oov/simple_oov/mod.rs  SimpleOovPlugin::provide_oov (the fallback provider)
use vstd::prelude::*;
verus! {
global size_of usize == 8;
//@include common/error.rs.inc
//@include common/wordid_stub.rs.inc
//@extract sudachi/src/analysis/inner.rs :: struct Node
//@  derive Clone
//@end
impl Node {
//@extract sudachi/src/analysis/inner.rs :: impl Node :: fn new
//@  ret r
//@  spec
        ensures r.begin == begin, r.end == end, r.left_id == left_id, r.right_id == right_id, r.cost == cost, r.word_id == word_id
//@end
}
/// what the analysis already produced at this position (analysis/created.rs; Kani set k_created)
#[verifier::external_body] pub struct CreatedWords { _p: () }
impl CreatedWords {
    uninterp spec fn sp_nonempty(&self) -> bool;
    #[verifier::external_body] fn not_empty(&self) -> (r: bool) ensures r == self.sp_nonempty() { unimplemented!() }
}
/// opaque collaborator: the built text; get_word_candidate_length is decided in unit v_bufro (distance to the next character that may
/// begin a word, or to the end of the text)
#[verifier::external_body] pub struct InputBuffer { _p: () }
impl InputBuffer {
    uninterp spec fn sp_nch(&self) -> int;
    uninterp spec fn sp_cand_len(&self, i: int) -> int;
    #[verifier::external_body]
    fn get_word_candidate_length(&self, char_idx: usize) -> (r: usize)
        requires char_idx < self.sp_nch()
        ensures r == self.sp_cand_len(char_idx as int), 1 <= r <= self.sp_nch() - char_idx
    { unimplemented!() }
}
//@extract sudachi/src/plugin/oov/simple_oov/mod.rs :: struct SimpleOovPlugin
//@  derive
//@end
impl SimpleOovPlugin {
// R11: `impl OovProviderPlugin for SimpleOovPlugin { fn provide_oov }` checked as an inherent fn of the same body
//@extract sudachi/src/plugin/oov/simple_oov/mod.rs :: impl OovProviderPlugin for SimpleOovPlugin :: fn provide_oov
//@  twin
//@  ret r
//@  spec
        requires offset < input_text.sp_nch(), input_text.sp_nch() <= 65535,
        ensures
            r is Ok,
            // C13: the fallback provider adds one candidate reaching to the next permissible word start exactly when nothing else exists;
            // it carries the configured ids, cost and part of speech and is marked out-of-vocabulary
            other_words.sp_nonempty() ==> r->Ok_0 == 0 && final(result)@ == old(result)@,
            !other_words.sp_nonempty() ==> r->Ok_0 == 1 && final(result)@.len() == old(result)@.len() + 1
                && final(result)@.subrange(0, old(result)@.len() as int) == old(result)@
                && ({
                    let n = final(result)@.last();
                    &&& n.begin as int == offset && n.end as int == offset + input_text.sp_cand_len(offset as int)
                    &&& n.left_id == self.left_id && n.right_id == self.right_id && n.cost == self.cost
                    &&& wid_dic(n.word_id) == 0xf && wid_word(n.word_id) == self.oov_pos_id as u32
                }),
//@  atend
        proof { assert(result@.subrange(0, old(result)@.len() as int) =~= old(result)@); }
//@end
}
} // verus!
fn main() {}
