    // Replay oracle for V-CONT (C13): executable restatement of cont_ok / is_run / is_start (units/specs/cont_specs.rs.inc) against
    // the real InputBuffer::fill_cat_continuity.  BOUNDED: all sequences of up to 5 class sets over 3 classes (non-empty sets).
    fn reference(cats: &[CategoryType]) -> Vec<usize> {
        let n = cats.len();
        let mut out = vec![0usize; n];
        let mut s = 0;
        while s < n {
            // the run starting at s: maximal stretch whose characters keep a class in common
            let mut common = cats[s];
            let mut e = s + 1;
            while e < n && !(common & cats[e]).is_empty() { common = common & cats[e]; e += 1; }
            for j in s..e { out[j] = e - j; }
            s = e;
        }
        out
    }

    #[test]
    fn verif_oracle_class_runs() {
        let classes = [CategoryType::ALPHA, CategoryType::KANJI, CategoryType::HIRAGANA];
        let sets: Vec<CategoryType> = (1..8u32).map(|m| {
            let mut c = CategoryType::empty();
            for (i, cl) in classes.iter().enumerate() { if m & (1 << i) != 0 { c |= *cl; } }
            c
        }).collect();
        let mut failures = Vec::new();
        let mut cases = 0usize;
        for len in 1..=5usize {
            let total = sets.len().pow(len as u32);
            for code in 0..total {
                let mut c = code;
                let cats: Vec<CategoryType> = (0..len).map(|_| { let s = sets[c % sets.len()]; c /= sets.len(); s }).collect();
                cases += 1;
                let mut buf = InputBuffer::new();
                buf.mod_chars = vec!['x'; len];
                buf.mod_cat = cats.clone();
                buf.mod_cat_continuity.clear();
                buf.fill_cat_continuity();
                let want = reference(&cats);
                if buf.mod_cat_continuity != want {
                    failures.push(format!("class sets {:?}: run lengths {:?}, the left-to-right run definition gives {:?}", cats, buf.mod_cat_continuity, want));
                }
            }
        }
        println!("verif_oracle_class_runs: {} cases, {} failures", cases, failures.len());
        for f in failures.iter().take(5) { println!("FAILING INPUT: {}", f); }
        assert!(failures.is_empty());
    }
